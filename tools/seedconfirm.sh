#!/bin/bash
# tools/seedconfirm.sh <name> <dir with patch.diff and demo.rs> <scratch worktree with its own target/>
# Confirms a seeded change against /repo's CURRENT HEAD in the given scratch worktree: the stable
# tests of the pinned suite (BASELINE.json stable_pass; the 17 slow/flaky/always-failing tests are
# filtered out by name, file /verif/tools/nonstable.expr) pass with the change, the demonstration
# fails with it and passes without it.  Logs under /tmp/seed/.
name=$1; d=$2; T=$3
export CARGO_NET_OFFLINE=true CARGO_TARGET_DIR=$T/target WALRUS_QUIET=1 TMPDIR=/dev/shm/seedtmp-$name
mkdir -p $TMPDIR
cd $T && git checkout -q -- . && rm -f tests/seed_demo*.rs && git checkout -q --detach $(git -C /repo rev-parse HEAD) || exit 2
git apply $d/patch.diff 2>/dev/null || git apply --3way $d/patch.diff || { echo "$name PATCH DOES NOT APPLY"; exit 2; }
git diff HEAD > /tmp/seed/$name-ported.diff
find src -name '*.rs' -newer Cargo.toml -exec touch {} \; ; touch $(git diff HEAD --name-only)
cargo nextest run --workspace --no-fail-fast --tool-config-file pb:/w/lib/nextest.toml --profile pb --test-threads ${THREADS:-6} --offline -E "$(cat /verif/tools/nonstable.expr)" > /tmp/seed/$name-suite.log 2>&1
cp $CARGO_TARGET_DIR/nextest/pb/junit.xml /tmp/seed/$name-suite.junit.xml
echo "$name suite with change: $(python3 /root/bl/check_bl.py /tmp/seed/$name-suite.junit.xml)"
if [ -f $d/demo.rs ] && ! grep -q "fn main" $d/demo.rs; then
cp $d/demo.rs tests/seed_demo.rs
timeout 900 cargo test --offline --test seed_demo -- --test-threads 4 > /tmp/seed/$name-demo-with.log 2>&1; echo "$name demo WITH change rc=$? $(grep 'test result' /tmp/seed/$name-demo-with.log | head -2)"
git reset -q; git checkout -q HEAD -- src; touch $(git diff HEAD --name-only 2>/dev/null) src/lib.rs
timeout 900 cargo test --offline --test seed_demo -- --test-threads 4 > /tmp/seed/$name-demo-without.log 2>&1; echo "$name demo WITHOUT change rc=$? $(grep 'test result' /tmp/seed/$name-demo-without.log | head -2)"
fi
rm -f tests/seed_demo.rs; git reset -q; git checkout -q HEAD -- .
rm -rf $TMPDIR $T/wal_files $T/rocksdb_benchmark_db
