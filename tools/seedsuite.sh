#!/bin/bash
# tools/seedsuite.sh <name> <dir with patch.diff and demo.rs>
# Confirms a seeded change in the scratch worktree /tmp/seed/T: existing suite passes with it,
# demonstration fails with it and passes without it.  Shared target dir /tmp/seed/target-T.
name=$1; d=$2
T=/tmp/seed/T
export CARGO_NET_OFFLINE=true CARGO_TARGET_DIR=/tmp/seed/target-T WALRUS_QUIET=1
cd $T && git checkout -q -- . && git clean -fdq -e target && git checkout -q --detach $(git -C /repo rev-parse HEAD) || exit 2
git apply $d/patch.diff || { echo "PATCH DOES NOT APPLY"; exit 2; }
cargo nextest run --workspace --no-fail-fast --tool-config-file pb:/w/lib/nextest.toml --profile pb --test-threads ${THREADS:-8} --offline > /tmp/seed/$name-suite.log 2>&1
cp $CARGO_TARGET_DIR/nextest/pb/junit.xml /tmp/seed/$name-suite.junit.xml
echo "$name suite with change: $(python3 /root/bl/check_bl.py /tmp/seed/$name-suite.junit.xml)"
cp $d/demo.rs tests/seed_demo.rs
cargo test --offline --test seed_demo -- --test-threads 4 > /tmp/seed/$name-demo-with.log 2>&1; echo "$name demo WITH change rc=$? $(grep 'test result' /tmp/seed/$name-demo-with.log | head -2)"
git checkout -q -- src
cargo test --offline --test seed_demo -- --test-threads 4 > /tmp/seed/$name-demo-without.log 2>&1; echo "$name demo WITHOUT change rc=$? $(grep 'test result' /tmp/seed/$name-demo-without.log | head -2)"
rm -f tests/seed_demo.rs; git checkout -q -- .
rm -rf /dev/shm/walrus* /tmp/walrus* 2>/dev/null
