#!/usr/bin/env python3
"""Regenerates /verif/MANIFEST.json from the table below (kept valid at all times)."""
import json, os
V = os.path.dirname(os.path.dirname(os.path.abspath(__file__)))
TECH = "Rocq/Coq proof over a Gallina model + differential correspondence with the Rust implementation"
ENGINE = "coq-model+correspondence"
ENGINE_NOTE = ("Trusted: Coq kernel, extraction (ExtrOcamlBasic), OCaml driver, python generators/canonicaliser, harness/wh, "
               "the cfg(walrus_verif_small) geometry hook. Modelled not verified: payload bytes abstract (pid,len), checksum matches iff written together, "
               "sequential single-instance use, fault-free I/O. No axioms (Print Assumptions: closed under the global context).")

CR = ("Trusted: Coq kernel, extraction (ExtrOcamlBasic), OCaml driver, python drivers, harness/wh, the cfg(walrus_verif) I/O event seam (src/wal/verif.rs and its call sites; assumed observation-only when nothing is armed). "
      "Crash model: process crash, completed syscalls persist; crash points are the I/O events of the client thread (storage writes, flushes, file create/set_len/sync, directory sync, index temp write/fsync/rename, io_uring SQE pushes with the queued prefix completed, CQEs); torn single writes and power loss are outside (C10). No axioms.")

CHECKS = {
 "C01": dict(text="Theorem c01_outside_known (Coq; every Cfg with cfg_ok, both modes, both backends, EVERY finite op sequence of appends, batches, read_next, batch reads with any budget, peeks, offset reads, counts): the model's trace is accepted by the queue acceptor c01_ok (each consuming read returns exactly the next unreturned entries; empty only when nothing is left). Known class outside the theorem: entries larger than MAX_ALLOC / names that do not fit the header (c01_refuted_oversize_append). The hand-written model/Engine.v is tied to the code on every run by running the real crate (small geometry hook) and the extracted model on the same generated op sequences and diffing every result; the extracted acceptor c01_ok is run over the implementation's own traces.",
             ref="DESIGN.md section 8 (C01)", note=ENGINE_NOTE + " Restarts are C06's subject."),
 "C03": dict(text="Theorems c03_cap_budget (every state, reachable or not, every budget/mode/start: at most c_max_entries outs, bytes <= budget or a single entry) and c03_all_sequences (progress along every admissible history, via acceptor c03_ok), c03_cap_is_2000 ties the cap to the constant regenerated from config.rs. Correspondence + acceptor over implementation traces including >2000-entry cases.",
             ref="DESIGN.md section 8 (C03)", note=ENGINE_NOTE),
 "C15": dict(text="Theorem c15_counts: along every admissible restart-free history every count query of the model equals appended minus consumed (acceptor c15_ok); peeks and offset reads do not change it. Correspondence run with count queries after ops; acceptor over implementation traces.",
             ref="DESIGN.md section 8 (C15)", note=ENGINE_NOTE + " Restart part of the property is covered by the C06 machinery, not by this theorem."),
 "C16": dict(text="Theorem c16_backend_irrelevant: for every Cfg, mode, start state and op sequence (incl. restarts) the model's results with Fd and Mmap are equal, outside batches on topics whose name does not fit the header (c16_refuted_long_name_batch). Every generated case is run once per backend in separate processes on the real crate and three-way diffed (FD, mmap, model).",
             ref="DESIGN.md section 8 (C16)", note=ENGINE_NOTE),
 "C02": dict(text="Theorems (Coq, all admissible restart-free histories unless stated): c02_peek_and_offset_reads — (b) a peek returns exactly what the immediately following consuming read with the same arguments returns and (c) offset-addressed reads return only sub-ranges of entries appended to that topic, in append order (acceptors c02b_ok/c02c_ok over the model's trace); c02_batch_peek_then_consume, c02_subranges_any_state, c02_offset_read_changes_nothing hold in EVERY state; c02_queue_view_partial — (a) partially: peeks/offset reads change neither which entries consuming reads deliver nor any count (queue acceptors ignore them). The full erasure statement C02_full (also the NUMBER of entries a later budgeted read returns) is stated, not proved; it is decided on the implementation by a metamorphic run (every case with and without its non-consuming reads, results of the remaining ops must be identical). Reclamation bookkeeping clause: not modelled here (trackers are C12's subject).",
             ref="DESIGN.md section 8 (C02)", note=ENGINE_NOTE + " Partial for clause (a): see C02_full in coq/props/C02.v."),
 "C06": dict(text="Proved (Coq): c06_recovery_complete_partial — for EVERY well-formed file image (any number of files, blocks of any extent incl. multi-unit, never-written blocks anywhere) the startup scan of model/Engine.v rebuilds for every topic exactly the entries its blocks hold, in file order. The whole-history statement C06_full (restarts at arbitrary points are invisible) is stated in coq/props/C06.v and not yet proved; it is decided per run by (1) the differential run of model vs real crate on histories with REOPEN (same process) and RESTART (fresh process) events, (2) the extracted queue acceptors over the implementation's traces (c01_ok+c15_ok with restart events left in for StrictlyAtOnce; c06alo_ok = no loss/reordering, re-delivery of a suffix allowed, for AtLeastOnce), (3) a metamorphic run on the implementation (history with vs without its restarts: same delivered stream per topic, same final counts). Clock behaviour between runs is not varied (file order = creation order is assumed by the model).",
             ref="DESIGN.md section 8 (C06)", note=ENGINE_NOTE + " Partial: see C06_full. Three genuine defects found by this check were repaired (fix: 6016445, a9c79b9, 0e1f235)."),
 "C07": dict(text="Proved (Coq): c07_recovery_of_any_crash_image_partial — for every well-formed file image (which every crash image between two whole-entry writes is) the startup scan rebuilds every topic's entries completely and in order; c07_acceptor_means — the extracted acceptor c07_ok accepts exactly 'recovered = acknowledged ++ a prefix of the in-flight operation'. The whole-workload statement is decided per run by crash-point enumeration on the real crate: the workload process _exit()s right before its k-th I/O event (quick: sampled k, thorough: every k), a fresh process reopens and is drained, every topic judged by c07_ok; reopening must not error or panic.",
             ref="DESIGN.md section 8 (C07)", note=CR + " Partial: the tie between the engine model's disk image and dwf along every history (DInv) is not yet proved."),
 "C08": dict(text="Proved (Coq): c08_refuted — in the faithful model a crash after the first entry's write of a three-entry batch recovers exactly that one entry (the property is FALSE of the code: known finding C08-batch-not-crash-atomic, design level, reported as KNOWN-FINDING); c08_outside_known — single-entry batches are all-or-nothing; c08_acceptor_means — the extracted acceptor accepts exactly 'nothing or everything of the in-flight batch'. Per run: every crash point inside generated batches (io_uring path: queued prefix completes; mmap path: sequential writes) on the real crate, judged by c08_ok; rejections are classified by the mechanism-shaped class computed from the case (crash inside a batch of >= 2 entries), anything else is a violation.",
             ref="DESIGN.md section 8 (C08)", note=CR),
 "C09": dict(text="Proved (Coq): c09_strict_acceptor_means — accepted means delivered-before-crash ++ delivered-after-recovery is exactly the appended stream (every entry once, in order); c09_alo_acceptor_means — accepted means the recovered consumer resumes at a position that skips nothing and, when a bound is given, re-delivers at most persist_every entries; model witnesses for tail/sealed positions. The whole-history statement is decided per run by crash-point enumeration on the real crate (StrictlyAtOnce and AtLeastOnce{1,2,3,5,8}; crash points include between the index temp-file write, its fsync and the rename, and inside the read in flight), judged by these acceptors.",
             ref="DESIGN.md section 8 (C09)", note=CR + " Partial: no whole-history theorem about persisted positions yet (needs the hydration invariant, see DESIGN)."),
 "C14": dict(text="Theorem c14_component_safe (Coq, all keys, no bound): the path component computed from any key is non-empty, not '.'/'..', free of '/' and NUL. The hand-written model is tied to the code on every run by a differential run of the real sanitize_namespace and of real instances built through every constructor, and the extracted acceptor safe_component is applied to every component the implementation produced.",
             ref="DESIGN.md section 8 (C14)", note="Trusted: Coq kernel, extraction (ExtrOcamlBasic), OCaml driver, python generators, the cfg(walrus_verif) accessor, Linux PathBuf::push semantics (modelled). No axioms."),
 "C25": dict(text="Theorems c25_roundtrip and c25_injective (Coq, every topic string and every u64 segment): parse_wal_key (wal_key topic n) = Some (topic, n). The model of format!/rsplitn/strip_prefix/u64::from_str is tied to the unmodified types.rs (compiled via #[path]) by a differential run including adversarial topics and raw decoder inputs.",
             ref="DESIGN.md section 8 (C25)", note="Trusted: Coq kernel, extraction, OCaml driver, generators; matching on scalar values instead of UTF-8 bytes (sound because the pattern is ASCII). No axioms."),
}
EXTRA = os.path.join(V, "tools", "manifest_extra.json")
if os.path.exists(EXTRA):
    CHECKS.update(json.load(open(EXTRA)))

ALL = ["C%02d" % i for i in range(1, 26)]
NA_REASON = json.load(open(os.path.join(V, "tools", "not_applicable.json"))) if os.path.exists(os.path.join(V, "tools", "not_applicable.json")) else {}
DEFAULT_NA = "not yet built (planned, see DESIGN.md sections 8/10); no check is claimed for it at this commit"

m = dict(version=1, setup_cmd="./check setup",
  hooks=dict(guard="walrus_verif",
     enable='RUSTFLAGS="--cfg walrus_verif" (plus --cfg walrus_verif_small for the small block/file geometry); harness crates under /verif/harness link /repo by path',
     baseline_off_cmd="cd /repo && cargo nextest run --workspace --no-fail-fast --tool-config-file pb:/w/lib/nextest.toml --profile pb --test-threads 8 --offline",
     source_commits=json.load(open(os.path.join(V, "tools", "hook_commits.json"))), add_only=True),
  engines=[dict(name=ENGINE, path="/verif/coq, /verif/ocaml, /verif/harness, /verif/vlib", serves_properties=sorted(CHECKS),
     kind_free_text="Gallina model + Coq theorems; extracted OCaml model diffed against the Rust implementation; extracted acceptors over implementation traces")],
  checks=[dict(property_id=p, quick_cmd="./check %s quick" % p, thorough_cmd="./check %s thorough" % p,
     evidence_file="/verif/evidence/%s.json" % p, replay_cmd_template="./check %s --replay {path}" % p, engine=ENGINE,
     level_claimed=dict(category="proof", text=c["text"], design_ref=c["ref"]), level_note=c["note"], technique=c.get("technique", TECH))
     for p, c in sorted(CHECKS.items())],
  notes="See DESIGN.md. fix: commits in /repo are listed in known_findings.json (status 'fixed').",
  not_applicable=[dict(property_id=p, reason=NA_REASON.get(p, DEFAULT_NA)) for p in ALL if p not in CHECKS])
json.dump(m, open(os.path.join(V, "MANIFEST.json"), "w"), indent=1)
print("claimed:", sorted(CHECKS))
