#!/bin/bash
# tools/seedrun.sh <name> <patch.diff> <Cnn> [<Cnn> ...]
# Runs the quick checks against a scratch worktree of /repo with the patch applied (VERIF_REPO alt run);
# /repo and /verif/evidence are not touched.  The worktree is removed afterwards.
name=$1; patch=$2; shift 2
wt=/tmp/seed/w-$name
git -C /repo worktree remove --force $wt 2>/dev/null
git -C /repo worktree add -q --detach $wt HEAD || exit 2
git -C $wt apply $patch || { echo "PATCH DOES NOT APPLY"; git -C /repo worktree remove --force $wt; exit 2; }
cd /verif
for p in "$@"; do
  out=$(VERIF_REPO=$wt VERIF_SEED=${VERIF_SEED:-1} ./check $p ${TIER:-quick} 2>/tmp/seed/$name-$p.err)
  rc=$?
  echo "== $name $p rc=$rc: $(echo "$out" | grep -E 'VIOLATION|KNOWN' | head -3)"
  if [ $rc -ne 0 ]; then f=$(echo "$out" | grep -o 'replay=[^ ]*' | head -1 | cut -d= -f2); [ -n "$f" ] && cp $f /tmp/seed/$name-$p.replay.json; fi
done
git -C /repo worktree remove --force $wt
