#!/bin/bash
# tools/coqchk.sh — independent re-check of every compiled property module (and everything it depends on)
# with coqchk, printing the axioms the whole development relies on.  Takes several minutes; not part of the
# per-property checks (those run coqc + Print Assumptions).  Requires ./check setup to have built coq/*.vo.
cd "$(dirname "$0")/../coq" || exit 2
exec coqchk -silent -o -Q . W $(ls props/*.vo | sed 's#props/\(.*\)\.vo#W.props.\1#')
