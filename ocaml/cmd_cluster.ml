(* cmd_cluster.ml — driver commands for C22 / C23 (cluster transition system).
   Parsing and printing only; what decides is the extracted model (Model.cl_trace) and the
   extracted acceptors (Model.c22_verdict, c23_verdict) and mechanism classes.

   cluster      case line (same syntax as `cwh`):  nodes=..;thr=..;lead=..;clients=..;sched=..
                -> the model's token line, same format as the harness prints
   accept_c22   token line -> verdict 0 (accepted) | 1 dup | 2 src | 3 order | 4 empty
   accept_c23   `nodes=..;lead=..|<token line>` -> 0 | 1 sealed | 2 foreign | 3 malformed
   class_c22 / class_c23   case line -> mechanism classes the MODEL's run of the case shows *)
open Model
open Util

exception BadC of string

let int_of_nat n = let rec go acc = function O -> acc | S m -> go (acc + 1) m in go 0 n

let field (line : string) (k : string) : string =
  let parts = String.split_on_char ';' (String.trim line) in
  let pre = k ^ "=" in
  let pl = String.length pre in
  match List.filter (fun p -> String.length p >= pl && String.sub p 0 pl = pre) parts with
  | p :: _ -> String.sub p pl (String.length p - pl)
  | [] -> raise (BadC ("missing " ^ k))

let field_opt line k = try Some (field line k) with BadC _ -> None

let num s = try n_of_int (int_of_string s) with _ -> raise (BadC ("bad number " ^ s))

let parse_op (o : string) : cop =
  if String.length o < 2 then raise (BadC "bad op");
  let n = num (String.sub o 1 (String.length o - 1)) in
  match o.[0] with 'P' -> OPut n | 'G' -> OGet n | _ -> raise (BadC "bad op")

let parse_ev (e : string) : cev =
  if String.length e < 2 then raise (BadC "bad event");
  let i = try int_of_string (String.sub e 1 (String.length e - 1)) with _ -> raise (BadC "bad event") in
  match e.[0] with
  | 'c' -> EvC (nat_of_int i)
  | 'a' -> EvA (n_of_int i)
  | 'l' -> EvL (n_of_int i)
  | 'm' -> EvM (n_of_int i)
  | 'r' -> EvR (n_of_int i)
  | _ -> raise (BadC "bad event")

let nonempty l = List.filter (fun x -> x <> "") l

let parse_cfg (line : string) : ccfg =
  let clients = match field_opt line "clients" with
    | None -> []
    | Some v -> List.map (fun cl -> List.map parse_op (nonempty (String.split_on_char '.' cl))) (String.split_on_char '/' v) in
  { cf_nodes = num (field line "nodes");
    cf_thr = (match field_opt line "thr" with Some v -> num v | None -> n_of_int 1);
    cf_lead = (match field_opt line "lead" with Some v -> num v | None -> n_of_int 1);
    cf_clients = clients }

let parse_sched (line : string) : cev list =
  match field_opt line "sched" with
  | None -> []
  | Some v -> List.map parse_ev (nonempty (String.split_on_char ',' v))

(* ---------- printing ---------- *)
let show_pl ((c, k) : cpayload) = Printf.sprintf "c%d_%d" (int_of_n c) (int_of_n k)
let show_str (s : n list) = String.concat "" (List.map (fun c -> String.make 1 (Char.chr (int_of_n c))) s)
let show_cmd = function
  | CreateTopic (nm, l) -> Printf.sprintf "C:%s:%d" (show_str nm) (int_of_n l)
  | RolloverTopic (nm, l, c) -> Printf.sprintf "R:%s:%d:%s" (show_str nm) (int_of_n l) (dec_of_n c)
  | UpsertNode (id, a) -> Printf.sprintf "U:%d:%s" (int_of_n id) (show_str a)
let err_name e = match int_of_n e with 1 -> "lease" | 2 -> "topic" | 3 -> "addr" | 4 -> "rpc" | _ -> "other"
let show_res = function
  | CROk -> "OK" | CREmpty -> "EMPTY" | CRVal p -> "V:" ^ show_pl p | CRErr e -> "E:" ^ err_name e
let show_sub = function
  | EInv (c, k, isput, n) -> Printf.sprintf "I%d.%d.%s%d" (int_of_n c) (int_of_n k) (if isput then "P" else "G") (int_of_n n)
  | EResp (c, k, r) -> Printf.sprintf "R%d.%d.%s" (int_of_n c) (int_of_n k) (show_res r)
  | EW (n, seg, p, a) -> Printf.sprintf "W%d.%d.%s@%d" (int_of_n n) (int_of_n seg) (show_pl p) (int_of_nat a)
  | EX (n, seg, p) -> Printf.sprintf "X%d.%d.%s" (int_of_n n) (int_of_n seg) (match p with Some p -> show_pl p | None -> "-")
  | EL (i, c) -> Printf.sprintf "L%d.%s" (int_of_nat i) (show_cmd c)
let show_status = function
  | SLR -> "LR" | SLW -> "LW" | SWR -> "WR" | SWW -> "WW" | SOR -> "OR" | SOW -> "OW" | SKM -> "KM"
  | SRC -> "RC" | SSB -> "SB" | SPR -> "PR" | SRPC -> "RPC" | STK -> "TK" | SNX -> "NX"
  | SBlocked -> "B" | SDone -> "D" | SApplied i -> "A" ^ string_of_int (int_of_nat i) | SNoApply -> "A-"
  | SRestarted -> "RS" | SNoRestart -> "R-"
let show_tok ((st, subs) : ctok) = String.concat "+" (show_status st :: List.map show_sub subs)
let show_toks (ts : ctok list) = String.concat "," (List.map show_tok ts)

(* ---------- parsing tokens back (for the acceptors over implementation traces) ---------- *)
let parse_pl (s : string) : cpayload =
  try
    if s.[0] <> 'c' then raise Exit;
    match String.split_on_char '_' (String.sub s 1 (String.length s - 1)) with
    | [c; k] -> (n_of_int (int_of_string c), n_of_int (int_of_string k))
    | _ -> raise Exit
  with _ -> raise (BadC ("bad payload " ^ s))
let str_of_string (s : string) : n list = List.init (String.length s) (fun i -> n_of_int (Char.code s.[i]))
let parse_cmd (s : string) : cmd =
  match String.split_on_char ':' s with
  | ["R"; nm; l; c] -> RolloverTopic (str_of_string nm, num l, n_of_dec c)
  | ["C"; nm; l] -> CreateTopic (str_of_string nm, num l)
  | "U" :: id :: rest -> UpsertNode (num id, str_of_string (String.concat ":" rest))
  | _ -> raise (BadC ("bad cmd " ^ s))
let err_code = function "lease" -> 1 | "topic" -> 2 | "addr" -> 3 | "rpc" -> 4 | _ -> 5
let split_first (s : string) (ch : char) : string * string =
  match String.index_opt s ch with
  | Some i -> (String.sub s 0 i, String.sub s (i + 1) (String.length s - i - 1))
  | None -> raise (BadC ("bad token " ^ s))
let parse_sub (s : string) : csub =
  if s = "" then raise (BadC "empty sub-event");
  let body = String.sub s 1 (String.length s - 1) in
  match s.[0] with
  | 'I' ->
    (match String.split_on_char '.' body with
     | [c; k; o] when String.length o >= 2 ->
       EInv (num c, num k, o.[0] = 'P', num (String.sub o 1 (String.length o - 1)))
     | _ -> raise (BadC ("bad token " ^ s)))
  | 'R' ->
    let (c, r1) = split_first body '.' in
    let (k, r) = split_first r1 '.' in
    let res =
      if r = "OK" then CROk else if r = "EMPTY" then CREmpty
      else if String.length r > 2 && String.sub r 0 2 = "V:" then CRVal (parse_pl (String.sub r 2 (String.length r - 2)))
      else if String.length r > 2 && String.sub r 0 2 = "E:" then CRErr (n_of_int (err_code (String.sub r 2 (String.length r - 2))))
      else raise (BadC ("bad token " ^ s)) in
    EResp (num c, num k, res)
  | 'W' ->
    let (n, r1) = split_first body '.' in
    let (seg, r2) = split_first r1 '.' in
    let (p, a) = split_first r2 '@' in
    EW (num n, num seg, parse_pl p, nat_of_int (int_of_string a))
  | 'X' ->
    let (n, r1) = split_first body '.' in
    let (seg, p) = split_first r1 '.' in
    EX (num n, num seg, if p = "-" then None else Some (parse_pl p))
  | 'L' ->
    let (i, c) = split_first body '.' in
    EL (nat_of_int (int_of_string i), parse_cmd c)
  | _ -> raise (BadC ("bad token " ^ s))
let parse_status (s : string) : cstatus =
  match s with
  | "LR" -> SLR | "LW" -> SLW | "WR" -> SWR | "WW" -> SWW | "OR" -> SOR | "OW" -> SOW | "KM" -> SKM
  | "RC" -> SRC | "SB" -> SSB | "PR" -> SPR | "RPC" -> SRPC | "TK" -> STK | "NX" -> SNX
  | "B" -> SBlocked | "D" -> SDone | "A-" -> SNoApply | "RS" -> SRestarted | "R-" -> SNoRestart
  | _ when String.length s > 1 && s.[0] = 'A' -> SApplied (nat_of_int (int_of_string (String.sub s 1 (String.length s - 1))))
  | _ -> raise (BadC ("bad status " ^ s))
let parse_tok (s : string) : ctok =
  match String.split_on_char '+' s with
  | st :: subs -> (parse_status st, List.map parse_sub subs)
  | [] -> raise (BadC "empty token")
let parse_toks (line : string) : ctok list =
  List.map parse_tok (nonempty (String.split_on_char ',' (String.trim line)))

let guard f line = try f line with BadC m -> "badcase:" ^ m | Failure m -> "badcase:" ^ m | Not_found -> "badcase"

let cmd_cluster line =
  let cfg = parse_cfg line in
  show_toks (cl_trace cfg (parse_sched line))

let cmd_accept_c22 line = string_of_int (int_of_n (c22_verdict (parse_toks line)))

let cmd_accept_c23 line =
  let (c, t) = split_first line '|' in
  let cfg = parse_cfg c in
  string_of_int (int_of_n (c23_verdict cfg (parse_toks t)))

let cmd_classes line =
  let cfg = parse_cfg line in
  let k = cl_classes cfg (parse_sched line) in
  let l = (if k.k_ctw then ["ctw"] else []) @ (if k.k_stale then ["stale"] else [])
          @ (if k.k_under then ["under"] else []) @ (if k.k_behind then ["behind"] else [])
          @ (if k.k_lag then ["lag"] else []) @ (if k.k_double then ["double"] else [])
          @ (if k.k_reset then ["reset"] else []) in
  if l = [] then "-" else String.concat " " l

let cmd_cluster_seq line = show_toks (seq_trace (parse_cfg line) (parse_sched line))
let cmd_cluster_fenced line = show_toks (fenced_trace (parse_cfg line) (parse_sched line))
let cmd_accept_c22_seq line = if c22_seq_ok (parse_toks line) then "1" else "0"

let commands : (string * (string -> string)) list = [
  "cluster_seq", guard cmd_cluster_seq;
  "cluster_fenced", guard cmd_cluster_fenced;
  "accept_c22_seq", guard cmd_accept_c22_seq;
  "cluster_classes", guard cmd_classes;
  "cluster", guard cmd_cluster;
  "accept_c22", guard cmd_accept_c22;
  "accept_c23", guard cmd_accept_c23;
]
