(* cmd_frame.ml — C24 driver commands (parsing and printing only; every decision is made by
   extracted Coq definitions: Model.serve_v0 / serve_fixed / c24_ok / c24_known / ...).

   client        <hex stream>            -> hex of everything the model of client.rs AS IT STANDS
                                            (no draining of refused bodies) writes back; same line
                                            protocol as `dwh client`
   client_fixed  <hex stream>            -> same for the model with PROPOSED_FIX.diff applied
   accept_c24    <hex stream> <hex out>  -> "ok|REJECT known=<0|1> frames=<n> tail=<bytes> resps=<n|unparsable>"
                                            (spec acceptor c24_ok over an implementation's output;
                                            known = the stream is in the class of finding D12)
   classify_c24  <hex stream>            -> one token per complete request frame (spec framing):
                                            Z zero length, O oversized, U invalid UTF-8,
                                            R/P/G/S/M register/put/get/state/metrics, B bad command;
                                            then "tail=<bytes>[!]" (! = truncated oversized frame)
   rtok_c24      <hex topic> <hex pay>   -> 1|0|badutf8: side condition c24_rt_ok of the round trip *)
open Model
open Util

(* streams reach a few hundred kilobytes: conversions without deep recursion *)
let hex_of_bytes (bs : n list) : string =
  if bs = [] then "-" else begin
    let b = Buffer.create 4096 in
    List.iter (fun x -> Buffer.add_string b (Printf.sprintf "%02x" (int_of_n x))) bs;
    Buffer.contents b end
let bytes_of_hex (s : string) : n list =
  if s = "-" then [] else begin
    let acc = ref [] in
    for i = String.length s / 2 - 1 downto 0 do
      acc := n_of_int (hexval s.[2*i] * 16 + hexval s.[2*i+1]) :: !acc
    done; !acc end

let cmd_client serve line = hex_of_bytes (serve (bytes_of_hex (String.trim line)))

let cmd_accept line =
  match split_ws line with
  | [i; o] ->
    let inp = bytes_of_hex i in
    let out = bytes_of_hex o in
    let (fs, tl) = split_frames inp in
    let resps = match split_frames out with
      | (ofs, []) -> string_of_int (List.length ofs)
      | _ -> "unparsable" in
    Printf.sprintf "%s known=%d frames=%d tail=%d resps=%s"
      (if c24_ok inp out then "ok" else "REJECT")
      (if c24_known inp then 1 else 0) (List.length fs) (List.length tl) resps
  | [i] when i = "panic" -> "badcase"
  | [i; "panic"] ->
    Printf.sprintf "REJECT known=%d frames=0 tail=0 resps=panic" (if c24_known (bytes_of_hex i) then 1 else 0)
  | _ -> "badcase"

let cmd_classify line =
  let inp = bytes_of_hex (String.trim line) in
  let (fs, tl) = split_frames inp in
  let tok f = match classify_frame f with
    | KBadLen -> if f.f_len = N0 then "Z" else "O"
    | KBadUtf8 -> "U"
    | KCmd (FRegister _) -> "R"
    | KCmd (FPut (_, _)) -> "P"
    | KCmd (FGet _) -> "G"
    | KCmd (FState _) -> "S"
    | KCmd FMetrics -> "M"
    | KCmd (FBad _) -> "B" in
  let over = match tl with
    | b0 :: b1 :: b2 :: b3 :: _ -> N.ltb max_frame_len (un_le32 b0 b1 b2 b3)
    | _ -> false in
  String.concat " " (List.map tok fs @ [Printf.sprintf "tail=%d%s" (List.length tl) (if over then "!" else "")])

let cmd_rtok line =
  match split_ws line with
  | [t; p] ->
    (match str_of_hex t, str_of_hex p with
     | Some t, Some p -> if c24_rt_ok t p then "1" else "0"
     | _ -> "badutf8")
  | _ -> "badcase"

let commands : (string * (string -> string)) list = [
  "client", cmd_client serve_v0;
  "client_fixed", cmd_client serve_fixed;
  "accept_c24", cmd_accept;
  "classify_c24", cmd_classify;
  "rtok_c24", cmd_rtok;
]
