(* cmd_crash.ml — acceptors of spec/Crash.v over implementation crash runs.
   Fields are separated by " | ".  Entry lists: "pid:len,pid:len" or "-"; out lists: "[e:pid:skip:len;...]". *)
open Model
open Util

let split_bar (s : string) : string list =
  List.map String.trim (Str.split_delim (Str.regexp_string " | ") s)

let items (s : string) : entry list =
  if s = "-" || s = "" then [] else
  List.map (fun it -> match String.split_on_char ':' it with
    | [p; l] -> { e_pid = n_of_dec p; e_len = n_of_dec l }
    | _ -> failwith "bad item") (String.split_on_char ',' s)

let out_tok (tok : string) : out =
  match String.split_on_char ':' tok with
  | "e" :: pid :: skip :: len :: _ ->
    let p = if pid = "_" then N0 else if pid = "X" then n_of_dec "18446744073709551615" else n_of_dec pid in
    { o_pid = p; o_skip = n_of_dec skip; o_len = n_of_dec len }
  | _ -> failwith ("bad out " ^ tok)
let outs (s : string) : out list =
  let inner = if String.length s >= 2 && s.[0] = '[' then String.sub s 1 (String.length s - 2) else s in
  if inner = "" || inner = "-" then [] else List.map out_tok (String.split_on_char ';' inner)

let b x = if x then "ok" else "REJECT"

let cmd_c07 line = match split_bar line with
  | [a; i; r] -> b (c07_ok (items a) (items i) (outs r))
  | _ -> "badcase"
let cmd_c08 line = match split_bar line with
  | [a; i; r] -> b (c08_ok (items a) (items i) (outs r))
  | _ -> "badcase"
let cmd_c09 line = match split_bar line with
  | [mode; a; i; d; r; gap] ->
    let gap = nat_of_int (int_of_string gap) in
    if mode = "strict" then b (c09_strict_ok (items a) (items i) (outs d) (outs r) gap)
    else
      let bound = match String.split_on_char ':' mode with
        | ["alo"; n] -> Some (nat_of_int (int_of_string n))
        | _ -> None in
      b (c09_alo_ok (items a) (items i) (outs d) (outs r) gap bound)
  | _ -> "badcase"

let commands : (string * (string -> string)) list = [
  "accept_c07", cmd_c07; "accept_c08", cmd_c08; "accept_c09", cmd_c09;
]
