(* cmd_conc.ml — the extracted concurrent model (model/Conc.v) and the C05 acceptor
   (spec/ConcSpec.v) on the case lines of harness/wh `conc`.  Parsing, printing, and the
   enumeration of schedules (a generator: every schedule it emits is judged by the extracted
   [run_schedule] and by the implementation, never by this file).

   conc         <case line>                      -> model result line (same shape as the harness') plus
                                                    sched=<completed schedule> class=<flags> acc=<ok|REJECT> unm=<0|1>
   conc_accept  <case line> => <impl result>     -> ok | REJECT   (acceptor over the IMPLEMENTATION's results)
   conc_gen     <case line with gen=...>         -> schedules separated by '/', then " total=<n> complete=<0|1>"
        gen=enum:<limit>           every maximal schedule (depth first), at most <limit>
        gen=pb:<bound>:<limit>     every maximal schedule with at most <bound> preemptions
        gen=rand:<n>:<seed>        <n> random maximal schedules
        The S: section of a conc_gen line is a fixed prefix; pre=<tid>:<k> extends it by running the
        first <k> calls of thread <tid> to completion (a serial prologue).
   Header keys: mode=strict|alo:<n>  backend=fd|mmap  geom=small|real  fx=0|1 *)
open Model
open Util

let parse_topic (tok : string) : topic =
  if String.length tok > 1 && tok.[0] = 't' then
    { t_id = n_of_int (int_of_string (String.sub tok 1 (String.length tok - 1))); t_nlen = n_of_int (String.length tok) }
  else failwith ("bad topic " ^ tok)

let show_out (o : out) : string =
  Printf.sprintf "e:%s:%s:%s" (dec_of_n o.o_pid) (dec_of_n o.o_skip) (dec_of_n o.o_len)

let show_result (r : result) : string =
  match r with
  | ROk -> "ok"
  | RErr EInvalidInput -> "err:InvalidInput"
  | RErr EInvalidData -> "err:InvalidData"
  | RErr EWouldBlock -> "err:WouldBlock"
  | RErr EOther -> "err:Other"
  | RPanic -> "panic"
  | RNone -> "none"
  | REntry o -> show_out o
  | REntries os -> "[" ^ String.concat "+" (List.map show_out os) ^ "]"
  | RNum n -> "n:" ^ dec_of_n n

let site_name = function
  | SRet -> "ret"
  | S_w_flag -> "w_flag" | S_w_seal_pre -> "w_seal_pre" | S_w_seal_post -> "w_seal_post" | S_a_written -> "a_written"
  | S_b_flag -> "b_flag" | S_b_seal_pre -> "b_seal_pre" | S_b_seal_post -> "b_seal_post" | S_b_written -> "b_written"
  | S_rn_hyd -> "rn_hyd" | S_rn_adv -> "rn_adv" | S_rn_s_commit -> "rn_s_commit" | S_rn_s_idx -> "rn_s_idx"
  | S_rn_t_snap -> "rn_t_snap" | S_rn_t_wsnap -> "rn_t_wsnap" | S_rn_t_init -> "rn_t_init"
  | S_rn_t_commit -> "rn_t_commit" | S_rn_t_idx -> "rn_t_idx"
  | S_br_wsnap -> "br_wsnap" | S_br_commit -> "br_commit" | S_br_idx -> "br_idx"

let starts_with p s = String.length s >= String.length p && String.sub s 0 (String.length p) = p
let after p s = String.sub s (String.length p) (String.length s - String.length p)

let parse_items (s : string) : entry list =
  if s = "-" then [] else
  List.map (fun it -> match String.split_on_char ':' it with
    | [p; l] -> { e_pid = n_of_dec p; e_len = n_of_dec l }
    | _ -> failwith "bad item") (String.split_on_char ',' s)

let parse_call (s : string) : call =
  match split_ws s with
  | ["A"; t; pid; len] -> CAppend (parse_topic t, { e_pid = n_of_dec pid; e_len = n_of_dec len })
  | ["B"; t; items] -> CBatch (parse_topic t, parse_items items)
  | ["R"; t; ck] -> CRead (parse_topic t, ck = "1")
  | ["BR"; t; budget; ck] ->
    let b = if budget = "max" then n_of_dec "18446744073709551615" else n_of_dec budget in
    CBatchRead (parse_topic t, b, ck = "1")
  | _ -> failwith ("bad call: " ^ s)

type case = {
  id : string; env : env; fx : bool; gen : string; pre : (int * int) option;
  progs : call list list; sched : int list; drain : string list;
}

let parse_case (line : string) : case =
  let secs = List.map String.trim (String.split_on_char '|' line) in
  match secs with
  | [] -> failwith "empty case"
  | head :: rest ->
    let id, kvs = match split_ws head with "CONC" :: id :: kvs -> id, kvs | _ -> failwith "bad header" in
    let cfg = ref small_cfg and mode = ref Strict and be = ref Fd and fx = ref false and gen = ref "" and pre = ref None in
    List.iter (fun kv ->
      if starts_with "mode=alo:" kv then mode := ALO (n_of_dec (after "mode=alo:" kv))
      else if kv = "mode=strict" then mode := Strict
      else if kv = "backend=mmap" then be := Mmap
      else if kv = "backend=fd" then be := Fd
      else if kv = "geom=small" then cfg := small_cfg
      else if kv = "geom=real" then cfg := real_cfg
      else if kv = "fx=1" then fx := true
      else if kv = "fx=0" then fx := false
      else if starts_with "gen=" kv then gen := after "gen=" kv
      else if starts_with "pre=" kv then
        (match String.split_on_char ':' (after "pre=" kv) with
         | [a; b] -> pre := Some (int_of_string a, int_of_string b)
         | _ -> failwith "bad pre")
      else ()) kvs;
    let progs = ref [] and sched = ref [] and drain = ref [] in
    List.iter (fun sec ->
      if starts_with "T:" sec then
        progs := (List.filter_map (fun c -> let c = String.trim c in if c = "" then None else Some (parse_call c))
                    (String.split_on_char ';' (after "T:" sec))) :: !progs
      else if starts_with "S:" sec then sched := List.map int_of_string (split_ws (after "S:" sec))
      else if starts_with "D:" sec then drain := split_ws (after "D:" sec)
      else ()) rest;
    { id; env = { v_cfg = !cfg; v_mode = !mode; v_backend = !be }; fx = !fx; gen = !gen; pre = !pre;
      progs = List.rev !progs; sched = !sched; drain = !drain }

let rec int_of_nat = function O -> 0 | S n -> 1 + int_of_nat n

(* ---- running one case on the model ---- *)
type mres = {
  status : string; steps : (int * site) list; res : result list list; full_sched : int list;
  drain_res : (string * result list) list; counts : (string * n) list; k : kflags; unm : bool;
}

let nth_thread cs i = List.nth cs.cs_threads i

(* one read_next to completion by an extra thread (the harness' main thread after the joins) *)
let drain_read (c : case) (cs : cstate) (t : topic) : cstate * result =
  let n = List.length cs.cs_threads in
  let th = { th_todo = [CRead (t, true)]; th_pc = PStart; th_done = [] } in
  let cs1 = { cs with cs_threads = cs.cs_threads @ [th] } in
  let rec go cs k =
    if k = 0 then failwith "drain does not terminate" else
    match cstep c.env c.fx (nat_of_int n) cs with
    | OStep (cs', _) -> go cs' (k - 1)
    | OBlockedC -> failwith "drain blocked"
    | OFinished -> cs in
  let cs2 = go cs1 100000 in
  let r = match (nth_thread cs2 n).th_done with r :: _ -> r | [] -> RPanic in
  ({ cs2 with cs_threads = List.filteri (fun i _ -> i < n) cs2.cs_threads }, r)

let run_model (c : case) : mres =
  let ro = run_schedule c.env c.fx c.progs (List.map nat_of_int c.sched) in
  let used = List.map (fun (t, _) -> int_of_nat t) ro.ro_steps in
  match ro.ro_blocked with
  | Some k ->
    { status = Printf.sprintf "blocked@%d" (int_of_nat k + 1); steps = List.map (fun (t, l) -> (int_of_nat t, l)) ro.ro_steps;
      res = cresults ro.ro_cs; full_sched = used; drain_res = []; counts = []; k = ro.ro_k; unm = conc_unmodelled ro.ro_cs }
  | None ->
    (* default completion: lowest thread that can move *)
    let extra = ccomplete c.env c.fx (nat_of_int 100000) ro.ro_cs [] in
    let ro2 = crun_from c.env c.fx ro.ro_cs extra [] ro.ro_k in
    let steps = List.map (fun (t, l) -> (int_of_nat t, l)) (ro.ro_steps @ ro2.ro_steps) in
    let cs = ro2.ro_cs in
    let status = if threads_done cs then "ok" else "deadlock" in
    let cs = ref cs in
    let dr = List.map (fun tn ->
      let t = parse_topic tn in
      let got = ref [] and nones = ref 0 and i = ref 0 in
      while !nones < 2 && !i < 4096 do
        incr i;
        let (cs', r) = drain_read c !cs t in
        cs := cs';
        (match r with RNone -> incr nones | _ -> nones := 0; got := r :: !got)
      done;
      (tn, List.rev !got)) c.drain in
    let counts = List.map (fun tn ->
      let t = parse_topic tn in
      (tn, match (get_ts (!cs).cs_sh.sh_st t.t_id).ts_count with Some n -> n | None -> N0)) c.drain in
    { status; steps; res = cresults ro2.ro_cs; full_sched = List.map fst steps; drain_res = dr; counts;
      k = ro2.ro_k; unm = conc_unmodelled !cs }

let show_steps steps =
  if steps = [] then "-" else String.concat "," (List.map (fun (t, l) -> Printf.sprintf "%d:%s" t (site_name l)) steps)
let show_res res =
  if res = [] then "-" else
  String.concat "|" (List.mapi (fun i rs ->
    Printf.sprintf "T%d:%s" i (if rs = [] then "-" else String.concat ";" (List.map show_result rs))) res)
let show_drain dr =
  if dr = [] then "-" else
  String.concat "," (List.map (fun (t, rs) -> t ^ ":" ^ (if rs = [] then "-" else String.concat ";" (List.map show_result rs))) dr)
let show_counts cs =
  if cs = [] then "-" else String.concat "," (List.map (fun (t, n) -> t ^ ":" ^ dec_of_n n) cs)
let show_class (k : kflags) =
  let l = (if k.k_two_readers then ["two-readers"] else []) @ (if k.k_seal_in_read then ["seal-in-read"] else [])
          @ (if k.k_seal_in_bread then ["seal-in-batch-read"] else []) in
  if l = [] then "-" else String.concat "+" l

(* programs and results extended by the drain, as one more thread *)
let with_drain (c : case) (res : result list list) (dr : (string * result list) list) : call list list * result list list =
  let dcalls = List.concat_map (fun (tn, rs) -> List.map (fun _ -> CRead (parse_topic tn, true)) rs) dr in
  let dres = List.concat_map snd dr in
  (c.progs @ [dcalls], res @ [dres])

let cmd_conc line =
  let c = parse_case line in
  let m = run_model c in
  let (p, r) = with_drain c m.res m.drain_res in
  let acc = if m.status = "ok" then (if c05_run_ok p r (c.drain <> []) then "ok" else "REJECT") else "-" in
  Printf.sprintf "status=%s steps=%s res=%s drain=%s counts=%s sched=%s class=%s acc=%s unm=%d"
    m.status (show_steps m.steps) (show_res m.res) (show_drain m.drain_res) (show_counts m.counts)
    (if m.full_sched = [] then "-" else String.concat "," (List.map string_of_int m.full_sched))
    (show_class m.k) acc (if m.unm then 1 else 0)

(* ---- acceptor over the implementation's results ---- *)
let parse_out_tok (tok : string) : out =
  match String.split_on_char ':' tok with
  | "e" :: pid :: skip :: len :: _ ->
    let p = if pid = "_" then N0 else if pid = "X" then n_of_dec "18446744073709551615" else n_of_dec pid in
    { o_pid = p; o_skip = n_of_dec skip; o_len = n_of_dec len }
  | _ -> failwith ("bad out " ^ tok)

let parse_result (s : string) : result =
  if s = "ok" then ROk
  else if s = "none" then RNone
  else if s = "panic" then RPanic
  else if s = "err:InvalidInput" then RErr EInvalidInput
  else if s = "err:InvalidData" then RErr EInvalidData
  else if s = "err:WouldBlock" then RErr EWouldBlock
  else if starts_with "err:" s then RErr EOther
  else if starts_with "e:" s then REntry (parse_out_tok s)
  else if starts_with "[" s then
    let inner = String.sub s 1 (String.length s - 2) in
    if inner = "" then REntries [] else REntries (List.map parse_out_tok (String.split_on_char '+' inner))
  else RPanic

let field (line : string) (key : string) : string =
  let toks = split_ws line in
  match List.find_opt (fun t -> starts_with (key ^ "=") t) toks with
  | Some t -> after (key ^ "=") t
  | None -> ""

let split_arrow (line : string) : string * string =
  let pat = " => " in
  let n = String.length line and m = String.length pat in
  let rec go i = if i + m > n then raise Not_found else if String.sub line i m = pat then i else go (i + 1) in
  let i = go 0 in
  (String.sub line 0 i, String.sub line (i + m) (n - i - m))

let cmd_conc_accept line =
  let (cl, rl) = split_arrow line in
  let c = parse_case cl in
  if field rl "status" <> "ok" then "REJECT status" else
  let res_s = field rl "res" in
  let res =
    if res_s = "-" || res_s = "" then List.map (fun _ -> []) c.progs else
    List.map (fun ts ->
      match String.index_opt ts ':' with
      | None -> []
      | Some i ->
        let body = String.sub ts (i + 1) (String.length ts - i - 1) in
        if body = "-" then [] else List.map parse_result (String.split_on_char ';' body))
      (String.split_on_char '|' res_s) in
  let dr_s = field rl "drain" in
  let dr =
    if dr_s = "-" || dr_s = "" then [] else
    List.map (fun ts ->
      let i = String.index ts ':' in
      let tn = String.sub ts 0 i and body = String.sub ts (i + 1) (String.length ts - i - 1) in
      (tn, if body = "-" then [] else List.map parse_result (String.split_on_char ';' body)))
      (String.split_on_char ',' dr_s) in
  let (p, r) = with_drain c res dr in
  (* every call of every thread must have returned *)
  let complete_ok = List.for_all2 (fun pr rs -> List.length pr = List.length rs) c.progs res in
  if not complete_ok then "REJECT incomplete"
  else if c05_run_ok p r (c.drain <> []) then "ok" else "REJECT"

(* ---- schedule generation ---- *)
let n_threads cs = List.length cs.cs_threads

let enabled (c : case) (cs : cstate) : (int * cstate) list =
  List.filter_map (fun i ->
    match cstep c.env c.fx (nat_of_int i) cs with
    | OStep (cs', _) -> Some (i, cs')
    | _ -> None) (List.init (n_threads cs) (fun i -> i))

let cmd_conc_gen line =
  let c = parse_case line in
  (* fixed prefix: the S: section, then the serial prologue *)
  let ro = run_schedule c.env c.fx c.progs (List.map nat_of_int c.sched) in
  let prefix = ref (List.rev_map (fun (t, _) -> int_of_nat t) ro.ro_steps) in
  let cs0 = ref ro.ro_cs in
  (match c.pre with
   | Some (tid, k) ->
     let ndone cs = List.length (List.nth cs.cs_threads tid).th_done in
     let target = ndone !cs0 + k in
     let fuel = ref 100000 in
     while ndone !cs0 < target && !fuel > 0 do
       decr fuel;
       (match cstep c.env c.fx (nat_of_int tid) !cs0 with
        | OStep (cs', _) -> cs0 := cs'; prefix := tid :: !prefix
        | _ -> fuel := 0)
     done
   | None -> ());
  let cs0 = !cs0 and prefix = !prefix in
  let out = Buffer.create 4096 in
  let count = ref 0 and complete_flag = ref true in
  let emit (sched_rev : int list) =
    if !count > 0 then Buffer.add_char out '/';
    Buffer.add_string out (String.concat "," (List.rev_map string_of_int sched_rev));
    incr count in
  (match String.split_on_char ':' c.gen with
   | ["enum"; lim] | ["pb"; _; lim] as g ->
     let limit = int_of_string lim in
     let bound = match g with ["pb"; b; _] -> int_of_string b | _ -> max_int in
     (* depth first; [last] = thread of the previous step, [pre] = preemptions used *)
     let rec dfs cs acc last pre =
       if !count >= limit then complete_flag := false else
       let en = enabled c cs in
       if en = [] then emit acc
       else
         List.iter (fun (i, cs') ->
           let last_alive = last >= 0 && List.mem_assoc last en in
           let p = if last_alive && i <> last then pre + 1 else pre in
           if p <= bound then dfs cs' (i :: acc) i p) en in
     dfs cs0 prefix (-1) 0
   | ["rand"; n; seed] ->
     let st = Random.State.make [| int_of_string seed |] in
     for _ = 1 to int_of_string n do
       let rec walk cs acc =
         let en = enabled c cs in
         if en = [] then emit acc
         else
           (* stay on the same thread with some probability: long runs and short ones both occur *)
           let (i, cs') = List.nth en (Random.State.int st (List.length en)) in
           walk cs' (i :: acc) in
       walk cs0 prefix
     done;
     complete_flag := false
   | _ -> failwith "bad gen");
  Printf.sprintf "%s total=%d complete=%d" (if !count = 0 then "-" else Buffer.contents out) !count (if !complete_flag then 1 else 0)

let guard f line = try f line with e -> "badcase " ^ Printexc.to_string e

let commands : (string * (string -> string)) list = [
  "conc", guard cmd_conc; "conc_accept", guard cmd_conc_accept; "conc_gen", guard cmd_conc_gen;
]
