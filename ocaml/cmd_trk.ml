(* cmd_trk.ml — the extracted tracker model (model/Trk.v) over traced call sequences.
   Input line:  <v0|fixed> <call> <call> ...   with calls
     R:<id>:<file> register_block   G:<file> register_file_if_absent   A:<file> add_block_to_file_state
     L:<id> set_block_locked   U:<id> set_block_unlocked   M:<id> set_checkpointed_true
     F:<file> set_fully_allocated   X:<file> flush_check (direct call)
   Output: req=<files in order> files=<file:locked:ckpt:total:full;..> blocks=<id:file:flag;..>
           contract=<0|1> safe=<0|1> repeat=<0|1> rereg=<0|1>
   (contract = contract_ok, safe = c12_trace_ok, repeat = marks_repeated, rereg = reregistered). *)
open Model
open Util

let parse_call (tok : string) : kcall =
  match String.split_on_char ':' tok with
  | ["R"; id; f] -> CRegister (n_of_dec id, n_of_dec f)
  | ["G"; f] -> CRegFile (n_of_dec f)
  | ["A"; f] -> CAddBlock (n_of_dec f)
  | ["L"; id] -> CLock (n_of_dec id)
  | ["U"; id] -> CUnlock (n_of_dec id)
  | ["M"; id] -> CMark (n_of_dec id)
  | ["F"; f] -> CFull (n_of_dec f)
  | ["X"; f] -> CFlush (n_of_dec f)
  | _ -> failwith ("bad call " ^ tok)

let b01 x = if x then "1" else "0"

let cmd_trk line =
  match split_ws line with
  | variant :: toks when variant = "v0" || variant = "fixed" ->
    let fixed = (variant = "fixed") in
    let cs = List.map parse_call toks in
    let (t, reqs) = trk_run fixed cs in
    let files = List.map (fun (f, fs) ->
      Printf.sprintf "%s:%s:%s:%s:%s" (dec_of_n f) (dec_of_n fs.f_locked) (dec_of_n fs.f_ckpt)
        (dec_of_n fs.f_total) (b01 fs.f_full)) t.t_files in
    let blocks = List.map (fun (id, b) ->
      Printf.sprintf "%s:%s:%s" (dec_of_n id) (dec_of_n b.bs_file) (b01 b.bs_flag)) t.t_blocks in
    let j l = if l = [] then "-" else String.concat ";" l in
    Printf.sprintf "req=%s files=%s blocks=%s contract=%s safe=%s repeat=%s rereg=%s"
      (if reqs = [] then "-" else String.concat "," (List.map dec_of_n reqs))
      (j (List.sort compare files)) (j (List.sort compare blocks))
      (b01 (contract_ok fixed cs)) (b01 (c12_trace_ok fixed cs))
      (b01 (marks_repeated cs)) (b01 (reregistered cs))
  | _ -> "badcase"

let commands : (string * (string -> string)) list = [ "trk", cmd_trk ]
