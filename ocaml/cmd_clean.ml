(* cmd_clean.ml — C17: the clean-marker model (model/Clean.v) on gated (deterministic) cases,
   and the acceptors of spec/CleanSpec.v over observations of implementation runs.
   Parsing and printing only.
   Case line:   <pinned|flush> | tok;tok;...
   model toks:  A:<hex> MC:<hex> MD:<hex> K:<hex> RO RS TU TS TB TE TICK OL:<k> DUMP GATE
   obs toks:    A:<hex> MC:<hex> MD:<hex> K:<hex>:<0|1> RO RS D:<store> W:<hex>,<hex>,... X:<hex>,...
   <store> = "-" or "<hex topic>=<gen>:<0|1>,..." (as printed by the harness op DUMP). *)
open Model
open Util

let topic (h : string) : str =
  match str_of_hex h with Some s -> s | None -> failwith "bad utf8 topic"

let variant (s : string) : kvariant =
  match String.trim s with
  | "pinned" -> KPinned
  | "flush" -> KFlush
  | x -> failwith ("bad variant " ^ x)

let split_case (line : string) : kvariant * string list =
  match Str.bounded_split_delim (Str.regexp_string " | ") line 2 with
  | [v; ops] ->
    (variant v, List.filter (fun x -> x <> "") (String.split_on_char ';' (String.trim ops)))
  | _ -> failwith "bad case"

let show_store (m : cmap) : string =
  if m = [] then "store:-" else
  "store:" ^ String.concat "," (List.map (fun (k, r) ->
    Printf.sprintf "%s=%s:%d" (hex_of_str k) (dec_of_n r.cr_gen) (if r.cr_clean then 1 else 0)) m)

let parse_store (s : string) : cmap =
  if s = "-" || s = "" then [] else
  List.map (fun it ->
    match String.split_on_char '=' it with
    | [k; v] ->
      (match String.split_on_char ':' v with
       | [g; c] -> (topic k, { cr_gen = n_of_dec g; cr_clean = (c = "1") })
       | _ -> failwith "bad store item")
    | _ -> failwith "bad store item") (String.split_on_char ',' s)

let show_phase (s : kst) : string =
  match s.ks_live.ki_phase with KIdle -> "p:idle" | KGot _ -> "p:got" | KFlying _ -> "p:fly"

let held_snap (s : kst) : kop list =
  match s.ks_live.ki_phase with KGot _ -> [KSnap] | _ -> []

let steps v s ops = List.fold_left (fun s o -> fst (k_step v s o)) s ops

(* the model on one gated case: one answer per token *)
let cmd_clean (line : string) : string =
  try
    let (v, toks) = split_case line in
    let s = ref k_init in
    let out = List.map (fun tok ->
      match String.split_on_char ':' tok with
      | ["A"; t] -> s := steps v !s [KAppend (topic t)]; "ok"
      | ["MC"; t] -> s := steps v !s [KMarkClean (topic t)]; "ok"
      | ["MD"; t] -> s := steps v !s [KMarkDirty (topic t)]; "ok"
      | ["K"; t] ->
        (match k_step v !s (KIsClean (topic t)) with
         | (_, Some b) -> if b then "b:1" else "b:0"
         | _ -> "?")
      (* gated runs hold a persister that has received AFTER its upgrade: it outlives the drop and
         snapshots the final states, which is a snapshot taken right before the drop *)
      | ["RO"] -> s := steps v !s (held_snap !s @ [KReopen]); "ok"
      | ["RS"] -> s := steps v !s (held_snap !s @ [KRestart]); "ok"
      | ["TU"] -> s := steps v !s [KRecv]; show_phase !s
      | ["TS"] -> s := steps v !s [KSnap]; show_phase !s
      | ["TB"] -> s := steps v !s [KRecv; KSnap]; show_phase !s
      | ["TE"] -> s := steps v !s [KLand]; show_phase !s
      | ["TICK"] -> s := steps v !s [KTick]; show_phase !s
      | ["OL"; k] ->
        let k = int_of_string k in
        if k < List.length !s.ks_orphans then (s := steps v !s [KOLand (nat_of_int k)]; "ok") else "none"
      | ["DUMP"] -> show_store !s.ks_disk
      | ["GATE"] -> "ok"
      | _ -> "badtok") toks in
    String.concat ";" out ^ " | quiet=" ^ (if k_quiet !s then "1" else "0")
  with Failure m -> "badcase:" ^ m

let parse_obs (toks : string list) : kobs list =
  List.map (fun tok ->
    match String.split_on_char ':' tok with
    | ["A"; t] -> BAppend (topic t)
    | ["MC"; t] -> BMarkClean (topic t)
    | ["MD"; t] -> BMarkDirty (topic t)
    | ["K"; t; b] -> BIsClean (topic t, b = "1")
    | ["RO"] -> BReopen
    | ["RS"] -> BRestart
    | "D" :: rest -> BDisk (parse_store (String.concat ":" rest))
    | ["W"; ts] -> BSynced (List.map topic (List.filter (fun x -> x <> "") (String.split_on_char ',' ts)))
    | ["X"; ts] -> BStuck (List.map topic (List.filter (fun x -> x <> "") (String.split_on_char ',' ts)))
    | _ -> failwith ("bad obs " ^ tok)) toks

(* "<admissible under the variant's model> <C17 literally>" *)
let cmd_accept_c17 (line : string) : string =
  try
    let (v, toks) = split_case line in
    let h = parse_obs toks in
    (if k_accept v h then "ok" else "REJECT") ^ " " ^ (if k_c17_ok h then "ok" else "REJECT")
  with Failure m -> "badcase:" ^ m

let commands : (string * (string -> string)) list = [
  "clean", cmd_clean; "accept_c17", cmd_accept_c17;
]
