(* cmd_hdr.ml — C11 driver commands (parsing and printing only; every decision is made by
   extracted Coq definitions: Model.decode_hdr / class_of / encode_hdr / scan_file / c11_ok).

   hdr_c11     <hex of a 256-byte header>
                 -> "v0=<class>[,name=<hex>,rs=<n>,nbs=<n>,ck=<n>] v1=<class>[,...]"
                    class: badlen shortroot misaligned oob badutf8 inlinelong invalid valid
   hdrenc_c11  <name hex> <read_size> <next_block_start> <checksum>  -> hex of encode_hdr
   scan_c11    <variant 0|1> <lenient 0|1> <MAX_FILE_SIZE> <DEFAULT_BLOCK_SIZE> <file> ...
                 file = <length>[;<offset>:<hex>]...   (bytes not listed are zero), in file-name order
                 -> "F<i>:<stop> ... B:<i>:<name hex>:<offset>:<used>:<limit>:<stop>:<len>.<fnv32>,..."
                    file stop: done emptyblock ub-shortroot ub-misaligned ub-oob pastend=<read_size> fuel
   accept_c11  <clean 0|1> <appended> <delivered>
                 appended  = <topic hex>=<pid>,<pid>;...        ("-" for none)
                 delivered = <topic hex>=<pid|X>,<pid|X>;...    (X = bytes never appended to that topic)
                 -> ok | REJECT  (spec acceptor c11_ok) *)
open Model
open Util

let bytes_of_hex (s : string) : n list =
  if s = "-" then [] else begin
    let acc = ref [] in
    for i = String.length s / 2 - 1 downto 0 do
      acc := n_of_int (hexval s.[2*i] * 16 + hexval s.[2*i+1]) :: !acc
    done; !acc end
let hex_of_bytes (bs : n list) : string =
  if bs = [] then "-" else begin
    let b = Buffer.create 512 in
    List.iter (fun x -> Buffer.add_string b (Printf.sprintf "%02x" (int_of_n x))) bs;
    Buffer.contents b end

let class_name = function
  | CBadLen -> "badlen" | CShortRoot -> "shortroot" | CMisaligned -> "misaligned" | COob -> "oob" | CBadUtf8 -> "badutf8"
  | CInlineLong -> "inlinelong" | CInvalid -> "invalid" | CValid -> "valid"

let show_hdr v hdr =
  let c = class_name (class_of v hdr) in
  match decode_hdr v hdr with
  | HMeta m -> Printf.sprintf "%s,name=%s,rs=%s,nbs=%s,ck=%s" c (hex_of_bytes m.m_name)
                 (dec_of_n m.m_read_size) (dec_of_n m.m_nbs) (dec_of_n m.m_checksum)
  | _ -> c

let cmd_hdr line =
  let hdr = bytes_of_hex (String.trim line) in
  Printf.sprintf "v0=%s v1=%s" (show_hdr V0 hdr) (show_hdr V1 hdr)

let cmd_hdrenc line =
  match split_ws line with
  | [name; rs; nbs; ck] ->
    hex_of_bytes (encode_hdr { m_name = bytes_of_hex name; m_read_size = n_of_dec rs;
                               m_nbs = n_of_dec nbs; m_checksum = n_of_dec ck })
  | _ -> "badcase"

(* sparse file description -> byte list *)
let file_of_spec (spec : string) : n list =
  match String.split_on_char ';' spec with
  | [] -> []
  | len :: segs ->
    let len = int_of_string len in
    let a = Bytes.make len '\000' in
    List.iter (fun seg ->
        match String.index_opt seg ':' with
        | None -> ()
        | Some i ->
          let off = int_of_string (String.sub seg 0 i) in
          let hx = String.sub seg (i + 1) (String.length seg - i - 1) in
          for k = 0 to String.length hx / 2 - 1 do
            if off + k < len then
              Bytes.set a (off + k) (Char.chr (hexval hx.[2*k] * 16 + hexval hx.[2*k+1]))
          done) segs;
    let acc = ref [] in
    for i = len - 1 downto 0 do acc := n_of_int (Char.code (Bytes.get a i)) :: !acc done;
    !acc

let two32 = n_of_dec "4294967296"
let stop_name = function
  | StErr -> "err" | StEnd -> "end" | StLimit -> "limit" | StFuel -> "fuel"
  | StUb HShortRoot -> "ub-shortroot" | StUb HMisaligned -> "ub-misaligned" | StUb _ -> "ub-oob"
  | StPastEnd m -> "pastend=" ^ dec_of_n m.m_read_size
let fstop_name = function
  | FsDone -> "done" | FsEmptyBlock -> "emptyblock" | FsFuel -> "fuel"
  | FsUb HShortRoot -> "ub-shortroot" | FsUb HMisaligned -> "ub-misaligned" | FsUb _ -> "ub-oob"
  | FsPastEnd m -> "pastend=" ^ dec_of_n m.m_read_size

let cmd_scan line =
  match split_ws line with
  | v :: len :: fsz :: b :: files ->
    let v = if v = "1" then V1 else V0 in
    let lenient = (len = "1") in
    let fsz = n_of_dec fsz and b = n_of_dec b in
    let out = Buffer.create 256 in
    List.iteri (fun i spec ->
        let r = scan_file v lenient fsz b (file_of_spec spec) in
        Buffer.add_string out (Printf.sprintf "F%d:%s " i (fstop_name r.fs_stop));
        List.iter (fun blk ->
            let sc = blk.rb_scan in
            let ents = String.concat ","
                (List.map (fun p -> Printf.sprintf "%d.%08x" (List.length p)
                              (int_of_n (N.modulo (checksum64 p) two32))) sc.sc_entries) in
            Buffer.add_string out
              (Printf.sprintf "B:%d:%s:%s:%s:%s:%s:%s " i (hex_of_bytes blk.rb_name) (dec_of_n blk.rb_offset)
                 (dec_of_n sc.sc_used) (dec_of_n sc.sc_limit) (stop_name sc.sc_stop)
                 (if ents = "" then "-" else ents))) r.fs_blocks) files;
    String.trim (Buffer.contents out)
  | _ -> "badcase"

let parse_assoc (s : string) (item : string -> 'a) : (n list * 'a list) list =
  if s = "-" then [] else
  List.filter_map (fun part ->
      if part = "" then None else
      match String.index_opt part '=' with
      | None -> None
      | Some i ->
        let t = bytes_of_hex (String.sub part 0 i) in
        let rest = String.sub part (i + 1) (String.length part - i - 1) in
        let items = List.filter (fun x -> x <> "") (String.split_on_char ',' rest) in
        Some (t, List.map item items)) (String.split_on_char ';' s)

let cmd_accept line =
  match split_ws line with
  | [clean; app; deliv] ->
    let app = parse_assoc app n_of_dec in
    let deliv = parse_assoc deliv (fun x -> if x = "X" then None else Some (n_of_dec x)) in
    if c11_ok app { o_clean = (clean = "1"); o_delivered = deliv } then "ok" else "REJECT"
  | _ -> "badcase"

let commands : (string * (string -> string)) list = [
  "hdr_c11", cmd_hdr;
  "hdrenc_c11", cmd_hdrenc;
  "scan_c11", cmd_scan;
  "accept_c11", cmd_accept;
]
