(* cmd_raft.ml — driver commands for C21 / C19 (parsing and printing only).

   raftwal     model of the WAL wrapper on `owh wal` case lines      (stateful: CASE line resets)
   raftstore   model of the node (log store + peer book + adapter) on `owh store` case lines
   accept_raft acceptors over IMPLEMENTATION output: lines `CASE ..`, `<op line> => <impl result>`, `END`;
               prints "-" per line and the verdict on END:
               `c21=<ok|REJECT> c19=<ok|REJECT> known=<0|1> reopens=<n> applies=<n>` *)
open Model
open Util

let starts_with p s = String.length s >= String.length p && String.sub s 0 (String.length p) = p
let after p s = String.sub s (String.length p) (String.length s - String.length p)

(* ---------- addresses: a.b.c.d:port <-> host * 65536 + port ---------- *)
let n256 = n_of_int 256
let n65536 = n_of_int 65536
let addr_of_string (s : string) : n =
  match String.split_on_char ':' s with
  | [ip; port] ->
    let host = List.fold_left (fun acc x -> N.add (N.mul acc n256) (n_of_dec x)) N0 (String.split_on_char '.' ip) in
    N.add (N.mul host n65536) (n_of_dec port)
  | _ -> failwith ("bad addr " ^ s)
let string_of_addr (a : n) : string =
  let port = N.modulo a n65536 and host = N.div a n65536 in
  let b k = dec_of_n (N.modulo (N.div host (n_of_int k)) n256) in
  Printf.sprintf "%s.%s.%s.%s:%s" (b 16777216) (b 65536) (b 256) (b 1) (dec_of_n port)

(* ---------- log ids, entries, votes ---------- *)
let logid_of_string (s : string) : logid =
  match String.split_on_char '.' s with
  | [t; nd; i] -> { l_term = n_of_dec t; l_node = n_of_dec nd; l_index = n_of_dec i }
  | _ -> failwith ("bad logid " ^ s)
let string_of_logid (l : logid) = Printf.sprintf "%s.%s.%s" (dec_of_n l.l_term) (dec_of_n l.l_node) (dec_of_n l.l_index)
let string_of_opt_logid = function None -> "-" | Some l -> string_of_logid l
let opt_logid_of_string s = if s = "-" then None else Some (logid_of_string s)

let entry_of_string (s : string) : lentry * bool =
  let s, resp = if String.length s > 0 && s.[String.length s - 1] = '+' then String.sub s 0 (String.length s - 1), true else s, false in
  match String.index_opt s ':' with
  | None -> failwith ("bad entry " ^ s)
  | Some i ->
    let id = logid_of_string (String.sub s 0 i) and pl = String.sub s (i + 1) (String.length s - i - 1) in
    let p =
      if pl = "B" then PBlank
      else if starts_with "N" pl then PNormal (bytes_of_hex (after "N" pl))
      else if starts_with "M" pl then PMember (n_of_dec (after "M" pl))
      else failwith ("bad payload " ^ pl) in
    ({ e_id = id; e_pl = p }, resp)
let string_of_entry (e : lentry) =
  string_of_logid e.e_id ^ ":" ^
  (match e.e_pl with PBlank -> "B" | PNormal d -> "N" ^ hex_of_bytes d | PMember k -> "M" ^ dec_of_n k)
let entries_of_string (s : string) : (lentry * bool) list =
  if s = "-" then [] else List.map entry_of_string (String.split_on_char ',' s)

let vote_of_string (s : string) : vote =
  match String.split_on_char '.' s with
  | [t; nd; c] -> { v_term = n_of_dec t; v_node = n_of_dec nd; v_committed = (c = "1") }
  | _ -> failwith ("bad vote " ^ s)
let string_of_vote (v : vote) = Printf.sprintf "%s.%s.%d" (dec_of_n v.v_term) (dec_of_n v.v_node) (if v.v_committed then 1 else 0)

let string_of_mem (m : mem) : string =
  let last = match List.rev m.m_log with e :: _ -> Some e.e_id | [] -> m.m_purged in
  Printf.sprintf "vote=%s committed=%s purged=%s last=%s log=[%s]"
    (match m.m_vote with None -> "-" | Some v -> string_of_vote v)
    (string_of_opt_logid m.m_committed) (string_of_opt_logid m.m_purged) (string_of_opt_logid last)
    (String.concat "," (List.map string_of_entry m.m_log))

let inner_list (s : string) : string list =      (* "[a,b]" -> ["a";"b"], "[]" -> [] *)
  let n = String.length s in
  if n < 2 || s.[0] <> '[' || s.[n - 1] <> ']' then failwith ("bad list " ^ s)
  else if n = 2 then [] else String.split_on_char ',' (String.sub s 1 (n - 2))

let mem_of_string (s : string) : mem =
  let kv = List.map (fun t -> match String.index_opt t '=' with
      | Some i -> (String.sub t 0 i, String.sub t (i + 1) (String.length t - i - 1))
      | None -> failwith ("bad state " ^ s)) (split_ws s) in
  let g k = List.assoc k kv in
  { m_vote = (if g "vote" = "-" then None else Some (vote_of_string (g "vote")));
    m_committed = opt_logid_of_string (g "committed");
    m_purged = opt_logid_of_string (g "purged");
    m_log = List.map (fun e -> fst (entry_of_string e)) (inner_list (g "log")) }

let string_of_book (b : book) : string =
  "peers=[" ^ String.concat "," (List.map (fun (k, a) -> dec_of_n k ^ "=" ^ string_of_addr a) b) ^ "]"
let book_of_string (s : string) : book =
  if not (starts_with "peers=" s) then failwith ("bad peers " ^ s) else
  List.map (fun t -> match String.index_opt t '=' with
      | Some i -> (n_of_dec (String.sub t 0 i), addr_of_string (String.sub t (i + 1) (String.length t - i - 1)))
      | None -> failwith ("bad peer " ^ t)) (inner_list (after "peers=" s))

let cfg_of_kvs (kvs : string list) : ncfg =
  let mode = ref Consuming and node = ref (n_of_int 1) and bind = ref (addr_of_string "127.0.0.1:9321") and peers = ref [] in
  List.iter (fun kv ->
      if kv = "mode=replaying" then mode := Replaying
      else if kv = "mode=consuming" then mode := Consuming
      else if starts_with "node=" kv then node := n_of_dec (after "node=" kv)
      else if starts_with "bind=" kv then bind := addr_of_string (after "bind=" kv)
      else if starts_with "peers=" kv then
        peers := List.map addr_of_string (List.filter (fun x -> x <> "") (String.split_on_char ',' (after "peers=" kv)))
      else ()) kvs;
  { c_mode = !mode; c_node = !node; c_bind = !bind; c_peers = !peers }

(* ---------- raftwal: payloads are the case's own tokens ---------- *)
let wal_mode = ref Consuming
let wal_state : string wal ref = ref wal_empty
let wal_ops : string wop list ref = ref []
let token_nonempty (t : string) : bool =
  if t = "-" then false
  else if String.length t > 0 && t.[0] = 'g' then
    (match String.split_on_char ':' t with [_; l] -> l <> "0" | _ -> true)
  else true

let cmd_raftwal line =
  match split_ws line with
  | "CASE" :: _ :: kvs ->
    wal_mode := (if List.mem "mode=replaying" kvs then Replaying else Consuming);
    wal_state := wal_empty; wal_ops := []; "ok"
  | toks ->
    let o = match toks with
      | ["APPEND"; h] -> WAppend h
      | ["APPENDG"; pid; len] -> WAppend ("g" ^ pid ^ ":" ^ len)
      | ["READALL"] -> WReadAll
      | ["REOPEN"] | ["RESTART"] | ["KILL"] -> WReopen
      | _ -> failwith ("bad wal line: " ^ line) in
    wal_ops := !wal_ops @ [o];
    let (w', r) = wal_step !wal_mode token_nonempty !wal_state o in
    wal_state := w';
    let q = if wal_disciplined true !wal_ops then "" else "?" in
    q ^ (match r with
        | WOff n -> "ok:" ^ dec_of_n n
        | WEntries l -> "[" ^ String.concat ";" l ^ "]"
        | WOpened -> "ok")

(* ---------- raftstore ---------- *)
let st_cfg = ref (cfg_of_kvs [])
let st_node = ref (node_init (cfg_of_kvs []))
let st_sm : unit smdata ref = ref (sm_init ())

let sop_of_toks (toks : string list) : sop option =
  match toks with
  | ["SA"; es] -> Some (SAppend (List.map fst (entries_of_string es)))
  | ["ST"; l] -> Some (STruncate (logid_of_string l))
  | ["SP"; l] -> Some (SPurge (logid_of_string l))
  | ["SV"; v] -> Some (SVote (vote_of_string v))
  | ["SC"; c] -> Some (SCommitted (opt_logid_of_string c))
  | ["PEER"; k; a] -> Some (SPeer (n_of_dec k, addr_of_string a))
  | ["REOPEN"] | ["RESTART"] | ["KILL"] -> Some SReopen
  | ["STATE"] -> Some SState
  | ["PEERS"] -> Some SPeers
  | _ -> None

let string_of_apply (before : unit smdata) (after_ : unit smdata) (ok : bool) : string =
  let rec drop k l = if k = 0 then l else match l with [] -> [] | _ :: r -> drop (k - 1) r in
  let cmds = drop (List.length before.sm_cmds) after_.sm_cmds in
  let resp = drop (List.length before.sm_resp) after_.sm_resp in
  Printf.sprintf "%s applied=[%s] resp=[%s] last=%s memb=%s" (if ok then "ok" else "err")
    (String.concat ";" (List.map hex_of_bytes cmds))
    (String.concat ";" (List.map (fun (i, r) -> dec_of_n i ^ ":" ^ hex_of_bytes r) resp))
    (string_of_opt_logid after_.sm_last)
    (match after_.sm_memb with None -> "-" | Some (l, _) -> string_of_logid l)

let cmd_raftstore line =
  match split_ws line with
  | "CASE" :: _ :: kvs ->
    st_cfg := cfg_of_kvs kvs; st_node := node_init !st_cfg; st_sm := sm_init (); "ok"
  | ["APPLY"; es] ->
    let before = !st_sm in
    (* the sink of responses is per call; the adapter's own state lives as long as the process objects *)
    let (st', ok) = sm_apply rec_app before (entries_of_string es) in
    st_sm := st';
    string_of_apply before st' ok
  | toks ->
    (match sop_of_toks toks with
     | None -> failwith ("bad store line: " ^ line)
     | Some o ->
       let (n', r) = node_step !st_cfg !st_node o in
       st_node := n';
       (match o with SReopen -> st_sm := sm_init () | _ -> ());
       (match o, r with
        | SAppend _, XOk -> "ok:flushed"
        | _, XOk -> "ok"
        | _, XPanic -> "panic"
        | _, XErr -> "err"
        | _, XPersisted true -> "ok:persisted"
        | _, XPersisted false -> "ok:same"
        | _, XState m -> string_of_mem m
        | _, XBook b -> string_of_book b))

(* ---------- acceptors over implementation output ---------- *)
let split_arrow (line : string) : string * string =
  let pat = " => " in
  let n = String.length line and m = String.length pat in
  let rec go i = if i + m > n then raise Not_found else if String.sub line i m = pat then i else go (i + 1) in
  let i = go 0 in
  (String.sub line 0 i, String.sub line (i + m) (n - i - m))

exception Unusable   (* died / noinstance / unparsable: never acceptable *)

let sres_of_impl (o : sop) (r : string) : sres =
  match o with
  | SState -> (try XState (mem_of_string r) with _ -> raise Unusable)
  | SPeers -> (try XBook (book_of_string r) with _ -> raise Unusable)
  | SPeer _ -> if r = "ok:persisted" then XPersisted true else if r = "ok:same" then XPersisted false
    else if r = "panic" then XPanic else if starts_with "err" r then XErr else raise Unusable
  | SAppend _ ->
    (* the acknowledgement is the flush callback, not the return value *)
    if r = "ok:flushed" then XOk else if r = "panic:noflush" || r = "panic:flushed" || r = "panic:flusherr" then XPanic
    else if starts_with "ok:" r || starts_with "err" r then XErr else raise Unusable
  | _ -> if r = "ok" then XOk else if r = "panic" then XPanic else if starts_with "err" r then XErr else raise Unusable

(* the recording application's outcome, independent of its state (c19_adapter_meets_spec's premise) *)
let app_ok (d : n list) : n list option = snd (rec_app () d)

let acc_cfg = ref (cfg_of_kvs [])
let acc_trace : (sop * sres) list ref = ref []
let acc_bad = ref false
let acc_c19 = ref true
let acc_applies = ref 0
let acc_last : logid option ref = ref None     (* adapter's last_applied within the current lifetime *)

let check_apply (es : string) (r : string) : bool =
  let ents = entries_of_string es in
  let (((cs, rs), last), ok) = apply_spec app_ok ents in
  let last' = match last with Some l -> Some l | None -> !acc_last in
  acc_last := last';
  (* implementation line: "<ok|err> applied=[..] resp=[..] last=.. memb=.." (memb is compared with the model only) *)
  match split_ws r with
  | [okw; ap; rp; la; _] ->
    okw = (if ok then "ok" else "err")
    && ap = "applied=[" ^ String.concat ";" (List.map hex_of_bytes cs) ^ "]"
    && rp = "resp=[" ^ String.concat ";" (List.map (fun (i, x) -> dec_of_n i ^ ":" ^ hex_of_bytes x) rs) ^ "]"
    && la = "last=" ^ string_of_opt_logid last'
  | _ -> false

let cmd_accept_raft line =
  match split_ws line with
  | "CASE" :: _ :: kvs ->
    acc_cfg := cfg_of_kvs kvs; acc_trace := []; acc_bad := false; acc_c19 := true; acc_applies := 0; acc_last := None;
    (match split_arrow line with
     | (_, r) -> if r <> "ok" then acc_bad := true
     | exception Not_found -> ());
    "-"
  | ["END"] ->
    let tr = List.rev !acc_trace in
    let h = List.map fst tr in
    let ok21 = (not !acc_bad) && c21_ok !acc_cfg tr in
    Printf.sprintf "c21=%s c19=%s known=%d reopens=%d applies=%d"
      (if ok21 then "ok" else "REJECT") (if !acc_c19 then "ok" else "REJECT")
      (if c21_known !acc_cfg h then 1 else 0) (int_of_n (N.of_nat (reopens h))) !acc_applies
  | _ ->
    let (l, r) = try split_arrow line with Not_found -> (line, "<missing>") in
    (match split_ws l with
     | ["APPLY"; es] ->
       incr acc_applies;
       if not (try check_apply es r with _ -> false) then acc_c19 := false
     | toks ->
       (match sop_of_toks toks with
        | None -> acc_bad := true
        | Some o ->
          (match o with SReopen -> acc_last := None | _ -> ());
          (try acc_trace := (o, sres_of_impl o r) :: !acc_trace with Unusable -> acc_bad := true)));
    "-"

let commands : (string * (string -> string)) list = [
  "raftwal", cmd_raftwal;
  "raftstore", cmd_raftstore;
  "accept_raft", cmd_accept_raft;
]
