(* driver.ml — runs the extracted model (Model) on cases read from stdin, one per line,
   and prints one canonical result line per case.  Parsing and printing only.
   Command modules cmd_*.ml contribute further commands through their [commands] lists. *)
open Model
open Util

(* ---------- per-property commands ---------- *)
let cmd_sanitize line =
  match str_of_hex line with
  | None -> "badutf8"
  | Some key -> hex_of_str (sanitize key)

let cmd_sanitize_v0 line =
  match str_of_hex line with
  | None -> "badutf8"
  | Some key -> hex_of_str (sanitize_v0 key)

(* acceptor over implementation output: is this component safe? *)
let cmd_accept_c14 line =
  match str_of_hex line with
  | None -> "badutf8"
  | Some comp -> if safe_component comp then "ok" else "REJECT"

let show_parse = function
  | None -> "none"
  | Some (t, seg) -> hex_of_str t ^ ":" ^ dec_of_n seg

let cmd_walkey line =
  match split_ws line with
  | ["K"; t; seg] ->
    (match str_of_hex t with
     | None -> "badutf8"
     | Some topic ->
       let k = wal_key topic (n_of_dec seg) in
       hex_of_str k ^ " " ^ show_parse (parse_wal_key k))
  | ["P"; s] ->
    (match str_of_hex s with
     | None -> "badutf8"
     | Some k -> show_parse (parse_wal_key k))
  | _ -> "badcase"


(* ---------- engine (C01..C16): same case lines as harness/wh `engine` ---------- *)
let parse_topic (tok : string) : topic =
  if String.length tok > 1 && tok.[0] = 'L' then
    let n = int_of_string (String.sub tok 1 (String.length tok - 1)) in
    { t_id = n_of_int (100000 + n); t_nlen = n_of_int n }
  else if String.length tok > 1 && tok.[0] = 't' then
    { t_id = n_of_int (int_of_string (String.sub tok 1 (String.length tok - 1))); t_nlen = n_of_int (String.length tok) }
  else failwith ("bad topic " ^ tok)

(* a zero-length out still names its entry and the trim that emptied it: the acceptors need
   that; the implementation side cannot know it and prints e:_:0:0, the two are matched by the
   hash of the (empty) bytes *)
let show_out (o : out) : string =
  Printf.sprintf "e:%s:%s:%s" (dec_of_n o.o_pid) (dec_of_n o.o_skip) (dec_of_n o.o_len)

let show_result (r : result) : string =
  match r with
  | ROk -> "ok"
  | RErr EInvalidInput -> "err:InvalidInput"
  | RErr EInvalidData -> "err:InvalidData"
  | RErr EWouldBlock -> "err:WouldBlock"
  | RErr EOther -> "err:Other"
  | RPanic -> "panic"
  | RNone -> "none"
  | REntry o -> show_out o
  | REntries os -> "[" ^ String.concat ";" (List.map show_out os) ^ "]"
  | RNum n -> "n:" ^ dec_of_n n

let eng_state = ref init
let eng_env = ref { v_cfg = real_cfg; v_mode = Strict; v_backend = Fd }

let starts_with p s = String.length s >= String.length p && String.sub s 0 (String.length p) = p
let after p s = String.sub s (String.length p) (String.length s - String.length p)

let parse_items (s : string) : entry list =
  if s = "-" then [] else
  List.map (fun it -> match String.split_on_char ':' it with
    | [p; l] -> { e_pid = n_of_dec p; e_len = n_of_dec l }
    | _ -> failwith "bad item") (String.split_on_char ',' s)

let cmd_engine line =
  match split_ws line with
  | "CASE" :: _ :: kvs ->
    let cfg = ref real_cfg and mode = ref Strict and be = ref Fd in
    List.iter (fun kv ->
      if starts_with "mode=alo:" kv then mode := ALO (n_of_dec (after "mode=alo:" kv))
      else if kv = "mode=strict" then mode := Strict
      else if kv = "backend=mmap" then be := Mmap
      else if kv = "backend=fd" then be := Fd
      else if kv = "geom=small" then cfg := small_cfg
      else if kv = "geom=real" then cfg := real_cfg
      else ()) kvs;
    eng_env := { v_cfg = !cfg; v_mode = !mode; v_backend = !be };
    eng_state := init;
    "ok"
  | toks ->
    let o, tid = match toks with
      | ["A"; t; pid; len] -> let t = parse_topic t in OAppend (t, { e_pid = n_of_dec pid; e_len = n_of_dec len }), Some t.t_id
      | ["B"; t; items] -> let t = parse_topic t in OBatch (t, parse_items items), Some t.t_id
      | ["BN"; t; p0; n; len] ->
        let t = parse_topic t in
        let p0 = int_of_string p0 and n = int_of_string n in
        OBatch (t, List.init n (fun k -> { e_pid = n_of_int (p0 + k); e_len = n_of_dec len })), Some t.t_id
      | ["R"; t; ck] -> let t = parse_topic t in ORead (t, ck = "1"), Some t.t_id
      | ["BR"; t; budget; ck; start] ->
        let t = parse_topic t in
        let b = if budget = "max" then n_of_dec "18446744073709551615" else n_of_dec budget in
        OBatchRead (t, b, ck = "1", (if start = "-" then None else Some (n_of_dec start))), Some t.t_id
      | ["C"; t] -> let t = parse_topic t in OCount t, Some t.t_id
      | ["REOPEN"] | ["RESTART"] -> OReopen, None
      | _ -> failwith ("bad engine line: " ^ line) in
    let drift = (o = OReopen) && id_drift !eng_env.v_cfg !eng_state in
    let stale = (o = OReopen) && stale_tail_b !eng_state in
    let pre = match tid with Some t -> unmodelled !eng_state t | None -> false in
    let (s', r) = step !eng_env !eng_state o in
    eng_state := s';
    let post = match tid with Some t -> unmodelled s' t | None -> any_unmodelled s' in
    (if pre || post then "?" else "") ^ show_result r ^ (if drift then "!drift" else "") ^ (if stale then "!stale" else "")


(* ---------- acceptors over implementation traces ----------
   input lines: "<engine case line> => <implementation result line>"; one output line per
   CASE: "<case id> c01=<ok|REJECT> c03=.. c15=.. c02b=.. c02c=.. c06alo=.." *)
let parse_out_tok (tok : string) : out =
  match String.split_on_char ':' tok with
  | "e" :: pid :: skip :: len :: _ ->
    let p = if pid = "_" then N0 else if pid = "X" then n_of_dec "18446744073709551615" else n_of_dec pid in
    { o_pid = p; o_skip = n_of_dec skip; o_len = n_of_dec len }
  | _ -> failwith ("bad out " ^ tok)

let parse_result (s : string) : result =
  if s = "ok" then ROk
  else if s = "none" then RNone
  else if s = "panic" then RPanic
  else if s = "err:InvalidInput" then RErr EInvalidInput
  else if s = "err:InvalidData" then RErr EInvalidData
  else if s = "err:WouldBlock" then RErr EWouldBlock
  else if starts_with "err:" s then RErr EOther
  else if starts_with "n:" s then RNum (n_of_dec (after "n:" s))
  else if starts_with "e:" s then REntry (parse_out_tok s)
  else if starts_with "[" s then
    let inner = String.sub s 1 (String.length s - 2) in
    if inner = "" then REntries [] else REntries (List.map parse_out_tok (String.split_on_char ';' inner))
  else RPanic   (* died, noinstance, missing output: never acceptable *)

let parse_op (line : string) : op option =
  match split_ws line with
  | ["A"; t; pid; len] -> Some (OAppend (parse_topic t, { e_pid = n_of_dec pid; e_len = n_of_dec len }))
  | ["B"; t; items] -> Some (OBatch (parse_topic t, parse_items items))
  | ["BN"; t; p0; n; len] ->
    let p0 = int_of_string p0 and n = int_of_string n in
    Some (OBatch (parse_topic t, List.init n (fun k -> { e_pid = n_of_int (p0 + k); e_len = n_of_dec len })))
  | ["R"; t; ck] -> Some (ORead (parse_topic t, ck = "1"))
  | ["BR"; t; budget; ck; start] ->
    let b = if budget = "max" then n_of_dec "18446744073709551615" else n_of_dec budget in
    Some (OBatchRead (parse_topic t, b, ck = "1", (if start = "-" then None else Some (n_of_dec start))))
  | ["C"; t] -> Some (OCount (parse_topic t))
  | ["REOPEN"] | ["RESTART"] -> Some OReopen
  | _ -> None

let split_arrow (line : string) : string * string =
  let pat = " => " in
  let n = String.length line and m = String.length pat in
  let rec go i = if i + m > n then raise Not_found else if String.sub line i m = pat then i else go (i + 1) in
  let i = go 0 in
  (String.sub line 0 i, String.sub line (i + m) (n - i - m))

let run_accept () =
  let cur_id = ref "" and cur = ref [] and have = ref false in
  let cap = real_cfg.c_max_entries in
  let flush_case () =
    if !have then begin
      let tr = List.rev !cur in
      let b x = if x then "ok" else "REJECT" in
      Printf.printf "%s c01=%s c03=%s c15=%s c02b=%s c02c=%s c06alo=%s\n" !cur_id
        (b (c01_ok tr)) (b (c03_ok cap tr)) (b (c15_ok tr)) (b (c02b_ok tr)) (b (c02c_ok tr)) (b (c06alo_ok tr))
    end in
  (try
    while true do
      let line = input_line stdin in
      let (l, r) = try split_arrow line with Not_found -> (line, "") in
      match split_ws l with
      | "CASE" :: id :: _ -> flush_case (); cur_id := id; cur := []; have := true
      | _ -> (match parse_op l with
              | Some o -> cur := (o, parse_result r) :: !cur
              | None -> ())
    done
  with End_of_file -> ());
  flush_case ();
  flush stdout

let commands : (string * (string -> string)) list = [
  "sanitize", cmd_sanitize;
  "sanitize_v0", cmd_sanitize_v0;
  "accept_c14", cmd_accept_c14;
  "walkey", cmd_walkey;
  "engine", cmd_engine;
] @ Cmd_crash.commands @ Cmd_frame.commands @ Cmd_meta.commands @ Cmd_raft.commands @ Cmd_hdr.commands @ Cmd_durable.commands @ Cmd_clean.commands @ Cmd_trk.commands @ Cmd_cluster.commands @ Cmd_conc.commands

let () =
  let cmd = Sys.argv.(1) in
  if cmd = "accept" then (run_accept (); exit 0);
  let f = try List.assoc cmd commands with Not_found -> (prerr_endline ("unknown command " ^ cmd); exit 2) in
  (try
    while true do
      let line = input_line stdin in
      print_string (f line); print_char '\n'
    done
  with End_of_file -> ());
  flush stdout
