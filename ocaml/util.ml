(* util.ml — conversions shared by the driver's command modules (parsing/printing only). *)
open Model

(* ---------- conversions ---------- *)
let rec pos_of_int (i : int) : positive =
  if i = 1 then XH else if i land 1 = 0 then XO (pos_of_int (i lsr 1)) else XI (pos_of_int (i lsr 1))
let n_of_int (i : int) : n = if i = 0 then N0 else Npos (pos_of_int i)
let rec int_of_pos = function XH -> 1 | XO p -> 2 * int_of_pos p | XI p -> 2 * int_of_pos p + 1
let int_of_n = function N0 -> 0 | Npos p -> int_of_pos p

let n10 = n_of_int 10
(* decimal string <-> N, for values beyond OCaml's 63-bit ints *)
let n_of_dec (s : string) : n =
  let acc = ref N0 in
  String.iter (fun c -> acc := N.add (N.mul !acc n10) (n_of_int (Char.code c - 48))) s;
  !acc
let dec_of_n (x : n) : string =
  if x = N0 then "0" else begin
    let b = Buffer.create 24 in
    let rec go x = if x = N0 then () else begin
      go (N.div x n10); Buffer.add_char b (Char.chr (48 + int_of_n (N.modulo x n10))) end in
    go x; Buffer.contents b end

let rec nat_of_int (i : int) : nat = if i = 0 then O else S (nat_of_int (i - 1))

let hexval c = match c with
  | '0'..'9' -> Char.code c - 48 | 'a'..'f' -> Char.code c - 87 | 'A'..'F' -> Char.code c - 55
  | _ -> failwith "bad hex"
(* "-" denotes the empty byte string *)
let bytes_of_hex (s : string) : n list =
  if s = "-" then [] else
  let l = String.length s / 2 in
  List.init l (fun i -> n_of_int (hexval s.[2*i] * 16 + hexval s.[2*i+1]))
let hex_of_bytes (bs : n list) : string =
  if bs = [] then "-" else String.concat "" (List.map (fun b -> Printf.sprintf "%02x" (int_of_n b)) bs)

(* strings travel as hex of their UTF-8 bytes; the model works on scalar values, the
   conversion is the model's own codec *)
let str_of_hex (s : string) : n list option = utf8_decode (bytes_of_hex s)
let hex_of_str (s : n list) : string = hex_of_bytes (utf8_encode s)

let split_ws (s : string) : string list =
  List.filter (fun x -> x <> "") (String.split_on_char ' ' s)

