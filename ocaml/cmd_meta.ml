(* cmd_meta.ml — driver commands for C18 / C20 (metadata state machine, bincode codec,
   Raft state-machine adapter).  Parsing and printing only; everything that decides
   anything is the extracted model (Model.apply, snapshot, restore, dec_cluster, ...) or an
   extracted acceptor (c18_ok, c20_snap_ok, cluster_eqb).

   meta / meta_oc : same line protocol and output format as `dwh meta`
                    (meta = wrapping arithmetic = release profile, meta_oc = overflow
                    checks on = dev profile)
   meta_canon     : rewrites every `snap:<hex>:..` token of an output line to the model's
                    canonical (sorted) encoding of what the bytes decode to, so that outputs
                    can be diffed although HashMap iteration order is arbitrary
   accept_c18     : acceptor over the dumps of one output line
   accept_c20     : acceptor over every `dump snap dump` triple of one output line
   accept_c20_pair: `<out A> | <out B>`: B's case is A's with `S D` inserted after some D;
                    everything else must be equal
   known_c18      : is the case in the known class (sum overflow)?  computed from the case
   adapter        : model-only run of the Raft adapter (sender ; receiver)
   accept_c20_adapter : acceptor over an `adapter` output line *)
open Model
open Util

exception Bad of string

let strict_unhex (s : string) : n list =
  if s = "-" then [] else begin
    let l = String.length s in
    if l = 0 || l mod 2 <> 0 then raise (Bad "badcase");
    String.iter (fun c -> match c with '0'..'9' | 'a'..'f' -> () | _ -> raise (Bad "badcase")) s;
    bytes_of_hex s
  end

let u64max = n_of_dec "18446744073709551615"

let num_arg (s : string) : n =
  if s = "" then raise (Bad "badcase");
  String.iter (fun c -> match c with '0'..'9' -> () | _ -> raise (Bad "badcase")) s;
  (* strip leading zeros so that the length test below is meaningful *)
  let i = ref 0 in
  while !i < String.length s - 1 && s.[!i] = '0' do incr i done;
  let t = String.sub s !i (String.length s - !i) in
  if String.length t > 20 then raise (Bad "badcase");
  let v = n_of_dec t in
  if N.leb v u64max then v else raise (Bad "badcase")

let text_arg (s : string) : n list =
  let b = strict_unhex s in
  match utf8_decode b with Some t -> t | None -> raise (Bad "badutf8")

type item =
  | ICmd of cmd
  | IApply of n list
  | ISnap
  | IRestore of n list
  | IDump
  | IQuery of n list

let parse_item (tok : string) : item =
  match String.split_on_char ':' tok with
  | ["C"; name; leader] -> let nm = text_arg name in let l = num_arg leader in ICmd (CreateTopic (nm, l))
  | ["R"; name; leader; count] ->
    let nm = text_arg name in let l = num_arg leader in let c = num_arg count in ICmd (RolloverTopic (nm, l, c))
  | ["U"; node; addr] -> let id = num_arg node in let a = text_arg addr in ICmd (UpsertNode (id, a))
  | ["A"; b] -> IApply (strict_unhex b)
  | ["S"] -> ISnap
  | ["X"; b] -> IRestore (strict_unhex b)
  | ["D"] -> IDump
  | ["Q"; name] -> IQuery (text_arg name)
  | _ -> raise (Bad "badcase")

(* first malformed item (left to right) decides, before anything is executed *)
let parse_items (line : string) : item list =
  let toks = List.filter (fun x -> x <> "") (String.split_on_char ' ' (String.concat " " (String.split_on_char '\t' line))) in
  List.map parse_item toks

let show_res = function
  | MOk b -> "ok:" ^ hex_of_bytes b
  | MErr -> "err"
  | MPanic _ -> "panic"

let show_pairs (l : (n * n) list) : string =
  "[" ^ String.concat ";" (List.map (fun (k, v) -> dec_of_n k ^ ":" ^ dec_of_n v) l) ^ "]"

let show_cluster (c : cluster) : string =
  let topics = List.map (fun (name, t) ->
    Printf.sprintf "%s=%s,%s,%s,%s,%s" (hex_of_str name) (dec_of_n t.t_cur) (dec_of_n t.t_leader)
      (dec_of_n t.t_last) (show_pairs t.t_sealed) (show_pairs t.t_leaders)) c.c_topics in
  let nodes = List.map (fun (id, a) -> dec_of_n id ^ ":" ^ hex_of_str a) c.c_nodes in
  "state{" ^ String.concat "/" topics ^ "|" ^ String.concat "/" nodes ^ "}"

let run_meta_gen (app : mstate -> n list -> mstate * res) (line : string) : string =
  match (try Ok (parse_items line) with Bad s -> Error s) with
  | Error s -> s
  | Ok items ->
    let st = ref m_init in
    let out = List.map (fun it ->
      match it with
      | ICmd c ->
        let bytes = enc_cmd c in
        let (s', r) = app !st bytes in
        st := s'; hex_of_bytes bytes ^ "=" ^ show_res r
      | IApply bytes ->
        let (s', r) = app !st bytes in
        st := s'; show_res r
      | ISnap ->
        let (f, (snap, ok)) = snap_item !st in
        st := f; "snap:" ^ hex_of_bytes snap ^ ":" ^ (if ok then "ok" else "err")
      | IRestore bytes ->
        let (s', ok) = restore !st bytes in
        st := s'; "restore:" ^ (if ok then "ok" else "err")
      | IDump -> show_cluster (visible !st)
      | IQuery name ->
        (match get_topic_state !st name with
         | None -> "q:none"
         | Some t -> Printf.sprintf "q:%s,%s,%s" (dec_of_n t.t_cur) (dec_of_n t.t_leader) (dec_of_n t.t_last))) items in
    String.concat " " out

let run_meta (oc : bool) : string -> string = run_meta_gen (apply oc)
(* metadata.rs with PROPOSED_FIX.diff applied (checked_add, Err instead of overflow) *)
let run_meta_fx : string -> string = run_meta_gen apply_fx

(* ---------- parsing output lines back ---------- *)
let starts_with p s = String.length s >= String.length p && String.sub s 0 (String.length p) = p

let parse_pairs (s : string) : (n * n) list =
  (* "[k:v;k:v]" *)
  let l = String.length s in
  if l < 2 || s.[0] <> '[' || s.[l-1] <> ']' then failwith "bad pairs";
  let body = String.sub s 1 (l - 2) in
  if body = "" then [] else
  List.map (fun kv -> match String.split_on_char ':' kv with
    | [k; v] -> (n_of_dec k, n_of_dec v)
    | _ -> failwith "bad pair") (String.split_on_char ';' body)

let str_of_hex_exn (h : string) : n list =
  match str_of_hex h with Some s -> s | None -> failwith "bad utf8 in dump"

let parse_cluster (tok : string) : cluster =
  (* format: the word state, then topics and nodes in braces separated by a bar *)
  let l = String.length tok in
  if not (starts_with "state{" tok) || tok.[l-1] <> '}' then failwith "bad dump";
  let body = String.sub tok 6 (l - 7) in
  match String.split_on_char '|' body with
  | [ts; ns] ->
    let topics = if ts = "" then [] else List.map (fun t ->
      match String.split_on_char '=' t with
      | [name; rest] ->
        (match String.split_on_char ',' rest with
         | [cur; leader; last; sealed; leaders] ->
           (str_of_hex_exn name,
            { t_cur = n_of_dec cur; t_leader = n_of_dec leader; t_last = n_of_dec last;
              t_sealed = parse_pairs sealed; t_leaders = parse_pairs leaders })
         | _ -> failwith "bad topic")
      | _ -> failwith "bad topic") (String.split_on_char '/' ts) in
    let nodes = if ns = "" then [] else List.map (fun x ->
      match String.split_on_char ':' x with
      | [id; a] -> (n_of_dec id, str_of_hex_exn a)
      | _ -> failwith "bad node") (String.split_on_char '/' ns) in
    { c_topics = topics; c_nodes = nodes }
  | _ -> failwith "bad dump"

let tokens (line : string) : string list = List.filter (fun x -> x <> "") (String.split_on_char ' ' line)

let parse_snap (tok : string) : (n list * bool) =
  match String.split_on_char ':' tok with
  | ["snap"; h; ok] -> (bytes_of_hex h, ok = "ok")
  | _ -> failwith "bad snap token"

let cmd_meta_canon (line : string) : string =
  String.concat " " (List.map (fun t ->
    if starts_with "snap:" t then
      (try
        let (b, ok) = parse_snap t in
        (match dec_cluster b with
         | Some (c, []) -> "snap:" ^ hex_of_bytes (enc_cluster c) ^ ":" ^ (if ok then "ok" else "err")
         | _ -> t)
      with _ -> t)
    else t) (tokens line))

let is_panic_tok (t : string) : bool =
  t = "panic" || (String.length t > 6 && String.sub t (String.length t - 6) 6 = "=panic")

let cmd_accept_c18 (line : string) : string =
  try
    if List.exists is_panic_tok (tokens line) then "REJECT panic" else
    let dumps = List.map parse_cluster (List.filter (starts_with "state{") (tokens line)) in
    if c18_ok dumps then "ok" else "REJECT"
  with Failure m -> "REJECT unparsable: " ^ m

let cmd_accept_c20 (line : string) : string =
  try
    let rec go (ts : string list) (n : int) : string =
      match ts with
      | d1 :: s :: d2 :: rest when starts_with "state{" d1 && starts_with "snap:" s ->
        if not (starts_with "state{" d2) then "REJECT no dump after snap" else begin
          let (b, ok) = parse_snap s in
          if c20_snap_ok (parse_cluster d1) b ok (parse_cluster d2) then go (d2 :: rest) (n + 1)
          else "REJECT"
        end
      | s :: _ when starts_with "snap:" s -> "REJECT snap without dump before"
      | _ :: rest -> go rest n
      | [] -> "ok " ^ string_of_int n in
    go (tokens line) 0
  with Failure m -> "REJECT unparsable: " ^ m

(* strip every `snap:..` token together with the dump that follows it *)
let rec strip_snaps = function
  | s :: d :: rest when starts_with "snap:" s && starts_with "state{" d -> strip_snaps rest
  | x :: rest -> x :: strip_snaps rest
  | [] -> []

let cmd_accept_c20_pair (line : string) : string =
  begin
    let pat = " || " in
    let n = String.length line and m = String.length pat in
    let rec find i = if i + m > n then -1 else if String.sub line i m = pat then i else find (i + 1) in
    let i = find 0 in
    if i < 0 then "REJECT no separator" else
    let a = tokens (String.sub line 0 i) and b = strip_snaps (tokens (String.sub line (i + m) (n - i - m))) in
    try
      let same x y =
        if starts_with "state{" x && starts_with "state{" y then cluster_eqb (parse_cluster x) (parse_cluster y)
        else x = y in
      if List.length a = List.length b && List.for_all2 same a b then "ok" else "REJECT"
    with Failure msg -> "REJECT unparsable: " ^ msg
  end

(* the apply inputs of a case, for the known-class predicate *)
let cmd_known_c18 (line : string) : string =
  match (try Ok (parse_items line) with Bad s -> Error s) with
  | Error s -> s
  | Ok items ->
    (* S (snapshot -> fresh restore) does not change what is applied; X replaces the state *)
    let pure = List.for_all (function ICmd _ | IApply _ | IDump | IQuery _ | ISnap -> true | _ -> false) items in
    let inputs = List.filter_map (function ICmd c -> Some (enc_cmd c) | IApply b -> Some b | _ -> None) items in
    if not pure then "n/a" else if sum_overflow inputs then "sum_overflow" else "outside"

(* ---------- Raft adapter (model only) ---------- *)
let entries_of (items : item list) : (n * payload) list =
  List.mapi (fun i it ->
    let idx = n_of_int (i + 1) in
    match it with
    | ICmd c -> (idx, Normal (enc_cmd c))
    | IApply b -> (idx, Normal b)
    | _ -> (idx, Blank)) items

let show_last = function None -> "none" | Some i -> dec_of_n i

(* `<sender items> ; <receiver items>`: both start fresh and apply their items as Normal log
   entries 1..n (D/Q/S/X stand for Blank entries); the sender builds a snapshot, the
   receiver installs it. *)
let run_adapter (oc : bool) (line : string) : string =
  match String.split_on_char ';' line with
  | [sl; rl] ->
    (match (try Ok (parse_items sl, parse_items rl) with Bad s -> Error s) with
     | Error s -> s
     | Ok (si, ri) ->
       let (snd_a, _) = a_apply oc a_init (entries_of si) in
       let (rcv_a, _) = a_apply oc a_init (entries_of ri) in
       let (snd_a, snap) = build_snapshot snd_a in
       let (rcv_a', ok) = install_snapshot rcv_a snap in
       Printf.sprintf "snapdata=%s install=%s sender=%s receiver_before=%s receiver=%s sender_last=%s receiver_last=%s"
         (hex_of_bytes (snd snap)) (if ok then "ok" else "err")
         (show_cluster (a_visible snd_a)) (show_cluster (a_visible rcv_a)) (show_cluster (a_visible rcv_a'))
         (show_last snd_a.a_last) (show_last rcv_a'.a_last))
  | _ -> "badcase"

let field (name : string) (line : string) : string =
  let p = name ^ "=" in
  match List.filter (starts_with p) (tokens line) with
  | t :: _ -> String.sub t (String.length p) (String.length t - String.length p)
  | [] -> failwith ("missing " ^ name)

(* the receiver must end up with exactly the sender's application metadata *)
let cmd_accept_c20_adapter (line : string) : string =
  try
    let s = parse_cluster (field "sender" line) and r = parse_cluster (field "receiver" line) in
    if cluster_eqb s r then "ok" else "REJECT"
  with Failure m -> "REJECT unparsable: " ^ m

(* canonical form of arbitrary state bytes: decode, print, re-encode *)
let cmd_decode_state (line : string) : string =
  match (try Some (strict_unhex line) with Bad _ -> None) with
  | None -> "badcase"
  | Some b ->
    (match dec_cluster b with
     | None -> "undecodable"
     | Some (c, rest) -> show_cluster c ^ " rest=" ^ string_of_int (List.length rest) ^ " canon=" ^ hex_of_bytes (enc_cluster c))

(* bytes of a state given as a dump, its maps written in the order given (any listing,
   duplicates allowed): the model's encoder applied to the listing as it stands *)
let cmd_encode_state (line : string) : string =
  try hex_of_bytes (enc_cluster (parse_cluster line)) with Failure m -> "badcase"

let commands : (string * (string -> string)) list = [
  "encode_state", cmd_encode_state;
  "meta", run_meta false;
  "meta_oc", run_meta true;
  "meta_fx", run_meta_fx;
  "meta_canon", cmd_meta_canon;
  "accept_c18", cmd_accept_c18;
  "accept_c20", cmd_accept_c20;
  "accept_c20_pair", cmd_accept_c20_pair;
  "known_c18", cmd_known_c18;
  "adapter", run_adapter false;
  "adapter_oc", run_adapter true;
  "accept_c20_adapter", cmd_accept_c20_adapter;
  "decode_state", cmd_decode_state;
]
