(* cmd_meta.ml — driver commands (filled in by the corresponding property's machinery) *)
open Model
open Util

let commands : (string * (string -> string)) list = []
