(* cmd_durable.ml — C10: the extracted durability model (model/Durable.v) and acceptors
   (spec/PowerLoss.v) over recorded I/O traces.  Parsing and printing only.
   Fields are separated by " | ".
   Trace: events separated by ';' —  C f | L f n | W f off len id os | S f | D | T f len id |
          R a b | X f | A id | AR x id        (files and data-ids are numbers)
   Pairs: "t:x,t:x" (temporary name : final name), or "-". *)
open Model
open Util

let split_bar (s : string) : string list =
  List.map String.trim (Str.split_delim (Str.regexp_string " | ") s)

let nn = n_of_dec

let parse_ev (s : string) : ev =
  match split_ws s with
  | ["C"; f] -> ECreate (nn f)
  | ["L"; f; n] -> ESetLen (nn f, nn n)
  | ["W"; f; off; len; id; os] -> EWrite (nn f, nn off, nn len, nn id, os = "1")
  | ["S"; f] -> ESyncFile (nn f)
  | ["D"] -> ESyncDir
  | ["T"; f; len; id] -> ETmpWrite (nn f, nn len, nn id)
  | ["R"; a; b] -> ERename (nn a, nn b)
  | ["X"; f] -> ERemove (nn f)
  | ["A"; id] -> EAck (nn id)
  | ["AR"; x; id] -> EAckRead (nn x, nn id)
  | _ -> failwith ("bad event: " ^ s)

let parse_trace (s : string) : ev list =
  if s = "-" || s = "" then [] else
  List.map parse_ev (List.filter (fun x -> String.trim x <> "") (String.split_on_char ';' s))

let parse_pairs (s : string) : (n * n) list =
  if s = "-" || s = "" then [] else
  List.map (fun p -> match String.split_on_char ':' p with
    | [t; x] -> (nn t, nn x) | _ -> failwith "bad pair") (String.split_on_char ',' s)

let bits (s : string) : bool list =
  if s = "-" then [] else List.init (String.length s) (fun i -> s.[i] = '1')

let rec firstn k l = if k = 0 then [] else match l with [] -> [] | x :: r -> x :: firstn (k - 1) r

(* protocol predicate: "ok" or "stop:<index of the first event the monitor refuses>" *)
let cmd_proto line = match split_bar line with
  | [fixed; pairs; tr] ->
    let fixed = fixed = "1" and pairs = parse_pairs pairs and tr = parse_trace tr in
    if proto_ok fixed pairs tr then "ok"
    else (match mrun_stop fixed (dm_init pairs) tr O with
          | Some n -> "stop:" ^ string_of_int (int_of_n (N.of_nat n))
          | None -> "badpairs")
  | _ -> "badcase"

let show_fop (i, o) = match o with
  | FWrite (off, len, id) -> Printf.sprintf "%s:W:%s:%s:%s" (dec_of_n i) (dec_of_n off) (dec_of_n len) (dec_of_n id)
  | FSetLen n -> Printf.sprintf "%s:L:%s" (dec_of_n i) (dec_of_n n)
let show_dop = function
  | DLink (f, i) -> Printf.sprintf "K:%s:%s" (dec_of_n f) (dec_of_n i)
  | DRename (a, b, i) -> Printf.sprintf "R:%s:%s:%s" (dec_of_n a) (dec_of_n b) (dec_of_n i)
  | DUnlink f -> Printf.sprintf "U:%s" (dec_of_n f)

(* state after the first k events: the unsynced operations, in the order [pick] consumes its bits
   (newest first):  "uf=<n> ud=<m> | <unsynced file ops> | <unsynced dir ops>" *)
let cmd_state line = match split_bar line with
  | [k; tr] ->
    let s = drun (firstn (int_of_string k) (parse_trace tr)) in
    let uf = List.filter (fun (b, _) -> not b) s.d_fops and ud = List.filter (fun (b, _) -> not b) s.d_dops in
    let j l = if l = [] then "-" else String.concat "," l in
    (* a rename is shown with the data-id of the (first) write on the inode it moves: R:a:b:ino:id *)
    let ver i = match List.filter (fun (_, (j, o)) -> j = i && (match o with FWrite _ -> true | _ -> false)) (List.rev s.d_fops) with
      | (_, (_, FWrite (_, _, id))) :: _ -> dec_of_n id | _ -> "0" in
    let show_d d = match d with DRename (_, _, i) -> show_dop d ^ ":" ^ ver i | _ -> show_dop d in
    Printf.sprintf "uf=%d ud=%d | %s | %s" (List.length uf) (List.length ud)
      (j (List.map (fun (_, x) -> show_fop x) uf)) (j (List.map (fun (_, x) -> show_d x) ud))
  | _ -> "badcase"

(* outcomes.  input: k | names | acked writes "f:off:len:id,..." | trace | fbits/dbits ; fbits/dbits ; ...
   output, per choice, joined by " || ":
     dir:<name>=<ino or ->,... # files:<ino>:<kept ops oldest first, '+' separated>;... # refl:<0/1 per acked write> # ver:<name>=<id|none|torn>,... *)
let cmd_outcomes line = match split_bar line with
  | [k; names; acks; tr; choices] ->
    let s = drun (firstn (int_of_string k) (parse_trace tr)) in
    let names = if names = "-" then [] else List.map nn (String.split_on_char ',' names) in
    let acks = if acks = "-" then [] else
      List.map (fun a -> match String.split_on_char ':' a with
        | [f; off; len; id] -> (nn f, nn off, nn len, nn id) | _ -> failwith "bad ack") (String.split_on_char ',' acks) in
    let one ch =
      let fb, db = match String.split_on_char '/' (String.trim ch) with
        | [a; b] -> bits a, bits b | _ -> failwith "bad choice" in
      let o = pick_outcome fb db s in
      let dir = List.map (fun f -> (f, dlook o.o_dops f)) names in
      let inos = List.sort_uniq compare (List.filter_map (fun (_, i) -> i) dir) in
      let files = List.map (fun i ->
        let ops = List.rev (List.filter (fun (j, _) -> j = i) o.o_fops) in
        dec_of_n i ^ ":" ^ (if ops = [] then "-" else String.concat "+" (List.map (fun (_, op) -> match op with
          | FWrite (off, len, id) -> Printf.sprintf "W.%s.%s.%s" (dec_of_n off) (dec_of_n len) (dec_of_n id)
          | FSetLen n -> Printf.sprintf "L.%s" (dec_of_n n)) ops))) inos in
      let refl = List.map (fun (f, off, len, id) -> if reflected_ends o f off len id then "1" else "0") acks in
      let ver = List.map (fun f -> dec_of_n f ^ "=" ^ (match version_of o f with
        | None -> "none" | Some None -> "torn" | Some (Some id) -> dec_of_n id)) names in
      Printf.sprintf "dir:%s # files:%s # refl:%s # ver:%s"
        (String.concat "," (List.map (fun (f, i) -> dec_of_n f ^ "=" ^ (match i with Some i -> dec_of_n i | None -> "-")) dir))
        (if files = [] then "-" else String.concat ";" files)
        (if refl = [] then "-" else String.concat "" refl)
        (if ver = [] then "-" else String.concat "," ver) in
    String.concat " || " (List.map one (List.filter (fun x -> String.trim x <> "") (String.split_on_char ';' choices)))
  | _ -> "badcase"

(* acceptors (spec/PowerLoss.v): which | acked | inflight | deliv | rec | gap *)
let b x = if x then "ok" else "REJECT"
let cmd_accept line = match split_bar line with
  | [which; a; i; d; r; gap] ->
    let gap = nat_of_int (int_of_string gap) in
    let a = Cmd_crash.items a and i = Cmd_crash.items i and d = Cmd_crash.outs d and r = Cmd_crash.outs r in
    if which = "strict" then b (c10_strict_ok a i d r gap) else b (c10_appends_ok a i d r gap)
  | _ -> "badcase"

let commands : (string * (string -> string)) list = [
  "c10_proto", cmd_proto; "c10_state", cmd_state; "c10_outcomes", cmd_outcomes; "accept_c10", cmd_accept;
]
