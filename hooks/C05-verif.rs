
// ---------------------------------------------------------------------------------------
// Scheduling points (deterministic thread interleaving for the external verification
// harness).  `yield_point(site)` is called at every boundary between two lock regions of
// the append and read paths.  Without an installed controller, or on a thread that did not
// register, it returns at once.  With a controller the calling thread parks at the site
// until the controller hands it the turn: exactly one registered thread runs between two
// scheduling points, the others stay parked (holding whatever locks they hold there).

struct Turnstile {
    installed: bool,
    free: bool,
    turn: Option<usize>,
    arrivals: Vec<u64>,
    site: Vec<&'static str>,
    parked: Vec<bool>,
    done: Vec<bool>,
}

static TURNSTILE: std::sync::Mutex<Turnstile> = std::sync::Mutex::new(Turnstile {
    installed: false,
    free: false,
    turn: None,
    arrivals: Vec::new(),
    site: Vec::new(),
    parked: Vec::new(),
    done: Vec::new(),
});
static TURN_CV: std::sync::Condvar = std::sync::Condvar::new();
thread_local! { static SCHED_TID: std::cell::Cell<usize> = const { std::cell::Cell::new(usize::MAX) }; }

#[derive(Clone, Copy, PartialEq, Eq, Debug)]
pub enum StepOutcome {
    /// the thread ran and parked again at this site
    Parked(&'static str),
    /// the thread ran to its end
    Finished,
    /// the thread did not reach a scheduling point within the time limit (blocked on a lock
    /// held by a parked thread)
    Blocked,
}

fn turnstile() -> std::sync::MutexGuard<'static, Turnstile> {
    TURNSTILE.lock().unwrap_or_else(|e| e.into_inner())
}

/// Install a controller for `n` threads (ids 0..n).  Threads register themselves.
pub fn sched_install(n: usize) {
    let mut t = turnstile();
    t.installed = true;
    t.free = false;
    t.turn = None;
    t.arrivals = vec![0; n];
    t.site = vec![""; n];
    t.parked = vec![false; n];
    t.done = vec![false; n];
}

/// Remove the controller; parked threads (if any) run freely.
pub fn sched_uninstall() {
    let mut t = turnstile();
    t.installed = false;
    t.free = true;
    t.turn = None;
    TURN_CV.notify_all();
}

/// Called by a worker thread before its first scheduling point.
pub fn sched_register(tid: usize) {
    SCHED_TID.with(|c| c.set(tid));
}

/// Called by a worker thread when it has nothing more to do.
pub fn sched_done() {
    let tid = SCHED_TID.with(|c| c.get());
    SCHED_TID.with(|c| c.set(usize::MAX));
    if tid == usize::MAX {
        return;
    }
    let mut t = turnstile();
    if t.installed && tid < t.done.len() {
        t.done[tid] = true;
        if t.turn == Some(tid) {
            t.turn = None;
        }
        TURN_CV.notify_all();
    }
}

/// From now on every scheduling point is passed without waiting (used to unwind a case
/// whose schedule could not be followed).
pub fn sched_release_all() {
    let mut t = turnstile();
    t.free = true;
    TURN_CV.notify_all();
}

pub fn yield_point(site: &'static str) {
    let tid = SCHED_TID.with(|c| c.get());
    if tid == usize::MAX {
        return;
    }
    let mut t = turnstile();
    if !t.installed || t.free || tid >= t.parked.len() {
        return;
    }
    t.arrivals[tid] += 1;
    t.site[tid] = site;
    t.parked[tid] = true;
    if t.turn == Some(tid) {
        t.turn = None;
    }
    TURN_CV.notify_all();
    while t.installed && !t.free && t.turn != Some(tid) {
        t = TURN_CV.wait(t).unwrap_or_else(|e| e.into_inner());
    }
    if tid < t.parked.len() {
        t.parked[tid] = false;
    }
}

/// Controller: wait until thread `tid` is parked at a scheduling point or finished.
pub fn sched_wait_parked(tid: usize, timeout_ms: u64) -> StepOutcome {
    let deadline = std::time::Instant::now() + std::time::Duration::from_millis(timeout_ms);
    let mut t = turnstile();
    loop {
        if t.done[tid] {
            return StepOutcome::Finished;
        }
        if t.parked[tid] {
            return StepOutcome::Parked(t.site[tid]);
        }
        let now = std::time::Instant::now();
        if now >= deadline {
            return StepOutcome::Blocked;
        }
        let (g, _) = TURN_CV.wait_timeout(t, deadline - now).unwrap_or_else(|e| e.into_inner());
        t = g;
    }
}

/// Controller: let thread `tid` (which must be parked) run to its next scheduling point.
pub fn sched_step(tid: usize, timeout_ms: u64) -> StepOutcome {
    let deadline = std::time::Instant::now() + std::time::Duration::from_millis(timeout_ms);
    let mut t = turnstile();
    if t.done[tid] {
        return StepOutcome::Finished;
    }
    let before = t.arrivals[tid];
    t.turn = Some(tid);
    TURN_CV.notify_all();
    loop {
        if t.done[tid] {
            return StepOutcome::Finished;
        }
        if t.arrivals[tid] > before && t.parked[tid] {
            return StepOutcome::Parked(t.site[tid]);
        }
        let now = std::time::Instant::now();
        if now >= deadline {
            return StepOutcome::Blocked;
        }
        let (g, _) = TURN_CV.wait_timeout(t, deadline - now).unwrap_or_else(|e| e.into_inner());
        t = g;
    }
}
