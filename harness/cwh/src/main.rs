//! cwh — cluster harness for C22/C23.
//!
//! The distributed-walrus sources below are compiled UNMODIFIED (`#[path]`), against
//!   shims/tokio_sched  deterministic single-threaded executor, every await on a shim primitive
//!                  is a labelled scheduling point (tokio::shim::exec)
//!   shims/octopii_clusterOctopiiNode without consensus: one shared command log, per-node apply
//!                  driven by the schedule, RPC = direct call of the target's handler
//!   shims/bincode  wire format re-implementation (as in harness/dwh)
//!   walrus-rust    the REAL engine from /repo through the pass-through tap shims/walrus_tap
//!
//! `cwh run <base>`            one case per stdin line, one result line per case (each case
//!                             runs in a child process: the engine and the rollover
//!                             threshold are configured through process-wide env vars)
//! `cwh case <dir> <case>`     run one case in this process, print its result line
//!
//! Case:    nodes=<1..3>;thr=<T>;lead=<n>;clients=<ops>/<ops>/...;sched=<ev>,<ev>,...
//!          ops  = `.`-separated  P<node> | G<node>      (PUT / GET sent to that node; the
//!                 payload of the k-th op of client c is the text "c<c>_<k>")
//!          ev   = c<i>  run client i to its next scheduling point
//!                 a<n>  node n applies the next committed metadata command
//!                 l<n>  run node n's lease loop (run_lease_update_loop) to its next point
//!                 m<n>  run node n's monitor loop (Monitor::run) to its next point
//!                 r<n>  restart node n's process: only when every client is between two
//!                       operations and n's loops are parked at their tick (otherwise the event
//!                       does nothing, token R-).  The node comes back (token RS) with a new
//!                       Storage (a new engine instance on the same directory) and a new
//!                       NodeController — empty `offsets`, read cursors, leases, write locks —
//!                       the same applied metadata, new loops, and start_node's update_leases().
//! Result:  one token per schedule event, `,`-separated:
//!          <status>{+<sub-event>}   status = label of the scheduling point reached
//!          (LR LW WR WW OR OW KM RC SB PR RPC TK NX), B = blocked (no progress), D = task
//!          finished; a<n> events give A<index> or A-.
//!          sub-events, in order of occurrence inside the step:
//!            I<c>.<k>.<P|G><node>      client op invoked
//!            R<c>.<k>.<OK|EMPTY|V:<payload>|E:<class>>   client op answered
//!            W<node>.<segment>.<payload>@<a>  engine append on that node (it returned Ok) while
//!                                           the node had applied the first <a> log entries
//!            X<node>.<segment>.<payload|->  engine consuming read on that node
//!            L<index>.<cmd>                 command appended to the shared log
#[path = "/repo/distributed-walrus/src/bucket.rs"]
mod bucket;
#[path = "/repo/distributed-walrus/src/config.rs"]
mod config;
#[path = "/repo/distributed-walrus/src/controller/mod.rs"]
mod controller;
#[path = "/repo/distributed-walrus/src/metadata.rs"]
mod metadata;
#[path = "/repo/distributed-walrus/src/monitor.rs"]
mod monitor;
#[path = "/repo/distributed-walrus/src/rpc.rs"]
mod rpc;

use bucket::Storage;
use controller::NodeController;
use metadata::{Metadata, MetadataCmd};
use octopii::rpc::{RequestPayload, ResponsePayload};
use octopii::{OctopiiNode, ShimCluster};
use rpc::{InternalOp, InternalResp};
use std::cell::RefCell;
use std::collections::HashMap;
use std::io::{BufRead, Write};
use std::net::SocketAddr;
use std::path::{Path, PathBuf};
use std::rc::Rc;
use std::sync::Arc;
use tokio::shim::exec::{self, Executor, Status};

const TOPIC: &str = "t";

fn node_addr(n: u64) -> String {
    format!("127.0.0.1:{}", 6000 + n)
}

#[derive(Clone, Copy, Debug)]
enum Op {
    Put(u64),
    Get(u64),
}

#[derive(Debug)]
enum Ev {
    Client(usize),
    Apply(u64),
    Lease(u64),
    Monitor(u64),
    Restart(u64),
}

struct Case {
    nodes: u64,
    thr: u64,
    lead: u64,
    clients: Vec<Vec<Op>>,
    sched: Vec<Ev>,
}

fn parse_case(s: &str) -> Result<Case, String> {
    let mut c = Case { nodes: 1, thr: 1, lead: 1, clients: Vec::new(), sched: Vec::new() };
    for part in s.trim().split(';') {
        let (k, v) = part.split_once('=').ok_or_else(|| format!("bad field {:?}", part))?;
        match k {
            "nodes" => c.nodes = v.parse().map_err(|_| "nodes")?,
            "thr" => c.thr = v.parse().map_err(|_| "thr")?,
            "lead" => c.lead = v.parse().map_err(|_| "lead")?,
            "clients" => {
                for cl in v.split('/') {
                    let mut ops = Vec::new();
                    for o in cl.split('.').filter(|o| !o.is_empty()) {
                        let n: u64 = o[1..].parse().map_err(|_| format!("bad op {:?}", o))?;
                        ops.push(match &o[..1] {
                            "P" => Op::Put(n),
                            "G" => Op::Get(n),
                            _ => return Err(format!("bad op {:?}", o)),
                        });
                    }
                    c.clients.push(ops);
                }
            }
            "sched" => {
                for e in v.split(',').filter(|e| !e.is_empty()) {
                    let n: u64 = e[1..].parse().map_err(|_| format!("bad event {:?}", e))?;
                    c.sched.push(match &e[..1] {
                        "c" => Ev::Client(n as usize),
                        "a" => Ev::Apply(n),
                        "l" => Ev::Lease(n),
                        "m" => Ev::Monitor(n),
                        "r" => Ev::Restart(n),
                        _ => return Err(format!("bad event {:?}", e)),
                    });
                }
            }
            _ => return Err(format!("unknown field {:?}", k)),
        }
    }
    if c.nodes < 1 || c.nodes > 9 || c.lead < 1 || c.lead > c.nodes || c.thr < 1 {
        return Err("bad geometry".into());
    }
    Ok(c)
}

thread_local! {
    /// sub-events of the step that is being executed
    static SUB: RefCell<Vec<String>> = RefCell::new(Vec::new());
}
fn sub(s: String) {
    SUB.with(|v| v.borrow_mut().push(s));
}

struct Node {
    id: u64,
    ctrl: RefCell<Arc<NodeController>>,
    raft: Arc<OctopiiNode>,
    metadata: Arc<Metadata>,
    data_path: PathBuf,
}

/// start_node's construction of the bucket and the controller (same field initialisers)
fn new_controller(id: u64, data_path: &Path, metadata: &Arc<Metadata>, raft: &Arc<OctopiiNode>) -> Arc<NodeController> {
    let bucket = Arc::new(tokio::shim::block_on(Storage::new(data_path.to_path_buf())).expect("storage"));
    let ctrl = Arc::new(NodeController {
        node_id: id,
        bucket: bucket.clone(),
        metadata: metadata.clone(),
        raft: raft.clone(),
        offsets: Arc::new(tokio::sync::RwLock::new(std::collections::HashMap::new())),
        read_cursors: Arc::new(tokio::sync::Mutex::new(std::collections::HashMap::new())),
        test_fail_forward_read: std::sync::atomic::AtomicBool::new(false),
        test_fail_monitor: std::sync::atomic::AtomicBool::new(false),
        test_fail_dir_size: std::sync::atomic::AtomicBool::new(false),
    });
    install_rpc_handler(raft, ctrl.clone());
    ctrl
}

fn spawn_loops(ex: &mut Executor, ctrl: &Arc<NodeController>) -> (usize, usize) {
    let c = ctrl.clone();
    let lt = ex.spawn(async move { c.run_lease_update_loop().await });
    ex.step(lt);
    let c = ctrl.clone();
    let cfg = <config::NodeConfig as clap::Parser>::parse_from(["cwh"]);
    let mt = ex.spawn(async move { monitor::Monitor::new(c, cfg).run().await });
    ex.step(mt);
    (lt, mt)
}

/// Copy of the closure main.rs installs with set_custom_rpc_handler (main.rs cannot be
/// included: it is the binary's wiring).  vlib/c22.py fingerprints that closure's text.
fn install_rpc_handler(raft: &Arc<OctopiiNode>, controller: Arc<NodeController>) {
    let controller_rpc = controller;
    let fut = raft.set_custom_rpc_handler(move |req| {
        let controller_rpc = controller_rpc.clone();
        Box::pin(async move {
            if let RequestPayload::Custom { operation, data } = req.payload {
                if operation == "Forward" {
                    match bincode::deserialize::<InternalOp>(&data) {
                        Ok(op) => {
                            let resp = controller_rpc.handle_rpc(op).await;
                            let success = !matches!(resp, InternalResp::Error(_));
                            let bytes = bincode::serialize(&resp).unwrap_or_default();
                            return ResponsePayload::CustomResponse { success, data: bytes.into() };
                        }
                        Err(e) => {
                            return ResponsePayload::Error { message: format!("decode error: {e}") };
                        }
                    }
                }
            }
            ResponsePayload::Error { message: "unsupported request".into() }
        })
    });
    tokio::shim::block_on(fut);
}

fn short_label(l: &str) -> String {
    let kind = l.split(':').next().unwrap_or("");
    let ty = &l[kind.len()..];
    let t = if ty.contains("HashSet<") {
        "L"
    } else if ty.contains("Mutex<()>") && ty.contains("HashMap<") {
        "W"
    } else if ty.contains("ReadCursor") {
        "RC"
    } else if ty.contains("HashMap<") && ty.contains("u64") {
        "O"
    } else if ty == ":()" {
        "KM"
    } else {
        "?"
    };
    match kind {
        "rwlock.read" => format!("{}R", t),
        "rwlock.write" => format!("{}W", t),
        "mutex.lock" => t.to_string(),
        "spawn_blocking" => "SB".into(),
        "propose" => "PR".into(),
        "rpc.request" => "RPC".into(),
        "interval.tick" => "TK".into(),
        "sleep" => "SL".into(),
        "next" => "NX".into(),
        other => format!("?{}", other),
    }
}

fn status_token(s: &Status) -> String {
    match s {
        Status::At(l) => short_label(l),
        Status::Blocked(_) => "B".into(),
        Status::Done => "D".into(),
    }
}

fn err_class(e: &str) -> &'static str {
    if e.contains("NotLeaderForPartition") {
        "lease"
    } else if e.contains("unknown topic") {
        "topic"
    } else if e.contains("unknown addr") {
        "addr"
    } else if e.contains("RPC error") || e.contains("no node listens") {
        "rpc"
    } else {
        "other"
    }
}

fn cmd_text(bytes: &[u8]) -> String {
    match bincode::deserialize::<MetadataCmd>(bytes) {
        Ok(MetadataCmd::CreateTopic { name, initial_leader }) => format!("C:{}:{}", name, initial_leader),
        Ok(MetadataCmd::RolloverTopic { name, new_leader, sealed_segment_entry_count }) => {
            format!("R:{}:{}:{}", name, new_leader, sealed_segment_entry_count)
        }
        Ok(MetadataCmd::UpsertNode { node_id, addr }) => format!("U:{}:{}", node_id, addr),
        Err(_) => "?".into(),
    }
}

fn run_to_completion(ex: &mut Executor, id: usize) {
    for _ in 0..10_000 {
        if let Status::Done = ex.step(id) {
            return;
        }
    }
    panic!("setup task did not finish");
}

fn run_case(dir: &Path, case: &Case) -> String {
    std::env::set_var("WALRUS_MAX_SEGMENT_ENTRIES", case.thr.to_string());
    std::env::set_var("WALRUS_QUIET", "1");
    let voters: Vec<u64> = (1..=case.nodes).collect();
    let cluster = ShimCluster::new(1, voters.clone());
    let mut nodes: Vec<Node> = Vec::new();
    let mut dir_of: HashMap<PathBuf, u64> = HashMap::new();
    for id in 1..=case.nodes {
        let data_path = dir.join(format!("node_{}", id)).join("user_data");
        dir_of.insert(data_path.clone(), id);
        let metadata = Arc::new(Metadata::new());
        let addr: SocketAddr = node_addr(id).parse().unwrap();
        let raft = OctopiiNode::shim_new(id, addr, cluster.clone(), metadata.clone());
        let ctrl = new_controller(id, &data_path, &metadata, &raft);
        nodes.push(Node { id, ctrl: RefCell::new(ctrl), raft, metadata, data_path });
    }
    // bootstrap: every node registered, the topic created; applied everywhere; leases synced
    for id in 1..=case.nodes {
        cluster.shim_push(bincode::serialize(&MetadataCmd::UpsertNode { node_id: id, addr: node_addr(id) }).unwrap());
    }
    cluster.shim_push(bincode::serialize(&MetadataCmd::CreateTopic { name: TOPIC.into(), initial_leader: case.lead }).unwrap());
    // the leader applies first (its results are what propose returns)
    for n in nodes.iter() {
        while n.raft.shim_apply_next().is_some() {}
    }
    let nodes = Rc::new(nodes);
    let mut ex = Executor::new();
    for n in nodes.iter() {
        let c = n.ctrl.borrow().clone();
        let t = ex.spawn(async move { c.update_leases().await });
        run_to_completion(&mut ex, t);
    }
    let _ = walrus_rust::tap_take_events();
    let _ = cluster.take_rpc_trace();
    // background loops, parked at their first tick
    let mut lease_task = HashMap::new();
    let mut mon_task = HashMap::new();
    for n in nodes.iter() {
        let (lt, mt) = spawn_loops(&mut ex, &n.ctrl.borrow());
        lease_task.insert(n.id, lt);
        mon_task.insert(n.id, mt);
    }
    // clients
    let mut client_task = Vec::new();
    for (ci, ops) in case.clients.iter().enumerate() {
        let ops = ops.clone();
        let nodes = nodes.clone();
        let t = ex.spawn(async move {
            let last = ops.len();
            for (k, op) in ops.iter().enumerate() {
                match *op {
                    Op::Put(n) => {
                        sub(format!("I{}.{}.P{}", ci, k, n));
                        let payload = format!("c{}_{}", ci, k);
                        let r = match nodes.iter().find(|x| x.id == n) {
                            None => Err(anyhow::anyhow!("no such node")),
                            Some(x) => {
                                let c = x.ctrl.borrow().clone();
                                c.append_for_topic(TOPIC, payload.into_bytes()).await
                            }
                        };
                        match r {
                            Ok(()) => sub(format!("R{}.{}.OK", ci, k)),
                            Err(e) => sub(format!("R{}.{}.E:{}", ci, k, err_class(&e.to_string()))),
                        }
                    }
                    Op::Get(n) => {
                        sub(format!("I{}.{}.G{}", ci, k, n));
                        let r = match nodes.iter().find(|x| x.id == n) {
                            None => Err(anyhow::anyhow!("no such node")),
                            Some(x) => {
                                let c = x.ctrl.borrow().clone();
                                c.read_one_for_topic_shared(TOPIC).await
                            }
                        };
                        match r {
                            Ok(Some(b)) => sub(format!("R{}.{}.V:{}", ci, k, String::from_utf8_lossy(&b))),
                            Ok(None) => sub(format!("R{}.{}.EMPTY", ci, k)),
                            Err(e) => sub(format!("R{}.{}.E:{}", ci, k, err_class(&e.to_string()))),
                        }
                    }
                }
                if k + 1 < last {
                    exec::point("next").await;
                }
            }
        });
        client_task.push(t);
    }

    let mut out: Vec<String> = Vec::new();
    let mut log_seen = cluster.log_len();
    for ev in case.sched.iter() {
        SUB.with(|v| v.borrow_mut().clear());
        let mut tok = match ev {
            Ev::Apply(n) => match nodes.iter().find(|x| x.id == *n) {
                Some(x) => match x.raft.shim_apply_next() {
                    Some(i) => format!("A{}", i),
                    None => "A-".into(),
                },
                None => "A-".into(),
            },
            Ev::Client(i) => match client_task.get(*i) {
                Some(t) => status_token(&ex.step(*t)),
                None => "D".into(),
            },
            Ev::Lease(n) => match lease_task.get(n) {
                Some(t) => status_token(&ex.step(*t)),
                None => "D".into(),
            },
            Ev::Monitor(n) => match mon_task.get(n) {
                Some(t) => status_token(&ex.step(*t)),
                None => "D".into(),
            },
            Ev::Restart(n) => {
                let idle = client_task.iter().all(|t| {
                    matches!(ex.status(*t), Status::Done) || matches!(ex.status(*t), Status::At(l) if l == "next" || l == "START")
                });
                let parked = |t: Option<&usize>| matches!(t.map(|t| ex.status(*t)), Some(Status::At(l)) if l == "interval.tick");
                match nodes.iter().find(|x| x.id == *n) {
                    Some(x) if idle && parked(lease_task.get(n)) && parked(mon_task.get(n)) => {
                        // the old process is gone: its loops, its controller, its engine instance
                        ex.kill(lease_task[n]);
                        ex.kill(mon_task[n]);
                        let old = x.ctrl.replace(new_controller(x.id, &x.data_path, &x.metadata, &x.raft));
                        drop(old);
                        let c = x.ctrl.borrow().clone();
                        let t = ex.spawn(async move { c.update_leases().await });
                        run_to_completion(&mut ex, t);
                        let (lt, mt) = spawn_loops(&mut ex, &x.ctrl.borrow());
                        lease_task.insert(*n, lt);
                        mon_task.insert(*n, mt);
                        let _ = walrus_rust::tap_take_events();
                        "RS".into()
                    }
                    _ => "R-".into(),
                }
            }
        };
        // sub-events: client invocations/answers were pushed in order; engine and log events
        // are collected here (a step contains at most one engine call and one log append)
        let mut subs: Vec<String> = Vec::new();
        let client_subs: Vec<String> = SUB.with(|v| v.borrow_mut().drain(..).collect());
        let mut eng: Vec<String> = Vec::new();
        for te in walrus_rust::tap_take_events() {
            let node = dir_of.get(&te.dir).copied().unwrap_or(0);
            match te.op {
                walrus_rust::TapOp::Append { key, payloads, ok } => {
                    let seg = controller::parse_wal_key(&key).map(|(_, s)| s.to_string()).unwrap_or_else(|| "?".into());
                    let applied = nodes.iter().find(|x| x.id == node).map(|x| x.raft.shim_applied()).unwrap_or(0);
                    for p in payloads {
                        eng.push(format!("{}{}.{}.{}@{}", if ok { "W" } else { "WF" }, node, seg, String::from_utf8_lossy(&p), applied));
                    }
                }
                walrus_rust::TapOp::Read { key, data, ok, .. } => {
                    let seg = controller::parse_wal_key(&key).map(|(_, s)| s.to_string()).unwrap_or_else(|| "?".into());
                    let d = match (&data, ok) {
                        (Some(d), _) => String::from_utf8_lossy(d).into_owned(),
                        (None, true) => "-".into(),
                        (None, false) => "!".into(),
                    };
                    eng.push(format!("X{}.{}.{}", node, seg, d));
                }
            }
        }
        while log_seen < cluster.log_len() {
            eng.push(format!("L{}.{}", log_seen, cmd_text(&cluster.log_entry(log_seen))));
            log_seen += 1;
        }
        // order inside a step: an invocation precedes everything, an answer follows everything
        for s in client_subs.iter().filter(|s| s.starts_with('I')) {
            subs.push(s.clone());
        }
        subs.extend(eng);
        for s in client_subs.iter().filter(|s| s.starts_with('R')) {
            subs.push(s.clone());
        }
        for s in subs {
            tok.push('+');
            tok.push_str(&s);
        }
        out.push(tok);
    }
    out.join(",")
}

fn main() {
    let args: Vec<String> = std::env::args().collect();
    match args.get(1).map(|s| s.as_str()) {
        Some("case") => {
            let dir = PathBuf::from(&args[2]);
            let line = match parse_case(&args[3]) {
                Ok(c) => match std::panic::catch_unwind(std::panic::AssertUnwindSafe(|| run_case(&dir, &c))) {
                    Ok(s) => s,
                    Err(_) => "panic".to_string(),
                },
                Err(e) => format!("badcase:{}", e),
            };
            println!("{}", line);
            let _ = std::io::stdout().flush();
            // engine background threads are still running: leave without joining them
            std::process::exit(0);
        }
        Some("run") => {
            let base = PathBuf::from(args.get(2).expect("run <base-dir>"));
            let exe = std::env::current_exe().expect("exe");
            let stdin = std::io::stdin();
            let stdout = std::io::stdout();
            let mut out = stdout.lock();
            for (i, line) in stdin.lock().lines().enumerate() {
                let line = line.unwrap();
                let dir = base.join(format!("case{}", i));
                let _ = std::fs::remove_dir_all(&dir);
                std::fs::create_dir_all(&dir).expect("case dir");
                let o = std::process::Command::new(&exe)
                    .arg("case")
                    .arg(&dir)
                    .arg(line.trim())
                    .stderr(std::process::Stdio::null())
                    .output();
                let res = match o {
                    Ok(o) if o.status.success() => String::from_utf8_lossy(&o.stdout).trim().to_string(),
                    Ok(o) => format!("crash:{:?}", o.status.code()),
                    Err(e) => format!("spawnfail:{}", e),
                };
                let _ = std::fs::remove_dir_all(&dir);
                writeln!(out, "{}", res).unwrap();
                out.flush().unwrap();
            }
        }
        _ => {
            eprintln!("usage: cwh run <base-dir> | cwh case <dir> <case>");
            std::process::exit(2);
        }
    }
}
