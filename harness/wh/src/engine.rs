//! Engine harness: drives the public walrus API from op lines.
//!
//! `wh engine <base>`  dispatcher: reads CASE blocks from stdin, runs every case in its own
//!                     child process(es) (`wh seg ...`) on a fresh directory under <base>,
//!                     prints one result line per op line (and one for the CASE line).
//! `wh seg <data_dir> <mode> <backend> <sched>`  one process lifetime of one case.
use crate::clean;
use crate::util;
use std::collections::HashMap;
use std::io::{BufRead, BufReader, Write};
use std::panic::{catch_unwind, AssertUnwindSafe};
use std::path::PathBuf;
use std::process::{Child, ChildStdin, Command, Stdio};
use walrus_rust::{FsyncSchedule, ReadConsistency, Walrus};

/// payload byte i of payload number pid: never zero, cheap, position dependent
#[inline]
pub fn pbyte(pid: u64, i: u64) -> u8 {
    // a well-mixed function of (pid, i), never zero: suffixes of different payloads must not
    // coincide, because returned (possibly front-trimmed) bytes are mapped back to (pid, skip)
    let mut x = pid.wrapping_mul(0x9E37_79B9_7F4A_7C15).wrapping_add(i.wrapping_mul(0xBF58_476D_1CE4_E5B9));
    x ^= x >> 29;
    x = x.wrapping_mul(0x94D0_49BB_1331_11EB);
    x ^= x >> 32;
    (1 + x % 255) as u8
}

pub fn payload(pid: u64, len: u64) -> Vec<u8> {
    (0..len).map(|i| pbyte(pid, i)).collect()
}

fn fnv(data: &[u8]) -> u64 {
    let mut h: u64 = 0xcbf29ce484222325;
    for &b in data {
        h ^= b as u64;
        h = h.wrapping_mul(0x100000001b3);
    }
    h
}

fn topic_name(tok: &str) -> String {
    if let Some(h) = tok.strip_prefix("h:") {
        String::from_utf8_lossy(&util::bytes_of_hex(h)).into_owned()
    } else if let Some(n) = tok.strip_prefix("L") {
        // L<n>: a topic name of exactly n bytes
        let n: usize = n.parse().unwrap_or(1);
        let mut s = String::from("L");
        while s.len() < n {
            s.push(char::from(b'a' + (s.len() % 26) as u8));
        }
        s
    } else {
        tok.to_string()
    }
}

fn errkind(e: &std::io::Error) -> String {
    format!("err:{:?}", e.kind())
}

struct Seg {
    wal: Option<Walrus>,
    /// further instances of the same process (`inst=N` cases): slot k-2 holds instance k;
    /// `wal`/`data_dir`/key "k" are instance 1
    others: Vec<Option<Walrus>>,
    /// instance selected by the current op line (1-based)
    cur: usize,
    /// instances >= 2 use their own data dir (<data_dir>/d<k>, key "k") instead of their own
    /// key (<data_dir>, key "k<k>")
    idirs: bool,
    /// explicit namespace keys of instances 1.. (header keys=<hex>,<hex>,...)
    keys: Vec<String>,
    /// construct instances through WALRUS_DATA_DIR + the *_for_key constructor instead of the builder's data_dir
    envdir: bool,
    data_dir: PathBuf,
    mode: ReadConsistency,
    sched: FsyncSchedule,
    /// every payload any append attempted in this case: topic -> (pid, len)
    reg: HashMap<String, Vec<(u64, u64)>>,
    /// C17: state of the clean-marker persister gate (inert unless the op GATE 1 was given)
    gate: clean::Gate,
}

fn parse_mode(s: &str) -> ReadConsistency {
    if let Some(n) = s.strip_prefix("alo:") {
        ReadConsistency::AtLeastOnce { persist_every: n.parse().unwrap_or(1) }
    } else {
        ReadConsistency::StrictlyAtOnce
    }
}

fn parse_sched(s: &str) -> FsyncSchedule {
    if s == "each" {
        FsyncSchedule::SyncEach
    } else if let Some(n) = s.strip_prefix("ms:") {
        FsyncSchedule::Milliseconds(n.parse().unwrap_or(200))
    } else {
        FsyncSchedule::NoFsync
    }
}

impl Seg {
    /// (data dir, key) of instance k (1-based)
    fn place(&self, k: usize) -> (PathBuf, String) {
        if let Some(key) = self.keys.get(k.max(1) - 1) {
            let dd = if self.idirs && k > 1 { self.data_dir.join(format!("d{}", k)) } else { self.data_dir.clone() };
            return (dd, key.clone());
        }
        if k <= 1 {
            (self.data_dir.clone(), "k".to_string())
        } else if self.idirs {
            (self.data_dir.join(format!("d{}", k)), "k".to_string())
        } else {
            (self.data_dir.clone(), format!("k{}", k))
        }
    }

    fn slot(&mut self, k: usize) -> &mut Option<Walrus> {
        if k <= 1 {
            &mut self.wal
        } else {
            &mut self.others[k - 2]
        }
    }

    fn open_k(&mut self, k: usize) -> String {
        let (dd, key) = self.place(k);
        let (mode, sched) = (self.mode, self.sched);
        let envdir = self.envdir;
        let r = catch_unwind(AssertUnwindSafe(|| {
            if envdir {
                // the environment path: the data directory is whatever WALRUS_DATA_DIR says at construction time
                std::env::set_var("WALRUS_DATA_DIR", &dd);
                Walrus::with_consistency_and_schedule_for_key(&key, mode, sched)
            } else {
                Walrus::builder().data_dir(dd).key(&key).consistency(mode).fsync_schedule(sched).build()
            }
        }));
        match r {
            Ok(Ok(w)) => {
                *self.slot(k) = Some(w);
                "ok".into()
            }
            Ok(Err(e)) => errkind(&e),
            Err(_) => "panic".into(),
        }
    }

    fn open(&mut self) -> String {
        self.open_k(1)
    }

    /// directory listing of instance k's namespace directory: `ls:<name>:<size>,...` (sorted)
    fn listing(&self, k: usize) -> String {
        let (dd, key) = self.place(k);
        let root = dd.join(walrus_rust::wal::verif::sanitize_namespace(&key));
        let mut v: Vec<String> = Vec::new();
        if let Ok(rd) = std::fs::read_dir(&root) {
            for e in rd.flatten() {
                let md = e.metadata();
                let (isdir, len) = md.map(|m| (m.is_dir(), m.len())).unwrap_or((false, 0));
                v.push(format!("{}:{}", e.file_name().to_string_lossy(), if isdir { "dir".to_string() } else { len.to_string() }));
            }
        }
        v.sort();
        format!("ls:{}", v.join(","))
    }

    /// tracker snapshot + the tracker/removal lines traced since the previous TRK.
    /// Before the dump it waits (bounded) until every file whose removal has been requested so
    /// far is gone, so that what follows does not depend on the reclaimer thread's timing.
    fn trk_dump(&self) -> String {
        let keep = |l: &String| l.starts_with("T ") || l.split(' ').nth(1) == Some("remove");
        let mut tr: Vec<String> = walrus_rust::wal::verif::drain_trace().into_iter().filter(keep).collect();
        let mut wanted: Vec<PathBuf> = Vec::new();
        for l in tr.iter() {
            let w: Vec<&str> = l.split(' ').collect();
            if w.len() >= 5 && w[0] == "T" && w[2] == "req" {
                for base in [self.data_dir.parent().map(|p| p.to_path_buf()), Some(self.data_dir.clone())].into_iter().flatten() {
                    wanted.push(base.join(w[4]));
                }
            }
        }
        let t0 = std::time::Instant::now();
        while wanted.iter().any(|p| p.exists()) && t0.elapsed() < std::time::Duration::from_millis(400) {
            std::thread::sleep(std::time::Duration::from_millis(2));
        }
        tr.extend(walrus_rust::wal::verif::drain_trace().into_iter().filter(keep));
        let (files, blocks) = walrus_rust::wal::verif::trk_snapshot();
        let fs: Vec<String> = files
            .iter()
            .map(|(p, l, c, t, a)| format!("{}:{}:{}:{}:{}", p, l, c, t, if *a { 1 } else { 0 }))
            .collect();
        let bs: Vec<String> = blocks.iter().map(|(i, p, c)| format!("{}:{}:{}", i, p, if *c { 1 } else { 0 })).collect();
        format!("trk:{}|{}#{}", fs.join(";"), bs.join(";"), tr.join("|"))
    }

    /// identify returned bytes among the payloads this topic was ever offered
    fn ident(&self, topic: &str, d: &[u8]) -> String {
        let h = fnv(d) & 0xffff_ffff;
        if d.is_empty() {
            return format!("e:_:0:0:{:08x}", h);
        }
        let l = d.len() as u64;
        let mut best: Option<(u64, u64)> = None; // (pid, skip)
        if let Some(v) = self.reg.get(topic) {
            for &(pid, len) in v.iter() {
                if len < l {
                    continue;
                }
                let skip = len - l;
                if pbyte(pid, skip) != d[0] || pbyte(pid, len - 1) != d[d.len() - 1] {
                    continue;
                }
                if (0..l).all(|j| pbyte(pid, skip + j) == d[j as usize]) {
                    let better = match best {
                        None => true,
                        Some((bp, bs)) => (skip, pid) < (bs, bp),
                    };
                    if better {
                        best = Some((pid, skip));
                    }
                }
            }
        }
        match best {
            Some((pid, skip)) => format!("e:{}:{}:{}:{:08x}", pid, skip, l, h),
            None => format!("e:X:0:{}:{:08x}", l, h),
        }
    }

    fn op(&mut self, line: &str) -> Option<String> {
        let mut t: Vec<&str> = line.split_whitespace().collect();
        if t.is_empty() {
            return Some("badcase".into());
        }
        // `@k <op ...>` selects instance k of a multi-instance case; default is instance 1
        self.cur = 1;
        let mut explicit = false;
        if let Some(k) = t[0].strip_prefix('@') {
            self.cur = k.parse().unwrap_or(1);
            explicit = true;
            t.remove(0);
            if t.is_empty() || self.cur == 0 || self.cur > 1 + self.others.len() {
                return Some("badcase".into());
            }
        }
        if self.cur > 1 || explicit || !self.others.is_empty() {
            if let Some(r) = self.multi_op(&t, explicit) {
                return Some(r);
            }
        }
        if t[0] == "REG" {
            let topic = topic_name(t[1]);
            self.reg.entry(topic).or_default().push((t[2].parse().unwrap(), t[3].parse().unwrap()));
            return None;
        }
        if t[0] == "OPEN" || t[0] == "REOPEN" {
            // clean shutdown of the previous instance (if any), then a new one in this process
            if self.gate.on {
                // C17, persister gate on: same drop, but the persister threads are being stepped
                let prev = clean::last_seq();
                if let Some(w) = self.wal.take() {
                    clean::drop_instance(&mut self.gate, w);
                }
                let r = self.open();
                if self.wal.is_some() && !clean::adopt(&mut self.gate, prev) {
                    return Some("gate:stuck".into());
                }
                if self.gate.forced {
                    self.gate.forced = false;
                    return Some(format!("{}:forced", r));
                }
                return Some(r);
            }
            self.wal = None;
            return Some(self.open());
        }
        // C17: the clean-marker store file as it is on disk now; persister gate ops
        match t[0] {
            "DUMP" => return Some(clean::dump(&self.data_dir)),
            "GATE" => return Some(clean::enable(&mut self.gate, t.get(1).and_then(|x| x.parse().ok()).unwrap_or(0), self.wal.is_some())),
            "TB" => return Some(clean::tick_begin(&self.gate)),
            "TU" => return Some(clean::tick_upgrade(&self.gate)),
            "TS" => return Some(clean::tick_snapshot(&self.gate)),
            "TE" => return Some(clean::tick_end(&self.gate)),
            "TICK" => {
                let r = clean::tick_begin(&self.gate);
                return Some(if r == "p:fly" { clean::tick_end(&self.gate) } else { r });
            }
            "OL" => return Some(clean::orphan_land(&mut self.gate, t.get(1).and_then(|x| x.parse().ok()).unwrap_or(0))),
            _ => {}
        }
        match t[0] {
            // I/O event seam (cfg walrus_verif): crash points, fault injection, traces
            "EVENTS" => return Some(format!("n:{}", walrus_rust::wal::verif::events())),
            "CRASHAT" => {
                walrus_rust::wal::verif::arm_exit_in(t[1].parse().unwrap_or(0));
                return Some("ok".into());
            }
            "FAILAT" => {
                walrus_rust::wal::verif::arm_fail_in(t[1].parse().unwrap_or(0));
                return Some("ok".into());
            }
            "TRACE" => {
                walrus_rust::wal::verif::start_trace();
                return Some("ok".into());
            }
            "TRACEEND" => {
                return Some(format!("trace:{}", walrus_rust::wal::verif::take_trace().join("|")));
            }
            _ => {}
        }
        if t[0] == "SCHED" {
            // C10: the fsync schedule of the NEXT instance opened in this process (REOPEN); the
            // process-global schedule (O_SYNC decision) stays the first instance's
            self.sched = parse_sched(t.get(1).copied().unwrap_or("nofsync"));
            return Some("ok".into());
        }
        if t[0] == "FDS" {
            // C10: how many of this process's open descriptors on WAL files carry O_SYNC
            return Some(fds_report(&self.data_dir));
        }
        if t[0] == "TRK" {
            return Some(self.trk_dump());
        }
        if t[0] == "LS" {
            return Some(self.listing(self.cur));
        }
        if t[0] == "SLEEP" {
            std::thread::sleep(std::time::Duration::from_millis(t[1].parse().unwrap_or(1)));
            return Some("ok".into());
        }
        let wal = match if self.cur <= 1 { self.wal.as_ref() } else { self.others[self.cur - 2].as_ref() } {
            Some(w) => w,
            None => return Some("noinstance".into()),
        };
        let res = match t[0] {
            "A" => {
                let topic = topic_name(t[1]);
                let (pid, len): (u64, u64) = (t[2].parse().unwrap(), t[3].parse().unwrap());
                self.reg.entry(topic.clone()).or_default().push((pid, len));
                let data = payload(pid, len);
                match catch_unwind(AssertUnwindSafe(|| wal.append_for_topic(&topic, &data))) {
                    Ok(Ok(())) => "ok".to_string(),
                    Ok(Err(e)) => errkind(&e),
                    Err(_) => "panic".into(),
                }
            }
            "B" | "BN" => {
                let topic = topic_name(t[1]);
                let mut items: Vec<(u64, u64)> = Vec::new();
                if t[0] == "BN" {
                    let (p0, n, len): (u64, u64, u64) =
                        (t[2].parse().unwrap(), t[3].parse().unwrap(), t[4].parse().unwrap());
                    for k in 0..n {
                        items.push((p0 + k, len));
                    }
                } else if t[2] != "-" {
                    for it in t[2].split(',') {
                        let mut p = it.split(':');
                        items.push((p.next().unwrap().parse().unwrap(), p.next().unwrap().parse().unwrap()));
                    }
                }
                let datas: Vec<Vec<u8>> = items.iter().map(|&(p, l)| payload(p, l)).collect();
                self.reg.entry(topic.clone()).or_default().extend(items.iter().cloned());
                let refs: Vec<&[u8]> = datas.iter().map(|d| d.as_slice()).collect();
                match catch_unwind(AssertUnwindSafe(|| wal.batch_append_for_topic(&topic, &refs))) {
                    Ok(Ok(())) => "ok".to_string(),
                    Ok(Err(e)) => errkind(&e),
                    Err(_) => "panic".into(),
                }
            }
            "R" => {
                let topic = topic_name(t[1]);
                let ck = t[2] == "1";
                match catch_unwind(AssertUnwindSafe(|| wal.read_next(&topic, ck))) {
                    Ok(Ok(None)) => "none".to_string(),
                    Ok(Ok(Some(e))) => self.ident(&topic, &e.data),
                    Ok(Err(e)) => errkind(&e),
                    Err(_) => "panic".into(),
                }
            }
            "BR" => {
                let topic = topic_name(t[1]);
                let budget: usize = if t[2] == "max" { usize::MAX } else { t[2].parse::<u64>().unwrap() as usize };
                let ck = t[3] == "1";
                let start: Option<u64> = if t[4] == "-" { None } else { Some(t[4].parse().unwrap()) };
                match catch_unwind(AssertUnwindSafe(|| wal.batch_read_for_topic(&topic, budget, ck, start))) {
                    Ok(Ok(v)) => {
                        let items: Vec<String> = v.iter().map(|e| self.ident(&topic, &e.data)).collect();
                        format!("[{}]", items.join(";"))
                    }
                    Ok(Err(e)) => errkind(&e),
                    Err(_) => "panic".into(),
                }
            }
            "C" => {
                let topic = topic_name(t[1]);
                format!("n:{}", wal.get_topic_entry_count(&topic))
            }
            "CS" => {
                let mut v: Vec<(String, u64)> = wal.get_topic_entry_counts().into_iter().collect();
                v.sort();
                let s: Vec<String> = v.iter().map(|(k, c)| format!("{}={}", util::hex_of_str(k), c)).collect();
                format!("counts:{}", s.join(","))
            }
            "SZ" => {
                let topic = topic_name(t[1]);
                format!("n:{}", wal.get_topic_size(&topic))
            }
            "K" => {
                let topic = topic_name(t[1]);
                format!("b:{}", if wal.topic_is_clean(&topic) { 1 } else { 0 })
            }
            "MC" => {
                wal.mark_topic_clean(&topic_name(t[1]));
                "ok".into()
            }
            "MD" => {
                wal.mark_topic_dirty(&topic_name(t[1]));
                "ok".into()
            }
            "WAITSYNC" => {
                let topics: Vec<String> = t[1..].iter().map(|x| topic_name(x)).collect();
                clean::wait_sync(wal, &self.data_dir, &topics)
            }
            // C11: consume everything the instance will deliver, for every topic it knows
            // (recovered topic names included) and every topic of the registry.
            //   DRAIN R <cap>   read_next(topic, true) until None / error / cap entries
            //   DRAIN BR <cap>  batch_read_for_topic(topic, 1 MiB, true, None) until empty / error / cap
            // one line: <topic-hex>=<ident>,<ident>,...,<end> joined by '|', topics sorted by bytes
            "DRAIN" => {
                let batch = t.get(1).map(|s| *s == "BR").unwrap_or(false);
                let cap: usize = t.get(2).and_then(|s| s.parse().ok()).unwrap_or(10000);
                let mut topics: Vec<String> = wal.get_topic_entry_counts().into_keys().collect();
                for k in self.reg.keys() {
                    if !topics.contains(k) {
                        topics.push(k.clone());
                    }
                }
                topics.sort_by(|a, b| a.as_bytes().cmp(b.as_bytes()));
                let mut parts: Vec<String> = Vec::new();
                for topic in topics.iter() {
                    let mut items: Vec<String> = Vec::new();
                    let end;
                    loop {
                        if items.len() >= cap {
                            end = "cap".to_string();
                            break;
                        }
                        if batch {
                            match catch_unwind(AssertUnwindSafe(|| wal.batch_read_for_topic(topic, 1 << 20, true, None))) {
                                Ok(Ok(v)) => {
                                    if v.is_empty() {
                                        end = "none".to_string();
                                        break;
                                    }
                                    for e in v.iter() {
                                        items.push(self.ident(topic, &e.data));
                                    }
                                }
                                Ok(Err(e)) => {
                                    end = errkind(&e);
                                    break;
                                }
                                Err(_) => {
                                    end = "panic".to_string();
                                    break;
                                }
                            }
                        } else {
                            match catch_unwind(AssertUnwindSafe(|| wal.read_next(topic, true))) {
                                Ok(Ok(None)) => {
                                    end = "none".to_string();
                                    break;
                                }
                                Ok(Ok(Some(e))) => items.push(self.ident(topic, &e.data)),
                                Ok(Err(e)) => {
                                    end = errkind(&e);
                                    break;
                                }
                                Err(_) => {
                                    end = "panic".to_string();
                                    break;
                                }
                            }
                        }
                    }
                    items.push(end);
                    parts.push(format!("{}={}", util::hex_of_bytes(topic.as_bytes()), items.join(",")));
                }
                format!("drain:{}", parts.join("|"))
            }
            _ => "badcase".into(),
        };
        Some(res)
    }
}

/// "fds:<with O_SYNC>/<open on WAL files>" from /proc/self/fd + fdinfo
fn fds_report(data_dir: &PathBuf) -> String {
    let root = std::fs::canonicalize(data_dir).unwrap_or_else(|_| data_dir.clone());
    let (mut n, mut sync) = (0u32, 0u32);
    if let Ok(rd) = std::fs::read_dir("/proc/self/fd") {
        for e in rd.flatten() {
            let target = match std::fs::read_link(e.path()) {
                Ok(t) => t,
                Err(_) => continue,
            };
            let name = target.file_name().map(|x| x.to_string_lossy().into_owned()).unwrap_or_default();
            if !target.starts_with(&root) || name.contains("_index.db") || !target.is_file() {
                continue;
            }
            n += 1;
            let info = std::fs::read_to_string(format!("/proc/self/fdinfo/{}", e.file_name().to_string_lossy())).unwrap_or_default();
            for l in info.lines() {
                if let Some(v) = l.strip_prefix("flags:") {
                    let flags = u64::from_str_radix(v.trim(), 8).unwrap_or(0);
                    const O_SYNC: u64 = 0o4010000; // Linux: __O_SYNC | O_DSYNC
                    if flags & O_SYNC == O_SYNC {
                        sync += 1;
                    }
                }
            }
        }
    }
    format!("fds:{}/{}", sync, n)
}

fn copy_tree(src: &std::path::Path, dst: &std::path::Path) -> std::io::Result<()> {
    std::fs::create_dir_all(dst)?;
    for e in std::fs::read_dir(src)? {
        let e = e?;
        let to = dst.join(e.file_name());
        if e.file_type()?.is_dir() {
            copy_tree(&e.path(), &to)?;
        } else {
            std::fs::copy(e.path(), &to)?;
        }
    }
    Ok(())
}

impl Seg {
    /// lifecycle ops of multi-instance cases: OPEN (all instances, in order), `@k REOPEN`,
    /// `@k CLOSE`; an unprefixed REOPEN in a multi-instance case reopens every instance
    fn multi_op(&mut self, t: &[&str], explicit: bool) -> Option<String> {
        let n = 1 + self.others.len();
        match t[0] {
            "OPEN" | "REOPEN" if !explicit => {
                for k in 1..=n {
                    *self.slot(k) = None;
                }
                let mut res = String::from("ok");
                for k in 1..=n {
                    let r = self.open_k(k);
                    if r != "ok" && res == "ok" {
                        res = r;
                    }
                }
                Some(res)
            }
            "OPEN" | "REOPEN" => {
                let k = self.cur;
                *self.slot(k) = None;
                Some(self.open_k(k))
            }
            "CLOSE" => {
                let k = self.cur;
                *self.slot(k) = None;
                Some("ok".into())
            }
            _ => None,
        }
    }
}

/// one process lifetime
pub fn seg_main(args: &[String]) {
    if std::env::var("WH_PANIC").is_err() {
        std::panic::set_hook(Box::new(|_| {}));
    }
    let data_dir = PathBuf::from(&args[0]);
    walrus_rust::wal::verif::count_this_thread();
    if args[2] == "mmap" {
        walrus_rust::disable_fd_backend();
    } else {
        walrus_rust::enable_fd_backend();
    }
    let ninst: usize = std::env::var("WH_INST").ok().and_then(|v| v.parse().ok()).unwrap_or(1).max(1);
    if std::env::var("WH_TRK").is_ok() {
        // record tracker calls (and I/O events) from the very first call of this lifetime
        walrus_rust::wal::verif::start_trace();
    }
    let mut seg = Seg {
        wal: None,
        others: (1..ninst).map(|_| None).collect(),
        cur: 1,
        idirs: std::env::var("WH_IDIRS").is_ok(),
        keys: std::env::var("WH_KEYS").ok().map(|v| v.split(',').map(unhex_str).collect()).unwrap_or_default(),
        envdir: std::env::var("WH_ENVDIR").is_ok(),
        data_dir,
        mode: parse_mode(&args[1]),
        sched: parse_sched(&args[3]),
        reg: HashMap::new(),
        gate: clean::Gate::default(),
    };
    let stdin = std::io::stdin();
    let stdout = std::io::stdout();
    let mut out = stdout.lock();
    for line in stdin.lock().lines() {
        let line = line.unwrap();
        if let Some(r) = seg.op(line.trim()) {
            writeln!(out, "{}", r).unwrap();
            out.flush().unwrap();
        }
    }
    // EOF: clean shutdown
    if seg.gate.on {
        if let Some(w) = seg.wal.take() {
            clean::drop_instance(&mut seg.gate, w);
        }
    }
    seg.wal = None;
}

struct Kid {
    child: Child,
    tx: ChildStdin,
    rx: std::sync::mpsc::Receiver<String>,
}

fn spawn(exe: &std::path::Path, dir: &PathBuf, mode: &str, backend: &str, sched: &str, reg: &[String], extra: &[(String, String)]) -> Kid {
    // WH_VALGRIND=<log-file-prefix>: run the lifetime under memcheck (C11); errors end the
    // process with exit code 99 and are listed in <prefix>.<pid>
    let mut cmd = match std::env::var("WH_VALGRIND") {
        Ok(pfx) => {
            let mut c = Command::new("valgrind");
            c.arg("-q")
                .arg("--error-exitcode=99")
                .arg("--exit-on-first-error=yes")
                .arg("--vgdb=no")          // no gdbserver pipes under /tmp
                .arg(format!("--log-file={}.%p", pfx))
                .arg(exe);
            c
        }
        Err(_) => Command::new(exe),
    };
    let mut child = cmd
        .arg("seg")
        .arg(dir)
        .arg(mode)
        .arg(backend)
        .arg(sched)
        .envs(extra.iter().cloned())
        .env("WALRUS_QUIET", "1")
        .stdin(Stdio::piped())
        .stdout(Stdio::piped())
        .stderr(if std::env::var("WH_PANIC").is_ok() { Stdio::inherit() } else { Stdio::null() })
        .spawn()
        .expect("spawn seg");
    let mut tx = child.stdin.take().unwrap();
    // answers come through a channel so that the dispatcher can give up on an operation that never
    // returns (a livelock in the engine must end the case, not the whole run)
    let (ltx, rx) = std::sync::mpsc::channel::<String>();
    let mut rd = BufReader::new(child.stdout.take().unwrap());
    std::thread::spawn(move || loop {
        let mut s = String::new();
        match rd.read_line(&mut s) {
            Ok(0) | Err(_) => break,
            Ok(_) => {
                if ltx.send(s.trim_end().to_string()).is_err() {
                    break;
                }
            }
        }
    });
    for r in reg {
        writeln!(tx, "{}", r).unwrap();
    }
    Kid { child, tx, rx }
}

fn ask(k: &mut Kid, line: &str) -> String {
    if writeln!(k.tx, "{}", line).is_err() || k.tx.flush().is_err() {
        return "died".into();
    }
    match k.rx.recv_timeout(op_timeout()) {
        Ok(s) => s,
        Err(std::sync::mpsc::RecvTimeoutError::Disconnected) => "died".into(),
        Err(std::sync::mpsc::RecvTimeoutError::Timeout) => {
            let _ = k.child.kill();
            "hang".into()
        }
    }
}

/// how long one operation of a child lifetime may take before it is declared hung
/// (WH_OP_TIMEOUT seconds; default 60, under valgrind 1800)
fn op_timeout() -> std::time::Duration {
    let dflt = if std::env::var("WH_VALGRIND").is_ok() { 1800 } else { 60 };
    std::time::Duration::from_secs(std::env::var("WH_OP_TIMEOUT").ok().and_then(|v| v.parse().ok()).unwrap_or(dflt))
}

fn finish(mut k: Kid) -> String {
    drop(k.tx);
    match k.child.wait() {
        Ok(st) => {
            use std::os::unix::process::ExitStatusExt;
            match (st.code(), st.signal()) {
                (Some(c), _) => format!("exit:{}", c),
                (None, Some(sg)) => format!("signal:{}", sg),
                _ => "exit:?".into(),
            }
        }
        Err(_) => "exit:?".into(),
    }
}

fn remove_named(dir: &std::path::Path, name: &str) {
    if let Ok(rd) = std::fs::read_dir(dir) {
        for e in rd.flatten() {
            let p = e.path();
            if p.is_dir() {
                remove_named(&p, name);
            } else if p.file_name().map(|n| n == name).unwrap_or(false) {
                let _ = std::fs::remove_file(&p);
            }
        }
    }
}

/// dispatcher
pub fn engine_main(base: &str) {
    let exe = std::env::current_exe().unwrap();
    let stdin = std::io::stdin();
    let stdout = std::io::stdout();
    let mut out = std::io::BufWriter::new(stdout.lock());
    let mut kid: Option<Kid> = None;
    let mut dir = PathBuf::new();
    let (mut mode, mut backend, mut sched) = (String::new(), String::new(), String::new());
    let mut extra: Vec<(String, String)> = Vec::new();
    let mut reg: Vec<String> = Vec::new();
    let mut case_no = 0u64;
    let keep = std::env::var("WH_KEEP").is_ok();
    for line in stdin.lock().lines() {
        let line = line.unwrap();
        let line = line.trim();
        let t: Vec<&str> = line.split_whitespace().collect();
        if t.is_empty() {
            writeln!(out, "badcase").unwrap();
            continue;
        }
        if t[0] == "CASE" {
            if let Some(k) = kid.take() {
                finish(k);
            }
            if !keep && !dir.as_os_str().is_empty() {
                let _ = std::fs::remove_dir_all(&dir);
            }
            case_no += 1;
            dir = PathBuf::from(base).join(format!("c{}_{}", std::process::id(), case_no));
            let _ = std::fs::remove_dir_all(&dir);
            std::fs::create_dir_all(&dir).unwrap();
            mode = "strict".into();
            backend = "fd".into();
            sched = "nofsync".into();
            let mut pretrace = false;
            let mut adopt: Option<String> = None;
            for kv in &t[2..] {
                // C10: trace=1 records the I/O trace from before the instance is opened (file creation
                // included); adopt=<dir> starts the case on a copy of a prepared data directory
                if *kv == "trace=1" {
                    pretrace = true;
                } else if let Some(v) = kv.strip_prefix("adopt=") {
                    adopt = Some(v.to_string());
                }
            }
            extra.clear();
            for kv in &t[2..] {
                // inst=N: N instances in the process (ops prefixed @k); idirs=1: they differ by
                // data dir instead of by key; trk=1: trace tracker calls from process start
                if let Some(v) = kv.strip_prefix("inst=") {
                    extra.push(("WH_INST".into(), v.to_string()));
                } else if kv.strip_prefix("idirs=").is_some() {
                    extra.push(("WH_IDIRS".into(), "1".into()));
                } else if kv.strip_prefix("trk=").is_some() {
                    extra.push(("WH_TRK".into(), "1".into()));
                } else if let Some(v) = kv.strip_prefix("keys=") {
                    extra.push(("WH_KEYS".into(), v.to_string()));
                } else if kv.strip_prefix("envdir=").is_some() {
                    extra.push(("WH_ENVDIR".into(), "1".into()));
                }
            }
            for kv in &t[2..] {
                if let Some(v) = kv.strip_prefix("mode=") {
                    mode = v.into();
                } else if let Some(v) = kv.strip_prefix("backend=") {
                    backend = v.into();
                } else if let Some(v) = kv.strip_prefix("sched=") {
                    sched = v.into();
                }
            }
            reg.clear();
            if let Some(src) = adopt {
                if let Err(e) = copy_tree(std::path::Path::new(&src), &dir) {
                    writeln!(out, "adoptfailed:{}", e).unwrap();
                    continue;
                }
            }
            let mut k = spawn(&exe, &dir, &mode, &backend, &sched, &reg, &extra);
            if pretrace {
                let _ = ask(&mut k, "TRACE");
            }
            let r = ask(&mut k, "OPEN");
            kid = Some(k);
            writeln!(out, "{}", r).unwrap();
            continue;
        }
        // remember offered payloads so that a later process lifetime can identify them
        let t: Vec<&str> = if t[0].starts_with('@') && t.len() > 1 { t[1..].to_vec() } else { t };
        match t[0] {
            "A" => reg.push(format!("REG {} {} {}", t[1], t[2], t[3])),
            "B" if t[2] != "-" => {
                for it in t[2].split(',') {
                    let mut p = it.split(':');
                    reg.push(format!("REG {} {} {}", t[1], p.next().unwrap(), p.next().unwrap()));
                }
            }
            "BN" => {
                let (p0, n): (u64, u64) = (t[2].parse().unwrap(), t[3].parse().unwrap());
                for i in 0..n {
                    reg.push(format!("REG {} {} {}", t[1], p0 + i, t[4]));
                }
            }
            _ => {}
        }
        if t[0] == "REG" {
            // C11: payloads offered in an earlier life of an adopted directory
            reg.push(line.to_string());
            if let Some(k) = kid.as_mut() {
                let _ = writeln!(k.tx, "{}", line);
            }
            writeln!(out, "ok").unwrap();
            continue;
        }
        if t[0] == "END" {
            // C11: clean shutdown of the current lifetime; reports how the process ended
            let r = match kid.take() {
                Some(k) => finish(k),
                None => "nocase".into(),
            };
            writeln!(out, "{}", r).unwrap();
            continue;
        }
        if t[0] == "RESTART" || t[0] == "RMIDX" {
            if let Some(k) = kid.take() {
                finish(k);
            }
            if t[0] == "RMIDX" {
                // forget every persisted read position (all namespaces of the case) between two
                // process lifetimes: the next lifetime delivers whatever is still on disk
                remove_named(&dir, "read_offset_idx_index.db");
            }
            let mut k = spawn(&exe, &dir, &mode, &backend, &sched, &reg, &extra);
            let r = ask(&mut k, "OPEN");
            kid = Some(k);
            writeln!(out, "{}", r).unwrap();
            continue;
        }
        let r = match kid.as_mut() {
            Some(k) => ask(k, line),
            None => "nocase".into(),
        };
        writeln!(out, "{}", r).unwrap();
    }
    if let Some(k) = kid.take() {
        finish(k);
    }
    if !keep && !dir.as_os_str().is_empty() {
        let _ = std::fs::remove_dir_all(&dir);
    }
    out.flush().unwrap();
}

fn unhex_str(h: &str) -> String {
    let b: Vec<u8> = (0..h.len() / 2).filter_map(|i| u8::from_str_radix(&h[2 * i..2 * i + 2], 16).ok()).collect();
    String::from_utf8_lossy(&b).into_owned()
}
