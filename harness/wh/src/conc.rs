//! Concurrency harness (C05): real threads over one walrus instance, interleaved at the
//! scheduling points `walrus_rust::wal::verif::yield_point` (cfg walrus_verif) exactly as a
//! schedule list says.  Compiled only with `--cfg walrus_verif_conc`.
//!
//! `wh conc <base>`   dispatcher: one case per input line, each run in its own child process
//!                    (`wh conc1 <dir>`) on a fresh directory; one output line per case.
//! `wh conc1 <dir>`   one case: reads the case line on stdin, prints the result line.
//!
//! Case line:   CONC <id> mode=<strict|alo:n> backend=<fd|mmap> | T: <op> ; <op> ... | T: ... | S: <tid> <tid> ... | D: <topic> ...
//!   ops:  A <topic> <pid> <len>   B <topic> <pid>:<len>,...   R <topic> <ckpt>   BR <topic> <budget|max> <ckpt>
//!   S:    the schedule; element k lets thread <tid> run from the scheduling point it is parked
//!         at to its next one (or to its end).  Elements naming a finished thread are skipped.
//!         When the list is exhausted the unfinished threads are completed lowest id first.
//!   D:    topics drained by the main thread after all threads have finished (read_next with
//!         checkpoint until two consecutive `none`), followed by the topic's entry count.
//! Result line: status=<ok|blocked@k> steps=<tid>:<site>,... res=T0:<r>;<r>|T1:... drain=<topic>:<r>;<r>,... counts=<topic>:<n>,...
//!   <site> is the scheduling point the thread reached ("ret": its current call returned).
use crate::engine::{payload, pbyte};
use std::collections::HashMap;
use std::io::{BufRead, BufReader, Read, Write};
use std::panic::{catch_unwind, AssertUnwindSafe};
use std::path::PathBuf;
use std::process::{Command, Stdio};
use std::sync::{Arc, Mutex};
use walrus_rust::wal::verif::{self, StepOutcome};
use walrus_rust::{FsyncSchedule, ReadConsistency, Walrus};

#[derive(Clone, Debug)]
enum Call {
    A(String, u64, u64),
    B(String, Vec<(u64, u64)>),
    R(String, bool),
    BR(String, usize, bool),
}

fn fnv(data: &[u8]) -> u64 {
    let mut h: u64 = 0xcbf29ce484222325;
    for &b in data {
        h ^= b as u64;
        h = h.wrapping_mul(0x100000001b3);
    }
    h
}

fn errkind(e: &std::io::Error) -> String {
    format!("err:{:?}", e.kind())
}

type Reg = HashMap<String, Vec<(u64, u64)>>;

/// identify returned bytes among the payloads this topic was offered (same naming as `engine`)
fn ident(reg: &Reg, topic: &str, d: &[u8]) -> String {
    let h = fnv(d) & 0xffff_ffff;
    if d.is_empty() {
        return format!("e:_:0:0:{:08x}", h);
    }
    let l = d.len() as u64;
    let mut best: Option<(u64, u64)> = None;
    if let Some(v) = reg.get(topic) {
        for &(pid, len) in v.iter() {
            if len < l {
                continue;
            }
            let skip = len - l;
            if pbyte(pid, skip) != d[0] || pbyte(pid, len - 1) != d[d.len() - 1] {
                continue;
            }
            if (0..l).all(|j| pbyte(pid, skip + j) == d[j as usize]) {
                let better = match best {
                    None => true,
                    Some((bp, bs)) => (skip, pid) < (bs, bp),
                };
                if better {
                    best = Some((pid, skip));
                }
            }
        }
    }
    match best {
        Some((pid, skip)) => format!("e:{}:{}:{}:{:08x}", pid, skip, l, h),
        None => format!("e:X:0:{}:{:08x}", l, h),
    }
}

fn parse_call(s: &str) -> Option<Call> {
    let t: Vec<&str> = s.split_whitespace().collect();
    match t.as_slice() {
        ["A", topic, pid, len] => Some(Call::A(topic.to_string(), pid.parse().ok()?, len.parse().ok()?)),
        ["B", topic, items] => {
            let mut v = Vec::new();
            if *items != "-" {
                for it in items.split(',') {
                    let mut p = it.split(':');
                    v.push((p.next()?.parse().ok()?, p.next()?.parse().ok()?));
                }
            }
            Some(Call::B(topic.to_string(), v))
        }
        ["R", topic, ck] => Some(Call::R(topic.to_string(), *ck == "1")),
        ["BR", topic, budget, ck] => {
            let b: usize = if *budget == "max" { usize::MAX } else { budget.parse::<u64>().ok()? as usize };
            Some(Call::BR(topic.to_string(), b, *ck == "1"))
        }
        _ => None,
    }
}

fn exec(wal: &Walrus, reg: &Reg, c: &Call) -> String {
    match c {
        Call::A(topic, pid, len) => {
            let data = payload(*pid, *len);
            match catch_unwind(AssertUnwindSafe(|| wal.append_for_topic(topic, &data))) {
                Ok(Ok(())) => "ok".to_string(),
                Ok(Err(e)) => errkind(&e),
                Err(_) => "panic".into(),
            }
        }
        Call::B(topic, items) => {
            let datas: Vec<Vec<u8>> = items.iter().map(|&(p, l)| payload(p, l)).collect();
            let refs: Vec<&[u8]> = datas.iter().map(|d| d.as_slice()).collect();
            match catch_unwind(AssertUnwindSafe(|| wal.batch_append_for_topic(topic, &refs))) {
                Ok(Ok(())) => "ok".to_string(),
                Ok(Err(e)) => errkind(&e),
                Err(_) => "panic".into(),
            }
        }
        Call::R(topic, ck) => match catch_unwind(AssertUnwindSafe(|| wal.read_next(topic, *ck))) {
            Ok(Ok(None)) => "none".to_string(),
            Ok(Ok(Some(e))) => ident(reg, topic, &e.data),
            Ok(Err(e)) => errkind(&e),
            Err(_) => "panic".into(),
        },
        Call::BR(topic, budget, ck) => {
            match catch_unwind(AssertUnwindSafe(|| wal.batch_read_for_topic(topic, *budget, *ck, None))) {
                Ok(Ok(v)) => {
                    let items: Vec<String> = v.iter().map(|e| ident(reg, topic, &e.data)).collect();
                    format!("[{}]", items.join("+"))
                }
                Ok(Err(e)) => errkind(&e),
                Err(_) => "panic".into(),
            }
        }
    }
}

fn timeout_ms() -> u64 {
    std::env::var("WH_CONC_TIMEOUT_MS").ok().and_then(|s| s.parse().ok()).unwrap_or(3000)
}

fn run_case(dir: &str, line: &str) -> String {
    let sections: Vec<&str> = line.split('|').map(|s| s.trim()).collect();
    let head: Vec<&str> = sections[0].split_whitespace().collect();
    if head.len() < 2 || head[0] != "CONC" {
        return "status=badcase".into();
    }
    let mut mode = ReadConsistency::StrictlyAtOnce;
    let mut backend = "fd";
    for kv in &head[2..] {
        if let Some(v) = kv.strip_prefix("mode=") {
            mode = match v.strip_prefix("alo:") {
                Some(n) => ReadConsistency::AtLeastOnce { persist_every: n.parse().unwrap_or(1) },
                None => ReadConsistency::StrictlyAtOnce,
            };
        } else if let Some(v) = kv.strip_prefix("backend=") {
            backend = if v == "mmap" { "mmap" } else { "fd" };
        }
    }
    let mut progs: Vec<Vec<Call>> = Vec::new();
    let mut sched: Vec<usize> = Vec::new();
    let mut drain: Vec<String> = Vec::new();
    for sec in &sections[1..] {
        if let Some(body) = sec.strip_prefix("T:") {
            let mut calls = Vec::new();
            for c in body.split(';') {
                let c = c.trim();
                if c.is_empty() {
                    continue;
                }
                match parse_call(c) {
                    Some(x) => calls.push(x),
                    None => return "status=badcase".into(),
                }
            }
            progs.push(calls);
        } else if let Some(body) = sec.strip_prefix("S:") {
            for x in body.split_whitespace() {
                match x.parse() {
                    Ok(v) => sched.push(v),
                    Err(_) => return "status=badcase".into(),
                }
            }
        } else if let Some(body) = sec.strip_prefix("D:") {
            drain = body.split_whitespace().map(|s| s.to_string()).collect();
        }
    }
    let n = progs.len();
    if sched.iter().any(|&t| t >= n) {
        return "status=badcase".into();
    }
    let mut reg: Reg = HashMap::new();
    for p in &progs {
        for c in p {
            match c {
                Call::A(t, pid, len) => reg.entry(t.clone()).or_default().push((*pid, *len)),
                Call::B(t, items) => reg.entry(t.clone()).or_default().extend(items.iter().cloned()),
                _ => {}
            }
        }
    }
    let reg = Arc::new(reg);
    if backend == "mmap" {
        walrus_rust::disable_fd_backend();
    } else {
        walrus_rust::enable_fd_backend();
    }
    let wal = match catch_unwind(AssertUnwindSafe(|| {
        Walrus::builder().data_dir(PathBuf::from(dir)).key("k").consistency(mode).fsync_schedule(FsyncSchedule::NoFsync).build()
    })) {
        Ok(Ok(w)) => Arc::new(w),
        _ => return "status=noinstance".into(),
    };

    verif::sched_install(n);
    let results: Arc<Vec<Mutex<Vec<String>>>> = Arc::new((0..n).map(|_| Mutex::new(Vec::new())).collect());
    let mut handles = Vec::new();
    for (tid, calls) in progs.iter().cloned().enumerate() {
        let wal = wal.clone();
        let reg = reg.clone();
        let results = results.clone();
        handles.push(std::thread::spawn(move || {
            verif::sched_register(tid);
            for c in calls.iter() {
                verif::yield_point("call");
                let r = exec(&wal, &reg, c);
                results[tid].lock().unwrap().push(r);
            }
            verif::sched_done();
        }));
    }
    let to = timeout_ms();
    let mut status = "ok".to_string();
    let mut steps: Vec<String> = Vec::new();
    let mut done = vec![false; n];
    for tid in 0..n {
        match verif::sched_wait_parked(tid, 10_000) {
            StepOutcome::Finished => done[tid] = true,
            StepOutcome::Parked(_) => {}
            StepOutcome::Blocked => status = "blocked@start".into(),
        }
    }
    let mut k = 0usize;
    let mut do_step = |tid: usize, steps: &mut Vec<String>, done: &mut Vec<bool>, status: &mut String, k: &mut usize| -> bool {
        *k += 1;
        match verif::sched_step(tid, to) {
            StepOutcome::Finished => {
                done[tid] = true;
                steps.push(format!("{}:ret", tid));
                true
            }
            StepOutcome::Parked(site) => {
                steps.push(format!("{}:{}", tid, if site == "call" { "ret" } else { site }));
                true
            }
            StepOutcome::Blocked => {
                steps.push(format!("{}:BLOCKED", tid));
                *status = format!("blocked@{}", *k);
                false
            }
        }
    };
    if status == "ok" {
        let mut alive = true;
        for &tid in &sched {
            if done[tid] {
                continue;
            }
            if !do_step(tid, &mut steps, &mut done, &mut status, &mut k) {
                alive = false;
                break;
            }
        }
        if alive {
            'outer: for tid in 0..n {
                while !done[tid] {
                    if !do_step(tid, &mut steps, &mut done, &mut status, &mut k) {
                        break 'outer;
                    }
                }
            }
        }
    }
    // unwind: whatever is still parked or blocked runs freely to its end
    verif::sched_release_all();
    for h in handles {
        let _ = h.join();
    }
    verif::sched_uninstall();

    let mut out = format!("status={} steps={}", status, if steps.is_empty() { "-".to_string() } else { steps.join(",") });
    let res: Vec<String> = (0..n)
        .map(|t| {
            let v = results[t].lock().unwrap();
            format!("T{}:{}", t, if v.is_empty() { "-".to_string() } else { v.join(";") })
        })
        .collect();
    out.push_str(&format!(" res={}", if res.is_empty() { "-".to_string() } else { res.join("|") }));
    // drain (main thread, no controller)
    let mut dr = Vec::new();
    let mut counts = Vec::new();
    for t in &drain {
        let mut got = Vec::new();
        let mut nones = 0;
        for _ in 0..4096 {
            let r = exec(&wal, &reg, &Call::R(t.clone(), true));
            if r == "none" {
                nones += 1;
                if nones >= 2 {
                    break;
                }
            } else {
                nones = 0;
                got.push(r);
            }
        }
        dr.push(format!("{}:{}", t, if got.is_empty() { "-".to_string() } else { got.join(";") }));
        counts.push(format!("{}:{}", t, wal.get_topic_entry_count(t)));
    }
    out.push_str(&format!(" drain={}", if dr.is_empty() { "-".to_string() } else { dr.join(",") }));
    out.push_str(&format!(" counts={}", if counts.is_empty() { "-".to_string() } else { counts.join(",") }));
    out
}

/// one case, own process
pub fn conc1_main(dir: &str) {
    if std::env::var("WH_PANIC").is_err() {
        std::panic::set_hook(Box::new(|_| {}));
    }
    let mut line = String::new();
    std::io::stdin().read_line(&mut line).unwrap();
    let r = run_case(dir, line.trim());
    println!("{}", r);
}

/// dispatcher
pub fn conc_main(base: &str) {
    let exe = std::env::current_exe().unwrap();
    let stdin = std::io::stdin();
    let stdout = std::io::stdout();
    let mut out = std::io::BufWriter::new(stdout.lock());
    let keep = std::env::var("WH_KEEP").is_ok();
    let mut case_no = 0u64;
    for line in stdin.lock().lines() {
        let line = line.unwrap();
        case_no += 1;
        let dir = PathBuf::from(base).join(format!("k{}_{}", std::process::id(), case_no));
        let _ = std::fs::remove_dir_all(&dir);
        std::fs::create_dir_all(&dir).unwrap();
        let mut child = Command::new(&exe)
            .arg("conc1")
            .arg(&dir)
            .env("WALRUS_QUIET", "1")
            .stdin(Stdio::piped())
            .stdout(Stdio::piped())
            .stderr(if std::env::var("WH_PANIC").is_ok() { Stdio::inherit() } else { Stdio::null() })
            .spawn()
            .expect("spawn conc1");
        {
            let mut tx = child.stdin.take().unwrap();
            let _ = writeln!(tx, "{}", line.trim());
        }
        // the child always terminates: every wait inside it is bounded, except a real deadlock
        // among freely running threads; guard with a watchdog
        let mut rx = BufReader::new(child.stdout.take().unwrap());
        let pid = child.id();
        let finished = Arc::new(Mutex::new(false));
        let f2 = finished.clone();
        let guard_ms: u64 = std::env::var("WH_CONC_CASE_MS").ok().and_then(|s| s.parse().ok()).unwrap_or(60_000);
        let wd = std::thread::spawn(move || {
            let t0 = std::time::Instant::now();
            while t0.elapsed().as_millis() < guard_ms as u128 {
                if *f2.lock().unwrap() {
                    return;
                }
                std::thread::sleep(std::time::Duration::from_millis(20));
            }
            unsafe {
                libc_kill(pid as i32);
            }
        });
        let mut s = String::new();
        let _ = rx.read_to_string(&mut s);
        let _ = child.wait();
        *finished.lock().unwrap() = true;
        drop(wd); // detached: it sees the flag within 20 ms and ends
        let r = s.lines().next().unwrap_or("status=hung").to_string();
        writeln!(out, "{}", r).unwrap();
        if !keep {
            let _ = std::fs::remove_dir_all(&dir);
        }
    }
    out.flush().unwrap();
}

extern "C" {
    fn kill(pid: i32, sig: i32) -> i32;
}
unsafe fn libc_kill(pid: i32) {
    kill(pid, 9);
}
