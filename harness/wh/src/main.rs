//! wh — harness over the real walrus-rust crate (built from /repo's working tree with
//! RUSTFLAGS="--cfg walrus_verif"). Reads cases on stdin, prints one canonical line per case.
use std::io::{BufRead, Write};

mod util;
mod keydir;
mod engine;
#[cfg(walrus_verif_conc)]
mod conc;
mod clean;

fn main() {
    let args: Vec<String> = std::env::args().collect();
    let cmd = args.get(1).map(|s| s.as_str()).unwrap_or("");
    let stdin = std::io::stdin();
    let stdout = std::io::stdout();
    let mut out = std::io::BufWriter::new(stdout.lock());
    match cmd {
        "sanitize" => {
            for line in stdin.lock().lines() {
                let line = line.unwrap();
                let r = match util::string_of_hex(line.trim()) {
                    None => "badutf8".to_string(),
                    Some(key) => util::hex_of_str(&walrus_rust::wal::verif::sanitize_namespace(&key)),
                };
                writeln!(out, "{}", r).unwrap();
            }
        }
        "keydir" => {
            let base = args.get(2).expect("keydir <base-dir>");
            for line in stdin.lock().lines() {
                let line = line.unwrap();
                writeln!(out, "{}", keydir::run_case(base, line.trim())).unwrap();
                out.flush().unwrap();
            }
        }
        "engine" => {
            drop(out);
            engine::engine_main(args.get(2).expect("engine <base-dir>"));
            return;
        }
        "seg" => {
            drop(out);
            engine::seg_main(&args[2..]);
            return;
        }
        #[cfg(walrus_verif_conc)]
        "conc" => {
            drop(out);
            conc::conc_main(args.get(2).expect("conc <base-dir>"));
            return;
        }
        #[cfg(walrus_verif_conc)]
        "conc1" => {
            drop(out);
            conc::conc1_main(args.get(2).expect("conc1 <dir>"));
            return;
        }
        _ => {
            eprintln!("usage: wh sanitize | keydir <base> | engine <base>");
            std::process::exit(2);
        }
    }
    out.flush().unwrap();
}
