//! C17 helpers for the engine harness: reading the clean-marker store file, waiting until the
//! background persister has caught up, and (when the walrus sources carry the
//! `clean_gate_*` verification hook) driving the persister thread step by step.
use crate::util;
use std::collections::HashMap;
use std::path::{Path, PathBuf};
use std::time::{Duration, Instant};
use walrus_rust::Walrus;

/// Mirror of `CleanMarkerRecord` in src/wal/runtime/topic_clean.rs (private module there):
/// same fields, same order, same derive => same archived layout.  The file is the rkyv archive
/// of a `HashMap<String, CleanMarkerRecord>`.
#[derive(rkyv::Archive, rkyv::Deserialize, rkyv::Serialize, Debug, Clone)]
#[archive(check_bytes)]
pub struct CleanMarkerRecord {
    pub generation: u64,
    pub is_clean: bool,
}

pub fn store_path(data_dir: &Path) -> PathBuf {
    data_dir
        .join(walrus_rust::wal::verif::sanitize_namespace("k"))
        .join("topic_clean_index.db")
}

/// None: file absent or empty (the code treats both as the empty map); Err: not a valid archive
pub fn read_store(data_dir: &Path) -> Result<Option<Vec<(String, u64, bool)>>, String> {
    let bytes = match std::fs::read(store_path(data_dir)) {
        Ok(b) => b,
        Err(e) if e.kind() == std::io::ErrorKind::NotFound => return Ok(None),
        Err(e) => return Err(format!("{:?}", e.kind())),
    };
    if bytes.is_empty() {
        return Ok(None);
    }
    // rkyv wants an aligned buffer
    let mut al = rkyv::AlignedVec::with_capacity(bytes.len());
    al.extend_from_slice(&bytes);
    let archived = rkyv::check_archived_root::<HashMap<String, CleanMarkerRecord>>(&al)
        .map_err(|_| "invalid".to_string())?;
    let mut v: Vec<(String, u64, bool)> = archived
        .iter()
        .map(|(k, r)| (k.as_str().to_string(), r.generation.into(), r.is_clean))
        .collect();
    v.sort_by(|a, b| a.0.as_bytes().cmp(b.0.as_bytes()));
    Ok(Some(v))
}

/// DUMP: `store:<hex topic>=<generation>:<0|1>,...` sorted by topic bytes, `store:-` when empty
pub fn dump(data_dir: &Path) -> String {
    match read_store(data_dir) {
        Ok(None) => "store:-".into(),
        Ok(Some(v)) if v.is_empty() => "store:-".into(),
        Ok(Some(v)) => {
            let items: Vec<String> = v
                .iter()
                .map(|(k, g, c)| format!("{}={}:{}", util::hex_of_str(k), g, if *c { 1 } else { 0 }))
                .collect();
            format!("store:{}", items.join(","))
        }
        Err(e) => format!("store:err:{}", e),
    }
}

/// WAITSYNC t..: wait (up to 5 s) until, for every listed topic, the flag in the store file
/// equals what `topic_is_clean` reports (absent = clean).  Public API + file read only.
pub fn wait_sync(wal: &Walrus, data_dir: &Path, topics: &[String]) -> String {
    let t0 = Instant::now();
    loop {
        if let Ok(st) = read_store(data_dir) {
            let m: HashMap<String, bool> = st.unwrap_or_default().into_iter().map(|(k, _, c)| (k, c)).collect();
            if topics.iter().all(|t| wal.topic_is_clean(t) == *m.get(t).unwrap_or(&true)) {
                return "ok".into();
            }
        }
        if t0.elapsed() > Duration::from_secs(5) {
            return "timeout".into();
        }
        std::thread::sleep(Duration::from_micros(300));
    }
}

// ------------------------------------------------------------------------------------------
// persister gate (hook `clean_gate_*` in src/wal/verif.rs; absent => every op answers "nohook")

#[derive(Default)]
pub struct Gate {
    pub on: bool,
    /// 1: dropping an instance never waits for its persister; 2: it waits for a write in flight
    /// (code that flushes on drop), so that write is released when the instance is dropped
    pub mode: u8,
    /// a drop in mode 1 did not return within 30 s and the write in flight was released
    pub forced: bool,
    /// sequence number of the live instance's persister thread
    pub live: u64,
    /// persisters of dropped instances that still wait right before their file write
    pub orphans: Vec<u64>,
}

#[cfg(has_clean_gate)]
mod g {
    use super::*;
    use walrus_rust::wal::verif as v;

    fn wait<F: Fn() -> bool>(f: F) -> bool {
        let t0 = Instant::now();
        while !f() {
            if t0.elapsed() > Duration::from_secs(10) {
                return false;
            }
            std::thread::sleep(Duration::from_micros(100));
        }
        true
    }

    /// the persister that registered after `prev` is the live one; wait until it rests at the loop top
    pub fn adopt(g: &mut Gate, prev: u64) -> bool {
        if !wait(|| v::clean_gate_last_seq() > prev) {
            return false;
        }
        g.live = v::clean_gate_last_seq();
        let live = g.live;
        wait(|| v::clean_gate_where(live).1 == 0)
    }

    pub fn enable(g: &mut Gate, mode: u8, have_instance: bool) -> String {
        let on = mode != 0;
        if on {
            g.mode = mode;
        }
        if on && !g.on {
            let prev = v::clean_gate_last_seq();
            v::clean_gate_enable(true);
            g.on = true;
            if have_instance && !adopt(g, prev) {
                return "gate:stuck".into();
            }
        } else if !on {
            v::clean_gate_enable(false);
            g.on = false;
            g.orphans.clear();
        }
        "ok".into()
    }

    fn phase(seq: u64) -> String {
        match v::clean_gate_where(seq).1 {
            0 => "p:idle".into(),
            1 => "p:got".into(),
            2 => "p:fly".into(),
            _ => "p:run".into(),
        }
    }

    /// let `seq` pass `point` once and wait for its next arrival at a gate
    fn pass(seq: u64, point: u8) -> bool {
        let (n0, at) = v::clean_gate_where(seq);
        if at != point {
            return true;
        }
        v::clean_gate_pass(seq, point);
        wait(|| v::clean_gate_where(seq).0 > n0)
    }

    /// TU: receive + upgrade (the persister then rests, holding its strong reference, before
    /// persist_topics; or is back at the top when nothing was queued)
    pub fn tick_upgrade(g: &Gate) -> String {
        if !g.on {
            return "gate:off".into();
        }
        if !pass(g.live, 0) {
            return "gate:stuck".into();
        }
        let live = g.live;
        wait(|| v::clean_gate_where(live).1 != 255);
        phase(g.live)
    }

    /// TS: the snapshot of the pending topics + store update (then rests before the file write)
    pub fn tick_snapshot(g: &Gate) -> String {
        if !g.on {
            return "gate:off".into();
        }
        if !pass(g.live, 1) {
            return "gate:stuck".into();
        }
        let live = g.live;
        wait(|| v::clean_gate_where(live).1 != 255);
        phase(g.live)
    }

    /// TB: receive + upgrade + snapshot
    pub fn tick_begin(g: &Gate) -> String {
        let r = tick_upgrade(g);
        if r == "p:got" {
            return tick_snapshot(g);
        }
        r
    }

    /// TE: the file write (temp file, fsync, rename) of the live persister
    pub fn tick_end(g: &Gate) -> String {
        if !g.on {
            return "gate:off".into();
        }
        if !pass(g.live, 2) {
            return "gate:stuck".into();
        }
        let live = g.live;
        wait(|| v::clean_gate_where(live).1 != 255);
        phase(g.live)
    }

    /// OL k: the file write of the k-th waiting persister of a dropped instance
    pub fn orphan_land(g: &mut Gate, k: usize) -> String {
        if !g.on {
            return "gate:off".into();
        }
        if k >= g.orphans.len() {
            return "none".into();
        }
        let seq = g.orphans.remove(k);
        if v::clean_gate_where(seq).1 == 1 {
            // held after its upgrade: let it take its snapshot; it comes to rest before the file
            // write - or not at all when the code refuses writes after a shutdown flush
            if !pass(seq, 1) {
                return "gate:stuck".into();
            }
        }
        if v::clean_gate_where(seq).1 != 2 {
            return "none".into();
        }
        if !pass(seq, 2) {
            return "gate:stuck".into();
        }
        "ok".into()
    }

    /// clean shutdown of an instance while the gate is on
    pub fn drop_instance(g: &mut Gate, wal: Walrus) {
        let live = g.live;
        let at = v::clean_gate_where(live).1;
        if at == 2 && g.mode == 2 {
            // the drop waits for the write in flight: release it, then drop
            v::clean_gate_pass(live, 2);
            drop(wal);
            return;
        }
        // mode 1: the drop must not depend on the persister; guard against a hang all the same
        let h = std::thread::spawn(move || drop(wal));
        let t0 = Instant::now();
        let mut forced = false;
        while !h.is_finished() {
            if at == 2 && !forced && t0.elapsed() > Duration::from_secs(30) {
                v::clean_gate_pass(live, 2);
                forced = true;
                g.forced = true;
            }
            std::thread::sleep(Duration::from_micros(200));
        }
        let _ = h.join();
        if (at == 2 && !forced) || at == 1 {
            g.orphans.push(live);
        }
    }

    pub fn last_seq() -> u64 {
        v::clean_gate_last_seq()
    }
}

#[cfg(not(has_clean_gate))]
mod g {
    use super::*;
    pub fn adopt(_g: &mut Gate, _prev: u64) -> bool {
        true
    }
    pub fn enable(_g: &mut Gate, _mode: u8, _have: bool) -> String {
        "nohook".into()
    }
    pub fn tick_begin(_g: &Gate) -> String {
        "nohook".into()
    }
    pub fn tick_upgrade(_g: &Gate) -> String {
        "nohook".into()
    }
    pub fn tick_snapshot(_g: &Gate) -> String {
        "nohook".into()
    }
    pub fn tick_end(_g: &Gate) -> String {
        "nohook".into()
    }
    pub fn orphan_land(_g: &mut Gate, _k: usize) -> String {
        "nohook".into()
    }
    pub fn drop_instance(_g: &mut Gate, wal: Walrus) {
        drop(wal)
    }
    pub fn last_seq() -> u64 {
        0
    }
}

pub use g::*;
