//! C14: build a real instance for a key through a chosen constructor and report where
//! files appeared, relative to <base>/<n>/outer. The configured data dir is outer/data.
use crate::util;
use std::path::{Path, PathBuf};
use std::sync::atomic::{AtomicU64, Ordering};
use walrus_rust::{FsyncSchedule, ReadConsistency, Walrus};

static CASE_NO: AtomicU64 = AtomicU64::new(0);

fn walk(root: &Path, dir: &Path, acc: &mut Vec<String>) {
    let mut has_file = false;
    if let Ok(rd) = std::fs::read_dir(dir) {
        for e in rd.flatten() {
            let p = e.path();
            if p.is_dir() {
                walk(root, &p, acc);
            } else {
                has_file = true;
            }
        }
    }
    if has_file {
        let rel = dir.strip_prefix(root).unwrap_or(dir);
        acc.push(rel.to_string_lossy().into_owned());
    }
}

/// case: "<ctor> <hexkey>", ctor in builder | forkey | env | cons
pub fn run_case(base: &str, line: &str) -> String {
    let mut it = line.split_whitespace();
    let ctor = it.next().unwrap_or("");
    let key = match it.next().and_then(util::string_of_hex) {
        Some(k) => k,
        None => return "badutf8".into(),
    };
    let n = CASE_NO.fetch_add(1, Ordering::Relaxed);
    let case_root = PathBuf::from(base).join(format!("k{}_{}", std::process::id(), n));
    let outer = case_root.join("outer");
    let data = outer.join("data");
    std::fs::create_dir_all(&data).unwrap();
    // SAFETY of env mutation: the harness is single threaded at this point apart from the
    // engine's own background threads, which never read these variables.
    let res = match ctor {
        "builder" => Walrus::builder()
            .data_dir(data.clone())
            .key(&key)
            .fsync_schedule(FsyncSchedule::NoFsync)
            .build(),
        "forkey" => {
            std::env::set_var("WALRUS_DATA_DIR", &data);
            Walrus::new_for_key(&key)
        }
        "cons" => {
            std::env::set_var("WALRUS_DATA_DIR", &data);
            Walrus::with_consistency_and_schedule_for_key(
                &key,
                ReadConsistency::AtLeastOnce { persist_every: 2 },
                FsyncSchedule::NoFsync,
            )
        }
        "env" => {
            std::env::set_var("WALRUS_DATA_DIR", &data);
            if key.contains('\0') {
                // the OS environment cannot carry NUL; not a constructor input
                let _ = std::fs::remove_dir_all(&case_root);
                return "skip-nul".into();
            }
            std::env::set_var("WALRUS_INSTANCE_KEY", &key);
            let r = Walrus::new();
            std::env::remove_var("WALRUS_INSTANCE_KEY");
            r
        }
        _ => return "badcase".into(),
    };
    let out = match res {
        Err(e) => format!("err:{:?}", e.kind()),
        Ok(w) => {
            let _ = w.append_for_topic("t", b"x");
            drop(w);
            let mut dirs = Vec::new();
            walk(&outer, &outer, &mut dirs);
            dirs.sort();
            let enc: Vec<String> = dirs.iter().map(|d| util::hex_of_str(d)).collect();
            format!("dirs:{}", enc.join(","))
        }
    };
    let _ = std::fs::remove_dir_all(&case_root);
    out
}
