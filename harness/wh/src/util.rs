pub fn bytes_of_hex(s: &str) -> Vec<u8> {
    if s == "-" {
        return Vec::new();
    }
    let b = s.as_bytes();
    (0..b.len() / 2)
        .map(|i| {
            let h = |c: u8| match c {
                b'0'..=b'9' => c - b'0',
                b'a'..=b'f' => c - b'a' + 10,
                b'A'..=b'F' => c - b'A' + 10,
                _ => panic!("bad hex"),
            };
            h(b[2 * i]) * 16 + h(b[2 * i + 1])
        })
        .collect()
}

pub fn hex_of_bytes(b: &[u8]) -> String {
    if b.is_empty() {
        return "-".to_string();
    }
    b.iter().map(|x| format!("{:02x}", x)).collect()
}

pub fn string_of_hex(s: &str) -> Option<String> {
    String::from_utf8(bytes_of_hex(s)).ok()
}

pub fn hex_of_str(s: &str) -> String {
    hex_of_bytes(s.as_bytes())
}
