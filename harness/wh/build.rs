// Detects optional cfg(walrus_verif) hooks in the walrus sources this harness is built against,
// so that the same harness compiles with and without them.
fn main() {
    let verif = "/repo/src/wal/verif.rs";
    println!("cargo:rerun-if-changed={}", verif);
    println!("cargo:rerun-if-changed=build.rs");
    let src = std::fs::read_to_string(verif).unwrap_or_default();
    if src.contains("pub fn clean_gate_top") {
        println!("cargo:rustc-cfg=has_clean_gate");
    }
}
