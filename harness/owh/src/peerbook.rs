//! Peer address book: MIRROR of the peer-address code of /repo/octopii/src/openraft/node.rs
//! (node.rs itself needs quinn, the RPC layer and a running Raft and cannot be compiled here).
//! `PeerAddrRecord`, `load_peer_addr_records` and `append_peer_addr_record` are verbatim copies
//! (vlib/c21.py compares their text with node.rs on every run); `startup` mirrors lines
//! "let mut initial_peer_map = load_peer_addr_records(..)" .. "let peer_addrs = .." of
//! `new_with_optional_state_machine`, `persist_if_needed` mirrors `persist_peer_addr_if_needed`
//! without the process-global registry (tied by source fingerprint). The WriteAheadLog under it is real.
use crate::error::Result;
use crate::wal::WriteAheadLog;
use bytes::Bytes;
use serde::{Deserialize, Serialize};
use std::collections::HashMap;
use std::net::SocketAddr;
use std::sync::Arc;

// BEGIN VERBATIM node.rs
#[derive(Serialize, Deserialize)]
struct PeerAddrRecord {
    peer_id: u64,
    addr: SocketAddr,
}

async fn load_peer_addr_records(wal: &Arc<WriteAheadLog>) -> HashMap<u64, SocketAddr> {
    let mut map = HashMap::new();
    if let Ok(entries) = wal.read_all().await {
        for raw in entries {
            if let Ok(record) = bincode::deserialize::<PeerAddrRecord>(&raw) {
                map.insert(record.peer_id, record.addr);
            }
        }
    }
    map
}

async fn append_peer_addr_record(
    wal: &Arc<WriteAheadLog>,
    peer_id: u64,
    addr: SocketAddr,
) -> Result<()> {
    let bytes = bincode::serialize(&PeerAddrRecord { peer_id, addr })
        .map_err(|e| crate::error::OctopiiError::Wal(format!("peer addr encode: {e}")))?;
    wal.append(Bytes::from(bytes)).await?;
    Ok(())
}
// END VERBATIM node.rs

pub struct PeerBook {
    pub peer_addrs: HashMap<u64, SocketAddr>,
    pub peer_addr_wal: Arc<WriteAheadLog>,
}

impl PeerBook {
    /// node.rs new_with_optional_state_machine: load, insert self, re-append configured peers that differ
    pub async fn startup(peer_addr_wal: Arc<WriteAheadLog>, node_id: u64, bind_addr: SocketAddr, peers: &[SocketAddr]) -> Result<Self> {
        let mut initial_peer_map = load_peer_addr_records(&peer_addr_wal).await;
        initial_peer_map.insert(node_id, bind_addr);

        for peer_addr in peers.iter() {
            let peer_id = (peer_addr.port() % 10) as u64;
            if peer_id != node_id && peer_id > 0 {
                if initial_peer_map.get(&peer_id).copied() != Some(*peer_addr) {
                    append_peer_addr_record(&peer_addr_wal, peer_id, *peer_addr).await?;
                    initial_peer_map.insert(peer_id, *peer_addr);
                }
            }
        }
        Ok(PeerBook { peer_addrs: initial_peer_map, peer_addr_wal })
    }

    /// node.rs persist_peer_addr_if_needed; Ok(true) iff a record was appended
    pub async fn persist_if_needed(&mut self, peer_id: u64, addr: SocketAddr) -> Result<bool> {
        let mut needs_persist = false;
        {
            let map = &mut self.peer_addrs;
            if map.get(&peer_id).copied() != Some(addr) {
                map.insert(peer_id, addr);
                needs_persist = true;
            }
        }
        if needs_persist {
            append_peer_addr_record(&self.peer_addr_wal, peer_id, addr).await?;
        }
        Ok(needs_persist)
    }
}
