//! owh -- drives REAL, unmodified octopii source files (included by absolute #[path]):
//!   src/wal/mod.rs            WriteAheadLog wrapper  (+ octopii's own walrus fork src/wal/wal/**)
//!   src/openraft/types.rs     AppTypeConfig, AppEntry, AppResponse
//!   src/openraft/storage.rs   WalLogStore (WalLogRecord, recover_from_wal, persist_record), MemStateMachine
//!   src/state_machine.rs      StateMachineTrait
//! against the stand-in crates in ../shims (tokio, bincode, openraft, futures) and io-uring 0.7.10
//! (the fork asks for 0.6, which is not available offline; it compiles unchanged).
//!
//!   owh wal <base>     wrapper-level cases   (ops: APPEND APPENDG READALL REOPEN RESTART KILL)
//!   owh store <base>   store-level cases     (ops: SA ST SP SV SC STATE PEER PEERS APPLY REOPEN RESTART KILL)
//!   owh seg <mode> <dir> <case args..>        one process lifetime of one case (spawned by the dispatchers)
//!
//! One stdin line -> one stdout line. Bytes travel as lowercase hex, "-" is the empty string.
#![allow(dead_code)]

mod error {
    //! the two names of octopii/src/error.rs that the included files use
    #[derive(Debug)]
    pub enum OctopiiError {
        Wal(String),
    }
    impl std::fmt::Display for OctopiiError {
        fn fmt(&self, f: &mut std::fmt::Formatter<'_>) -> std::fmt::Result {
            match self {
                OctopiiError::Wal(s) => write!(f, "WAL error: {}", s),
            }
        }
    }
    impl std::error::Error for OctopiiError {}
    pub type Result<T> = std::result::Result<T, OctopiiError>;
}

#[path = "/repo/octopii/src/wal/mod.rs"]
mod wal;

#[path = "/repo/octopii/src/state_machine.rs"]
mod state_machine;

mod openraft {
    #[path = "/repo/octopii/src/openraft/types.rs"]
    pub mod types;

    #[path = "/repo/octopii/src/openraft/storage.rs"]
    pub mod storage;
}

mod peerbook;
mod seg;
mod util;

fn main() {
    let args: Vec<String> = std::env::args().collect();
    if args.len() < 3 {
        eprintln!("usage: owh wal|store <base> | owh seg <mode> <dir> ...");
        std::process::exit(2);
    }
    match args[1].as_str() {
        "wal" | "store" => seg::dispatch(&args[1], &args[2]),
        "seg" => seg::seg_main(&args[2..]),
        _ => {
            eprintln!("unknown mode {}", args[1]);
            std::process::exit(2);
        }
    }
}
