//! Case dispatcher (one child process per process lifetime of a case) and the per-lifetime op loop.
//!
//! Dispatcher input:  `CASE <id> [node=<n> bind=<addr> peers=<addr,addr..> flush=<ms>]` then op lines.
//! RESTART ends the child (EOF = clean shutdown: every handle dropped) and starts a fresh process on the
//! same directory; KILL does the same after SIGKILL (between two operations, no destructor runs);
//! REOPEN drops and re-creates everything inside the same process.
use crate::openraft::storage::{new_mem_state_machine, new_wal_log_store, MemStateMachine, WalLogStore};
use crate::openraft::types::{AppEntry, AppResponse, AppTypeConfig};
use crate::peerbook::PeerBook;
use crate::state_machine::{StateMachine, StateMachineTrait};
use crate::util::{hex, payload, unhex};
use crate::wal::WriteAheadLog;
use ::openraft::storage::{ApplyResponder, EntryResponder, IOFlushed, RaftLogReader, RaftLogStorage, RaftStateMachine};
use ::openraft::{Entry, EntryPayload, LeaderId, LogId, Membership, Vote};
use bytes::Bytes;
use std::collections::HashMap;
use std::io::{BufRead, BufReader, Write};
use std::net::SocketAddr;
use std::panic::{catch_unwind, AssertUnwindSafe};
use std::path::PathBuf;
use std::process::{Child, ChildStdin, ChildStdout, Command, Stdio};
use std::sync::{Arc, Mutex};
use tokio::shim::block_on;
use tokio::time::Duration;

type C = AppTypeConfig;

// ------------------------------------------------------------------ parsing / printing

fn parse_logid(s: &str) -> Option<LogId<C>> {
    let p: Vec<&str> = s.split('.').collect();
    if p.len() != 3 {
        return None;
    }
    Some(LogId { leader_id: LeaderId { term: p[0].parse().ok()?, node_id: p[1].parse().ok()? }, index: p[2].parse().ok()? })
}

fn show_logid(l: &LogId<C>) -> String {
    format!("{}.{}.{}", l.leader_id.term, l.leader_id.node_id, l.index)
}

fn show_opt_logid(l: &Option<LogId<C>>) -> String {
    match l {
        Some(l) => show_logid(l),
        None => "-".into(),
    }
}

/// `t.n.i:B` | `t.n.i:N<hex>` | `t.n.i:M<k>`, optional trailing `+` (APPLY: a client is waiting)
fn parse_entry(s: &str) -> Option<(Entry<C>, bool)> {
    let (s, resp) = match s.strip_suffix('+') {
        Some(x) => (x, true),
        None => (s, false),
    };
    let (id, pl) = s.split_once(':')?;
    let log_id = parse_logid(id)?;
    let payload = if pl == "B" {
        EntryPayload::Blank
    } else if let Some(h) = pl.strip_prefix('N') {
        EntryPayload::Normal(AppEntry(unhex(h)?))
    } else if let Some(k) = pl.strip_prefix('M') {
        let k: u64 = k.parse().ok()?;
        EntryPayload::Membership(Membership { configs: vec![[k].into_iter().collect()] })
    } else {
        return None;
    };
    Some((Entry { log_id, payload }, resp))
}

fn show_entry(e: &Entry<C>) -> String {
    let pl = match &e.payload {
        EntryPayload::Blank => "B".to_string(),
        EntryPayload::Normal(d) => format!("N{}", hex(&d.0)),
        EntryPayload::Membership(m) => {
            format!("M{}", m.configs.first().and_then(|s| s.iter().next().copied()).unwrap_or(0))
        }
    };
    format!("{}:{}", show_logid(&e.log_id), pl)
}

fn parse_entries(s: &str) -> Option<Vec<(Entry<C>, bool)>> {
    if s == "-" {
        return Some(Vec::new());
    }
    s.split(',').map(parse_entry).collect()
}

// ------------------------------------------------------------------ recording application state machine

struct Recorder {
    applied: Mutex<Vec<Vec<u8>>>,
}
impl StateMachineTrait for Recorder {
    /// commands starting with '!' fail; everything else is recorded and answered with "r:" + command
    fn apply(&self, command: &[u8]) -> std::result::Result<Bytes, String> {
        if command.first() == Some(&b'!') {
            return Err("refused".into());
        }
        self.applied.lock().unwrap().push(command.to_vec());
        let mut r = b"r:".to_vec();
        r.extend_from_slice(command);
        Ok(Bytes::from(r))
    }
    fn snapshot(&self) -> Vec<u8> {
        Vec::new()
    }
    fn restore(&self, _data: &[u8]) -> std::result::Result<(), String> {
        Ok(())
    }
}

// ------------------------------------------------------------------ one process lifetime

struct Cfg {
    node_id: u64,
    bind: SocketAddr,
    peers: Vec<SocketAddr>,
    flush_ms: u64,
}

fn parse_cfg(kvs: &[String]) -> Cfg {
    let mut c = Cfg { node_id: 1, bind: "127.0.0.1:9321".parse().unwrap(), peers: Vec::new(), flush_ms: 100 };
    for kv in kvs {
        if let Some(v) = kv.strip_prefix("node=") {
            c.node_id = v.parse().unwrap_or(1);
        } else if let Some(v) = kv.strip_prefix("bind=") {
            if let Ok(a) = v.parse() {
                c.bind = a;
            }
        } else if let Some(v) = kv.strip_prefix("peers=") {
            c.peers = v.split(',').filter_map(|a| a.parse().ok()).collect();
        } else if let Some(v) = kv.strip_prefix("flush=") {
            c.flush_ms = v.parse().unwrap_or(100);
        }
    }
    c
}

struct Seg {
    mode: String,
    dir: PathBuf,
    cfg: Cfg,
    // wal mode
    wal: Option<WriteAheadLog>,
    gen: HashMap<Vec<u8>, (u64, u64)>,
    // store mode
    store: Option<WalLogStore>,
    book: Option<PeerBook>,
    rec: Option<Arc<Recorder>>,
    sm: Option<Arc<MemStateMachine>>,
}

fn caught<T>(f: impl FnOnce() -> T) -> Result<T, ()> {
    catch_unwind(AssertUnwindSafe(f)).map_err(|_| ())
}

impl Seg {
    fn new_wal(&self, name: &str) -> Result<WriteAheadLog, String> {
        // node.rs: WriteAheadLog::new(config.wal_dir.join(<name>), config.wal_batch_size, flush_interval)
        let p = self.dir.join(name);
        let d = Duration::from_millis(self.cfg.flush_ms);
        match caught(|| block_on(WriteAheadLog::new(p, 100, d))) {
            Ok(Ok(w)) => Ok(w),
            Ok(Err(e)) => Err(format!("err:{}", e).replace(' ', "_")),
            Err(()) => Err("panic".into()),
        }
    }

    fn open(&mut self) -> String {
        // clean shutdown of whatever this process held
        self.wal = None;
        self.store = None;
        self.book = None;
        self.sm = None;
        self.rec = None;
        if self.mode == "wal" {
            return match self.new_wal("openraft_log") {
                Ok(w) => {
                    self.wal = Some(w);
                    "ok".into()
                }
                Err(e) => e,
            };
        }
        // store mode: the start-up sequence of OpenRaftNode::new_with_optional_state_machine
        let log_wal = match self.new_wal("openraft_log") {
            Ok(w) => w,
            Err(e) => return e,
        };
        match caught(|| block_on(new_wal_log_store(Arc::new(log_wal)))) {
            Ok(Ok(s)) => self.store = Some(s),
            Ok(Err(e)) => return format!("err:{}", e).replace(' ', "_"),
            Err(()) => return "panic".into(),
        }
        let peer_wal = match self.new_wal("peer_addrs") {
            Ok(w) => w,
            Err(e) => return e,
        };
        let (node_id, bind, peers) = (self.cfg.node_id, self.cfg.bind, self.cfg.peers.clone());
        match caught(|| block_on(PeerBook::startup(Arc::new(peer_wal), node_id, bind, &peers))) {
            Ok(Ok(b)) => self.book = Some(b),
            Ok(Err(e)) => return format!("err:{}", e).replace(' ', "_"),
            Err(()) => return "panic".into(),
        }
        let rec = Arc::new(Recorder { applied: Mutex::new(Vec::new()) });
        let sm: StateMachine = rec.clone();
        self.sm = Some(new_mem_state_machine(sm));
        self.rec = Some(rec);
        "ok".into()
    }

    fn show_payload(&self, d: &[u8]) -> String {
        match self.gen.get(d) {
            Some((pid, len)) => format!("g{}:{}", pid, len),
            None if d.len() > 4096 => format!("X{}", d.len()),
            None => hex(d),
        }
    }

    fn wal_op(&mut self, t: &[&str]) -> String {
        let wal = match self.wal.as_ref() {
            Some(w) => w,
            None => return "noinstance".into(),
        };
        match t[0] {
            "APPEND" | "APPENDG" => {
                let data = if t[0] == "APPEND" {
                    match t.get(1).and_then(|h| unhex(h)) {
                        Some(d) => d,
                        None => return "badcase".into(),
                    }
                } else {
                    let (pid, len): (u64, u64) = match (t.get(1).and_then(|x| x.parse().ok()), t.get(2).and_then(|x| x.parse().ok())) {
                        (Some(p), Some(l)) => (p, l),
                        _ => return "badcase".into(),
                    };
                    payload(pid, len)
                };
                match caught(|| block_on(wal.append(Bytes::from(data)))) {
                    Ok(Ok(off)) => format!("ok:{}", off),
                    Ok(Err(_)) => "err".into(),
                    Err(()) => "panic".into(),
                }
            }
            "READALL" => match caught(|| block_on(wal.read_all())) {
                Ok(Ok(v)) => {
                    let items: Vec<String> = v.iter().map(|b| self.show_payload(b)).collect();
                    format!("[{}]", items.join(";"))
                }
                Ok(Err(_)) => "err".into(),
                Err(()) => "panic".into(),
            },
            _ => "badcase".into(),
        }
    }

    fn store_state(&mut self) -> String {
        let store = self.store.as_mut().unwrap();
        let r = caught(|| {
            let vote = block_on(store.read_vote()).ok().flatten();
            let committed = block_on(store.read_committed()).ok().flatten();
            let st = block_on(store.get_log_state()).ok();
            let log = block_on(store.try_get_log_entries(..)).unwrap_or_default();
            (vote, committed, st, log)
        });
        match r {
            Ok((vote, committed, st, log)) => {
                let v = match vote {
                    Some(v) => format!("{}.{}.{}", v.leader_id.term, v.leader_id.node_id, if v.committed { 1 } else { 0 }),
                    None => "-".into(),
                };
                let (purged, last) = match st {
                    Some(s) => (show_opt_logid(&s.last_purged_log_id), show_opt_logid(&s.last_log_id)),
                    None => ("?".into(), "?".into()),
                };
                let items: Vec<String> = log.iter().map(show_entry).collect();
                format!(
                    "vote={} committed={} purged={} last={} log=[{}]",
                    v,
                    show_opt_logid(&committed),
                    purged,
                    last,
                    items.join(",")
                )
            }
            Err(()) => "panic".into(),
        }
    }

    fn res(r: Result<Result<(), std::io::Error>, ()>) -> String {
        match r {
            Ok(Ok(())) => "ok".into(),
            Ok(Err(_)) => "err".into(),
            Err(()) => "panic".into(),
        }
    }

    fn store_op(&mut self, t: &[&str]) -> String {
        if self.store.is_none() || self.book.is_none() {
            return "noinstance".into();
        }
        match t[0] {
            "STATE" => self.store_state(),
            "SA" => {
                let es = match t.get(1).and_then(|s| parse_entries(s)) {
                    Some(e) => e.into_iter().map(|(e, _)| e).collect::<Vec<_>>(),
                    None => return "badcase".into(),
                };
                let store = self.store.as_mut().unwrap();
                let (cb, sink) = IOFlushed::<C>::shim_new();
                let r = Self::res(caught(|| block_on(store.append(es, cb))));
                // the acknowledgement openraft waits for is the callback, not the return value
                let flushed = match sink.lock().unwrap().take() {
                    Some(Ok(())) => "flushed",
                    Some(Err(_)) => "flusherr",
                    None => "noflush",
                };
                format!("{}:{}", r, flushed)
            }
            "ST" | "SP" => {
                let id = match t.get(1).and_then(|s| parse_logid(s)) {
                    Some(i) => i,
                    None => return "badcase".into(),
                };
                let store = self.store.as_mut().unwrap();
                if t[0] == "ST" {
                    Self::res(caught(|| block_on(store.truncate(id))))
                } else {
                    Self::res(caught(|| block_on(store.purge(id))))
                }
            }
            "SV" => {
                let p: Vec<&str> = t.get(1).map(|s| s.split('.').collect()).unwrap_or_default();
                if p.len() != 3 {
                    return "badcase".into();
                }
                let v = Vote::<C> {
                    leader_id: LeaderId { term: p[0].parse().unwrap_or(0), node_id: p[1].parse().unwrap_or(0) },
                    committed: p[2] == "1",
                };
                let store = self.store.as_mut().unwrap();
                Self::res(caught(|| block_on(store.save_vote(&v))))
            }
            "SC" => {
                let c = match t.get(1) {
                    Some(&"-") => None,
                    Some(s) => match parse_logid(s) {
                        Some(i) => Some(i),
                        None => return "badcase".into(),
                    },
                    None => return "badcase".into(),
                };
                let store = self.store.as_mut().unwrap();
                Self::res(caught(|| block_on(store.save_committed(c))))
            }
            "PEER" => {
                let (id, addr): (u64, SocketAddr) = match (t.get(1).and_then(|x| x.parse().ok()), t.get(2).and_then(|x| x.parse().ok())) {
                    (Some(i), Some(a)) => (i, a),
                    _ => return "badcase".into(),
                };
                let book = self.book.as_mut().unwrap();
                match caught(|| block_on(book.persist_if_needed(id, addr))) {
                    Ok(Ok(true)) => "ok:persisted".into(),
                    Ok(Ok(false)) => "ok:same".into(),
                    Ok(Err(_)) => "err".into(),
                    Err(()) => "panic".into(),
                }
            }
            "PEERS" => {
                let book = self.book.as_ref().unwrap();
                let mut v: Vec<(u64, SocketAddr)> = book.peer_addrs.iter().map(|(k, a)| (*k, *a)).collect();
                v.sort();
                let items: Vec<String> = v.iter().map(|(k, a)| format!("{}={}", k, a)).collect();
                format!("peers=[{}]", items.join(","))
            }
            "APPLY" => {
                let es = match t.get(1).and_then(|s| parse_entries(s)) {
                    Some(e) => e,
                    None => return "badcase".into(),
                };
                let sink: Arc<Mutex<Vec<(u64, AppResponse)>>> = Arc::new(Mutex::new(Vec::new()));
                let items: Vec<Result<EntryResponder<C>, std::io::Error>> = es
                    .into_iter()
                    .map(|(e, resp)| {
                        let r = if resp { Some(ApplyResponder::shim_new(sink.clone(), e.log_id.index)) } else { None };
                        Ok((e, r))
                    })
                    .collect();
                let rec = self.rec.as_ref().unwrap().clone();
                let before = rec.applied.lock().unwrap().len();
                let mut sm = self.sm.as_ref().unwrap().clone();
                let r = Self::res(caught(|| block_on(sm.apply(futures::shim::iter(items)))));
                let applied: Vec<String> = rec.applied.lock().unwrap()[before..].iter().map(|c| hex(c)).collect();
                let resp: Vec<String> = sink.lock().unwrap().iter().map(|(i, a)| format!("{}:{}", i, hex(&a.0))).collect();
                let (last, memb) = match caught(|| block_on(sm.applied_state())) {
                    Ok(Ok((l, m))) => (show_opt_logid(&l), show_opt_logid(m.log_id())),
                    _ => ("?".into(), "?".into()),
                };
                format!("{} applied=[{}] resp=[{}] last={} memb={}", r, applied.join(";"), resp.join(";"), last, memb)
            }
            _ => "badcase".into(),
        }
    }

    /// None: no output line for this input line
    fn op(&mut self, line: &str) -> Option<String> {
        let t: Vec<&str> = line.split_whitespace().collect();
        if t.is_empty() {
            return Some("badcase".into());
        }
        match t[0] {
            "REG" => {
                // a generated payload offered in an earlier process lifetime of this case
                if let (Some(p), Some(l)) = (t.get(1).and_then(|x| x.parse().ok()), t.get(2).and_then(|x| x.parse().ok())) {
                    self.gen.insert(payload(p, l), (p, l));
                }
                None
            }
            "OPEN" | "REOPEN" => Some(self.open()),
            "SLEEP" => {
                std::thread::sleep(std::time::Duration::from_millis(t.get(1).and_then(|x| x.parse().ok()).unwrap_or(1)));
                Some("ok".into())
            }
            "APPENDG" => {
                if let (Some(p), Some(l)) = (t.get(1).and_then(|x| x.parse().ok()), t.get(2).and_then(|x| x.parse().ok())) {
                    self.gen.insert(payload(p, l), (p, l));
                }
                Some(self.wal_op(&t))
            }
            _ if self.mode == "wal" => Some(self.wal_op(&t)),
            _ => Some(self.store_op(&t)),
        }
    }
}

pub fn seg_main(args: &[String]) {
    if std::env::var("OWH_PANIC").is_err() {
        std::panic::set_hook(Box::new(|_| {}));
    }
    let mut seg = Seg {
        mode: args[0].clone(),
        dir: PathBuf::from(&args[1]),
        cfg: parse_cfg(&args[2..]),
        wal: None,
        gen: HashMap::new(),
        store: None,
        book: None,
        rec: None,
        sm: None,
    };
    let stdin = std::io::stdin();
    let stdout = std::io::stdout();
    let mut out = stdout.lock();
    for line in stdin.lock().lines() {
        let line = line.unwrap();
        if let Some(r) = seg.op(line.trim()) {
            writeln!(out, "{}", r).unwrap();
            out.flush().unwrap();
        }
    }
    // EOF: clean shutdown (drop every handle)
    seg.wal = None;
    seg.store = None;
    seg.book = None;
}

// ------------------------------------------------------------------ dispatcher

struct Kid {
    child: Child,
    tx: ChildStdin,
    rx: BufReader<ChildStdout>,
}

fn spawn(exe: &std::path::Path, mode: &str, dir: &PathBuf, kvs: &[String], reg: &[String]) -> Kid {
    let mut child = Command::new(exe)
        .arg("seg")
        .arg(mode)
        .arg(dir)
        .args(kvs)
        .env("WALRUS_QUIET", "1")
        .stdin(Stdio::piped())
        .stdout(Stdio::piped())
        .stderr(if std::env::var("OWH_PANIC").is_ok() { Stdio::inherit() } else { Stdio::null() })
        .spawn()
        .expect("spawn seg");
    let mut tx = child.stdin.take().unwrap();
    let rx = BufReader::new(child.stdout.take().unwrap());
    for r in reg {
        writeln!(tx, "{}", r).unwrap();
    }
    Kid { child, tx, rx }
}

fn ask(k: &mut Kid, line: &str) -> String {
    if writeln!(k.tx, "{}", line).is_err() || k.tx.flush().is_err() {
        return "died".into();
    }
    let mut s = String::new();
    match k.rx.read_line(&mut s) {
        Ok(0) | Err(_) => "died".into(),
        Ok(_) => s.trim_end().to_string(),
    }
}

fn finish(mut k: Kid) {
    drop(k.tx);
    let _ = k.child.wait();
}

pub fn dispatch(mode: &str, base: &str) {
    let exe = std::env::current_exe().unwrap();
    let stdin = std::io::stdin();
    let stdout = std::io::stdout();
    let mut out = std::io::BufWriter::new(stdout.lock());
    let mut kid: Option<Kid> = None;
    let mut dir = PathBuf::new();
    let mut kvs: Vec<String> = Vec::new();
    let mut reg: Vec<String> = Vec::new();
    let mut case_no = 0u64;
    let keep = std::env::var("OWH_KEEP").is_ok();
    for line in stdin.lock().lines() {
        let line = line.unwrap();
        let line = line.trim();
        let t: Vec<&str> = line.split_whitespace().collect();
        if t.is_empty() {
            writeln!(out, "badcase").unwrap();
            continue;
        }
        if t[0] == "CASE" {
            if let Some(k) = kid.take() {
                finish(k);
            }
            if !keep && !dir.as_os_str().is_empty() {
                let _ = std::fs::remove_dir_all(&dir);
            }
            case_no += 1;
            dir = PathBuf::from(base).join(format!("o{}_{}", std::process::id(), case_no));
            let _ = std::fs::remove_dir_all(&dir);
            std::fs::create_dir_all(&dir).unwrap();
            kvs = t.iter().skip(2).map(|s| s.to_string()).collect();
            reg.clear();
            let mut k = spawn(&exe, mode, &dir, &kvs, &reg);
            let r = ask(&mut k, "OPEN");
            kid = Some(k);
            writeln!(out, "{}", r).unwrap();
            continue;
        }
        if t[0] == "APPENDG" && t.len() >= 3 {
            reg.push(format!("REG {} {}", t[1], t[2]));
        }
        let r = if t[0] == "RESTART" || t[0] == "KILL" {
            if let Some(mut k) = kid.take() {
                if t[0] == "KILL" {
                    // SIGKILL between two operations: nothing is dropped, no destructor runs
                    let _ = k.child.kill();
                }
                finish(k);
            }
            let mut k = spawn(&exe, mode, &dir, &kvs, &reg);
            let r = ask(&mut k, "OPEN");
            kid = Some(k);
            r
        } else {
            match kid.as_mut() {
                Some(k) => ask(k, line),
                None => "nocase".into(),
            }
        };
        writeln!(out, "{}", r).unwrap();
    }
    if let Some(k) = kid.take() {
        finish(k);
    }
    if !keep && !dir.as_os_str().is_empty() {
        let _ = std::fs::remove_dir_all(&dir);
    }
    out.flush().unwrap();
}
