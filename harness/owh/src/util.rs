pub fn hex(b: &[u8]) -> String {
    if b.is_empty() {
        return "-".to_string();
    }
    let mut s = String::with_capacity(b.len() * 2);
    for x in b {
        s.push_str(&format!("{:02x}", x));
    }
    s
}

/// Strict: "-" or an even number of [0-9a-f].
pub fn unhex(s: &str) -> Option<Vec<u8>> {
    if s == "-" {
        return Some(Vec::new());
    }
    let b = s.as_bytes();
    if b.is_empty() || b.len() % 2 != 0 {
        return None;
    }
    let nib = |c: u8| match c {
        b'0'..=b'9' => Some(c - b'0'),
        b'a'..=b'f' => Some(c - b'a' + 10),
        _ => None,
    };
    b.chunks(2).map(|p| Some(nib(p[0])? << 4 | nib(p[1])?)).collect()
}

/// payload byte i of generated payload number pid: never zero, position dependent
#[inline]
pub fn pbyte(pid: u64, i: u64) -> u8 {
    let mut x = pid.wrapping_mul(0x9E37_79B9_7F4A_7C15).wrapping_add(i.wrapping_mul(0xBF58_476D_1CE4_E5B9));
    x ^= x >> 29;
    x = x.wrapping_mul(0x94D0_49BB_1331_11EB);
    x ^= x >> 32;
    (1 + x % 255) as u8
}

pub fn payload(pid: u64, len: u64) -> Vec<u8> {
    (0..len).map(|i| pbyte(pid, i)).collect()
}
