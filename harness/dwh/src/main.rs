//! dwh -- drives REAL, unmodified distributed-walrus source files
//! (client.rs, metadata.rs, controller/types.rs; included by absolute #[path])
//! against the shim crates in ../shims, one stdin line -> one stdout line.
//!
//!   dwh walkey | dwh client | dwh meta       (protocol: see each run_* fn)
//!
//! Bytes/text travel as lowercase hex, "-" is the empty string.
#![allow(dead_code)]

mod controller; // real types.rs + mock NodeController

#[path = "/repo/distributed-walrus/src/client.rs"]
mod client;

#[path = "/repo/distributed-walrus/src/metadata.rs"]
mod metadata;

use controller::types::{parse_wal_key, wal_key};
use controller::NodeController;
use metadata::{ClusterState, Metadata, MetadataCmd};
use octopii::StateMachineTrait;
use std::io::{Read, Write};
use std::panic::{catch_unwind, AssertUnwindSafe};
use std::sync::Arc;

// ------------------------------------------------------------------ helpers

fn hex(b: &[u8]) -> String {
    if b.is_empty() {
        return "-".to_string();
    }
    let mut s = String::with_capacity(b.len() * 2);
    for x in b {
        s.push_str(&format!("{:02x}", x));
    }
    s
}

/// Strict: "-" or an even number of [0-9a-f].
fn unhex(s: &str) -> Option<Vec<u8>> {
    if s == "-" {
        return Some(Vec::new());
    }
    let b = s.as_bytes();
    if b.is_empty() || b.len() % 2 != 0 {
        return None;
    }
    let nib = |c: u8| match c {
        b'0'..=b'9' => Some(c - b'0'),
        b'a'..=b'f' => Some(c - b'a' + 10),
        _ => None,
    };
    b.chunks(2).map(|p| Some(nib(p[0])? << 4 | nib(p[1])?)).collect()
}

/// Strict decimal u64: digits only (no sign, unlike u64::from_str), no overflow.
fn dec(s: &str) -> Option<u64> {
    if s.is_empty() || !s.bytes().all(|c| c.is_ascii_digit()) {
        return None;
    }
    s.parse().ok()
}

enum Bad {
    Case,
    Utf8,
}
impl Bad {
    fn text(&self) -> &'static str {
        match self {
            Bad::Case => "badcase",
            Bad::Utf8 => "badutf8",
        }
    }
}

fn bytes_arg(s: &str) -> Result<Vec<u8>, Bad> {
    unhex(s).ok_or(Bad::Case)
}
fn text_arg(s: &str) -> Result<String, Bad> {
    String::from_utf8(bytes_arg(s)?).map_err(|_| Bad::Utf8)
}
fn num_arg(s: &str) -> Result<u64, Bad> {
    dec(s).ok_or(Bad::Case)
}

// ------------------------------------------------------------------- walkey

fn show_parse(k: &str) -> String {
    match parse_wal_key(k) {
        None => "none".to_string(),
        Some((topic, seg)) => format!("{}:{}", hex(topic.as_bytes()), seg),
    }
}

/// `K <hextopic> <seg>` -> `<hex wal_key> <parse>`;  `P <hexstring>` -> `<parse>`
fn run_walkey(line: &str) -> Result<String, Bad> {
    let t: Vec<&str> = line.split_whitespace().collect();
    match t.as_slice() {
        ["K", topic, seg] => {
            let topic = text_arg(topic)?;
            let seg = num_arg(seg)?;
            let k = wal_key(&topic, seg);
            Ok(format!("{} {}", hex(k.as_bytes()), show_parse(&k)))
        }
        ["P", s] => Ok(show_parse(&text_arg(s)?)),
        _ => Err(Bad::Case),
    }
}

// ------------------------------------------------------------------- client

/// line = hex of everything one client sends on one connection before closing.
/// Output = hex of everything the real handler wrote back, or `panic`.
fn run_client(line: &str) -> Result<String, Bad> {
    let input = bytes_arg(line.trim())?;
    let ctrl = Arc::new(NodeController::new());
    tokio::shim::clear_streams();
    let _ = tokio::shim::take_task_panicked();
    let out = tokio::shim::push_stream(input);
    // start_client_listener returns Err once the shim listener has no more
    // connections to hand out; that is the expected way out of its loop.
    let r = catch_unwind(AssertUnwindSafe(|| {
        tokio::shim::block_on(client::start_client_listener(ctrl, "shim:0".to_string()))
    }));
    tokio::shim::clear_streams();
    if r.is_err() || tokio::shim::take_task_panicked() {
        return Ok("panic".to_string());
    }
    let written = out.lock().unwrap_or_else(|e| e.into_inner()).clone();
    Ok(hex(&written))
}

// --------------------------------------------------------------------- meta

enum Item {
    Cmd(MetadataCmd),
    Apply(Vec<u8>),
    Snap,
    Restore(Vec<u8>),
    Dump,
    Query(String),
}

fn parse_item(tok: &str) -> Result<Item, Bad> {
    let p: Vec<&str> = tok.split(':').collect();
    Ok(match p.as_slice() {
        ["C", name, leader] => Item::Cmd(MetadataCmd::CreateTopic {
            name: text_arg(name)?,
            initial_leader: num_arg(leader)?,
        }),
        ["R", name, leader, count] => Item::Cmd(MetadataCmd::RolloverTopic {
            name: text_arg(name)?,
            new_leader: num_arg(leader)?,
            sealed_segment_entry_count: num_arg(count)?,
        }),
        ["U", node, addr] => Item::Cmd(MetadataCmd::UpsertNode {
            node_id: num_arg(node)?,
            addr: text_arg(addr)?,
        }),
        ["A", b] => Item::Apply(bytes_arg(b)?),
        ["S"] => Item::Snap,
        ["X", b] => Item::Restore(bytes_arg(b)?),
        ["D"] => Item::Dump,
        ["Q", name] => Item::Query(text_arg(name)?),
        _ => return Err(Bad::Case),
    })
}

/// `ok:<hex>` | `err` | `panic`. A panic inside apply (overflow checks in the
/// dev profile) leaves the RwLock poisoned; the same Metadata is kept.
fn apply_res(m: &Metadata, cmd: &[u8]) -> String {
    match catch_unwind(AssertUnwindSafe(|| m.apply(cmd))) {
        Ok(Ok(b)) => format!("ok:{}", hex(&b)),
        Ok(Err(_)) => "err".to_string(),
        Err(_) => "panic".to_string(),
    }
}

fn sorted_pairs(m: &std::collections::HashMap<u64, u64>) -> String {
    let mut v: Vec<(&u64, &u64)> = m.iter().collect();
    v.sort();
    let parts: Vec<String> = v.iter().map(|(k, x)| format!("{}:{}", k, x)).collect();
    format!("[{}]", parts.join(";"))
}

fn dump(m: &Metadata) -> String {
    let st: ClusterState = match bincode::deserialize(&m.snapshot()) {
        Ok(s) => s,
        Err(_) => return "state!undecodable".to_string(),
    };
    let mut topics: Vec<_> = st.topics.iter().collect();
    topics.sort_by(|a, b| a.0.as_bytes().cmp(b.0.as_bytes()));
    let topics: Vec<String> = topics
        .iter()
        .map(|(name, t)| {
            format!(
                "{}={},{},{},{},{}",
                hex(name.as_bytes()),
                t.current_segment,
                t.leader_node,
                t.last_sealed_entry_offset,
                sorted_pairs(&t.sealed_segments),
                sorted_pairs(&t.segment_leaders)
            )
        })
        .collect();
    let mut nodes: Vec<_> = st.nodes.iter().collect();
    nodes.sort();
    let nodes: Vec<String> = nodes.iter().map(|(id, a)| format!("{}:{}", id, hex(a.as_bytes()))).collect();
    format!("state{{{}|{}}}", topics.join("/"), nodes.join("/"))
}

/// Whitespace-separated items applied left to right to a fresh Metadata; one
/// output token per item. A malformed item makes the whole line badcase /
/// badutf8 (decided before anything is executed).
fn run_meta(line: &str) -> Result<String, Bad> {
    let items = line.split_whitespace().map(parse_item).collect::<Result<Vec<_>, _>>()?;
    let mut m = Metadata::new();
    let mut out: Vec<String> = Vec::new();
    for it in items {
        out.push(match it {
            Item::Cmd(cmd) => match bincode::serialize(&cmd) {
                Ok(bytes) => format!("{}={}", hex(&bytes), apply_res(&m, &bytes)),
                Err(_) => "sererr".to_string(), // cannot happen for MetadataCmd
            },
            Item::Apply(bytes) => apply_res(&m, &bytes),
            Item::Snap => {
                let snap = m.snapshot();
                let fresh = Metadata::new();
                let ok = fresh.restore(&snap).is_ok();
                m = fresh;
                format!("snap:{}:{}", hex(&snap), if ok { "ok" } else { "err" })
            }
            Item::Restore(bytes) => {
                format!("restore:{}", if m.restore(&bytes).is_ok() { "ok" } else { "err" })
            }
            Item::Dump => dump(&m),
            Item::Query(name) => match m.get_topic_state(&name) {
                None => "q:none".to_string(),
                Some(t) => format!("q:{},{},{}", t.current_segment, t.leader_node, t.last_sealed_entry_offset),
            },
        });
    }
    Ok(out.join(" "))
}

// --------------------------------------------------------------------- main

fn main() {
    std::panic::set_hook(Box::new(|_| {})); // panics are reported in-band only
    let cmd = std::env::args().nth(1).unwrap_or_default();
    let f: fn(&str) -> Result<String, Bad> = match cmd.as_str() {
        "walkey" => run_walkey,
        "client" => run_client,
        "meta" => run_meta,
        _ => {
            eprintln!("usage: dwh walkey|client|meta   (cases on stdin)");
            std::process::exit(2);
        }
    };
    let mut input = Vec::new();
    std::io::stdin().read_to_end(&mut input).expect("read stdin");
    if input.last() == Some(&b'\n') {
        input.pop();
    } else if input.is_empty() {
        return;
    }
    let stdout = std::io::stdout();
    let mut w = std::io::BufWriter::new(stdout.lock());
    for raw in input.split(|&c| c == b'\n') {
        let line = String::from_utf8_lossy(raw);
        let line = line.strip_suffix('\r').unwrap_or(&line);
        // Outer guard only keeps the one-line-per-input invariant; the places
        // where a panic is an expected outcome are caught further in.
        let res = match catch_unwind(AssertUnwindSafe(|| f(line))) {
            Ok(Ok(s)) => s,
            Ok(Err(bad)) => bad.text().to_string(),
            Err(_) => "harnesspanic".to_string(),
        };
        writeln!(w, "{}", res).expect("write stdout");
    }
    w.flush().expect("flush stdout");
}
