//! Stand-in for /repo/distributed-walrus/src/controller/mod.rs.
//!
//! `types` is the REAL file. `NodeController` is a mock with exactly the
//! methods client.rs calls, with the real signatures (mod.rs lines 124, 165,
//! 189, 271, 278): ensure_topic / append_for_topic / read_one_for_topic_shared
//! are `async`, topic_snapshot / get_metrics are plain `fn` (client.rs calls
//! them without `.await`).
//!
//! Mock semantics (mirrored by the formal model):
//!   state: map topic -> FIFO queue of payloads
//!   topic == "fail": ensure/append/read_one/topic_snapshot -> Err("boom")
//!   ensure_topic: create empty queue if missing
//!   append_for_topic: push back (creating the queue if missing)
//!   read_one_for_topic_shared: pop front -> Some, None if missing/empty
//!   topic_snapshot: "STATE <topic>";  get_metrics: "METRICS"

#[path = "/repo/distributed-walrus/src/controller/types.rs"]
pub mod types;

use anyhow::{anyhow, Result};
use std::collections::{HashMap, VecDeque};
use std::sync::Mutex;

pub struct NodeController {
    topics: Mutex<HashMap<String, VecDeque<Vec<u8>>>>,
}

impl NodeController {
    pub fn new() -> Self {
        NodeController { topics: Mutex::new(HashMap::new()) }
    }

    fn check(topic: &str) -> Result<()> {
        if topic == "fail" {
            return Err(anyhow!("boom"));
        }
        Ok(())
    }

    pub async fn ensure_topic(&self, topic: &str) -> Result<()> {
        Self::check(topic)?;
        self.topics.lock().unwrap().entry(topic.to_string()).or_default();
        Ok(())
    }

    pub async fn append_for_topic(&self, topic: &str, data: Vec<u8>) -> Result<()> {
        Self::check(topic)?;
        self.topics.lock().unwrap().entry(topic.to_string()).or_default().push_back(data);
        Ok(())
    }

    pub async fn read_one_for_topic_shared(&self, topic: &str) -> Result<Option<Vec<u8>>> {
        Self::check(topic)?;
        Ok(self.topics.lock().unwrap().get_mut(topic).and_then(|q| q.pop_front()))
    }

    pub fn topic_snapshot(&self, topic: &str) -> Result<String> {
        Self::check(topic)?;
        Ok(format!("STATE {}", topic))
    }

    pub fn get_metrics(&self) -> Result<String> {
        Ok("METRICS".to_string())
    }
}
