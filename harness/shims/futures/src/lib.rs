//! SHIM for the `futures` crate (real one is not available offline).
//!
//! Only `futures::{Stream, TryStreamExt}` as used by /repo/octopii/src/openraft/storage.rs:
//! `entries.try_next().await?` over a `Stream<Item = Result<T, E>> + Unpin`.
//! Plus `futures::shim::iter`, a harness-side stream over a Vec (NOT part of real futures'
//! root; real code would use `futures::stream::iter`).
use std::future::Future;
use std::pin::Pin;
use std::task::{Context, Poll};

pub trait Stream {
    type Item;
    fn poll_next(self: Pin<&mut Self>, cx: &mut Context<'_>) -> Poll<Option<Self::Item>>;
}

/// Real: `TryStreamExt: TryStream` with associated Ok/Error types; here the two are trait
/// parameters, which is indistinguishable for method-call syntax.
pub trait TryStreamExt<T, E>: Stream<Item = Result<T, E>> {
    /// Real: future resolving to `Ok(Some(item))`, `Ok(None)` at the end, `Err(e)` on an error item.
    fn try_next(&mut self) -> TryNext<'_, Self>
    where
        Self: Unpin,
    {
        TryNext { st: self }
    }
}
impl<S: ?Sized, T, E> TryStreamExt<T, E> for S where S: Stream<Item = Result<T, E>> {}

pub struct TryNext<'a, S: ?Sized> {
    st: &'a mut S,
}
impl<S: ?Sized + Unpin> Unpin for TryNext<'_, S> {}
impl<S, T, E> Future for TryNext<'_, S>
where
    S: Stream<Item = Result<T, E>> + Unpin + ?Sized,
{
    type Output = Result<Option<T>, E>;
    fn poll(mut self: Pin<&mut Self>, cx: &mut Context<'_>) -> Poll<Self::Output> {
        match Pin::new(&mut *self.st).poll_next(cx) {
            Poll::Pending => Poll::Pending,
            Poll::Ready(None) => Poll::Ready(Ok(None)),
            Poll::Ready(Some(Ok(x))) => Poll::Ready(Ok(Some(x))),
            Poll::Ready(Some(Err(e))) => Poll::Ready(Err(e)),
        }
    }
}

pub mod shim {
    use super::Stream;
    use std::collections::VecDeque;
    use std::pin::Pin;
    use std::task::{Context, Poll};

    /// A stream that yields the given items, always ready.
    pub struct Iter<T>(VecDeque<T>);
    impl<T> Unpin for Iter<T> {}
    pub fn iter<T>(v: Vec<T>) -> Iter<T> {
        Iter(v.into())
    }
    impl<T> Stream for Iter<T> {
        type Item = T;
        fn poll_next(mut self: Pin<&mut Self>, _cx: &mut Context<'_>) -> Poll<Option<T>> {
            Poll::Ready(self.0.pop_front())
        }
    }
}
