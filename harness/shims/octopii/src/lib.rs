//! SHIM for the `octopii` crate (real one does not build offline).
//!
//! distributed-walrus/src/metadata.rs only needs `octopii::StateMachineTrait`.
//! This is a verbatim copy of the trait declaration in
//! /repo/octopii/src/state_machine.rs (lines 6-14), including the `Send + Sync`
//! supertraits and the defaulted `compact` method.

use bytes::Bytes;

/// Trait for application state machines.
pub trait StateMachineTrait: Send + Sync {
    fn apply(&self, command: &[u8]) -> std::result::Result<Bytes, String>;
    fn snapshot(&self) -> Vec<u8>;
    fn restore(&self, data: &[u8]) -> std::result::Result<(), String>;
    fn compact(&self) -> std::result::Result<(), String> {
        Ok(())
    }
}
