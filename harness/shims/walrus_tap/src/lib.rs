//! Pass-through tap around the REAL engine (`real` = the walrus-rust crate at /repo).
//! bucket.rs is compiled against this crate under the name `walrus_rust`; every method
//! below calls the real method with the same arguments and returns its result unchanged.
//! The only addition is the thread-local event log read by the harness.
use std::cell::RefCell;
use std::path::PathBuf;

pub use real::Entry;

#[derive(Debug, Clone)]
pub enum TapOp {
    /// batch_append_for_topic(key, [payloads...]) -> ok?
    Append { key: String, payloads: Vec<Vec<u8>>, ok: bool },
    /// read_next(key, checkpoint) -> Ok(Some(data)) / Ok(None) / Err
    Read { key: String, checkpoint: bool, data: Option<Vec<u8>>, ok: bool },
}
#[derive(Debug, Clone)]
pub struct TapEvent {
    pub dir: PathBuf,
    pub op: TapOp,
}

thread_local! {
    static EVENTS: RefCell<Vec<TapEvent>> = RefCell::new(Vec::new());
}
pub fn tap_take_events() -> Vec<TapEvent> {
    EVENTS.with(|e| std::mem::take(&mut *e.borrow_mut()))
}
fn record(ev: TapEvent) {
    EVENTS.with(|e| e.borrow_mut().push(ev));
}

pub fn disable_fd_backend() {
    real::disable_fd_backend()
}

pub struct Walrus {
    inner: real::Walrus,
    dir: PathBuf,
}

impl Walrus {
    pub fn new_for_key(key: &str) -> std::io::Result<Self> {
        let dir = std::env::var_os("WALRUS_DATA_DIR").map(PathBuf::from).unwrap_or_default();
        Ok(Walrus { inner: real::Walrus::new_for_key(key)?, dir })
    }
    pub fn batch_append_for_topic(&self, col_name: &str, batch: &[&[u8]]) -> std::io::Result<()> {
        let r = self.inner.batch_append_for_topic(col_name, batch);
        record(TapEvent {
            dir: self.dir.clone(),
            op: TapOp::Append { key: col_name.to_string(), payloads: batch.iter().map(|b| b.to_vec()).collect(), ok: r.is_ok() },
        });
        r
    }
    pub fn read_next(&self, col_name: &str, checkpoint: bool) -> std::io::Result<Option<Entry>> {
        let r = self.inner.read_next(col_name, checkpoint);
        let (data, ok) = match &r {
            Ok(Some(e)) => (Some(e.data.clone()), true),
            Ok(None) => (None, true),
            Err(_) => (None, false),
        };
        record(TapEvent { dir: self.dir.clone(), op: TapOp::Read { key: col_name.to_string(), checkpoint, data, ok } });
        r
    }
    pub fn get_topic_size(&self, topic: &str) -> u64 {
        self.inner.get_topic_size(topic)
    }
}
