//! SHIM for `bincode` 1.3 (real crate not available offline).
//!
//! Implements the wire format of the top-level `bincode::serialize` /
//! `bincode::deserialize` functions, i.e. bincode 1.3's legacy default
//! configuration: fixed-width little-endian integers, no byte limit, trailing
//! bytes allowed.
//!
//!   bool            1 byte 0/1 (anything else: error on decode)
//!   u8..u128,i*     fixed width LE;   f32/f64  IEEE bits LE
//!   char            its UTF-8 bytes (1-4), no length
//!   str/bytes       u64 LE length + raw bytes (str must be valid UTF-8)
//!   Option          1 tag byte 0/1 (+ value)
//!   seq / map       u64 LE element count + elements (keys and values alternate)
//!   tuple / struct  fields in order, no framing
//!   enum            u32 LE variant index + variant content
//!   unit            nothing
//!
//! Allocation guard, as in the real crate: string/byte lengths are checked
//! against the remaining input BEFORE allocating (real: SliceReader
//! get_byte_slice), and seq/map lengths are only passed on as `size_hint`,
//! which serde's own collection visitors cap ("cautious" size hint), so a huge
//! count with no data ends in an EOF error, not an allocation abort.

use serde::de::{self, DeserializeSeed, IntoDeserializer, Visitor};
use serde::ser::{self, Serialize};
use std::fmt;

/// Real: `pub type Error = Box<ErrorKind>` with these (and a few more) kinds.
pub type Error = Box<ErrorKind>;
pub type Result<T> = std::result::Result<T, Error>;

#[derive(Debug)]
pub enum ErrorKind {
    /// Real: `Io(io::Error)` with kind UnexpectedEof from the slice reader.
    UnexpectedEof,
    InvalidUtf8Encoding(std::str::Utf8Error),
    InvalidBoolEncoding(u8),
    InvalidCharEncoding,
    InvalidTagEncoding(usize),
    DeserializeAnyNotSupported,
    SequenceMustHaveLength,
    Custom(String),
}

impl fmt::Display for ErrorKind {
    fn fmt(&self, f: &mut fmt::Formatter<'_>) -> fmt::Result {
        match self {
            ErrorKind::UnexpectedEof => write!(f, "io error: unexpected end of file"),
            ErrorKind::InvalidUtf8Encoding(e) => write!(f, "string is not valid utf8: {}", e),
            ErrorKind::InvalidBoolEncoding(b) => {
                write!(f, "invalid u8 while decoding bool, expected 0 or 1, found {}", b)
            }
            ErrorKind::InvalidCharEncoding => write!(f, "char is not valid"),
            ErrorKind::InvalidTagEncoding(t) => write!(f, "tag for enum is not valid, found {}", t),
            ErrorKind::DeserializeAnyNotSupported => {
                write!(f, "Bincode does not support the serde::Deserializer::deserialize_any method")
            }
            ErrorKind::SequenceMustHaveLength => {
                write!(f, "Bincode can only encode sequences and maps that have a knowable size ahead of time")
            }
            ErrorKind::Custom(s) => f.write_str(s),
        }
    }
}

impl std::error::Error for ErrorKind {}

// Box is #[fundamental], so these impls for Box<ErrorKind> are allowed (the
// real crate does the same).
impl ser::Error for Error {
    fn custom<T: fmt::Display>(msg: T) -> Self {
        Box::new(ErrorKind::Custom(msg.to_string()))
    }
}
impl de::Error for Error {
    fn custom<T: fmt::Display>(msg: T) -> Self {
        Box::new(ErrorKind::Custom(msg.to_string()))
    }
}

/// Real: `bincode::serialize(&T) -> Result<Vec<u8>>`.
pub fn serialize<T: ?Sized + Serialize>(value: &T) -> Result<Vec<u8>> {
    let mut s = Serializer { out: Vec::new() };
    value.serialize(&mut s)?;
    Ok(s.out)
}

/// Real: `bincode::deserialize(&[u8]) -> Result<T>`; trailing bytes are ignored.
pub fn deserialize<'a, T: de::Deserialize<'a>>(bytes: &'a [u8]) -> Result<T> {
    let mut d = Deserializer { input: bytes };
    T::deserialize(&mut d)
}

// ---------------------------------------------------------------- serializer

pub struct Serializer {
    out: Vec<u8>,
}

macro_rules! ser_le {
    ($($name:ident: $t:ty),*) => {$(
        fn $name(self, v: $t) -> Result<()> {
            self.out.extend_from_slice(&v.to_le_bytes());
            Ok(())
        }
    )*};
}

impl Serializer {
    fn put_len(&mut self, len: usize) {
        self.out.extend_from_slice(&(len as u64).to_le_bytes());
    }
    fn put_variant(&mut self, idx: u32) {
        self.out.extend_from_slice(&idx.to_le_bytes());
    }
}

impl<'a> ser::Serializer for &'a mut Serializer {
    type Ok = ();
    type Error = Error;
    type SerializeSeq = Self;
    type SerializeTuple = Self;
    type SerializeTupleStruct = Self;
    type SerializeTupleVariant = Self;
    type SerializeMap = Self;
    type SerializeStruct = Self;
    type SerializeStructVariant = Self;

    ser_le!(serialize_u8: u8, serialize_u16: u16, serialize_u32: u32, serialize_u64: u64,
            serialize_u128: u128, serialize_i8: i8, serialize_i16: i16, serialize_i32: i32,
            serialize_i64: i64, serialize_i128: i128, serialize_f32: f32, serialize_f64: f64);

    fn serialize_bool(self, v: bool) -> Result<()> {
        self.out.push(v as u8);
        Ok(())
    }
    fn serialize_char(self, v: char) -> Result<()> {
        let mut b = [0u8; 4];
        self.out.extend_from_slice(v.encode_utf8(&mut b).as_bytes());
        Ok(())
    }
    fn serialize_str(self, v: &str) -> Result<()> {
        self.serialize_bytes(v.as_bytes())
    }
    fn serialize_bytes(self, v: &[u8]) -> Result<()> {
        self.put_len(v.len());
        self.out.extend_from_slice(v);
        Ok(())
    }
    fn serialize_none(self) -> Result<()> {
        self.out.push(0);
        Ok(())
    }
    fn serialize_some<T: ?Sized + Serialize>(self, v: &T) -> Result<()> {
        self.out.push(1);
        v.serialize(self)
    }
    fn serialize_unit(self) -> Result<()> {
        Ok(())
    }
    fn serialize_unit_struct(self, _: &'static str) -> Result<()> {
        Ok(())
    }
    fn serialize_unit_variant(self, _: &'static str, idx: u32, _: &'static str) -> Result<()> {
        self.put_variant(idx);
        Ok(())
    }
    fn serialize_newtype_struct<T: ?Sized + Serialize>(self, _: &'static str, v: &T) -> Result<()> {
        v.serialize(self)
    }
    fn serialize_newtype_variant<T: ?Sized + Serialize>(
        self,
        _: &'static str,
        idx: u32,
        _: &'static str,
        v: &T,
    ) -> Result<()> {
        self.put_variant(idx);
        v.serialize(self)
    }
    fn serialize_seq(self, len: Option<usize>) -> Result<Self> {
        let len = len.ok_or_else(|| Box::new(ErrorKind::SequenceMustHaveLength))?;
        self.put_len(len);
        Ok(self)
    }
    fn serialize_tuple(self, _: usize) -> Result<Self> {
        Ok(self)
    }
    fn serialize_tuple_struct(self, _: &'static str, _: usize) -> Result<Self> {
        Ok(self)
    }
    fn serialize_tuple_variant(self, _: &'static str, idx: u32, _: &'static str, _: usize) -> Result<Self> {
        self.put_variant(idx);
        Ok(self)
    }
    fn serialize_map(self, len: Option<usize>) -> Result<Self> {
        let len = len.ok_or_else(|| Box::new(ErrorKind::SequenceMustHaveLength))?;
        self.put_len(len);
        Ok(self)
    }
    fn serialize_struct(self, _: &'static str, _: usize) -> Result<Self> {
        Ok(self)
    }
    fn serialize_struct_variant(self, _: &'static str, idx: u32, _: &'static str, _: usize) -> Result<Self> {
        self.put_variant(idx);
        Ok(self)
    }
    fn is_human_readable(&self) -> bool {
        false
    }
}

// All compound serializers just write their elements back to back.
macro_rules! ser_compound {
    ($($tr:ident: $($m:ident)|+),*) => {$(
        impl<'a> ser::$tr for &'a mut Serializer {
            type Ok = ();
            type Error = Error;
            $(fn $m<T: ?Sized + Serialize>(&mut self, v: &T) -> Result<()> {
                v.serialize(&mut **self)
            })+
            fn end(self) -> Result<()> { Ok(()) }
        }
    )*};
}
ser_compound!(SerializeSeq: serialize_element, SerializeTuple: serialize_element,
              SerializeTupleStruct: serialize_field, SerializeTupleVariant: serialize_field,
              SerializeMap: serialize_key | serialize_value);

impl<'a> ser::SerializeStruct for &'a mut Serializer {
    type Ok = ();
    type Error = Error;
    fn serialize_field<T: ?Sized + Serialize>(&mut self, _: &'static str, v: &T) -> Result<()> {
        v.serialize(&mut **self)
    }
    fn end(self) -> Result<()> {
        Ok(())
    }
}
impl<'a> ser::SerializeStructVariant for &'a mut Serializer {
    type Ok = ();
    type Error = Error;
    fn serialize_field<T: ?Sized + Serialize>(&mut self, _: &'static str, v: &T) -> Result<()> {
        v.serialize(&mut **self)
    }
    fn end(self) -> Result<()> {
        Ok(())
    }
}

// -------------------------------------------------------------- deserializer

pub struct Deserializer<'de> {
    input: &'de [u8],
}

impl<'de> Deserializer<'de> {
    /// Real: SliceReader::get_byte_slice -- EOF check before anything is
    /// allocated or copied.
    fn take(&mut self, n: usize) -> Result<&'de [u8]> {
        if n > self.input.len() {
            return Err(Box::new(ErrorKind::UnexpectedEof));
        }
        let (a, b) = self.input.split_at(n);
        self.input = b;
        Ok(a)
    }
    fn array<const N: usize>(&mut self) -> Result<[u8; N]> {
        let mut a = [0u8; N];
        a.copy_from_slice(self.take(N)?);
        Ok(a)
    }
    fn get_len(&mut self) -> Result<usize> {
        let n = u64::from_le_bytes(self.array()?);
        // Real: cast_u64_to_usize, an error where usize is narrower than u64.
        usize::try_from(n).map_err(|_| <Error as de::Error>::custom("size does not fit in usize"))
    }
    fn get_str(&mut self) -> Result<&'de str> {
        let n = self.get_len()?;
        std::str::from_utf8(self.take(n)?).map_err(|e| Box::new(ErrorKind::InvalidUtf8Encoding(e)))
    }
}

macro_rules! de_le {
    ($($name:ident $visit:ident $t:ty),*) => {$(
        fn $name<V: Visitor<'de>>(self, v: V) -> Result<V::Value> {
            v.$visit(<$t>::from_le_bytes(self.array()?))
        }
    )*};
}

impl<'de, 'a> de::Deserializer<'de> for &'a mut Deserializer<'de> {
    type Error = Error;

    fn deserialize_any<V: Visitor<'de>>(self, _: V) -> Result<V::Value> {
        Err(Box::new(ErrorKind::DeserializeAnyNotSupported))
    }

    de_le!(deserialize_u8 visit_u8 u8, deserialize_u16 visit_u16 u16, deserialize_u32 visit_u32 u32,
           deserialize_u64 visit_u64 u64, deserialize_u128 visit_u128 u128,
           deserialize_i8 visit_i8 i8, deserialize_i16 visit_i16 i16, deserialize_i32 visit_i32 i32,
           deserialize_i64 visit_i64 i64, deserialize_i128 visit_i128 i128,
           deserialize_f32 visit_f32 f32, deserialize_f64 visit_f64 f64);

    fn deserialize_bool<V: Visitor<'de>>(self, v: V) -> Result<V::Value> {
        match self.array::<1>()?[0] {
            0 => v.visit_bool(false),
            1 => v.visit_bool(true),
            b => Err(Box::new(ErrorKind::InvalidBoolEncoding(b))),
        }
    }
    fn deserialize_char<V: Visitor<'de>>(self, v: V) -> Result<V::Value> {
        // Real: width from the first byte, then the continuation bytes, then
        // from_utf8 on exactly that many bytes.
        let first = self.array::<1>()?[0];
        let width = match first {
            0x00..=0x7f => 1,
            0xc2..=0xdf => 2,
            0xe0..=0xef => 3,
            0xf0..=0xf4 => 4,
            _ => return Err(Box::new(ErrorKind::InvalidCharEncoding)),
        };
        let mut buf = [first, 0, 0, 0];
        buf[1..width].copy_from_slice(self.take(width - 1)?);
        let c = std::str::from_utf8(&buf[..width]).ok().and_then(|s| s.chars().next());
        v.visit_char(c.ok_or_else(|| Box::new(ErrorKind::InvalidCharEncoding))?)
    }
    fn deserialize_str<V: Visitor<'de>>(self, v: V) -> Result<V::Value> {
        v.visit_borrowed_str(self.get_str()?)
    }
    fn deserialize_string<V: Visitor<'de>>(self, v: V) -> Result<V::Value> {
        v.visit_string(self.get_str()?.to_owned())
    }
    fn deserialize_bytes<V: Visitor<'de>>(self, v: V) -> Result<V::Value> {
        let n = self.get_len()?;
        v.visit_borrowed_bytes(self.take(n)?)
    }
    fn deserialize_byte_buf<V: Visitor<'de>>(self, v: V) -> Result<V::Value> {
        let n = self.get_len()?;
        v.visit_byte_buf(self.take(n)?.to_vec())
    }
    fn deserialize_option<V: Visitor<'de>>(self, v: V) -> Result<V::Value> {
        match self.array::<1>()?[0] {
            0 => v.visit_none(),
            1 => v.visit_some(self),
            b => Err(Box::new(ErrorKind::InvalidTagEncoding(b as usize))),
        }
    }
    fn deserialize_unit<V: Visitor<'de>>(self, v: V) -> Result<V::Value> {
        v.visit_unit()
    }
    fn deserialize_unit_struct<V: Visitor<'de>>(self, _: &'static str, v: V) -> Result<V::Value> {
        v.visit_unit()
    }
    fn deserialize_newtype_struct<V: Visitor<'de>>(self, _: &'static str, v: V) -> Result<V::Value> {
        v.visit_newtype_struct(self)
    }
    fn deserialize_seq<V: Visitor<'de>>(self, v: V) -> Result<V::Value> {
        let len = self.get_len()?;
        v.visit_seq(Counted { de: self, left: len })
    }
    fn deserialize_tuple<V: Visitor<'de>>(self, len: usize, v: V) -> Result<V::Value> {
        v.visit_seq(Counted { de: self, left: len })
    }
    fn deserialize_tuple_struct<V: Visitor<'de>>(self, _: &'static str, len: usize, v: V) -> Result<V::Value> {
        self.deserialize_tuple(len, v)
    }
    fn deserialize_map<V: Visitor<'de>>(self, v: V) -> Result<V::Value> {
        let len = self.get_len()?;
        v.visit_map(Counted { de: self, left: len })
    }
    fn deserialize_struct<V: Visitor<'de>>(
        self,
        _: &'static str,
        fields: &'static [&'static str],
        v: V,
    ) -> Result<V::Value> {
        // Real: a struct is a tuple of its fields; `#[serde(default)]` therefore
        // never kicks in, every field must be present on the wire.
        self.deserialize_tuple(fields.len(), v)
    }
    fn deserialize_enum<V: Visitor<'de>>(
        self,
        _: &'static str,
        _: &'static [&'static str],
        v: V,
    ) -> Result<V::Value> {
        v.visit_enum(self)
    }
    fn deserialize_identifier<V: Visitor<'de>>(self, _: V) -> Result<V::Value> {
        Err(<Error as de::Error>::custom("Bincode does not support Deserializer::deserialize_identifier"))
    }
    fn deserialize_ignored_any<V: Visitor<'de>>(self, _: V) -> Result<V::Value> {
        Err(<Error as de::Error>::custom("Bincode does not support Deserializer::deserialize_ignored_any"))
    }
    fn is_human_readable(&self) -> bool {
        false
    }
}

/// Seq/map access that yields exactly `left` more elements (real: the private
/// `Access` structs inside deserialize_tuple / deserialize_map). `size_hint`
/// reports the raw count; serde's visitors cap what they pre-allocate.
struct Counted<'a, 'de> {
    de: &'a mut Deserializer<'de>,
    left: usize,
}

impl<'a, 'de> de::SeqAccess<'de> for Counted<'a, 'de> {
    type Error = Error;
    fn next_element_seed<T: DeserializeSeed<'de>>(&mut self, seed: T) -> Result<Option<T::Value>> {
        if self.left == 0 {
            return Ok(None);
        }
        self.left -= 1;
        seed.deserialize(&mut *self.de).map(Some)
    }
    fn size_hint(&self) -> Option<usize> {
        Some(self.left)
    }
}

impl<'a, 'de> de::MapAccess<'de> for Counted<'a, 'de> {
    type Error = Error;
    fn next_key_seed<K: DeserializeSeed<'de>>(&mut self, seed: K) -> Result<Option<K::Value>> {
        if self.left == 0 {
            return Ok(None);
        }
        self.left -= 1;
        seed.deserialize(&mut *self.de).map(Some)
    }
    fn next_value_seed<V: DeserializeSeed<'de>>(&mut self, seed: V) -> Result<V::Value> {
        seed.deserialize(&mut *self.de)
    }
    fn size_hint(&self) -> Option<usize> {
        Some(self.left)
    }
}

// Enum: u32 LE variant index, handed to the derive-generated variant visitor
// as a u32 deserializer; an out-of-range index is rejected there
// ("invalid value: integer `N`, expected variant index 0 <= i < K").
impl<'de, 'a> de::EnumAccess<'de> for &'a mut Deserializer<'de> {
    type Error = Error;
    type Variant = Self;
    fn variant_seed<V: DeserializeSeed<'de>>(self, seed: V) -> Result<(V::Value, Self)> {
        let idx = u32::from_le_bytes(self.array()?);
        let val = seed.deserialize(IntoDeserializer::<Error>::into_deserializer(idx))?;
        Ok((val, self))
    }
}

impl<'de, 'a> de::VariantAccess<'de> for &'a mut Deserializer<'de> {
    type Error = Error;
    fn unit_variant(self) -> Result<()> {
        Ok(())
    }
    fn newtype_variant_seed<T: DeserializeSeed<'de>>(self, seed: T) -> Result<T::Value> {
        seed.deserialize(self)
    }
    fn tuple_variant<V: Visitor<'de>>(self, len: usize, v: V) -> Result<V::Value> {
        de::Deserializer::deserialize_tuple(self, len, v)
    }
    fn struct_variant<V: Visitor<'de>>(self, fields: &'static [&'static str], v: V) -> Result<V::Value> {
        de::Deserializer::deserialize_tuple(self, fields.len(), v)
    }
}
