//! SHIM for the `octopii` crate (real one does not build offline).
//!
//! distributed-walrus/src/metadata.rs only needs `octopii::StateMachineTrait`.
//! This is a verbatim copy of the trait declaration in
//! /repo/octopii/src/state_machine.rs (lines 6-14), including the `Send + Sync`
//! supertraits and the defaulted `compact` method.

use bytes::Bytes;

/// Trait for application state machines.
pub trait StateMachineTrait: Send + Sync {
    fn apply(&self, command: &[u8]) -> std::result::Result<Bytes, String>;
    fn snapshot(&self) -> Vec<u8>;
    fn restore(&self, data: &[u8]) -> std::result::Result<(), String>;
    fn compact(&self) -> std::result::Result<(), String> {
        Ok(())
    }
}

// ======================================================================================
// Second surface (harness/cwh): what controller/mod.rs and monitor.rs use of OctopiiNode.
// Consensus is NOT run.  All nodes of a `ShimCluster` share one committed command log;
// `propose` (accepted on the fixed Raft leader only, like client_write) appends to it and
// completes when the LEADER has applied the entry (openraft answers client_write after the
// leader's state machine applied it); every node applies the log strictly in order, one
// entry per `shim_apply_next()` call — an event of the harness scheduler.  Membership is a
// fixed voter set, the leader never changes.  RPC `request` is delivered by calling the
// handler registered on the target node (looked up by socket address) inside the calling
// task.  Scheduling points (see tokio::shim::exec): "propose", "rpc.request"; waiting for
// the leader's apply reports Blocked("propose.applied").
// ======================================================================================
pub mod error {
    use std::fmt;
    #[derive(Debug)]
    pub enum OctopiiError {
        Rpc(String),
    }
    impl fmt::Display for OctopiiError {
        fn fmt(&self, f: &mut fmt::Formatter<'_>) -> fmt::Result {
            match self {
                OctopiiError::Rpc(s) => write!(f, "RPC error: {}", s),
            }
        }
    }
    impl std::error::Error for OctopiiError {}
    pub type Result<T> = std::result::Result<T, OctopiiError>;
}
pub use error::{OctopiiError, Result};

pub mod rpc {
    use super::error::{OctopiiError, Result};
    use bytes::Bytes;
    use std::future::Future;
    use std::net::SocketAddr;
    use std::pin::Pin;
    use std::sync::Arc;
    use std::time::Duration;

    pub type MessageId = u64;

    /// Same variants as /repo/octopii/src/rpc/message.rs (serde derives omitted: nothing is
    /// put on a wire here).
    #[derive(Debug, Clone)]
    pub enum RequestPayload {
        RaftMessage { message: Bytes },
        OpenRaft { kind: String, data: Bytes },
        Custom { operation: String, data: Bytes },
    }
    #[derive(Debug, Clone)]
    pub struct RpcRequest {
        pub id: MessageId,
        pub payload: RequestPayload,
    }
    #[derive(Debug, Clone)]
    pub enum ResponsePayload {
        AppendEntriesResponse { term: u64, success: bool },
        RequestVoteResponse { term: u64, vote_granted: bool },
        SnapshotResponse { term: u64, success: bool },
        OpenRaft { kind: String, data: Bytes },
        CustomResponse { success: bool, data: Bytes },
        Error { message: String },
    }
    #[derive(Debug, Clone)]
    pub struct RpcResponse {
        pub id: MessageId,
        pub payload: ResponsePayload,
    }

    pub type BoxFuture<'a, T> = Pin<Box<dyn Future<Output = T> + 'a>>;
    pub type CustomHandler = Arc<dyn Fn(RpcRequest) -> BoxFuture<'static, ResponsePayload>>;

    pub struct RpcHandler {
        pub(crate) cluster: Arc<super::ShimCluster>,
    }
    unsafe impl Send for RpcHandler {}
    unsafe impl Sync for RpcHandler {}

    impl RpcHandler {
        /// Real: sends the request over QUIC and waits for the response or the timeout.
        /// Here: scheduling point "rpc.request", then the target's custom handler runs
        /// inside this task (its own scheduling points included).
        pub async fn request(
            self: &Arc<Self>,
            addr: SocketAddr,
            payload: RequestPayload,
            _timeout: Duration,
        ) -> Result<RpcResponse> {
            tokio::shim::exec::point("rpc.request").await;
            let handler = self.cluster.handler_at(addr);
            match handler {
                None => Err(OctopiiError::Rpc(format!("no node listens on {}", addr))),
                Some(h) => {
                    self.cluster.note_rpc(addr);
                    let payload = h(RpcRequest { id: 0, payload }).await;
                    Ok(RpcResponse { id: 0, payload })
                }
            }
        }
    }
}

use std::cell::RefCell;
use std::collections::{BTreeSet, HashMap};
use std::net::SocketAddr;
use std::sync::Arc;

/// The part of openraft's RaftMetrics the harnessed code reads.
#[derive(Debug, Clone, serde::Serialize)]
pub struct RaftMetrics {
    pub id: u64,
    pub current_leader: Option<u64>,
    pub state: &'static str,
    pub last_log_index: Option<u64>,
    pub membership_config: MembershipConfig,
}
#[derive(Debug, Clone, serde::Serialize)]
pub struct MembershipConfig {
    membership: Membership,
}
impl MembershipConfig {
    pub fn membership(&self) -> &Membership {
        &self.membership
    }
}
#[derive(Debug, Clone, serde::Serialize)]
pub struct Membership {
    configs: Vec<BTreeSet<u64>>,
}
impl Membership {
    pub fn get_joint_config(&self) -> &Vec<BTreeSet<u64>> {
        &self.configs
    }
}

/// Shared by all nodes of one simulated cluster.
pub struct ShimCluster {
    pub leader: u64,
    pub voters: Vec<u64>,
    log: RefCell<Vec<Vec<u8>>>,
    /// results of the LEADER's apply, by log index
    leader_results: RefCell<Vec<std::result::Result<bytes::Bytes, String>>>,
    handlers: RefCell<HashMap<SocketAddr, rpc::CustomHandler>>,
    rpc_trace: RefCell<Vec<SocketAddr>>,
}
unsafe impl Send for ShimCluster {}
unsafe impl Sync for ShimCluster {}

impl ShimCluster {
    pub fn new(leader: u64, voters: Vec<u64>) -> Arc<Self> {
        Arc::new(ShimCluster {
            leader,
            voters,
            log: RefCell::new(Vec::new()),
            leader_results: RefCell::new(Vec::new()),
            handlers: RefCell::new(HashMap::new()),
            rpc_trace: RefCell::new(Vec::new()),
        })
    }
    pub fn log_len(&self) -> usize {
        self.log.borrow().len()
    }
    pub fn log_entry(&self, i: usize) -> Vec<u8> {
        self.log.borrow()[i].clone()
    }
    /// harness-side: put a command on the log directly (cluster bootstrap)
    pub fn shim_push(&self, cmd: Vec<u8>) -> usize {
        self.log.borrow_mut().push(cmd);
        self.log.borrow().len() - 1
    }
    fn handler_at(&self, addr: SocketAddr) -> Option<rpc::CustomHandler> {
        self.handlers.borrow().get(&addr).cloned()
    }
    fn note_rpc(&self, addr: SocketAddr) {
        self.rpc_trace.borrow_mut().push(addr);
    }
    pub fn take_rpc_trace(&self) -> Vec<SocketAddr> {
        std::mem::take(&mut *self.rpc_trace.borrow_mut())
    }
}

pub struct OctopiiNode {
    id: u64,
    addr: SocketAddr,
    cluster: Arc<ShimCluster>,
    sm: Arc<dyn StateMachineTrait>,
    applied: RefCell<usize>,
    peer_addrs: RefCell<HashMap<u64, SocketAddr>>,
    rpc: Arc<rpc::RpcHandler>,
}
unsafe impl Send for OctopiiNode {}
unsafe impl Sync for OctopiiNode {}

impl OctopiiNode {
    /// harness-side constructor (real: new_with_state_machine(config, runtime, sm).await)
    pub fn shim_new(id: u64, addr: SocketAddr, cluster: Arc<ShimCluster>, sm: Arc<dyn StateMachineTrait>) -> Arc<Self> {
        let rpc = Arc::new(rpc::RpcHandler { cluster: cluster.clone() });
        Arc::new(OctopiiNode { id, addr, cluster, sm, applied: RefCell::new(0), peer_addrs: RefCell::new(HashMap::new()), rpc })
    }

    /// scheduler event apply@n: apply the next committed entry, if any.  Returns its index.
    pub fn shim_apply_next(&self) -> Option<usize> {
        let i = *self.applied.borrow();
        if i >= self.cluster.log_len() {
            return None;
        }
        let cmd = self.cluster.log_entry(i);
        let r = self.sm.apply(&cmd);
        if self.id == self.cluster.leader {
            let mut lr = self.cluster.leader_results.borrow_mut();
            debug_assert_eq!(lr.len(), i);
            lr.push(r);
        }
        *self.applied.borrow_mut() = i + 1;
        Some(i)
    }
    pub fn shim_applied(&self) -> usize {
        *self.applied.borrow()
    }

    pub fn rpc_handler(&self) -> Arc<rpc::RpcHandler> {
        self.rpc.clone()
    }

    pub async fn set_custom_rpc_handler<F>(&self, handler: F)
    where
        F: Fn(rpc::RpcRequest) -> rpc::BoxFuture<'static, rpc::ResponsePayload> + 'static,
    {
        self.cluster.handlers.borrow_mut().insert(self.addr, Arc::new(handler));
    }

    /// Real: raft.client_write — accepted on the leader only; answers after the leader's
    /// state machine applied the entry, with that apply's result.
    pub async fn propose(&self, command: Vec<u8>) -> Result<bytes::Bytes> {
        tokio::shim::exec::point("propose").await;
        if self.id != self.cluster.leader {
            return Err(OctopiiError::Rpc("client_write: forward to leader".into()));
        }
        let idx = self.cluster.shim_push(command);
        let cl = self.cluster.clone();
        tokio::shim::exec::until("propose.applied", move || cl.leader_results.borrow().len() > idx).await;
        match self.cluster.leader_results.borrow()[idx].clone() {
            Ok(b) => Ok(b),
            Err(e) => Err(OctopiiError::Rpc(format!("client_write: {}", e))),
        }
    }

    pub async fn is_leader(&self) -> bool {
        self.id == self.cluster.leader
    }
    pub async fn has_leader(&self) -> bool {
        true
    }
    pub fn raft_metrics(&self) -> RaftMetrics {
        let n = self.cluster.log_len() as u64;
        RaftMetrics {
            id: self.id,
            current_leader: Some(self.cluster.leader),
            state: if self.id == self.cluster.leader { "Leader" } else { "Follower" },
            last_log_index: if n == 0 { None } else { Some(n) },
            membership_config: MembershipConfig {
                membership: Membership { configs: vec![self.cluster.voters.iter().copied().collect()] },
            },
        }
    }
    pub fn id(&self) -> u64 {
        self.id
    }
    pub async fn update_peer_addr(&self, peer_id: u64, addr: SocketAddr) {
        self.peer_addrs.borrow_mut().insert(peer_id, addr);
    }
    pub async fn peer_addr_for(&self, peer_id: u64) -> Option<SocketAddr> {
        self.peer_addrs.borrow().get(&peer_id).copied()
    }
    // membership changes are outside the harness: the join path is compiled, never driven
    pub async fn add_learner(&self, _peer_id: u64, _addr: SocketAddr) -> Result<()> {
        Err(OctopiiError::Rpc("octopii shim: membership changes unsupported".into()))
    }
    pub async fn promote_learner(&self, _peer_id: u64) -> Result<()> {
        Err(OctopiiError::Rpc("octopii shim: membership changes unsupported".into()))
    }
    pub async fn is_learner_caught_up(&self, _peer_id: u64) -> Result<bool> {
        Err(OctopiiError::Rpc("octopii shim: membership changes unsupported".into()))
    }
}
