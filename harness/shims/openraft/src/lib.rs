//! SHIM for the `openraft` crate (the vendored real one needs dependencies that are not
//! available offline). Type shapes, derives and trait signatures are copied from
//! /repo/octopii/openraft/openraft/src (entry/, log_id/, vote/, membership/stored_membership.rs,
//! storage/{log_state,snapshot,snapshot_meta,callback}.rs, storage/v2/*.rs) for the default type
//! configuration (`leader_id_adv::LeaderId`, `impls::{Entry, Vote}`, `Cursor<Vec<u8>>` snapshots).
//! There is NO Raft in here: nothing elects, replicates or commits. The harness plays the
//! role of RaftCore and calls the storage traits directly.
use serde::de::DeserializeOwned;
use serde::{Deserialize, Serialize};
use std::collections::BTreeSet;
use std::fmt::{Debug, Display};
use std::hash::Hash;

/// Real (without feature `singlethreaded`): alias of `Send`.
pub trait OptionalSend: Send {}
impl<T: Send + ?Sized> OptionalSend for T {}
/// Real (without feature `singlethreaded`): alias of `Sync`.
pub trait OptionalSync: Sync {}
impl<T: Sync + ?Sized> OptionalSync for T {}

/// Real: many more associated types (Node, Term, LeaderId, Vote, Entry, SnapshotData, Responder,
/// AsyncRuntime), all defaulted by `declare_raft_types!`; here they are fixed to those defaults.
pub trait RaftTypeConfig:
    Sized + Send + Sync + Debug + Clone + Copy + Default + Eq + PartialEq + Ord + PartialOrd + 'static
{
    type D: Clone + Debug + Send + Sync + Serialize + DeserializeOwned + 'static;
    type R: Send + Sync + 'static;
    type NodeId: Debug + Display + Clone + Copy + Default + Eq + Ord + Hash + Send + Sync + Serialize + DeserializeOwned + 'static;
}

/// Same call syntax as the real macro: `declare_raft_types!(pub Name: D = .., R = .., NodeId = ..,);`
#[macro_export]
macro_rules! declare_raft_types {
    ( $(#[$outer:meta])* $visibility:vis $id:ident : $( $type_id:ident = $type:ty ),* $(,)? ) => {
        $(#[$outer])*
        #[derive(Debug, Clone, Copy, Default, Eq, PartialEq, Ord, PartialOrd)]
        #[derive(serde::Deserialize, serde::Serialize)]
        $visibility struct $id {}
        impl $crate::RaftTypeConfig for $id {
            $( type $type_id = $type; )*
        }
    };
}

/// vote/leader_id/leader_id_adv.rs (derives copied: total order, term first)
#[derive(Debug, Default, Clone, Copy, PartialEq, Eq, PartialOrd, Ord, Deserialize, Serialize)]
#[serde(bound = "")]
pub struct LeaderId<C: RaftTypeConfig> {
    pub term: u64,
    pub node_id: C::NodeId,
}

/// log_id/mod.rs (derives copied: ordered by leader_id, then index)
#[derive(Debug, Default, Clone, PartialOrd, Ord, PartialEq, Eq, Deserialize, Serialize)]
#[serde(bound = "")]
pub struct LogId<C: RaftTypeConfig> {
    pub leader_id: LeaderId<C>,
    pub index: u64,
}
impl<C: RaftTypeConfig> Copy for LogId<C> {}

/// vote/vote.rs
#[derive(Debug, Clone, Copy, Default, PartialEq, Eq, Deserialize, Serialize)]
#[serde(bound = "")]
pub struct Vote<C: RaftTypeConfig> {
    pub leader_id: LeaderId<C>,
    pub committed: bool,
}

/// Real: joint configs plus a node map; here only the voter sets (no code under test looks inside).
#[derive(Debug, Clone, Default, PartialEq, Eq, Deserialize, Serialize)]
#[serde(bound = "")]
pub struct Membership<C: RaftTypeConfig> {
    pub configs: Vec<BTreeSet<C::NodeId>>,
}

/// membership/stored_membership.rs
#[derive(Debug, Clone, Default, PartialEq, Eq, Deserialize, Serialize)]
#[serde(bound = "")]
pub struct StoredMembership<C: RaftTypeConfig> {
    log_id: Option<LogId<C>>,
    membership: Membership<C>,
}
impl<C: RaftTypeConfig> StoredMembership<C> {
    pub fn new(log_id: Option<LogId<C>>, membership: Membership<C>) -> Self {
        Self { log_id, membership }
    }
    pub fn log_id(&self) -> &Option<LogId<C>> {
        &self.log_id
    }
    pub fn membership(&self) -> &Membership<C> {
        &self.membership
    }
}

/// entry/payload.rs
#[derive(Debug, Clone, Deserialize, Serialize)]
#[serde(bound = "")]
pub enum EntryPayload<C: RaftTypeConfig> {
    Blank,
    Normal(C::D),
    Membership(Membership<C>),
}

/// entry/entry.rs
#[derive(Debug, Clone, Deserialize, Serialize)]
#[serde(bound = "")]
pub struct Entry<C: RaftTypeConfig> {
    pub log_id: LogId<C>,
    pub payload: EntryPayload<C>,
}

/// Only named in a `use` by storage.rs.
#[derive(Debug)]
pub struct StorageError<C: RaftTypeConfig>(pub std::marker::PhantomData<C>);

pub use storage::RaftLogReader;

pub mod alias {
    pub type SnapshotDataOf<C> = <C as super::storage::HasSnapshotData>::SnapshotData;
}

pub mod storage {
    use super::*;
    use std::io;
    use std::ops::RangeBounds;
    use std::sync::{Arc, Mutex};

    /// `C::SnapshotData` of the default configuration.
    pub trait HasSnapshotData {
        type SnapshotData;
    }
    impl<C: RaftTypeConfig> HasSnapshotData for C {
        type SnapshotData = io::Cursor<Vec<u8>>;
    }

    #[derive(Clone, Debug, Default, PartialEq, Eq)]
    pub struct LogState<C: RaftTypeConfig> {
        pub last_purged_log_id: Option<LogId<C>>,
        pub last_log_id: Option<LogId<C>>,
    }

    #[derive(Debug, Clone, Default, PartialEq, Eq, Deserialize, Serialize)]
    #[serde(bound = "")]
    pub struct SnapshotMeta<C: RaftTypeConfig> {
        pub last_log_id: Option<LogId<C>>,
        pub last_membership: StoredMembership<C>,
        pub snapshot_id: String,
    }

    #[derive(Debug, Clone)]
    pub struct Snapshot<C: RaftTypeConfig> {
        pub meta: SnapshotMeta<C>,
        pub snapshot: io::Cursor<Vec<u8>>,
    }

    /// Real: notifies RaftCore through a channel. Here: stores the reported result where the
    /// harness can see it.
    pub struct IOFlushed<C: RaftTypeConfig> {
        sink: Arc<Mutex<Option<Result<(), String>>>>,
        _c: std::marker::PhantomData<C>,
    }
    impl<C: RaftTypeConfig> IOFlushed<C> {
        /// harness side
        pub fn shim_new() -> (Self, Arc<Mutex<Option<Result<(), String>>>>) {
            let sink = Arc::new(Mutex::new(None));
            (Self { sink: sink.clone(), _c: std::marker::PhantomData }, sink)
        }
        pub async fn io_completed(self, result: Result<(), io::Error>) {
            *self.sink.lock().unwrap() = Some(result.map_err(|e| e.to_string()));
        }
    }

    /// Real: wraps the client's responder. Here: pushes (entry index, response) into a shared Vec.
    pub struct ApplyResponder<C: RaftTypeConfig> {
        sink: Arc<Mutex<Vec<(u64, C::R)>>>,
        index: u64,
    }
    impl<C: RaftTypeConfig> ApplyResponder<C> {
        /// harness side
        pub fn shim_new(sink: Arc<Mutex<Vec<(u64, C::R)>>>, index: u64) -> Self {
            Self { sink, index }
        }
        pub fn send(self, response: C::R) {
            self.sink.lock().unwrap().push((self.index, response));
        }
    }

    pub type EntryResponder<C> = (Entry<C>, Option<ApplyResponder<C>>);

    // ---- storage/v2 traits: required methods only, signatures copied ----

    pub trait RaftLogReader<C>: OptionalSend + OptionalSync + 'static
    where
        C: RaftTypeConfig,
    {
        async fn try_get_log_entries<RB: RangeBounds<u64> + Clone + Debug + OptionalSend>(
            &mut self,
            range: RB,
        ) -> Result<Vec<Entry<C>>, io::Error>;

        async fn read_vote(&mut self) -> Result<Option<Vote<C>>, io::Error>;
    }

    pub trait RaftLogStorage<C>: OptionalSend + OptionalSync + 'static
    where
        C: RaftTypeConfig,
    {
        type LogReader: RaftLogReader<C>;

        async fn get_log_state(&mut self) -> Result<LogState<C>, io::Error>;
        async fn get_log_reader(&mut self) -> Self::LogReader;
        async fn save_vote(&mut self, vote: &Vote<C>) -> Result<(), io::Error>;
        async fn save_committed(&mut self, _committed: Option<LogId<C>>) -> Result<(), io::Error> {
            Ok(())
        }
        async fn read_committed(&mut self) -> Result<Option<LogId<C>>, io::Error> {
            Ok(None)
        }
        async fn append<I>(&mut self, entries: I, callback: IOFlushed<C>) -> Result<(), io::Error>
        where
            I: IntoIterator<Item = Entry<C>> + OptionalSend,
            I::IntoIter: OptionalSend;
        async fn truncate(&mut self, log_id: LogId<C>) -> Result<(), io::Error>;
        async fn purge(&mut self, log_id: LogId<C>) -> Result<(), io::Error>;
    }

    pub trait RaftSnapshotBuilder<C>: OptionalSend + OptionalSync + 'static
    where
        C: RaftTypeConfig,
    {
        async fn build_snapshot(&mut self) -> Result<Snapshot<C>, io::Error>;
    }

    pub trait RaftStateMachine<C>: OptionalSend + OptionalSync + 'static
    where
        C: RaftTypeConfig,
    {
        type SnapshotBuilder: RaftSnapshotBuilder<C>;

        async fn applied_state(&mut self) -> Result<(Option<LogId<C>>, StoredMembership<C>), io::Error>;
        async fn apply<Strm>(&mut self, entries: Strm) -> Result<(), io::Error>
        where
            Strm: futures::Stream<Item = Result<EntryResponder<C>, io::Error>> + Unpin + OptionalSend;
        async fn get_snapshot_builder(&mut self) -> Self::SnapshotBuilder;
        async fn begin_receiving_snapshot(&mut self) -> Result<io::Cursor<Vec<u8>>, io::Error>;
        async fn install_snapshot(&mut self, meta: &SnapshotMeta<C>, snapshot: io::Cursor<Vec<u8>>) -> Result<(), io::Error>;
        async fn get_current_snapshot(&mut self) -> Result<Option<Snapshot<C>>, io::Error>;
    }
}
