//! SHIM for the `tokio` crate (real one is not available offline).
//!
//! Only the API surface used by /repo/distributed-walrus/src/client.rs:
//!   tokio::io::{AsyncReadExt, AsyncWriteExt}   (read_exact, write_all)
//!   tokio::net::{TcpListener, TcpStream}        (bind, accept)
//!   tokio::spawn
//! plus `tokio::shim::*`, the harness-side controls (NOT part of real tokio).
//!
//! Everything is in-memory and single-threaded; every future is immediately
//! ready (`std::future::Ready`).

use std::future::Future;

pub mod shim {
    //! Harness-side controls. Streams are queued here before
    //! `TcpListener::accept` hands them out.
    use super::net::TcpStream;
    use std::cell::{Cell, RefCell};
    use std::collections::VecDeque;
    use std::future::Future;
    use std::pin::pin;
    use std::sync::{Arc, Mutex};
    use std::task::{Context, Poll, Waker};

    thread_local! {
        pub(crate) static PENDING: RefCell<VecDeque<TcpStream>> = RefCell::new(VecDeque::new());
        pub(crate) static TASK_PANICKED: Cell<bool> = Cell::new(false);
    }

    /// Queue one connection whose peer sends exactly `input` and then closes.
    /// Returns the buffer that will receive every byte the server writes.
    pub fn push_stream(input: Vec<u8>) -> Arc<Mutex<Vec<u8>>> {
        let out = Arc::new(Mutex::new(Vec::new()));
        let s = TcpStream { input, pos: 0, output: out.clone() };
        PENDING.with(|q| q.borrow_mut().push_back(s));
        out
    }

    /// Drop any queued connection that was never accepted.
    pub fn clear_streams() {
        PENDING.with(|q| q.borrow_mut().clear());
    }

    /// True (and reset) if a task given to `tokio::spawn` panicked since the
    /// last call. Real tokio catches task panics and stores them in the
    /// JoinHandle; the accept loop keeps running. Same here.
    pub fn take_task_panicked() -> bool {
        TASK_PANICKED.with(|p| p.replace(false))
    }

    /// Stand-in for a runtime: poll with a no-op waker. All shim futures are
    /// immediately ready, so a `Pending` can never be woken: treat as a bug.
    pub fn block_on<F: Future>(fut: F) -> F::Output {
        let mut fut = pin!(fut);
        let mut cx = Context::from_waker(Waker::noop());
        match fut.as_mut().poll(&mut cx) {
            Poll::Ready(v) => v,
            Poll::Pending => panic!("tokio shim: future returned Pending"),
        }
    }
}

pub mod io {
    //! Stand-ins for tokio::io::{AsyncReadExt, AsyncWriteExt}. Real tokio has
    //! these as blanket extension traits over AsyncRead/AsyncWrite; here they
    //! are implemented directly for the shim TcpStream.
    use std::future::Ready;
    use std::io;

    pub trait AsyncReadExt {
        /// Real: fills `buf` completely or fails with `ErrorKind::UnexpectedEof`
        /// ("early eof") if the stream ends first -- also when some bytes were
        /// already read; those bytes are consumed. Returns `buf.len()`.
        fn read_exact<'a>(&'a mut self, buf: &'a mut [u8]) -> Ready<io::Result<usize>>;
    }

    pub trait AsyncWriteExt {
        /// Real: writes the whole buffer or returns the first I/O error.
        fn write_all<'a>(&'a mut self, src: &'a [u8]) -> Ready<io::Result<()>>;
    }
}

pub mod net {
    use super::io::{AsyncReadExt, AsyncWriteExt};
    use super::shim::PENDING;
    use std::fmt;
    use std::future::{ready, Ready};
    use std::io;
    use std::sync::{Arc, Mutex};

    /// In-memory connection: reads come from `input` (then EOF), writes are
    /// appended to `output`. Writes never fail (the real peer could reset).
    pub struct TcpStream {
        pub(crate) input: Vec<u8>,
        pub(crate) pos: usize,
        pub(crate) output: Arc<Mutex<Vec<u8>>>,
    }

    impl AsyncReadExt for TcpStream {
        fn read_exact<'a>(&'a mut self, buf: &'a mut [u8]) -> Ready<io::Result<usize>> {
            let rest = &self.input[self.pos..];
            if rest.len() < buf.len() {
                // partial bytes are consumed and land in buf, like tokio
                let n = rest.len();
                buf[..n].copy_from_slice(rest);
                self.pos = self.input.len();
                return ready(Err(io::Error::new(io::ErrorKind::UnexpectedEof, "early eof")));
            }
            let n = buf.len();
            buf.copy_from_slice(&rest[..n]);
            self.pos += n;
            ready(Ok(n))
        }
    }

    impl AsyncWriteExt for TcpStream {
        fn write_all<'a>(&'a mut self, src: &'a [u8]) -> Ready<io::Result<()>> {
            self.output.lock().unwrap_or_else(|e| e.into_inner()).extend_from_slice(src);
            ready(Ok(()))
        }
    }

    /// Stand-in for std::net::SocketAddr as returned by accept(); only
    /// `Display` is used by client.rs.
    #[derive(Clone, Copy, Debug)]
    pub struct ShimAddr;
    impl fmt::Display for ShimAddr {
        fn fmt(&self, f: &mut fmt::Formatter<'_>) -> fmt::Result {
            f.write_str("shim:0")
        }
    }

    pub struct TcpListener(());

    impl TcpListener {
        /// Real: `bind<A: ToSocketAddrs>(addr)`. The address is ignored.
        pub fn bind<A>(_addr: A) -> Ready<io::Result<TcpListener>> {
            ready(Ok(TcpListener(())))
        }

        /// Hands out the queued streams in order; once the queue is empty it
        /// returns an error so that the caller's accept loop terminates (a real
        /// listener would wait forever).
        pub fn accept(&self) -> Ready<io::Result<(TcpStream, ShimAddr)>> {
            ready(match PENDING.with(|q| q.borrow_mut().pop_front()) {
                Some(s) => Ok((s, ShimAddr)),
                None => Err(io::Error::new(io::ErrorKind::Other, "tokio shim: no more connections")),
            })
        }
    }
}

/// Dummy handle; the task has already finished when `spawn` returns.
pub struct JoinHandle<T>(Option<T>);
impl<T> JoinHandle<T> {
    /// None if the task panicked.
    pub fn into_result(self) -> Option<T> {
        self.0
    }
}

/// Real: schedules the future on the runtime (same `Send + 'static` bounds).
/// Here: runs it to completion inline. A panic in the task is contained, as
/// the real runtime does, and recorded for `shim::take_task_panicked`.
pub fn spawn<F>(future: F) -> JoinHandle<F::Output>
where
    F: Future + Send + 'static,
    F::Output: Send + 'static,
{
    let r = std::panic::catch_unwind(std::panic::AssertUnwindSafe(|| shim::block_on(future)));
    if r.is_err() {
        shim::TASK_PANICKED.with(|p| p.set(true));
    }
    JoinHandle(r.ok())
}

// ---------------------------------------------------------------------------------------
// Additions for harness/owh (octopii/src/wal/mod.rs, state_machine.rs, openraft/storage.rs):
//   tokio::time::{Duration, sleep}, tokio::task::block_in_place,
//   tokio::runtime::Handle::{current, block_on}, tokio::sync::{Mutex, RwLock}.
// Single-threaded, every future immediately ready (same convention as above).

pub mod time {
    pub use std::time::Duration;
    use std::future::{ready, Ready};

    /// Real: completes after `d` without blocking the thread. Here: blocks the (only) thread.
    pub fn sleep(d: Duration) -> Ready<()> {
        std::thread::sleep(d);
        ready(())
    }
}

pub mod task {
    /// Real: tells the multi-thread runtime that the closure blocks, then runs it on the
    /// current thread. Here: just runs it.
    pub fn block_in_place<F, R>(f: F) -> R
    where
        F: FnOnce() -> R,
    {
        f()
    }
}

pub mod runtime {
    use std::future::Future;

    #[derive(Clone, Debug)]
    pub struct Handle(());

    impl Handle {
        pub fn current() -> Handle {
            Handle(())
        }
        pub fn block_on<F: Future>(&self, fut: F) -> F::Output {
            crate::shim::block_on(fut)
        }
    }
}

pub mod sync {
    //! Async Mutex / RwLock whose lock futures are immediately ready. There is one thread and
    //! no task ever waits while holding a guard across a pending await (nothing is pending),
    //! so contention cannot occur; a lock that is already held is a harness bug and panics.
    //! Like real tokio, no poisoning.
    use std::future::{ready, Ready};

    #[derive(Debug, Default)]
    pub struct Mutex<T>(std::sync::Mutex<T>);
    pub type MutexGuard<'a, T> = std::sync::MutexGuard<'a, T>;

    impl<T> Mutex<T> {
        pub fn new(t: T) -> Self {
            Mutex(std::sync::Mutex::new(t))
        }
        pub fn lock(&self) -> Ready<MutexGuard<'_, T>> {
            ready(match self.0.try_lock() {
                Ok(g) => g,
                Err(std::sync::TryLockError::Poisoned(p)) => p.into_inner(),
                Err(std::sync::TryLockError::WouldBlock) => panic!("tokio shim: Mutex already held"),
            })
        }
    }

    #[derive(Debug, Default)]
    pub struct RwLock<T>(std::sync::RwLock<T>);
    pub type RwLockReadGuard<'a, T> = std::sync::RwLockReadGuard<'a, T>;
    pub type RwLockWriteGuard<'a, T> = std::sync::RwLockWriteGuard<'a, T>;

    impl<T> RwLock<T> {
        pub fn new(t: T) -> Self {
            RwLock(std::sync::RwLock::new(t))
        }
        pub fn read(&self) -> Ready<RwLockReadGuard<'_, T>> {
            ready(match self.0.try_read() {
                Ok(g) => g,
                Err(std::sync::TryLockError::Poisoned(p)) => p.into_inner(),
                Err(std::sync::TryLockError::WouldBlock) => panic!("tokio shim: RwLock write-held"),
            })
        }
        pub fn write(&self) -> Ready<RwLockWriteGuard<'_, T>> {
            ready(match self.0.try_write() {
                Ok(g) => g,
                Err(std::sync::TryLockError::Poisoned(p)) => p.into_inner(),
                Err(std::sync::TryLockError::WouldBlock) => panic!("tokio shim: RwLock already held"),
            })
        }
    }
}
