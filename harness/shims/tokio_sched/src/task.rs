//! Stand-in for tokio::task::spawn_blocking.  Real: the closure runs on the blocking
//! pool, concurrently with everything else, some time between the call and the
//! completion of the JoinHandle.  Here: awaiting the handle is a scheduling point
//! (label "spawn_blocking"); the closure runs, atomically, when the task is next
//! scheduled.  A handle that is dropped without being awaited never runs its closure
//! (the harnessed code always awaits it).
use crate::exec::{set_status, Status};
use std::fmt;
use std::future::Future;
use std::pin::Pin;
use std::task::{Context, Poll};

#[derive(Debug)]
pub struct JoinError(());
impl fmt::Display for JoinError {
    fn fmt(&self, f: &mut fmt::Formatter<'_>) -> fmt::Result {
        f.write_str("task panicked")
    }
}
impl std::error::Error for JoinError {}

pub struct BlockingHandle<F, R> {
    f: Option<F>,
    arrived: bool,
    _r: std::marker::PhantomData<fn() -> R>,
}
impl<F, R> Unpin for BlockingHandle<F, R> {}

pub fn spawn_blocking<F, R>(f: F) -> BlockingHandle<F, R>
where
    F: FnOnce() -> R + Send + 'static,
    R: Send + 'static,
{
    BlockingHandle { f: Some(f), arrived: false, _r: std::marker::PhantomData }
}

impl<F: FnOnce() -> R, R> Future for BlockingHandle<F, R> {
    type Output = Result<R, JoinError>;
    fn poll(mut self: Pin<&mut Self>, _cx: &mut Context<'_>) -> Poll<Self::Output> {
        if !self.arrived {
            self.arrived = true;
            set_status(Status::At("spawn_blocking".into()));
            return Poll::Pending;
        }
        let f = self.f.take().expect("polled after completion");
        match std::panic::catch_unwind(std::panic::AssertUnwindSafe(f)) {
            Ok(r) => Poll::Ready(Ok(r)),
            Err(_) => Poll::Ready(Err(JoinError(()))),
        }
    }
}
