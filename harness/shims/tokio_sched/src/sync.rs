//! Stand-ins for tokio::sync::{Mutex, RwLock}: same method names and guard types, every
//! acquisition is a scheduling point of `shim::exec` (arrive, then acquire when next
//! scheduled; `Blocked` while another task holds the lock).  Single-threaded: the
//! `unsafe impl Send/Sync` below only satisfy the bounds the real API carries.
//! Labels: "mutex.lock:<T>", "rwlock.read:<T>", "rwlock.write:<T>" with T = type_name.
use crate::exec::{set_status, Status};
use std::cell::{Cell, UnsafeCell};
use std::future::Future;
use std::ops::{Deref, DerefMut};
use std::pin::Pin;
use std::sync::Arc;
use std::task::{Context, Poll};

// ------------------------------------------------------------------ Mutex
pub struct Mutex<T: ?Sized> {
    locked: Cell<bool>,
    value: UnsafeCell<T>,
}
unsafe impl<T: ?Sized + Send> Send for Mutex<T> {}
unsafe impl<T: ?Sized + Send> Sync for Mutex<T> {}

impl<T> Mutex<T> {
    pub fn new(t: T) -> Self {
        Mutex { locked: Cell::new(false), value: UnsafeCell::new(t) }
    }
    pub fn lock(&self) -> MutexLock<'_, T> {
        MutexLock { m: self, arrived: false }
    }
    pub fn lock_owned(self: Arc<Self>) -> MutexLockOwned<T> {
        MutexLockOwned { m: Some(self), arrived: false }
    }
    /// harness-side: is the mutex held right now
    pub fn shim_is_locked(&self) -> bool {
        self.locked.get()
    }
    fn label() -> String {
        format!("mutex.lock:{}", std::any::type_name::<T>())
    }
}

pub struct MutexLock<'a, T> {
    m: &'a Mutex<T>,
    arrived: bool,
}
impl<'a, T> Future for MutexLock<'a, T> {
    type Output = MutexGuard<'a, T>;
    fn poll(mut self: Pin<&mut Self>, _cx: &mut Context<'_>) -> Poll<Self::Output> {
        if !self.arrived {
            self.arrived = true;
            set_status(Status::At(Mutex::<T>::label()));
            return Poll::Pending;
        }
        if self.m.locked.get() {
            set_status(Status::Blocked(Mutex::<T>::label()));
            return Poll::Pending;
        }
        self.m.locked.set(true);
        Poll::Ready(MutexGuard { m: self.m })
    }
}
pub struct MutexGuard<'a, T> {
    m: &'a Mutex<T>,
}
unsafe impl<'a, T: Send> Send for MutexGuard<'a, T> {}
impl<'a, T> Deref for MutexGuard<'a, T> {
    type Target = T;
    fn deref(&self) -> &T {
        unsafe { &*self.m.value.get() }
    }
}
impl<'a, T> DerefMut for MutexGuard<'a, T> {
    fn deref_mut(&mut self) -> &mut T {
        unsafe { &mut *self.m.value.get() }
    }
}
impl<'a, T> Drop for MutexGuard<'a, T> {
    fn drop(&mut self) {
        self.m.locked.set(false);
    }
}

pub struct MutexLockOwned<T> {
    m: Option<Arc<Mutex<T>>>,
    arrived: bool,
}
impl<T> Unpin for MutexLockOwned<T> {}
impl<T> Future for MutexLockOwned<T> {
    type Output = OwnedMutexGuard<T>;
    fn poll(mut self: Pin<&mut Self>, _cx: &mut Context<'_>) -> Poll<Self::Output> {
        if !self.arrived {
            self.arrived = true;
            set_status(Status::At(Mutex::<T>::label()));
            return Poll::Pending;
        }
        let held = self.m.as_ref().expect("polled after completion").locked.get();
        if held {
            set_status(Status::Blocked(Mutex::<T>::label()));
            return Poll::Pending;
        }
        let m = self.m.take().unwrap();
        m.locked.set(true);
        Poll::Ready(OwnedMutexGuard { m })
    }
}
pub struct OwnedMutexGuard<T> {
    m: Arc<Mutex<T>>,
}
unsafe impl<T: Send> Send for OwnedMutexGuard<T> {}
unsafe impl<T: Send> Sync for OwnedMutexGuard<T> {}
impl<T> Deref for OwnedMutexGuard<T> {
    type Target = T;
    fn deref(&self) -> &T {
        unsafe { &*self.m.value.get() }
    }
}
impl<T> DerefMut for OwnedMutexGuard<T> {
    fn deref_mut(&mut self) -> &mut T {
        unsafe { &mut *self.m.value.get() }
    }
}
impl<T> Drop for OwnedMutexGuard<T> {
    fn drop(&mut self) {
        self.m.locked.set(false);
    }
}

// ------------------------------------------------------------------ RwLock
pub struct RwLock<T: ?Sized> {
    /// -1: one writer; n >= 0: n readers
    state: Cell<isize>,
    value: UnsafeCell<T>,
}
unsafe impl<T: ?Sized + Send> Send for RwLock<T> {}
unsafe impl<T: ?Sized + Send + Sync> Sync for RwLock<T> {}

impl<T> RwLock<T> {
    pub fn new(t: T) -> Self {
        RwLock { state: Cell::new(0), value: UnsafeCell::new(t) }
    }
    pub fn read(&self) -> RwRead<'_, T> {
        RwRead { l: self, arrived: false }
    }
    pub fn write(&self) -> RwWrite<'_, T> {
        RwWrite { l: self, arrived: false }
    }
    /// harness-side: look at the value without scheduling (panics if a writer holds it)
    pub fn shim_peek<R>(&self, f: impl FnOnce(&T) -> R) -> R {
        assert!(self.state.get() >= 0, "shim_peek while write-locked");
        f(unsafe { &*self.value.get() })
    }
}

pub struct RwRead<'a, T> {
    l: &'a RwLock<T>,
    arrived: bool,
}
impl<'a, T> Future for RwRead<'a, T> {
    type Output = RwLockReadGuard<'a, T>;
    fn poll(mut self: Pin<&mut Self>, _cx: &mut Context<'_>) -> Poll<Self::Output> {
        let label = || format!("rwlock.read:{}", std::any::type_name::<T>());
        if !self.arrived {
            self.arrived = true;
            set_status(Status::At(label()));
            return Poll::Pending;
        }
        if self.l.state.get() < 0 {
            set_status(Status::Blocked(label()));
            return Poll::Pending;
        }
        self.l.state.set(self.l.state.get() + 1);
        Poll::Ready(RwLockReadGuard { l: self.l })
    }
}
pub struct RwLockReadGuard<'a, T> {
    l: &'a RwLock<T>,
}
unsafe impl<'a, T: Sync> Send for RwLockReadGuard<'a, T> {}
impl<'a, T> Deref for RwLockReadGuard<'a, T> {
    type Target = T;
    fn deref(&self) -> &T {
        unsafe { &*self.l.value.get() }
    }
}
impl<'a, T> Drop for RwLockReadGuard<'a, T> {
    fn drop(&mut self) {
        self.l.state.set(self.l.state.get() - 1);
    }
}
impl<'a, T: std::fmt::Debug> std::fmt::Debug for RwLockReadGuard<'a, T> {
    fn fmt(&self, f: &mut std::fmt::Formatter<'_>) -> std::fmt::Result {
        (**self).fmt(f)
    }
}

pub struct RwWrite<'a, T> {
    l: &'a RwLock<T>,
    arrived: bool,
}
impl<'a, T> Future for RwWrite<'a, T> {
    type Output = RwLockWriteGuard<'a, T>;
    fn poll(mut self: Pin<&mut Self>, _cx: &mut Context<'_>) -> Poll<Self::Output> {
        let label = || format!("rwlock.write:{}", std::any::type_name::<T>());
        if !self.arrived {
            self.arrived = true;
            set_status(Status::At(label()));
            return Poll::Pending;
        }
        if self.l.state.get() != 0 {
            set_status(Status::Blocked(label()));
            return Poll::Pending;
        }
        self.l.state.set(-1);
        Poll::Ready(RwLockWriteGuard { l: self.l })
    }
}
pub struct RwLockWriteGuard<'a, T> {
    l: &'a RwLock<T>,
}
unsafe impl<'a, T: Send + Sync> Send for RwLockWriteGuard<'a, T> {}
impl<'a, T> Deref for RwLockWriteGuard<'a, T> {
    type Target = T;
    fn deref(&self) -> &T {
        unsafe { &*self.l.value.get() }
    }
}
impl<'a, T> DerefMut for RwLockWriteGuard<'a, T> {
    fn deref_mut(&mut self) -> &mut T {
        unsafe { &mut *self.l.value.get() }
    }
}
impl<'a, T> Drop for RwLockWriteGuard<'a, T> {
    fn drop(&mut self) {
        self.l.state.set(0);
    }
}
