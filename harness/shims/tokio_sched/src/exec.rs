//! Deterministic single-threaded executor (harness-side control, NOT part of real tokio).
//!
//! A task is a boxed future.  `Executor::step(id)` polls it once.  Every shim primitive
//! (`sync::Mutex::lock`, `sync::RwLock::{read,write}`, `task::spawn_blocking`,
//! `time::{sleep, Interval::tick}`, and `point(label)` used by the octopii shim for
//! `propose` / RPC `request`) behaves the same way:
//!   * first poll: it records its label in the thread-local status and returns Pending
//!     (the task has ARRIVED at a scheduling point; nothing has been acquired or executed);
//!   * later polls: it tries to perform its action; on success it returns Ready and the
//!     task runs on to the next scheduling point; if the resource is held by another
//!     task it records `Blocked(label)` and returns Pending without any effect.
//! One `step` therefore executes exactly the code between two scheduling points.
use std::cell::RefCell;
use std::future::Future;
use std::pin::Pin;
use std::task::{Context, Poll, Waker};

#[derive(Clone, Debug, PartialEq, Eq)]
pub enum Status {
    /// the task arrived at a scheduling point with this label
    At(String),
    /// the task is still at the scheduling point: its resource is not available
    Blocked(String),
    /// the task finished
    Done,
}

thread_local! {
    static STATUS: RefCell<Option<Status>> = RefCell::new(None);
}

pub(crate) fn set_status(s: Status) {
    STATUS.with(|c| *c.borrow_mut() = Some(s));
}

/// A bare scheduling point: Pending once (recording `label`), then Ready.
pub struct Point {
    label: Option<String>,
}
pub fn point<S: Into<String>>(label: S) -> Point {
    Point { label: Some(label.into()) }
}
impl Future for Point {
    type Output = ();
    fn poll(mut self: Pin<&mut Self>, _cx: &mut Context<'_>) -> Poll<()> {
        match self.label.take() {
            Some(l) => {
                set_status(Status::At(l));
                Poll::Pending
            }
            None => Poll::Ready(()),
        }
    }
}

/// Wait (without effect) until `cond()` holds; reports `Blocked(label)` while it does not.
/// Has no arrival step of its own: use after a `point`.
pub struct Until<F: FnMut() -> bool> {
    label: String,
    cond: F,
}
pub fn until<S: Into<String>, F: FnMut() -> bool>(label: S, cond: F) -> Until<F> {
    Until { label: label.into(), cond }
}
impl<F: FnMut() -> bool + Unpin> Future for Until<F> {
    type Output = ();
    fn poll(mut self: Pin<&mut Self>, _cx: &mut Context<'_>) -> Poll<()> {
        if (self.cond)() {
            Poll::Ready(())
        } else {
            set_status(Status::Blocked(self.label.clone()));
            Poll::Pending
        }
    }
}

type Task = Pin<Box<dyn Future<Output = ()>>>;

pub struct Executor {
    tasks: Vec<Option<Task>>,
    last: Vec<Status>,
}

impl Executor {
    pub fn new() -> Self {
        Executor { tasks: Vec::new(), last: Vec::new() }
    }

    /// Register a task; it does not run until stepped.
    pub fn spawn<F: Future<Output = ()> + 'static>(&mut self, f: F) -> usize {
        self.tasks.push(Some(Box::pin(f)));
        self.last.push(Status::At("START".into()));
        self.tasks.len() - 1
    }

    /// Poll task `id` once: run it from its scheduling point to the next one.
    pub fn step(&mut self, id: usize) -> Status {
        let st = match self.tasks.get_mut(id) {
            Some(Some(t)) => {
                STATUS.with(|c| *c.borrow_mut() = None);
                let mut cx = Context::from_waker(Waker::noop());
                match t.as_mut().poll(&mut cx) {
                    Poll::Ready(()) => {
                        self.tasks[id] = None;
                        Status::Done
                    }
                    Poll::Pending => STATUS
                        .with(|c| c.borrow_mut().take())
                        .unwrap_or_else(|| panic!("tokio shim: task {} is pending on a future that is not a shim primitive", id)),
                }
            }
            _ => Status::Done,
        };
        self.last[id] = st.clone();
        st
    }

    /// Drop a task where it stands (a process that dies takes its tasks with it).
    pub fn kill(&mut self, id: usize) {
        if let Some(t) = self.tasks.get_mut(id) {
            *t = None;
        }
        self.last[id] = Status::Done;
    }

    pub fn status(&self, id: usize) -> &Status {
        &self.last[id]
    }

    pub fn is_done(&self, id: usize) -> bool {
        matches!(self.tasks.get(id), Some(None))
    }

    pub fn len(&self) -> usize {
        self.tasks.len()
    }
}
