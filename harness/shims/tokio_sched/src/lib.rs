//! SHIM for the `tokio` crate (real one is not available offline).
//!
//! Only the API surface used by /repo/distributed-walrus/src/client.rs:
//!   tokio::io::{AsyncReadExt, AsyncWriteExt}   (read_exact, write_all)
//!   tokio::net::{TcpListener, TcpStream}        (bind, accept)
//!   tokio::spawn
//! plus `tokio::shim::*`, the harness-side controls (NOT part of real tokio).
//!
//! Everything is in-memory and single-threaded; every future of the client.rs
//! surface is immediately ready (`std::future::Ready`).
//!
//! Second surface (harness/cwh: controller/{mod,internal}.rs, bucket.rs, monitor.rs):
//!   tokio::sync::{Mutex, RwLock, OwnedMutexGuard}, tokio::task::spawn_blocking,
//!   tokio::time::{interval, sleep, timeout}, tokio::net::lookup_host
//! run by `tokio::shim::exec::Executor`, a deterministic single-threaded executor: every
//! await on one of these primitives is a LABELLED SCHEDULING POINT (the task returns to
//! the scheduler and reports which primitive it is waiting on); the task continues only
//! when the schedule names it again.  See `exec` below.

use std::future::Future;

pub mod shim {
    //! Harness-side controls. Streams are queued here before
    //! `TcpListener::accept` hands them out.
    use super::net::TcpStream;
    use std::cell::{Cell, RefCell};
    use std::collections::VecDeque;
    use std::future::Future;
    use std::pin::pin;
    use std::sync::{Arc, Mutex};
    use std::task::{Context, Poll, Waker};

    thread_local! {
        pub(crate) static PENDING: RefCell<VecDeque<TcpStream>> = RefCell::new(VecDeque::new());
        pub(crate) static TASK_PANICKED: Cell<bool> = Cell::new(false);
    }

    /// Queue one connection whose peer sends exactly `input` and then closes.
    /// Returns the buffer that will receive every byte the server writes.
    pub fn push_stream(input: Vec<u8>) -> Arc<Mutex<Vec<u8>>> {
        let out = Arc::new(Mutex::new(Vec::new()));
        let s = TcpStream { input, pos: 0, output: out.clone() };
        PENDING.with(|q| q.borrow_mut().push_back(s));
        out
    }

    /// Drop any queued connection that was never accepted.
    pub fn clear_streams() {
        PENDING.with(|q| q.borrow_mut().clear());
    }

    /// True (and reset) if a task given to `tokio::spawn` panicked since the
    /// last call. Real tokio catches task panics and stores them in the
    /// JoinHandle; the accept loop keeps running. Same here.
    pub fn take_task_panicked() -> bool {
        TASK_PANICKED.with(|p| p.replace(false))
    }

    pub use crate::exec;

    /// Stand-in for a runtime: poll with a no-op waker. All shim futures are
    /// immediately ready, so a `Pending` can never be woken: treat as a bug.
    pub fn block_on<F: Future>(fut: F) -> F::Output {
        let mut fut = pin!(fut);
        let mut cx = Context::from_waker(Waker::noop());
        match fut.as_mut().poll(&mut cx) {
            Poll::Ready(v) => v,
            Poll::Pending => panic!("tokio shim: future returned Pending"),
        }
    }
}

pub mod exec;
pub mod sync;
pub mod task;
pub mod time;

pub mod io {
    //! Stand-ins for tokio::io::{AsyncReadExt, AsyncWriteExt}. Real tokio has
    //! these as blanket extension traits over AsyncRead/AsyncWrite; here they
    //! are implemented directly for the shim TcpStream.
    use std::future::Ready;
    use std::io;

    pub trait AsyncReadExt {
        /// Real: fills `buf` completely or fails with `ErrorKind::UnexpectedEof`
        /// ("early eof") if the stream ends first -- also when some bytes were
        /// already read; those bytes are consumed. Returns `buf.len()`.
        fn read_exact<'a>(&'a mut self, buf: &'a mut [u8]) -> Ready<io::Result<usize>>;
    }

    pub trait AsyncWriteExt {
        /// Real: writes the whole buffer or returns the first I/O error.
        fn write_all<'a>(&'a mut self, src: &'a [u8]) -> Ready<io::Result<()>>;
    }
}

pub mod net {
    use super::io::{AsyncReadExt, AsyncWriteExt};
    use super::shim::PENDING;
    use std::fmt;
    use std::future::{ready, Ready};
    use std::io;
    use std::sync::{Arc, Mutex};

    /// In-memory connection: reads come from `input` (then EOF), writes are
    /// appended to `output`. Writes never fail (the real peer could reset).
    pub struct TcpStream {
        pub(crate) input: Vec<u8>,
        pub(crate) pos: usize,
        pub(crate) output: Arc<Mutex<Vec<u8>>>,
    }

    impl AsyncReadExt for TcpStream {
        fn read_exact<'a>(&'a mut self, buf: &'a mut [u8]) -> Ready<io::Result<usize>> {
            let rest = &self.input[self.pos..];
            if rest.len() < buf.len() {
                // partial bytes are consumed and land in buf, like tokio
                let n = rest.len();
                buf[..n].copy_from_slice(rest);
                self.pos = self.input.len();
                return ready(Err(io::Error::new(io::ErrorKind::UnexpectedEof, "early eof")));
            }
            let n = buf.len();
            buf.copy_from_slice(&rest[..n]);
            self.pos += n;
            ready(Ok(n))
        }
    }

    impl AsyncWriteExt for TcpStream {
        fn write_all<'a>(&'a mut self, src: &'a [u8]) -> Ready<io::Result<()>> {
            self.output.lock().unwrap_or_else(|e| e.into_inner()).extend_from_slice(src);
            ready(Ok(()))
        }
    }

    /// Stand-in for std::net::SocketAddr as returned by accept(); only
    /// `Display` is used by client.rs.
    #[derive(Clone, Copy, Debug)]
    pub struct ShimAddr;
    impl fmt::Display for ShimAddr {
        fn fmt(&self, f: &mut fmt::Formatter<'_>) -> fmt::Result {
            f.write_str("shim:0")
        }
    }

    /// Real: resolves a host name.  The harness only uses literal socket addresses, which
    /// the calling code parses itself; anything that reaches this function fails to resolve.
    pub async fn lookup_host<T: ToString>(host: T) -> io::Result<std::vec::IntoIter<std::net::SocketAddr>> {
        match host.to_string().parse::<std::net::SocketAddr>() {
            Ok(a) => Ok(vec![a].into_iter()),
            Err(_) => Err(io::Error::new(io::ErrorKind::Other, "tokio shim: lookup_host unsupported")),
        }
    }

    pub struct TcpListener(());

    impl TcpListener {
        /// Real: `bind<A: ToSocketAddrs>(addr)`. The address is ignored.
        pub fn bind<A>(_addr: A) -> Ready<io::Result<TcpListener>> {
            ready(Ok(TcpListener(())))
        }

        /// Hands out the queued streams in order; once the queue is empty it
        /// returns an error so that the caller's accept loop terminates (a real
        /// listener would wait forever).
        pub fn accept(&self) -> Ready<io::Result<(TcpStream, ShimAddr)>> {
            ready(match PENDING.with(|q| q.borrow_mut().pop_front()) {
                Some(s) => Ok((s, ShimAddr)),
                None => Err(io::Error::new(io::ErrorKind::Other, "tokio shim: no more connections")),
            })
        }
    }
}

/// Dummy handle; the task has already finished when `spawn` returns.
pub struct JoinHandle<T>(Option<T>);
impl<T> JoinHandle<T> {
    /// None if the task panicked.
    pub fn into_result(self) -> Option<T> {
        self.0
    }
}

/// Real: schedules the future on the runtime (same `Send + 'static` bounds).
/// Here: runs it to completion inline. A panic in the task is contained, as
/// the real runtime does, and recorded for `shim::take_task_panicked`.
pub fn spawn<F>(future: F) -> JoinHandle<F::Output>
where
    F: Future + Send + 'static,
    F::Output: Send + 'static,
{
    let r = std::panic::catch_unwind(std::panic::AssertUnwindSafe(|| shim::block_on(future)));
    if r.is_err() {
        shim::TASK_PANICKED.with(|p| p.set(true));
    }
    JoinHandle(r.ok())
}
