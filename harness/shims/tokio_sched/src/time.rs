//! Stand-ins for tokio::time::{interval, sleep, timeout}.  There is no clock: `tick()`
//! and `sleep()` are scheduling points (labels "interval.tick", "sleep") that complete
//! when the task is next scheduled — the scheduler decides when time passes.  `timeout`
//! never fires.
pub use std::time::Duration;
use std::fmt;
use std::future::Future;

pub struct Interval(());
pub fn interval(_period: Duration) -> Interval {
    Interval(())
}
impl Interval {
    pub fn tick(&mut self) -> crate::exec::Point {
        crate::exec::point("interval.tick")
    }
}

pub fn sleep(_d: Duration) -> crate::exec::Point {
    crate::exec::point("sleep")
}

pub mod error {
    #[derive(Debug)]
    pub struct Elapsed(pub(crate) ());
}
impl fmt::Display for error::Elapsed {
    fn fmt(&self, f: &mut fmt::Formatter<'_>) -> fmt::Result {
        f.write_str("deadline has elapsed")
    }
}
impl std::error::Error for error::Elapsed {}

pub async fn timeout<F: Future>(_d: Duration, fut: F) -> Result<F::Output, error::Elapsed> {
    Ok(fut.await)
}
