(* Base.v — shared imports and small helpers for every model file.
   Strings are lists of Unicode scalar values (N); bytes are N < 256. *)
From Coq Require Export List NArith Bool Lia PeanoNat.
Export ListNotations.
Open Scope N_scope.
Global Arguments N.add : simpl never.
Global Arguments N.sub : simpl never.
Global Arguments N.mul : simpl never.
Global Arguments N.div : simpl never.
Global Arguments N.modulo : simpl never.
Global Arguments N.ltb : simpl never.
Global Arguments N.leb : simpl never.
Global Arguments N.eqb : simpl never.
Global Arguments N.pow : simpl never.

Definition str := list N.

(* ASCII code points used by the models *)
Definition ch_0 : N := 48.
Definition ch_9 : N := 57.
Definition ch_A : N := 65.
Definition ch_Z : N := 90.
Definition ch_a : N := 97.
Definition ch_z : N := 122.
Definition ch_us : N := 95.   (* '_' *)
Definition ch_dash : N := 45. (* '-' *)
Definition ch_dot : N := 46.  (* '.' *)
Definition ch_slash : N := 47.
Definition ch_plus : N := 43.
Definition ch_s : N := 115.
Definition ch_t : N := 116.
Definition ch_n : N := 110.
Definition ch_sp : N := 32.

Definition is_digit (c : N) : bool := (ch_0 <=? c) && (c <=? ch_9).
Definition is_upper (c : N) : bool := (ch_A <=? c) && (c <=? ch_Z).
Definition is_lower (c : N) : bool := (ch_a <=? c) && (c <=? ch_z).
Definition is_ascii_alnum (c : N) : bool := is_digit c || is_upper c || is_lower c.

Fixpoint str_eqb (a b : str) : bool :=
  match a, b with
  | [], [] => true
  | x :: a', y :: b' => (x =? y) && str_eqb a' b'
  | _, _ => false
  end.

(* [strip_prefix p s] = Some rest iff s = p ++ rest *)
Fixpoint strip_prefix (p s : str) : option str :=
  match p with
  | [] => Some s
  | x :: p' => match s with
               | y :: s' => if x =? y then strip_prefix p' s' else None
               | [] => None
               end
  end.

Definition u64_max : N := 18446744073709551615.
Definition two64 : N := 18446744073709551616.
