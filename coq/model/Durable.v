(* Durable.v — a durability model over recorded I/O traces (property C10).

   A trace is the sequence of storage-level I/O events the engine issued (the cfg(walrus_verif)
   I/O event seam of /repo/src/wal/verif.rs), plus the points at which operations returned.
   Seam kind -> event:
     create -> ECreate f            set_len -> ESetLen f n        sync_file, flush, idx_sync,
     write, uring_sqe -> EWrite     sync_dir -> ESyncDir          clean_sync -> ESyncFile f
     idx_write, clean_write -> ETmpWrite f len id                 idx_rename, clean_rename -> ERename a b
     remove -> ERemove f            (uring_submit / uring_cqe carry no durability information)
   Files are named by numbers; payloads are abstract data-ids (the seam does not record bytes).

   State: the volatile directory (name -> inode, what the running process sees), and two
   chronological logs, newest first: file operations per inode and directory operations, each
   with a flag "has reached the disk".  fsync of a file raises the flag of every operation on
   the inode the name resolves to AT THAT MOMENT (not of its directory entry); fsync of the
   directory raises the flag of every directory operation; an O_SYNC write is born flagged.
   A power loss keeps every flagged operation and an arbitrary subset of the others
   ([adm], [pick], [outcomes]); the surviving disk is what replaying the kept operations gives
   ([dlook], [owner], [flen]).  Definitions only; lemmas in proofs/DurableP.v. *)
From W Require Import model.Base.

Inductive ev : Type :=
| ECreate (f : N)                          (* open(O_CREAT|O_TRUNC) *)
| ESetLen (f n : N)
| EWrite (f off len id : N) (osync : bool) (* positional write / store into the mapping *)
| ESyncFile (f : N)                        (* fsync / msync(MS_SYNC) of the file named f *)
| ESyncDir
| ETmpWrite (f len id : N)                 (* fs::write(f, bytes): create-or-truncate, one write *)
| ERename (a b : N)
| ERemove (f : N)
| EAck (id : N)                            (* the append that wrote data-id [id] returned Ok *)
| EAckRead (x id : N).                     (* the consuming read that persisted version [id] of index [x] returned *)

Inductive fop : Type := FWrite (off len id : N) | FSetLen (n : N).
Inductive dop : Type := DLink (f i : N) | DRename (a b i : N) | DUnlink (f : N).

Record dstate : Type := mkD {
  d_next : N;                              (* next fresh inode *)
  d_vdir : list (N * N);                   (* volatile directory: name -> inode, first match wins *)
  d_fops : list (bool * (N * fop));        (* newest first: (on disk?, (inode, operation)) *)
  d_dops : list (bool * dop) }.            (* newest first: (on disk?, directory operation) *)

Definition d_init : dstate := mkD 0 [] [] [].

Fixpoint vlook (d : list (N * N)) (f : N) : option N :=
  match d with
  | [] => None
  | (g, i) :: r => if g =? f then Some i else vlook r f
  end.
Definition vdel (d : list (N * N)) (f : N) : list (N * N) := filter (fun p => negb (fst p =? f)) d.

Definition sync_ino (i : N) (l : list (bool * (N * fop))) : list (bool * (N * fop)) :=
  map (fun p => (fst p || (fst (snd p) =? i), snd p)) l.
Definition sync_all {A : Type} (l : list (bool * A)) : list (bool * A) := map (fun p => (true, snd p)) l.

Definition add_fop (s : dstate) (b : bool) (i : N) (o : fop) : dstate :=
  mkD (d_next s) (d_vdir s) ((b, (i, o)) :: d_fops s) (d_dops s).

Definition do_create (s : dstate) (f : N) : dstate :=
  match vlook (d_vdir s) f with
  | Some i => add_fop s false i (FSetLen 0)
  | None => mkD (d_next s + 1) ((f, d_next s) :: d_vdir s) (d_fops s) ((false, DLink f (d_next s)) :: d_dops s)
  end.
Definition do_write (s : dstate) (f off len id : N) (osync : bool) : dstate :=
  match vlook (d_vdir s) f with
  | Some i => add_fop s osync i (FWrite off len id)
  | None => s
  end.

Definition dstep (s : dstate) (e : ev) : dstate :=
  match e with
  | ECreate f => do_create s f
  | ESetLen f n => match vlook (d_vdir s) f with Some i => add_fop s false i (FSetLen n) | None => s end
  | EWrite f off len id osync => do_write s f off len id osync
  | ESyncFile f => match vlook (d_vdir s) f with
                   | Some i => mkD (d_next s) (d_vdir s) (sync_ino i (d_fops s)) (d_dops s)
                   | None => s
                   end
  | ESyncDir => mkD (d_next s) (d_vdir s) (d_fops s) (sync_all (d_dops s))
  | ETmpWrite f len id => do_write (do_create s f) f 0 len id false
  | ERename a b => match vlook (d_vdir s) a with
                   | Some i => mkD (d_next s) ((b, i) :: vdel (vdel (d_vdir s) a) b) (d_fops s)
                                   ((false, DRename a b i) :: d_dops s)
                   | None => s
                   end
  | ERemove f => match vlook (d_vdir s) f with
                 | Some _ => mkD (d_next s) (vdel (d_vdir s) f) (d_fops s) ((false, DUnlink f) :: d_dops s)
                 | None => s
                 end
  | EAck _ | EAckRead _ _ => s
  end.

Definition drun_from (s : dstate) (tr : list ev) : dstate := fold_left dstep tr s.
Definition drun (tr : list ev) : dstate := drun_from d_init tr.

(* ---------- power loss ---------- *)
(* [adm l o]: o keeps every flagged element of l and any of the others, in order *)
Inductive adm {A : Type} : list (bool * A) -> list A -> Prop :=
| adm_nil : adm [] []
| adm_keep b x l o : adm l o -> adm ((b, x) :: l) (x :: o)
| adm_lose x l o : adm l o -> adm ((false, x) :: l) o.

(* one outcome per choice of bits (one bit per unflagged element; missing bits = lost) *)
Fixpoint pick {A : Type} (bits : list bool) (l : list (bool * A)) : list A :=
  match l with
  | [] => []
  | (true, x) :: r => x :: pick bits r
  | (false, x) :: r => match bits with
                       | [] => pick [] r
                       | b :: bs => if b then x :: pick bs r else pick bs r
                       end
  end.
(* all of them *)
Fixpoint outcomes {A : Type} (l : list (bool * A)) : list (list A) :=
  match l with
  | [] => [[]]
  | (b, x) :: r => map (cons x) (outcomes r) ++ (if b then [] else outcomes r)
  end.
Definition unsynced {A : Type} (l : list (bool * A)) : nat := length (filter (fun p => negb (fst p)) l).

Record outcome : Type := mkO { o_fops : list (N * fop); o_dops : list dop }.
Definition admissible (s : dstate) (o : outcome) : Prop := adm (d_fops s) (o_fops o) /\ adm (d_dops s) (o_dops o).
Definition admissible_outcomes (tr : list ev) (k : nat) : list outcome :=
  let s := drun (firstn k tr) in
  flat_map (fun fo => map (fun dd => mkO fo dd) (outcomes (d_dops s))) (outcomes (d_fops s)).
Definition pick_outcome (fbits dbits : list bool) (s : dstate) : outcome :=
  mkO (pick fbits (d_fops s)) (pick dbits (d_dops s)).

(* ---------- the surviving disk: replay of the kept operations (lists are newest first) ---------- *)
Fixpoint dlook (l : list dop) (f : N) : option N :=
  match l with
  | [] => None
  | DLink g i :: r => if g =? f then Some i else dlook r f
  | DRename a b i :: r => if b =? f then Some i else if a =? f then None else dlook r f
  | DUnlink g :: r => if g =? f then None else dlook r f
  end.
(* which write a byte of inode i comes from (None: never written / cut off: reads as zero) *)
Fixpoint owner (l : list (N * fop)) (i pos : N) : option N :=
  match l with
  | [] => None
  | (j, o) :: r =>
    if j =? i then
      match o with
      | FWrite off len id => if (off <=? pos) && (pos <? off + len) then Some id else owner r i pos
      | FSetLen n => if pos <? n then owner r i pos else None
      end
    else owner r i pos
  end.
Fixpoint flen (l : list (N * fop)) (i : N) : N :=
  match l with
  | [] => 0
  | (j, o) :: r =>
    if j =? i then match o with FWrite off len _ => N.max (off + len) (flen r i) | FSetLen n => n end
    else flen r i
  end.
Definition ino_ops (l : list (N * fop)) (i : N) : list fop := map snd (filter (fun p => fst p =? i) l).

(* an acknowledged write is reflected on the surviving disk: the name still leads to a file
   that is long enough and every byte of the range comes from that write *)
Definition reflected (o : outcome) (f off len id : N) : Prop :=
  exists i, dlook (o_dops o) f = Some i /\ off + len <= flen (o_fops o) i /\
            forall pos, off <= pos -> pos < off + len -> owner (o_fops o) i pos = Some id.
(* the file named x is exactly one complete version (never a torn one) *)
Definition holds_version (o : outcome) (x id : N) : Prop :=
  exists i len, dlook (o_dops o) x = Some i /\ ino_ops (o_fops o) i = [FWrite 0 len id].
(* executable reading of the same, for the driver and for closed computations *)
Definition version_of (o : outcome) (x : N) : option (option N) :=
  match dlook (o_dops o) x with
  | None => None                           (* no such file *)
  | Some i => match ino_ops (o_fops o) i with
              | [FWrite 0 _ id] => Some (Some id)
              | _ => Some None             (* torn / empty *)
              end
  end.

(* ---------- the protocol, as a predicate on traces ----------
   [pairs] = the (temporary name, final name) pairs of the files that are replaced by
   write-temporary / fsync / rename (read-offset index, clean-marker file); every other name
   is a WAL file.  The monitor below looks at the events only (never at dstate).
   Appends (SyncEach):
     - a WAL file is created once, never truncated, renamed or removed; sized once (set_len n, n > 0)
       before its first write; the directory is fsynced between its creation and its first write;
     - writes to one file never overlap and stay below the set length; data-ids are not reused;
     - at EAck id the write(s) carrying id are O_SYNC or were followed by an fsync of their file.
   Index (fixed = false: the code as it is; fixed = true: with a directory fsync after the rename):
     - tmp is written (ids strictly increasing per pair), fsynced, then renamed onto the final name;
       nothing else touches either name;
     - at EAckRead x id the rename of version id has happened (fixed: and a directory fsync after it). *)
Record wst : Type := mkW { w_name : N; w_dsync : bool; w_len : N; w_written : bool }.
Record ist : Type := mkI { i_tmp : N; i_fin : N; i_phase : N (* 0 idle, 1 written, 2 synced *);
                           i_cur : N (* newest id written *); i_ren : N (* newest id renamed, 0 = none *);
                           i_dur : N (* newest id whose rename was followed by a directory fsync *) }.
Record dmstate : Type := mkM {
  m_wal : list wst;
  m_writes : list (N * (N * N * N));       (* (f, (off, len, id)) *)
  m_pend : list (N * N);                   (* (f, id): written, not yet fsynced *)
  m_acked : list N;
  m_idx : list ist;
  m_racked : list (N * N) }.               (* (x, id) acknowledged consuming reads *)

Definition dm_init (pairs : list (N * N)) : dmstate :=
  mkM [] [] [] [] (map (fun p => mkI (fst p) (snd p) 0 0 0 0) pairs) [].

Definition is_idx_name (m : dmstate) (f : N) : bool := existsb (fun i => (i_tmp i =? f) || (i_fin i =? f)) (m_idx m).
Definition find_wal (m : dmstate) (f : N) : option wst := find (fun w => w_name w =? f) (m_wal m).
Definition upd_wal (m : dmstate) (g : wst -> wst) (f : N) : list wst :=
  map (fun w => if w_name w =? f then g w else w) (m_wal m).
Definition upd_idx (m : dmstate) (g : ist -> ist) (t : N) : list ist :=
  map (fun i => if i_tmp i =? t then g i else i) (m_idx m).
Definition overlaps (off len off' len' : N) : bool := (off <? off' + len') && (off' <? off + len).
Definition with_wal (m : dmstate) (l : list wst) : dmstate := mkM l (m_writes m) (m_pend m) (m_acked m) (m_idx m) (m_racked m).
Definition with_idx (m : dmstate) (l : list ist) : dmstate := mkM (m_wal m) (m_writes m) (m_pend m) (m_acked m) l (m_racked m).

Definition mstep (fixed : bool) (m : dmstate) (e : ev) : option dmstate :=
  match e with
  | ECreate f =>
    if is_idx_name m f then None else
    match find_wal m f with
    | Some _ => None
    | None => Some (with_wal m (mkW f false 0 false :: m_wal m))
    end
  | ESetLen f n =>
    match find_wal m f with
    | Some w => if negb (w_written w) && (w_len w =? 0) && (0 <? n)
                then Some (with_wal m (upd_wal m (fun w => mkW (w_name w) (w_dsync w) n false) f))
                else None
    | None => None
    end
  | EWrite f off len id osync =>
    match find_wal m f with
    | Some w =>
      if w_dsync w && (off + len <=? w_len w)
         && negb (existsb (fun p => (fst p =? f) && overlaps off len (fst (fst (snd p))) (snd (fst (snd p)))) (m_writes m))
         && negb (existsb (fun p => snd (snd p) =? id) (m_writes m))
      then Some (mkM (upd_wal m (fun w => mkW (w_name w) (w_dsync w) (w_len w) true) f)
                     ((f, (off, len, id)) :: m_writes m)
                     (if osync then m_pend m else (f, id) :: m_pend m)
                     (m_acked m) (m_idx m) (m_racked m))
      else None
    | None => None
    end
  | ESyncFile f =>
    match find_wal m f with
    | Some _ => Some (mkM (m_wal m) (m_writes m) (filter (fun p => negb (fst p =? f)) (m_pend m)) (m_acked m) (m_idx m) (m_racked m))
    | None =>
      match find (fun i => i_tmp i =? f) (m_idx m) with
      | Some i => if i_phase i =? 0 then None
                  else Some (with_idx m (upd_idx m (fun i => mkI (i_tmp i) (i_fin i) 2 (i_cur i) (i_ren i) (i_dur i)) f))
      | None => None
      end
    end
  | ESyncDir =>
    Some (mkM (map (fun w => mkW (w_name w) true (w_len w) (w_written w)) (m_wal m)) (m_writes m) (m_pend m) (m_acked m)
              (map (fun i => mkI (i_tmp i) (i_fin i) (i_phase i) (i_cur i) (i_ren i) (i_ren i)) (m_idx m)) (m_racked m))
  | ETmpWrite f len id =>
    match find (fun i => i_tmp i =? f) (m_idx m) with
    | Some i => if (i_phase i =? 0) && (i_cur i <? id)
                then Some (with_idx m (upd_idx m (fun i => mkI (i_tmp i) (i_fin i) 1 id (i_ren i) (i_dur i)) f))
                else None
    | None => None
    end
  | ERename a b =>
    match find (fun i => i_tmp i =? a) (m_idx m) with
    | Some i => if (i_phase i =? 2) && (i_fin i =? b)
                then Some (with_idx m (upd_idx m (fun i => mkI (i_tmp i) (i_fin i) 0 (i_cur i) (i_cur i) (i_dur i)) a))
                else None
    | None => None
    end
  | ERemove _ => None
  | EAck id =>
    if existsb (fun p => snd (snd p) =? id) (m_writes m) && negb (existsb (fun p => snd p =? id) (m_pend m))
    then Some (mkM (m_wal m) (m_writes m) (m_pend m) (id :: m_acked m) (m_idx m) (m_racked m))
    else None
  | EAckRead x id =>
    match find (fun i => i_fin i =? x) (m_idx m) with
    | Some i => if (0 <? id) && (id <=? (if fixed then i_dur i else i_ren i))
                then Some (mkM (m_wal m) (m_writes m) (m_pend m) (m_acked m) (m_idx m) ((x, id) :: m_racked m))
                else None
    | None => None
    end
  end.

Fixpoint dmrun (fixed : bool) (m : dmstate) (tr : list ev) : option dmstate :=
  match tr with
  | [] => Some m
  | e :: r => match mstep fixed m e with Some m' => dmrun fixed m' r | None => None end
  end.

(* the names of the pairs must be pairwise different *)
Fixpoint nodup_n (l : list N) : bool :=
  match l with [] => true | x :: r => negb (existsb (N.eqb x) r) && nodup_n r end.
Definition pairs_ok (pairs : list (N * N)) : bool := nodup_n (map fst pairs ++ map snd pairs).

Definition proto_ok (fixed : bool) (pairs : list (N * N)) (tr : list ev) : bool :=
  pairs_ok pairs && match dmrun fixed (dm_init pairs) tr with Some _ => true | None => false end.

(* first event at which the monitor stops, for diagnosis (None = accepted) *)
Fixpoint mrun_stop (fixed : bool) (m : dmstate) (tr : list ev) (n : nat) : option nat :=
  match tr with
  | [] => None
  | e :: r => match mstep fixed m e with Some m' => mrun_stop fixed m' r (S n) | None => Some n end
  end.

(* executable reading of [reflected] at the first and last byte of the range (driver, closed computations) *)
Definition reflected_ends (o : outcome) (f off len id : N) : bool :=
  match dlook (o_dops o) f with
  | None => false
  | Some i => (off + len <=? flen (o_fops o) i) &&
              match owner (o_fops o) i off, owner (o_fops o) i (off + len - 1) with
              | Some a, Some b => (a =? id) && (b =? id)
              | _, _ => false
              end
  end.
