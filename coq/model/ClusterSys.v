(* ClusterSys.v — two restricted schedulers over Cluster.v's transition system, used by the
   positive theorems of C22 / C23.  Both are defined by REFUSING events (a refused event
   changes nothing, like a task blocked on a lock), so each is a sub-system of [cl_step].

   [fenced_step]: the missing lock of C23.  Per node e one fence that is held
     - by a PUT from forward_append's update_leases (metadata read -> `expected`) through the
       lease check to the engine append,
     - by any other update_leases (lease loop) from the metadata read to the lease write,
     - by apply@e for the duration of the apply.
   A task that would enter the fenced region of e while another task is inside waits; apply@e
   waits while any task is inside.

   [seq_step]: no concurrency at all.  A task may move only while every other task is at rest
   (clients between two operations, loops parked at their tick); every committed command is
   applied by every node before the next event (apply synchronous with propose); no restarts. *)
From W Require Import model.Base model.Map model.Bincode model.Meta model.Cluster.

(* ---------- the fenced region ---------- *)
Definition region_node (pc : cpc) : option N :=
  match pc with
  | PUlRead e _ _ | PUlWrite e _ _ | PEnsure e _ _ | PWlRead e _ _ | PWlWrite e _ _
  | PKeyLock e _ _ | PSpawn e _ _ => Some e
  | _ => None
  end.

Definition in_region (e : N) (o : option cpc) : bool :=
  match o with
  | Some pc => match region_node pc with Some e' => e' =? e | None => false end
  | None => false
  end.

(* the program counters of all tasks *)
Definition all_pcs (s : cst) : list (option cpc) :=
  map cl_pc (s_clients s) ++ map (fun x => Some (snd x)) (s_lease s) ++ map (fun x => Some (snd x)) (s_mon s).

Definition region_busy (s : cst) (e : N) : bool := existsb (in_region e) (all_pcs s).

Definition pc_of (s : cst) (ev : cev) : option cpc :=
  match ev with
  | EvC i => match nth_error (s_clients s) i with Some c => cl_pc c | None => None end
  | EvL n => lookup N.compare n (s_lease s)
  | EvM n => lookup N.compare n (s_mon s)
  | EvA _ => None
  | EvR _ => None
  end.

Definition fenced_step (cfg : ccfg) (s : cst) (ev : cev) : cst * ctok :=
  match ev with
  | EvA n => if region_busy s n then (s, (SNoApply, [])) else cl_step cfg s ev
  | EvR n => cl_step cfg s ev
  | _ =>
    let '(s1, t) := cl_step cfg s ev in
    match pc_of s1 ev with
    | Some pc' =>
      match region_node pc' with
      | Some e => if negb (in_region e (pc_of s ev)) && region_busy s e then (s, (SBlocked, [])) else (s1, t)
      | None => (s1, t)
      end
    | None => (s1, t)
    end
  end.

Fixpoint fenced_run (cfg : ccfg) (s : cst) (sched : list cev) : list ctok * cst :=
  match sched with
  | [] => ([], s)
  | e :: r => let '(s1, t) := fenced_step cfg s e in let '(ts, s2) := fenced_run cfg s1 r in (t :: ts, s2)
  end.
Definition fenced_trace (cfg : ccfg) (sched : list cev) : list ctok := fst (fenced_run cfg (cl_init cfg) sched).

(* ---------- the sequential system ---------- *)
Definition pc_at_rest (o : option cpc) : bool :=
  match o with
  | None => true
  | Some (PLTick _) => true
  | Some (PMTick _) => true
  | Some _ => false
  end.

Definition rest_all (l : list (N * option cpc)) : bool := forallb (fun x => pc_at_rest (snd x)) l.

(* every task other than the acting one is at rest *)
Definition others_at_rest (s : cst) (ev : cev) : bool :=
  let cs := map cl_pc (s_clients s) in
  let ls := map (fun x => (fst x, Some (snd x))) (s_lease s) in
  let ms := map (fun x => (fst x, Some (snd x))) (s_mon s) in
  match ev with
  | EvC i =>
    forallb (fun ic => Nat.eqb (fst ic) i || pc_at_rest (snd ic)) (combine (seq 0 (length cs)) cs)
    && rest_all ls && rest_all ms
  | EvL n => forallb pc_at_rest cs && forallb (fun x => (fst x =? n) || pc_at_rest (snd x)) ls && rest_all ms
  | EvM n => forallb pc_at_rest cs && rest_all ls && forallb (fun x => (fst x =? n) || pc_at_rest (snd x)) ms
  | _ => false
  end.

(* node n applies everything committed; [fuel] >= number of pending commands *)
Fixpoint apply_pending (fuel : nat) (s : cst) (n : N) : cst :=
  match fuel with
  | O => s
  | S f =>
    match step_apply s n with
    | (s1, (SApplied _, _)) => apply_pending f s1 n
    | _ => s
    end
  end.
Definition apply_everywhere (cfg : ccfg) (s : cst) : cst :=
  fold_left (fun s n => apply_pending (length (s_log s)) s n) (node_ids cfg) s.

Definition seq_step (cfg : ccfg) (s : cst) (ev : cev) : cst * ctok :=
  match ev with
  | EvA _ => (s, (SNoApply, []))
  | EvR _ => (s, (SNoRestart, []))
  | _ => if others_at_rest s ev
         then let '(s1, t) := cl_step cfg s ev in (apply_everywhere cfg s1, t)
         else (s, (SBlocked, []))
  end.

Fixpoint seq_run (cfg : ccfg) (s : cst) (sched : list cev) : list ctok * cst :=
  match sched with
  | [] => ([], s)
  | e :: r => let '(s1, t) := seq_step cfg s e in let '(ts, s2) := seq_run cfg s1 r in (t :: ts, s2)
  end.
Definition seq_trace (cfg : ccfg) (sched : list cev) : list ctok := fst (seq_run cfg (cl_init cfg) sched).
