(* WalKey.v — distributed-walrus/src/controller/types.rs: wal_key / parse_wal_key. *)
From W Require Import model.Base.

(* decimal printing of a u64 (Display for u64) *)
Fixpoint dec_aux (fuel : nat) (n : N) (acc : str) : str :=
  match fuel with
  | O => acc
  | S f => if n <? 10 then (ch_0 + n) :: acc
           else dec_aux f (n / 10) ((ch_0 + n mod 10) :: acc)
  end.
(* 20 decimal digits suffice for every u64 (2^64 < 10^20) *)
Definition dec (n : N) : str := dec_aux 20 n [].

Definition pat_s : str := [ch_us; ch_s; ch_us].   (* "_s_" *)
Definition pre_t : str := [ch_t; ch_us].          (* "t_"  *)

Definition wal_key (topic : str) (seg : N) : str := pre_t ++ topic ++ pat_s ++ dec seg.

(* rsplitn(2, "_s_"): split at the right-most occurrence; None = no occurrence *)
Fixpoint rsplit_s (s : str) : option (str * str) :=
  match s with
  | [] => None
  | c :: r =>
    match rsplit_s r with
    | Some (a, b) => Some (c :: a, b)
    | None => match strip_prefix pat_s s with
              | Some rest => Some ([], rest)
              | None => None
              end
    end
  end.

(* u64::from_str: optional '+', at least one ASCII digit, checked arithmetic *)
Fixpoint parse_digits (acc : N) (ds : str) : option N :=
  match ds with
  | [] => Some acc
  | d :: r => if is_digit d then
                let v := acc * 10 + (d - ch_0) in
                if u64_max <? v then None else parse_digits v r
              else None
  end.
Definition parse_u64 (s : str) : option N :=
  match s with
  | [] => None
  | c :: r => if c =? ch_plus then (match r with [] => None | _ => parse_digits 0 r end)
              else parse_digits 0 s
  end.

Definition parse_wal_key (k : str) : option (str * N) :=
  match rsplit_s k with
  | None => None
  | Some (lhs, rhs) =>
    match strip_prefix pre_t lhs with
    | None => None
    | Some topic => match parse_u64 rhs with
                    | None => None
                    | Some n => Some (topic, n)
                    end
    end
  end.
