(* Map.v — finite maps as association lists kept strictly sorted by key.
   One canonical list per map, so equality of maps is equality of lists and the dump of a
   map is the list itself.  [ins] is HashMap::insert / BTreeMap::insert (an existing key
   keeps its place and gets the new value); [lookup] also works on unsorted listings. *)
From W Require Import model.Base.

Fixpoint ins {K V : Type} (cmp : K -> K -> comparison) (k : K) (v : V) (l : list (K * V)) : list (K * V) :=
  match l with
  | [] => [(k, v)]
  | (k', v') :: r =>
    match cmp k k' with
    | Lt => (k, v) :: l
    | Eq => (k, v) :: r
    | Gt => (k', v') :: ins cmp k v r
    end
  end.

Fixpoint lookup {K V : Type} (cmp : K -> K -> comparison) (k : K) (l : list (K * V)) : option V :=
  match l with
  | [] => None
  | (k', v') :: r => match cmp k k' with Eq => Some v' | _ => lookup cmp k r end
  end.

(* the map obtained by inserting a listing left to right (what serde's map visitors do) *)
Definition of_list {K V : Type} (cmp : K -> K -> comparison) (l : list (K * V)) : list (K * V) :=
  fold_left (fun m kv => ins cmp (fst kv) (snd kv) m) l [].

Definition keys {K V : Type} (l : list (K * V)) : list K := map fst l.

(* strictly increasing keys *)
Fixpoint sortedb {K V : Type} (cmp : K -> K -> comparison) (l : list (K * V)) : bool :=
  match l with
  | [] => true
  | (k, _) :: r =>
    match r with
    | [] => true
    | (k', _) :: _ => match cmp k k' with Lt => sortedb cmp r | _ => false end
    end
  end.

(* lexicographic comparison of strings (scalar values; the same order as the byte order of
   their UTF-8 encodings) *)
Fixpoint str_cmp (a b : str) : comparison :=
  match a, b with
  | [], [] => Eq
  | [], _ :: _ => Lt
  | _ :: _, [] => Gt
  | x :: a', y :: b' => match N.compare x y with Eq => str_cmp a' b' | c => c end
  end.

Definition sum_vals {K : Type} (l : list (K * N)) : N := fold_right (fun kv acc => snd kv + acc) 0 l.
