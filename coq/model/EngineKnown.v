(* EngineKnown.v — model predicates for the known restart classes, evaluated by the check on the
   model state right before every restart (extracted).  Definitions only. *)
From W Require Import model.Base model.Engine.

(* the topic's blocks that hold entries (what a restart rebuilds as its chain) *)
Definition mem_blocks (ts : tstate) : list blk :=
  filter (fun b => match b_ents b with [] => false | _ => true end)
         ((match ts_reader ts with Some r => r_chain r | None => [] end) ++
          (match ts_writer ts with Some w => [w] | None => [] end)).

(* some topic's persisted position is a tail position (block id | TAIL) whose block holds no
   entries: written by an empty poll on an empty writer block (the topic's first block after a
   rejected first append, or after a restart).  A restart does not rebuild an empty block, so the
   position dangles: read_next restarts at the first block, batch_read parks behind the last
   one, the count is rebuilt as if nothing had been consumed. *)
Definition stale_tail_b (s : st) : bool :=
  existsb (fun q : N * tstate =>
    match ts_index (snd q) with
    | Some p => p_tail p && negb (existsb (fun b => b_id b =? p_a p) (mem_blocks (snd q)))
    | None => false
    end) (s_topics s).

Definition restart_known_b (c : Cfg) (s : st) : bool := id_drift c s || stale_tail_b s.
