(* Cluster.v — the distributed streaming layer as a transition system (C22, C23).

   Written from distributed-walrus/src/{controller/mod.rs, controller/internal.rs, bucket.rs,
   monitor.rs, metadata.rs, rpc.rs} and main.rs's wiring.  One topic ("t"), nodes 1..N with
   the fixed Raft leader 1 and the fixed voter set {1..N}; every node is registered in the
   metadata and the topic exists (the bootstrap prefix of the command log, applied on every
   node; leases synced once).

   STATE per node: applied metadata (Meta.v's state, the code's checked-add apply), its
   apply pointer into the one shared committed command log, the lease set (bucket.rs
   active_leases; with one topic it is empty or one segment), `offsets` (entries appended per
   segment key since process start), the shared read cursor and its mutex, the write_locks
   map and which per-key mutexes are held, and per segment key the storage engine's queue of
   entries appended and not yet consumed.
   ASSUMPTION (named in the level note): the engine behaves as the exactly-once FIFO queue
   of C01 per key — append adds at the tail, the consuming read_next removes the head.

   TASKS: one per client (its operations in sequence), per node the lease loop
   (run_lease_update_loop) and the monitor loop (Monitor::run).  A task's program counter
   [cpc] names the await it is suspended at; one [cl_step] of a task executes the code from
   that await to the next one — exactly what one poll does on the deterministic executor of
   harness/shims/tokio (first poll of a shim primitive = arrive and yield, next poll = perform
   it and run on).  The awaits are those on tokio::sync::{Mutex,RwLock} acquisitions,
   spawn_blocking (the engine call, atomic), OctopiiNode::propose, RpcHandler::request and
   Interval::tick; `is_leader`, `peer_addr_for`, `update_peer_addr` do not yield.
   `propose` appends to the log and then waits until the LEADER has applied the entry
   (openraft's client_write).  An RPC runs the target's handler inside the calling task.
   ENVIRONMENT: [EvA n] = node n applies the next committed command.  [EvR n] = node n's
   process restarts; only modelled for a moment at which no client operation is in flight and
   n's background loops are parked at their tick: the in-memory maps (`offsets`, read cursors,
   write_locks, leases) start empty, the engine's queues and the applied metadata persist
   (assumed: C06/C07 for the engine, log replay for the metadata), and start_node's
   update_leases() runs.

   Every step yields one token: the label of the await reached (or blocked / done) plus the
   sub-events that happened inside the step; the harness prints the same tokens. *)
From W Require Import model.Base model.Map model.Bincode model.Meta.

Definition tname : str := [ch_t].
Definition cpayload := (N * N)%type.          (* (client, index of the op in the client) *)

Record node := mkNode {
  nd_meta : mstate;
  nd_applied : nat;
  nd_lease : option N;                        (* active_leases = {wal_key(t, s)} or {} *)
  nd_offsets : list (N * N);                  (* segment -> entries recorded *)
  nd_cursor : option (N * N);                 (* read_cursors["t"] = (segment, delivered_in_segment) *)
  nd_rc : bool;                               (* read_cursors mutex held *)
  nd_wl : list N;                             (* segments with an entry in write_locks *)
  nd_kl : list N;                             (* segments whose per-key mutex is held *)
  nd_q : list (N * list cpayload)              (* engine: segment -> unconsumed entries, oldest first *)
}.

Inductive cop := OPut (n : N) | OGet (n : N).

Record ccfg := mkCfg {
  cf_nodes : N;
  cf_thr : N;                                 (* max_segment_entries() *)
  cf_lead : N;                                (* initial leader of the topic *)
  cf_clients : list (list cop)
}.

(* what update_leases / the propose path do afterwards *)
Inductive ulk := KAppend (seg : N) (att : bool) | KTick.
Inductive ppk := PKPut | PKMon (n : N).

Inductive cpc :=
(* update_leases on e: at active_leases.read().await / .write().await; [ex] = `expected` *)
| PUlRead (e : N) (ex : option N) (k : ulk)
| PUlWrite (e : N) (ex : option N) (k : ulk)
(* append_for_topic on a node that is not the topic leader: at rpc.request *)
| PPutRpc (dst seg : N)
(* bucket.append_by_key on e, attempt [att] (false = first) *)
| PEnsure (e seg : N) (att : bool)            (* ensure_lease: active_leases.read().await *)
| PWlRead (e seg : N) (att : bool)            (* lock_for_key: write_locks.read().await *)
| PWlWrite (e seg : N) (att : bool)           (* write_locks.write().await *)
| PKeyLock (e seg : N) (att : bool)           (* lock_owned().await *)
| PSpawn (e seg : N) (att : bool)             (* spawn_blocking(batch_append).await, key mutex held *)
| PRecord (e seg : N)                         (* record_append: offsets.write().await *)
| PCount (e seg : N)                          (* maybe_rollover: offsets.read().await *)
(* propose_metadata *)
| PMetaRpc (c : cmd) (k : ppk)                (* not the Raft leader: rpc.request to it *)
| PPropose (c : cmd) (k : ppk)                (* raft.propose(..).await *)
| PWaitApplied (idx : nat) (k : ppk)          (* proposed; waiting for the leader's apply *)
(* read_one_for_topic_shared on h *)
| PGLock (h : N)                              (* read_cursors.lock().await *)
| PGRpc (h dst cur : N)                       (* forward_read_remote: rpc.request *)
| PGRead (h e cur : N)                        (* bucket.read_one: spawn_blocking(read_next).await *)
| PGHw (h e cur : N) (r : option cpayload)     (* tracked_entry_count: offsets.read().await *)
(* background loops *)
| PLTick (n : N)                              (* lease loop at interval.tick().await *)
| PMTick (n : N)                              (* monitor at interval.tick().await *)
| PMCount (n seg : N).                        (* monitor: tracked_entry_count *)

Record client := mkClient {
  cl_ops : list cop;                          (* operations not yet answered, head = current/next *)
  cl_k : N;                                   (* index of the head operation *)
  cl_pc : option cpc                          (* None = the head operation has not been invoked *)
}.

Record cst := mkSt {
  s_nodes : list (N * node);
  s_log : list cmd;
  s_clients : list client;
  s_lease : list (N * cpc);                   (* per node: the lease loop's pc *)
  s_mon : list (N * cpc)                      (* per node: the monitor's pc *)
}.

(* ---------- tokens ---------- *)
Inductive cstatus :=
| SLR | SLW | SWR | SWW | SOR | SOW | SKM | SRC | SSB | SPR | SRPC | STK | SNX
| SBlocked | SDone | SApplied (idx : nat) | SNoApply | SRestarted | SNoRestart.

Inductive cres := CROk | CREmpty | CRVal (p : cpayload) | CRErr (class : N).
(* error classes: 1 lease (NotLeaderForPartition), 2 unknown topic, 3 unknown addr, 4 rpc *)

Inductive csub :=
| EInv (c k : N) (isput : bool) (n : N)
| EResp (c k : N) (r : cres)
| EW (n seg : N) (p : cpayload) (applied : nat)      (* engine append on n, with n's apply pointer *)
| EX (n seg : N) (p : option cpayload)               (* engine consuming read on n *)
| EL (idx : nat) (c : cmd).                         (* command appended to the shared log *)

Definition ctok := (cstatus * list csub)%type.

(* ---------- small helpers ---------- *)
Definition get_node (s : cst) (n : N) : option node := lookup N.compare n (s_nodes s).
Definition set_node (s : cst) (n : N) (x : node) : cst :=
  mkSt (ins N.compare n x (s_nodes s)) (s_log s) (s_clients s) (s_lease s) (s_mon s).

Definition topic_of (m : mstate) : option tstate := get_topic_state m tname.

(* metadata.owned_topics(n) mapped to wal keys: the current segment if n leads the topic *)
Definition owned (m : mstate) (n : N) : option N :=
  match topic_of m with
  | Some t => if t_leader t =? n then Some (t_cur t) else None
  | None => None
  end.

Definition opt_eqb (a b : option N) : bool :=
  match a, b with
  | None, None => true
  | Some x, Some y => x =? y
  | _, _ => false
  end.

Definition has_addr (m : mstate) (n : N) : bool :=
  if m_poisoned m then false else
  match lookup N.compare n (c_nodes (m_cl m)) with Some _ => true | None => false end.

Fixpoint mem (x : N) (l : list N) : bool :=
  match l with [] => false | y :: r => (x =? y) || mem x r end.
Fixpoint remove1 (x : N) (l : list N) : list N :=
  match l with [] => [] | y :: r => if x =? y then r else y :: remove1 x r end.

Definition count_of (x : node) (seg : N) : N :=
  match lookup N.compare seg (nd_offsets x) with Some c => c | None => 0 end.
Definition queue_of (x : node) (seg : N) : list cpayload :=
  match lookup N.compare seg (nd_q x) with Some q => q | None => [] end.

(* next leader: nodes[(idx + 1) % len] over the voters 1..N *)
Definition next_leader (cfg : ccfg) (e : N) : N := if e <? cf_nodes cfg then e + 1 else 1.

Definition raft_leader : N := 1.

Definition is_node (cfg : ccfg) (n : N) : bool := (1 <=? n) && (n <=? cf_nodes cfg).

Definition with_lease (x : node) (l : option N) : node :=
  mkNode (nd_meta x) (nd_applied x) l (nd_offsets x) (nd_cursor x) (nd_rc x) (nd_wl x) (nd_kl x) (nd_q x).
Definition with_offsets (x : node) (o : list (N * N)) : node :=
  mkNode (nd_meta x) (nd_applied x) (nd_lease x) o (nd_cursor x) (nd_rc x) (nd_wl x) (nd_kl x) (nd_q x).
Definition with_cursor (x : node) (c : option (N * N)) (locked : bool) : node :=
  mkNode (nd_meta x) (nd_applied x) (nd_lease x) (nd_offsets x) c locked (nd_wl x) (nd_kl x) (nd_q x).
Definition with_wl (x : node) (w : list N) : node :=
  mkNode (nd_meta x) (nd_applied x) (nd_lease x) (nd_offsets x) (nd_cursor x) (nd_rc x) w (nd_kl x) (nd_q x).
Definition with_kl (x : node) (k : list N) : node :=
  mkNode (nd_meta x) (nd_applied x) (nd_lease x) (nd_offsets x) (nd_cursor x) (nd_rc x) (nd_wl x) k (nd_q x).
Definition with_q (x : node) (q : list (N * list cpayload)) : node :=
  mkNode (nd_meta x) (nd_applied x) (nd_lease x) (nd_offsets x) (nd_cursor x) (nd_rc x) (nd_wl x) (nd_kl x) q.
Definition with_meta (x : node) (m : mstate) (a : nat) : node :=
  mkNode m a (nd_lease x) (nd_offsets x) (nd_cursor x) (nd_rc x) (nd_wl x) (nd_kl x) (nd_q x).

(* ---------- the outcome of running a task from its await to the next one ---------- *)
Inductive outcome :=
| OYield (pc : cpc) (st : cstatus) (subs : list csub)     (* arrived at the next await *)
| OFinish (r : cres) (subs : list csub)                   (* a client operation is answered *)
| OBlocked (subs : list csub) (pc : cpc).                 (* no progress (or: proposed, now waiting) *)

(* update_leases entry on e: `expected` from the metadata, then active_leases.read().await *)
Definition enter_ul (x : node) (e : N) (k : ulk) : outcome :=
  OYield (PUlRead e (owned (nd_meta x) e) k) SLR [].

(* after update_leases *)
Definition after_ul (e : N) (k : ulk) : outcome :=
  match k with
  | KAppend seg att => OYield (PEnsure e seg att) SLR []
  | KTick => OYield (PLTick e) STK []
  end.

(* propose_metadata called on node e *)
Definition enter_propose (e : N) (c : cmd) (k : ppk) (subs : list csub) : outcome :=
  if e =? raft_leader then OYield (PPropose c k) SPR subs else OYield (PMetaRpc c k) SRPC subs.

(* after the proposal was answered *)
Definition after_propose (k : ppk) : outcome :=
  match k with
  | PKPut => OFinish CROk []
  | PKMon n => OYield (PMTick n) STK []
  end.

(* the cursor loop at the top of read_one_for_topic: skip sealed segments already delivered.
   [fuel] bounds the number of segments skipped (cur - segment + 1 suffices). *)
Fixpoint skip_sealed (fuel : nat) (t : tstate) (seg del : N) : N * N :=
  match fuel with
  | O => (seg, del)
  | S f =>
    if seg <? t_cur t then
      let sealed := match lookup N.compare seg (t_sealed t) with Some c => c | None => 0 end in
      if sealed <=? del then skip_sealed f t (seg + 1) 0 else (seg, del)
    else (seg, del)
  end.

(* metadata.segment_leader(topic, seg).unwrap_or(leader_node) *)
Definition seg_leader (t : tstate) (seg : N) : N :=
  match lookup N.compare seg (t_leaders t) with Some l => l | None => t_leader t end.

(* read_one_for_topic from the loop head, cursor = (seg, del), holding the cursor mutex of h.
   Returns the node with the cursor written back and the outcome. *)
Definition get_loop (x : node) (h seg del : N) : node * outcome :=
  match topic_of (nd_meta x) with
  | None => (with_cursor x (Some (seg, del)) false, OFinish (CRErr 2) [])
  | Some t =>
    let seg1 := if seg =? 0 then 1 else seg in
    let '(seg2, del2) := skip_sealed (S (N.to_nat (t_cur t - seg1))) t seg1 del in
    let leader := if seg2 =? t_cur t then t_leader t else seg_leader t seg2 in
    let x' := with_cursor x (Some (seg2, del2)) true in
    if leader =? h then (x', OYield (PGRead h h (t_cur t)) SSB [])
    else if has_addr (nd_meta x) leader then (x', OYield (PGRpc h leader (t_cur t)) SRPC [])
    else (with_cursor x (Some (seg2, del2)) false, OFinish (CRErr 3) [])
  end.

(* ---------- one task step ----------
   [p] is the cpayload of the acting client's current operation (unused by other tasks). *)
Definition exec_pc (cfg : ccfg) (s : cst) (p : cpayload) (pc : cpc) : cst * outcome :=
  match pc with
  | PUlRead e ex k =>
    match get_node s e with
    | None => (s, OBlocked [] pc)
    | Some x => if opt_eqb (nd_lease x) ex then (s, after_ul e k) else (s, OYield (PUlWrite e ex k) SLW [])
    end
  | PUlWrite e ex k =>
    match get_node s e with
    | None => (s, OBlocked [] pc)
    | Some x => (set_node s e (with_lease x ex), after_ul e k)
    end
  | PPutRpc dst seg =>
    match get_node s dst with
    | None => (s, OFinish (CRErr 4) [])
    | Some x => (s, enter_ul x dst (KAppend seg false))        (* handle_rpc -> forward_append *)
    end
  | PEnsure e seg att =>
    match get_node s e with
    | None => (s, OBlocked [] pc)
    | Some x =>
      if opt_eqb (nd_lease x) (Some seg) then (s, OYield (PWlRead e seg att) SWR [])
      else if att then (s, OFinish (CRErr 1) [])                (* second failure: NotLeaderForPartition *)
      else (s, enter_ul x e (KAppend seg true))                (* append_with_retry: update_leases again *)
    end
  | PWlRead e seg att =>
    match get_node s e with
    | None => (s, OBlocked [] pc)
    | Some x => if mem seg (nd_wl x) then (s, OYield (PKeyLock e seg att) SKM [])
                else (s, OYield (PWlWrite e seg att) SWW [])
    end
  | PWlWrite e seg att =>
    match get_node s e with
    | None => (s, OBlocked [] pc)
    | Some x => (set_node s e (with_wl x (if mem seg (nd_wl x) then nd_wl x else seg :: nd_wl x)),
                 OYield (PKeyLock e seg att) SKM [])
    end
  | PKeyLock e seg att =>
    match get_node s e with
    | None => (s, OBlocked [] pc)
    | Some x => if mem seg (nd_kl x) then (s, OBlocked [] pc)
                else (set_node s e (with_kl x (seg :: nd_kl x)), OYield (PSpawn e seg att) SSB [])
    end
  | PSpawn e seg att =>
    match get_node s e with
    | None => (s, OBlocked [] pc)
    | Some x =>
      let x1 := with_q x (ins N.compare seg (queue_of x seg ++ [p]) (nd_q x)) in
      let x2 := with_kl x1 (remove1 seg (nd_kl x1)) in
      (set_node s e x2, OYield (PRecord e seg) SOW [EW e seg p (nd_applied x)])
    end
  | PRecord e seg =>
    match get_node s e with
    | None => (s, OBlocked [] pc)
    | Some x => (set_node s e (with_offsets x (ins N.compare seg (count_of x seg + 1) (nd_offsets x))),
                 OYield (PCount e seg) SOR [])
    end
  | PCount e seg =>
    match get_node s e with
    | None => (s, OBlocked [] pc)
    | Some x =>
      let count := count_of x seg in
      if count <? cf_thr cfg then (s, OFinish CROk [])
      else (s, enter_propose e (RolloverTopic tname (next_leader cfg e) count) PKPut [])
    end
  | PMetaRpc c k => (s, OYield (PPropose c k) SPR [])           (* ForwardMetadata on the leader *)
  | PPropose c k =>
    let idx := length (s_log s) in
    (mkSt (s_nodes s) (s_log s ++ [c]) (s_clients s) (s_lease s) (s_mon s),
     OBlocked [EL idx c] (PWaitApplied idx k))
  | PWaitApplied idx k =>
    match get_node s raft_leader with
    | None => (s, OBlocked [] pc)
    | Some x => if Nat.ltb idx (nd_applied x) then (s, after_propose k) else (s, OBlocked [] pc)
    end
  | PGLock h =>
    match get_node s h with
    | None => (s, OBlocked [] pc)
    | Some x =>
      if nd_rc x then (s, OBlocked [] pc)
      else
        let '(seg, del) := match nd_cursor x with Some c => c | None => (0, 0) end in
        let '(x', o) := get_loop x h seg del in (set_node s h x', o)
    end
  | PGRpc h dst cur =>
    match get_node s dst with
    | None =>
      match get_node s h with
      | None => (s, OBlocked [] pc)
      | Some x => (set_node s h (with_cursor x (nd_cursor x) false), OFinish (CRErr 4) [])
      end
    | Some _ => (s, OYield (PGRead h dst cur) SSB [])
    end
  | PGRead h e cur =>
    match get_node s h, get_node s e with
    | Some xh, Some xe =>
      let seg := match nd_cursor xh with Some c => fst c | None => 0 end in
      match queue_of xe seg with
      | [] => (s, OYield (PGHw h e cur None) SOR [EX e seg None])
      | a :: q => (set_node s e (with_q xe (ins N.compare seg q (nd_q xe))),
                   OYield (PGHw h e cur (Some a)) SOR [EX e seg (Some a)])
      end
    | _, _ => (s, OBlocked [] pc)
    end
  | PGHw h e cur r =>
    match get_node s h with
    | None => (s, OBlocked [] pc)
    | Some x =>
      let '(seg, del) := match nd_cursor x with Some c => c | None => (0, 0) end in
      match r with
      | Some a => (set_node s h (with_cursor x (Some (seg, del + 1)) false), OFinish (CRVal a) [])
      | None =>
        if seg <? cur then
          (* sealed and drained: jump to the sealed count, move to the next segment, loop *)
          let '(x', o) := get_loop x h (seg + 1) 0 in (set_node s h x', o)
        else (set_node s h (with_cursor x (Some (seg, del)) false), OFinish CREmpty [])
      end
    end
  | PLTick n =>
    match get_node s n with
    | None => (s, OBlocked [] pc)
    | Some x => (s, enter_ul x n KTick)
    end
  | PMTick n =>
    match get_node s n with
    | None => (s, OBlocked [] pc)
    | Some x =>
      match owned (nd_meta x) n with
      | Some seg => (s, OYield (PMCount n seg) SOR [])
      | None => (s, OYield (PMTick n) STK [])
      end
    end
  | PMCount n seg =>
    match get_node s n with
    | None => (s, OBlocked [] pc)
    | Some x =>
      let count := count_of x seg in
      if count <? cf_thr cfg then (s, OYield (PMTick n) STK [])
      else (s, enter_propose n (RolloverTopic tname (next_leader cfg n) count) (PKMon n) [])
    end
  end.

(* invocation of a client operation: the code up to its first await *)
Definition invoke (s : cst) (o : cop) : outcome :=
  match o with
  | OPut h =>
    match get_node s h with
    | None => OFinish (CRErr 4) []
    | Some x =>
      match topic_of (nd_meta x) with
      | None => OFinish (CRErr 2) []
      | Some t =>
        if t_leader t =? h then enter_ul x h (KAppend (t_cur t) false)
        else if has_addr (nd_meta x) (t_leader t) then OYield (PPutRpc (t_leader t) (t_cur t)) SRPC []
        else OFinish (CRErr 3) []
      end
    end
  | OGet h =>
    match get_node s h with
    | None => OFinish (CRErr 4) []
    | Some _ => OYield (PGLock h) SRC []
    end
  end.

Definition set_clients (s : cst) (cs : list client) : cst :=
  mkSt (s_nodes s) (s_log s) cs (s_lease s) (s_mon s).
Definition set_lease_pc (s : cst) (n : N) (pc : cpc) : cst :=
  mkSt (s_nodes s) (s_log s) (s_clients s) (ins N.compare n pc (s_lease s)) (s_mon s).
Definition set_mon_pc (s : cst) (n : N) (pc : cpc) : cst :=
  mkSt (s_nodes s) (s_log s) (s_clients s) (s_lease s) (ins N.compare n pc (s_mon s)).

Fixpoint set_nth {A : Type} (i : nat) (a : A) (l : list A) : list A :=
  match l, i with
  | [], _ => []
  | _ :: r, O => a :: r
  | x :: r, S j => x :: set_nth j a r
  end.

Definition is_put (o : cop) : bool := match o with OPut _ => true | OGet _ => false end.
Definition op_node (o : cop) : N := match o with OPut n => n | OGet n => n end.

(* a client's turn *)
Definition step_client (cfg : ccfg) (s : cst) (i : nat) : cst * ctok :=
  match nth_error (s_clients s) i with
  | None => (s, (SDone, []))
  | Some c =>
    match cl_ops c with
    | [] => (s, (SDone, []))
    | o :: rest =>
      let ci := N.of_nat i in
      let p := (ci, cl_k c) in
      let '(s1, out, pre) :=
        match cl_pc c with
        | None => (s, invoke s o, [EInv ci (cl_k c) (is_put o) (op_node o)])
        | Some pc => let '(s1, out) := exec_pc cfg s p pc in (s1, out, [])
        end in
      match out with
      | OYield pc' st subs => (set_clients s1 (set_nth i (mkClient (cl_ops c) (cl_k c) (Some pc')) (s_clients s1)), (st, pre ++ subs))
      | OBlocked subs pc' => (set_clients s1 (set_nth i (mkClient (cl_ops c) (cl_k c) (Some pc')) (s_clients s1)), (SBlocked, pre ++ subs))
      | OFinish r subs =>
        (set_clients s1 (set_nth i (mkClient rest (cl_k c + 1) None) (s_clients s1)),
         (match rest with [] => SDone | _ => SNX end, pre ++ subs ++ [EResp ci (cl_k c) r]))
      end
    end
  end.

(* a background task's turn: these never finish *)
Definition step_bg (cfg : ccfg) (s : cst) (n : N) (mon : bool) : cst * ctok :=
  match lookup N.compare n (if mon then s_mon s else s_lease s) with
  | None => (s, (SDone, []))
  | Some pc =>
    let '(s1, out) := exec_pc cfg s (0, 0) pc in
    let put := if mon then set_mon_pc else set_lease_pc in
    match out with
    | OYield pc' st subs => (put s1 n pc', (st, subs))
    | OBlocked subs pc' => (put s1 n pc', (SBlocked, subs))
    | OFinish _ subs => (s1, (SDone, subs))
    end
  end.

(* node n applies the next committed command *)
Definition step_apply (s : cst) (n : N) : cst * ctok :=
  match get_node s n with
  | None => (s, (SNoApply, []))
  | Some x =>
    match nth_error (s_log s) (nd_applied x) with
    | None => (s, (SNoApply, []))
    | Some c => (set_node s n (with_meta x (fst (apply_cmd_fx (nd_meta x) c)) (S (nd_applied x))),
                 (SApplied (nd_applied x), []))
    end
  end.

(* node n restarts (see the header for the moment at which this is modelled) *)
Definition is_tick (o : option cpc) : bool :=
  match o with Some (PLTick _) => true | Some (PMTick _) => true | _ => false end.
Definition all_idle (s : cst) : bool :=
  forallb (fun c => match cl_pc c with None => true | Some _ => false end) (s_clients s).
Definition step_restart (s : cst) (n : N) : cst * ctok :=
  match get_node s n with
  | None => (s, (SNoRestart, []))
  | Some x =>
    if all_idle s && is_tick (lookup N.compare n (s_lease s)) && is_tick (lookup N.compare n (s_mon s)) then
      (set_node s n (mkNode (nd_meta x) (nd_applied x) (owned (nd_meta x) n) [] None false [] [] (nd_q x)),
       (SRestarted, []))
    else (s, (SNoRestart, []))
  end.

Inductive cev := EvC (i : nat) | EvA (n : N) | EvL (n : N) | EvM (n : N) | EvR (n : N).

Definition cl_step (cfg : ccfg) (s : cst) (e : cev) : cst * ctok :=
  match e with
  | EvC i => step_client cfg s i
  | EvA n => step_apply s n
  | EvL n => step_bg cfg s n false
  | EvM n => step_bg cfg s n true
  | EvR n => step_restart s n
  end.

Fixpoint cl_run (cfg : ccfg) (s : cst) (sched : list cev) : list ctok * cst :=
  match sched with
  | [] => ([], s)
  | e :: r => let '(s1, t) := cl_step cfg s e in let '(ts, s2) := cl_run cfg s1 r in (t :: ts, s2)
  end.

(* ---------- initial state ---------- *)
Fixpoint nodes_upto (k : nat) : list N :=
  match k with O => [] | S j => nodes_upto j ++ [N.of_nat k] end.
Definition node_ids (cfg : ccfg) : list N := nodes_upto (N.to_nat (cf_nodes cfg)).

(* "127.0.0.1:" *)
Definition addr_prefix : str := [49; 50; 55; 46; 48; 46; 48; 46; 49; 58].
Fixpoint dec_digits (fuel : nat) (n : N) (acc : str) : str :=
  match fuel with
  | O => acc
  | S f => if n <? 10 then (ch_0 + n) :: acc else dec_digits f (n / 10) ((ch_0 + n mod 10) :: acc)
  end.
Definition node_addr (n : N) : str := addr_prefix ++ dec_digits 20 (6000 + n) [].

Definition boot_log (cfg : ccfg) : list cmd :=
  map (fun n => UpsertNode n (node_addr n)) (node_ids cfg) ++ [CreateTopic tname (cf_lead cfg)].

Fixpoint replay (m : mstate) (l : list cmd) : mstate :=
  match l with [] => m | c :: r => replay (fst (apply_cmd_fx m c)) r end.

Definition init_node (cfg : ccfg) (n : N) : node :=
  let m := replay m_init (boot_log cfg) in
  mkNode m (length (boot_log cfg)) (owned m n) [] None false [] [] [].

Definition cl_init (cfg : ccfg) : cst :=
  mkSt (of_list N.compare (map (fun n => (n, init_node cfg n)) (node_ids cfg)))
       (boot_log cfg)
       (map (fun ops => mkClient ops 0 None) (cf_clients cfg))
       (of_list N.compare (map (fun n => (n, PLTick n)) (node_ids cfg)))
       (of_list N.compare (map (fun n => (n, PMTick n)) (node_ids cfg))).

Definition cl_trace (cfg : ccfg) (sched : list cev) : list ctok := fst (cl_run cfg (cl_init cfg) sched).
Definition cl_final (cfg : ccfg) (sched : list cev) : cst := snd (cl_run cfg (cl_init cfg) sched).
