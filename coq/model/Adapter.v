(* Adapter.v — octopii/src/openraft/storage.rs, `MemStateMachine`: the Raft state-machine
   adapter that sits between openraft and the application state machine (`self.sm`, here
   distributed-walrus' Metadata).  That file cannot be compiled offline; this model is
   written from its text and tied to it by a source fingerprint (vlib/c20.py).

     struct StateMachineData { last_applied_log, last_membership, data: BTreeMap<String,String> }
     struct MemStateMachine  { sm, state_machine: RwLock<StateMachineData>, snapshot_idx,
                               current_snapshot: RwLock<Option<StoredSnapshot>> }

   Log ids are reduced to their index, memberships to an opaque number; the snapshot_idx
   counter only feeds the snapshot_id string and is left out. *)
From W Require Import model.Base model.Utf8 model.Map model.Bincode model.Meta.

Record snapmeta := mkMeta { snm_last : option N; snm_memb : N }.

Record adapter := mkA {
  a_app : mstate;                           (* self.sm : the application state machine *)
  a_last : option N;                        (* state_machine.last_applied_log *)
  a_memb : N;                               (* state_machine.last_membership *)
  a_data : list (str * str);                (* state_machine.data — no code path writes it except install_snapshot *)
  a_cur : option (snapmeta * list N)        (* current_snapshot *)
}.

Definition a_init : adapter := mkA m_init None 0 [] None.

Inductive payload := Blank | Normal (bs : list N) | Membership (m : N).
Inductive ares := AOk | AErr | APanic.

(* RaftStateMachine::apply: for every entry set last_applied_log first, then act on the
   payload; an Err from the application's apply is turned into io::Error and returned with
   `?` (the remaining entries are not applied). *)
Fixpoint a_apply (oc : bool) (a : adapter) (entries : list (N * payload)) : adapter * ares :=
  match entries with
  | [] => (a, AOk)
  | (idx, p) :: r =>
    let a1 := mkA (a_app a) (Some idx) (a_memb a) (a_data a) (a_cur a) in
    match p with
    | Blank => a_apply oc a1 r
    | Normal bs =>
      match apply oc (a_app a1) bs with
      | (app', MOk _) => a_apply oc (mkA app' (a_last a1) (a_memb a1) (a_data a1) (a_cur a1)) r
      | (app', MErr) => (mkA app' (a_last a1) (a_memb a1) (a_data a1) (a_cur a1), AErr)
      | (app', MPanic _) => (mkA app' (a_last a1) (a_memb a1) (a_data a1) (a_cur a1), APanic)
      end
    | Membership m => a_apply oc (mkA (a_app a1) (a_last a1) m (a_data a1) (a_cur a1)) r
    end
  end.

(* RaftSnapshotBuilder::build_snapshot: serialises state_machine.data — NOT self.sm.snapshot() *)
Definition build_snapshot (a : adapter) : adapter * (snapmeta * list N) :=
  let data := enc_smap (a_data a) in
  let meta := mkMeta (a_last a) (a_memb a) in
  (mkA (a_app a) (a_last a) (a_memb a) (a_data a) (Some (meta, data)), (meta, data)).

(* RaftStateMachine::install_snapshot:
     decode the bytes as BTreeMap<String,String>           (Err: nothing changed)
     *state_machine = { meta.last_log_id, meta.last_membership, that map }
     self.sm.restore(bincode::serialize(that map))          (Err: returned; current_snapshot not updated)
     *current_snapshot = Some(new_snapshot) *)
Definition install_snapshot (a : adapter) (snap : snapmeta * list N) : adapter * bool :=
  let (meta, data) := snap in
  match dec_smap data with
  | None => (a, false)
  | Some (m, _) =>
    let bytes := enc_smap m in
    match restore (a_app a) bytes with
    | (app', true) => (mkA app' (snm_last meta) (snm_memb meta) m (Some (meta, data)), true)
    | (app', false) => (mkA app' (snm_last meta) (snm_memb meta) m (a_cur a), false)
    end
  end.

(* what the property compares: the application metadata every observer sees *)
Definition a_visible (a : adapter) : cluster := visible (a_app a).
