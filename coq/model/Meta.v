(* Meta.v — distributed-walrus/src/metadata.rs: `impl StateMachineTrait for Metadata`
   (apply / snapshot / restore), get_topic_state, followed branch by branch.

   The state is the ClusterState behind the RwLock plus the lock's poison flag: a panic
   while the write guard is held (integer overflow with overflow checks on) poisons the
   lock, and from then on apply/restore return Err("state poisoned"), get_topic_state
   returns None and snapshot() serialises ClusterState::default().

   u64 arithmetic: [oc] = overflow checks (dev profile: panic; release profile: wrap). *)
From W Require Import model.Base model.Utf8 model.Map model.Bincode.

Record mstate := mkM { m_cl : cluster; m_poisoned : bool }.

Definition m_init : mstate := mkM empty_cluster false.

Inductive psite := PSum | PCur.      (* `last_sealed_entry_offset += n` | `current_segment += 1` *)
Inductive res := MOk (b : list N) | MErr | MPanic (p : psite).

Definition b_exists : list N := [69; 88; 73; 83; 84; 83].        (* "EXISTS"  *)
Definition b_created : list N := [67; 82; 69; 65; 84; 69; 68].   (* "CREATED" *)
Definition b_rolled : list N := [82; 79; 76; 76; 69; 68].        (* "ROLLED"  *)
Definition b_node : list N := [78; 79; 68; 69].                  (* "NODE"    *)

Definition set_topics (c : cluster) (ts : list (str * tstate)) : cluster := mkCluster ts (c_nodes c).

Definition new_topic (leader : N) : tstate := mkTopic 1 leader 0 [] (ins N.compare 1 leader []).

(* the RolloverTopic arm on an existing topic; None = the topic is left as [fst] and the
   thread panics at [snd] *)
Definition rollover (oc : bool) (t : tstate) (new_leader count : N) : tstate * option psite :=
  let sealed_seg := t_cur t in
  let sealed' := ins N.compare sealed_seg count (t_sealed t) in
  let leaders1 := ins N.compare sealed_seg (t_leader t) (t_leaders t) in
  let sum := t_last t + count in
  if oc && (two64 <=? sum) then
    (mkTopic (t_cur t) (t_leader t) (t_last t) sealed' leaders1, Some PSum)
  else
    let last' := sum mod two64 in
    let cur1 := t_cur t + 1 in
    if oc && (two64 <=? cur1) then
      (mkTopic (t_cur t) (t_leader t) last' sealed' leaders1, Some PCur)
    else
      let cur' := cur1 mod two64 in
      (mkTopic cur' new_leader last' sealed' (ins N.compare cur' new_leader leaders1), None).

(* the match on the decoded command, with the write guard held *)
Definition apply_cmd (oc : bool) (s : mstate) (c : cmd) : mstate * res :=
  let cl := m_cl s in
  match c with
  | CreateTopic name leader =>
    match lookup str_cmp name (c_topics cl) with
    | Some _ => (s, MOk b_exists)
    | None => (mkM (set_topics cl (ins str_cmp name (new_topic leader) (c_topics cl))) false, MOk b_created)
    end
  | RolloverTopic name new_leader count =>
    match lookup str_cmp name (c_topics cl) with
    | None => (s, MErr)                                      (* "Topic not found" *)
    | Some t =>
      match rollover oc t new_leader count with
      | (t', None) => (mkM (set_topics cl (ins str_cmp name t' (c_topics cl))) false, MOk b_rolled)
      | (t', Some p) => (mkM (set_topics cl (ins str_cmp name t' (c_topics cl))) true, MPanic p)
      end
    end
  | UpsertNode id addr =>
    (mkM (mkCluster (c_topics cl) (ins N.compare id addr (c_nodes cl))) false, MOk b_node)
  end.

(* StateMachineTrait::apply: decode (trailing bytes ignored), take the write lock, match *)
Definition apply (oc : bool) (s : mstate) (bs : list N) : mstate * res :=
  match dec_cmd bs with
  | None => (s, MErr)                                        (* "decode cmd: ..." *)
  | Some (c, _) => if m_poisoned s then (s, MErr) else apply_cmd oc s c
  end.

(* ---------- the same with PROPOSED_FIX.diff applied ----------
   RolloverTopic computes both new values with checked_add BEFORE touching anything and
   returns Err when either does not fit; nothing else changes.  No overflow can occur any
   more, so the build profile no longer matters. *)
Definition rollover_fx (t : tstate) (new_leader count : N) : option tstate :=
  let sum := t_last t + count in
  let cur1 := t_cur t + 1 in
  if two64 <=? sum then None                                  (* "sealed entry count overflow" *)
  else if two64 <=? cur1 then None                            (* "segment id overflow" *)
  else
    let sealed_seg := t_cur t in
    let sealed' := ins N.compare sealed_seg count (t_sealed t) in
    let leaders1 := ins N.compare sealed_seg (t_leader t) (t_leaders t) in
    Some (mkTopic cur1 new_leader sum sealed' (ins N.compare cur1 new_leader leaders1)).

Definition apply_cmd_fx (s : mstate) (c : cmd) : mstate * res :=
  let cl := m_cl s in
  match c with
  | RolloverTopic name new_leader count =>
    match lookup str_cmp name (c_topics cl) with
    | None => (s, MErr)
    | Some t =>
      match rollover_fx t new_leader count with
      | None => (s, MErr)
      | Some t' => (mkM (set_topics cl (ins str_cmp name t' (c_topics cl))) false, MOk b_rolled)
      end
    end
  | _ => apply_cmd false s c
  end.

Definition apply_fx (s : mstate) (bs : list N) : mstate * res :=
  match dec_cmd bs with
  | None => (s, MErr)
  | Some (c, _) => if m_poisoned s then (s, MErr) else apply_cmd_fx s c
  end.

Fixpoint mexec_fx (s : mstate) (inputs : list (list N)) : mstate :=
  match inputs with [] => s | b :: r => mexec_fx (fst (apply_fx s b)) r end.

Fixpoint mrun_fx (s : mstate) (inputs : list (list N)) : list (mstate * res) :=
  match inputs with
  | [] => []
  | b :: r => let sr := apply_fx s b in sr :: mrun_fx (fst sr) r
  end.

(* StateMachineTrait::snapshot *)
Definition snapshot (s : mstate) : list N :=
  if m_poisoned s then enc_cluster empty_cluster else enc_cluster (m_cl s).

(* StateMachineTrait::restore: decode first, then take the write lock *)
Definition restore (s : mstate) (bs : list N) : mstate * bool :=
  match dec_cluster bs with
  | None => (s, false)
  | Some (c, _) => if m_poisoned s then (s, false) else (mkM c false, true)
  end.

Definition get_topic_state (s : mstate) (name : str) : option tstate :=
  if m_poisoned s then None else lookup str_cmp name (c_topics (m_cl s)).

(* what every observer sees (dump = decode of snapshot()) *)
Definition visible (s : mstate) : cluster := if m_poisoned s then empty_cluster else m_cl s.

(* harness item `S`: snapshot, restore into a fresh Metadata, continue with the fresh one *)
Definition snap_item (s : mstate) : mstate * (list N * bool) :=
  let snap := snapshot s in
  let (f, ok) := restore m_init snap in (f, (snap, ok)).

(* ---------- runs ---------- *)
Fixpoint mexec (oc : bool) (s : mstate) (inputs : list (list N)) : mstate :=
  match inputs with [] => s | b :: r => mexec oc (fst (apply oc s b)) r end.

(* the trace: state and result after every input *)
Fixpoint mrun (oc : bool) (s : mstate) (inputs : list (list N)) : list (mstate * res) :=
  match inputs with
  | [] => []
  | b :: r => let sr := apply oc s b in sr :: mrun oc (fst sr) r
  end.

Definition is_panic (r : res) : bool := match r with MPanic _ => true | _ => false end.
Definition is_psum (r : res) : bool := match r with MPanic PSum => true | _ => false end.

(* KnownClass of C18: with overflow checks on, some RolloverTopic would push a topic's
   cumulative sealed count to 2^64 or beyond *)
Definition any_psum (tr : list (mstate * res)) : bool := existsb (fun sr => is_psum (snd sr)) tr.
Definition sum_overflow (inputs : list (list N)) : bool := any_psum (mrun true m_init inputs).

(* ---------- the C18 acceptor over one topic / one cluster state ---------- *)
Fixpoint is_range (from : N) (l : list N) : bool :=
  match l with [] => true | k :: r => (k =? from) && is_range (from + 1) r end.

(* keys are exactly from, from+1, ..., from+count-1 in this order *)
Definition keys_are {V : Type} (from count : N) (l : list (N * V)) : bool :=
  is_range from (keys l) && (N.of_nat (length l) =? count).

(* [exact] = the sum equation in N; otherwise modulo 2^64 (what a wrapping build keeps) *)
Definition topic_ok (exact : bool) (t : tstate) : bool :=
  (1 <=? t_cur t)
  && keys_are 1 (t_cur t) (t_leaders t)
  && match lookup N.compare (t_cur t) (t_leaders t) with Some l => l =? t_leader t | None => false end
  && keys_are 1 (t_cur t - 1) (t_sealed t)
  && (if exact then sum_vals (t_sealed t) =? t_last t else (sum_vals (t_sealed t)) mod two64 =? t_last t).

Definition cluster_ok (exact : bool) (c : cluster) : bool :=
  sortedb str_cmp (c_topics c) && forallb (fun nt => topic_ok exact (snd nt)) (c_topics c).

(* immutability between an earlier and a later state *)
Definition sub_map (a b : list (N * N)) : bool :=
  forallb (fun kv => match lookup N.compare (fst kv) b with Some v => v =? snd kv | None => false end) a.

Definition topic_ext (t t' : tstate) : bool :=
  sub_map (t_sealed t) (t_sealed t') && sub_map (t_leaders t) (t_leaders t') && (t_cur t <=? t_cur t').

Definition cluster_ext (c c' : cluster) : bool :=
  forallb (fun nt => match lookup str_cmp (fst nt) (c_topics c') with
                     | Some t' => topic_ext (snd nt) t'
                     | None => false
                     end) (c_topics c).

(* acceptor over a sequence of observed states (dumps taken while commands are applied) *)
Fixpoint c18_states_ok (prev : cluster) (l : list cluster) : bool :=
  match l with
  | [] => true
  | c :: r => cluster_ok true c && cluster_ext prev c && c18_states_ok c r
  end.
Definition c18_ok (dumps : list cluster) : bool := c18_states_ok empty_cluster dumps.

(* acceptor over a model trace: no panic, lock not poisoned, invariant, immutability *)
Fixpoint trace_okb (e : bool) (prev : cluster) (tr : list (mstate * res)) : bool :=
  match tr with
  | [] => true
  | (s, r) :: rest =>
    negb (is_panic r) && negb (m_poisoned s) && cluster_ok e (m_cl s) && cluster_ext prev (m_cl s)
    && trace_okb e (m_cl s) rest
  end.


(* ---------- C20: equality of observed states, snapshot acceptor ---------- *)
Fixpoint list_eqb {A : Type} (eqb : A -> A -> bool) (a b : list A) : bool :=
  match a, b with
  | [], [] => true
  | x :: a', y :: b' => eqb x y && list_eqb eqb a' b'
  | _, _ => false
  end.
Definition nn_eqb (a b : N * N) : bool := (fst a =? fst b) && (snd a =? snd b).
Definition topic_eqb (a b : tstate) : bool :=
  (t_cur a =? t_cur b) && (t_leader a =? t_leader b) && (t_last a =? t_last b)
  && list_eqb nn_eqb (t_sealed a) (t_sealed b) && list_eqb nn_eqb (t_leaders a) (t_leaders b).
Definition cluster_eqb (a b : cluster) : bool :=
  list_eqb (fun x y => str_eqb (fst x) (fst y) && topic_eqb (snd x) (snd y)) (c_topics a) (c_topics b)
  && list_eqb (fun x y => (fst x =? fst y) && str_eqb (snd x) (snd y)) (c_nodes a) (c_nodes b).

(* One `D S D` observation of an implementation: the state dumped before, the snapshot
   bytes the implementation produced (its own map iteration order), whether the fresh
   instance accepted them, the state dumped afterwards.  The bytes must decode, in the
   model's decoder, to exactly the state before; and the state after must be that state. *)
Definition c20_snap_ok (before : cluster) (snap : list N) (ok : bool) (after : cluster) : bool :=
  ok && cluster_eqb before after
  && match dec_cluster snap with
     | Some (c, rest) => cluster_eqb c before && match rest with [] => true | _ => false end
     | None => false
     end.
