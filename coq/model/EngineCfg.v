(* EngineCfg.v — the two geometries the implementation is built with, taken from the
   constants file that is regenerated from /repo on every run. *)
From W Require Import gen.Consts model.Base model.Engine.

Definition real_cfg : Cfg :=
  {| c_block := src_DEFAULT_BLOCK_SIZE; c_bpf := src_BLOCKS_PER_FILE; c_max_alloc := src_MAX_ALLOC;
     c_hdr := src_PREFIX_META_SIZE; c_max_entries := src_MAX_BATCH_ENTRIES; c_max_bytes := src_MAX_BATCH_BYTES;
     c_small := src_SMALL_ENTRY; c_overflow_checks := true |}.

Definition small_cfg : Cfg :=
  {| c_block := src_small_DEFAULT_BLOCK_SIZE; c_bpf := src_small_BLOCKS_PER_FILE; c_max_alloc := src_small_MAX_ALLOC;
     c_hdr := src_small_PREFIX_META_SIZE; c_max_entries := src_small_MAX_BATCH_ENTRIES; c_max_bytes := src_small_MAX_BATCH_BYTES;
     c_small := src_SMALL_ENTRY; c_overflow_checks := true |}.
