(* Clean.v — executable model of the topic clean/dirty markers
   (src/wal/runtime/topic_clean.rs; walrus.rs: mark_topic_dirty / mark_topic_clean /
   topic_is_clean, construction in with_paths, no Drop impl; walrus_write.rs: appends mark
   dirty first).  Definitions only.

   What the code does, in the terms used below.
   * TopicCleanTracker.states : topic -> (generation, is_clean), in memory           [ki_mem]
   * every change of a flag sends the topic name on an mpsc channel                  [ki_queue]
   * one persister thread per tracker (it holds a Weak to the tracker) loops:
       recv_timeout(5 ms) + drain  -> its local `pending` set                        [KRecv]
       if pending is empty: next iteration
       Weak::upgrade, or exit if the tracker is gone
       persist_topics: read the CURRENT (generation, flag) of every pending topic,
         insert them into CleanMarkerStore.store (the in-memory copy of the file)    [KSnap]
         and write the whole map: temp file, fsync, rename                           [KLand]
       pending.clear()
   * topic_is_clean reads ki_mem only (absent = clean)
   * a new instance reads the file into its store and hydrates ki_mem from it
   * dropping the Walrus value does nothing for the markers (there is no Drop impl): the
     tracker's last strong reference goes away unless the persister holds an upgraded one at
     that moment.  Messages still queued or merely received are discarded by the exiting
     persister; a persister that had already upgraded finishes its write, possibly AFTER the
     next instance (same process) has read the file                                  [ks_orphans, KOLand]

   Granularity: the client thread's calls are atomic steps; the persister's iteration is split
   at the two points where an interleaving changes the result (after the receive, after the
   snapshot).  Upgrade and snapshot are one step: an upgrade before the drop followed by a
   snapshot after it reads the final states, which is the same as a snapshot taken just before
   the drop.  Reading generation and flag of one topic is treated as atomic (the code reads two
   atomics one after the other; the flag is what every statement below is about). *)
From W Require Import model.Base.

(* ---------------------------------------------------------------- keys, finite maps, sets *)
Fixpoint k_cmp (a b : str) : comparison :=
  match a, b with
  | [], [] => Eq
  | [], _ :: _ => Lt
  | _ :: _, [] => Gt
  | x :: a', y :: b' => match N.compare x y with Eq => k_cmp a' b' | c => c end
  end.

Record crec := { cr_gen : N; cr_clean : bool }.
(* impl Default for CleanMarkerRecord *)
Definition crec_default : crec := {| cr_gen := 0; cr_clean := true |}.

(* maps are association lists kept sorted by key (insertion replaces), so that equal maps are
   equal terms; HashMap order is never observable in the code *)
Definition cmap := list (str * crec).

Fixpoint k_find (k : str) (m : cmap) : option crec :=
  match m with
  | [] => None
  | (k', v) :: r => match k_cmp k k' with Eq => Some v | _ => k_find k r end
  end.

Fixpoint k_upd (k : str) (v : crec) (m : cmap) : cmap :=
  match m with
  | [] => [(k, v)]
  | (k', v') :: r =>
    match k_cmp k k' with
    | Eq => (k, v) :: r
    | Lt => (k, v) :: m
    | Gt => (k', v') :: k_upd k v r
    end
  end.

Fixpoint k_mem (k : str) (l : list str) : bool :=
  match l with
  | [] => false
  | k' :: r => match k_cmp k k' with Eq => true | _ => k_mem k r end
  end.

Fixpoint k_add (k : str) (l : list str) : list str :=
  match l with
  | [] => [k]
  | k' :: r =>
    match k_cmp k k' with
    | Eq => l
    | Lt => k :: l
    | Gt => k' :: k_add k r
    end
  end.

(* topic_is_clean: ....map(|s| s.is_clean).unwrap_or(true) *)
Definition k_clean_of (m : cmap) (t : str) : bool :=
  match k_find t m with Some r => cr_clean r | None => true end.

(* ---------------------------------------------------------------- state *)
Inductive kphase :=
| KIdle                       (* at recv_timeout, pending empty *)
| KGot (p : list str)         (* pending = p (non-empty), before upgrade/persist_topics *)
| KFlying (img : cmap).       (* store updated, file image img being written (temp, fsync, rename) *)

Record kinst := {
  ki_mem : cmap;              (* TopicCleanTracker.states *)
  ki_queue : list str;        (* topics sent on the channel and not yet received (as a set) *)
  ki_phase : kphase;          (* where the persister thread is *)
  ki_store : cmap             (* CleanMarkerStore.store *)
}.

Record kst := {
  ks_disk : cmap;             (* contents of topic_clean_index.db *)
  ks_live : kinst;
  ks_orphans : list cmap      (* file images that persisters of dropped instances are still writing *)
}.

(* with_paths: CleanMarkerStore::new_in reads the file, TopicCleanTracker::new, hydrate(snapshot) *)
Definition k_open (disk : cmap) : kinst :=
  {| ki_mem := disk; ki_queue := []; ki_phase := KIdle; ki_store := disk |}.

Definition k_init : kst := {| ks_disk := []; ks_live := k_open []; ks_orphans := [] |}.

Definition with_live (s : kst) (i : kinst) : kst :=
  {| ks_disk := ks_disk s; ks_live := i; ks_orphans := ks_orphans s |}.

(* ---------------------------------------------------------------- client calls *)
(* AtomicU64::fetch_add wraps *)
Definition gen_next (g : N) : N := (g + 1) mod two64.

(* update_state: get_or_insert_state (a default entry appears for an unknown topic), then
   TopicCleanState::update: nothing happens when the flag already has the desired value,
   otherwise generation+1, flag stored, topic sent to the persister *)
Definition k_mark (t : str) (desired : bool) (i : kinst) : kinst :=
  let r := match k_find t (ki_mem i) with Some r => r | None => crec_default end in
  if Bool.eqb (cr_clean r) desired
  then {| ki_mem := k_upd t r (ki_mem i); ki_queue := ki_queue i; ki_phase := ki_phase i; ki_store := ki_store i |}
  else {| ki_mem := k_upd t {| cr_gen := gen_next (cr_gen r); cr_clean := desired |} (ki_mem i);
          ki_queue := k_add t (ki_queue i); ki_phase := ki_phase i; ki_store := ki_store i |}.

(* ---------------------------------------------------------------- persister steps *)
(* recv_timeout + try_recv loop: everything queued moves to `pending` *)
Definition k_recv (i : kinst) : kinst :=
  match ki_phase i, ki_queue i with
  | KIdle, _ :: _ => {| ki_mem := ki_mem i; ki_queue := []; ki_phase := KGot (ki_queue i); ki_store := ki_store i |}
  | _, _ => i
  end.

(* persist_topics: `updates` = current record of every pending topic that has a state *)
Fixpoint k_updates (p : list str) (mem : cmap) : list (str * crec) :=
  match p with
  | [] => []
  | t :: p' => match k_find t mem with
               | Some r => (t, r) :: k_updates p' mem
               | None => k_updates p' mem
               end
  end.

(* persist_updates: for (topic, record) in updates { guard.insert(topic, record) } *)
Definition k_apply (ups : list (str * crec)) (store : cmap) : cmap :=
  fold_right (fun kv acc => k_upd (fst kv) (snd kv) acc) store ups.

(* upgrade (the tracker is alive: only the live instance's persister can take this step),
   snapshot, store update; with no updates persist_updates returns before writing *)
Definition k_snap (i : kinst) : kinst :=
  match ki_phase i with
  | KGot p =>
    match k_updates p (ki_mem i) with
    | [] => {| ki_mem := ki_mem i; ki_queue := ki_queue i; ki_phase := KIdle; ki_store := ki_store i |}
    | ups => let st' := k_apply ups (ki_store i) in
             {| ki_mem := ki_mem i; ki_queue := ki_queue i; ki_phase := KFlying st'; ki_store := st' |}
    end
  | _ => i
  end.

(* persist_map: the rename makes the image the file; pending.clear() *)
Definition k_land (s : kst) : kst :=
  match ki_phase (ks_live s) with
  | KFlying img =>
    {| ks_disk := img;
       ks_live := {| ki_mem := ki_mem (ks_live s); ki_queue := ki_queue (ks_live s); ki_phase := KIdle;
                     ki_store := ki_store (ks_live s) |};
       ks_orphans := ks_orphans s |}
  | _ => s
  end.

Fixpoint drop_nth {A} (k : nat) (l : list A) : list A :=
  match l, k with
  | [], _ => []
  | _ :: r, O => r
  | x :: r, S k' => x :: drop_nth k' r
  end.

(* the write of a dropped instance's persister reaches the file *)
Definition k_oland (k : nat) (s : kst) : kst :=
  match nth_error (ks_orphans s) k with
  | Some img => {| ks_disk := img; ks_live := ks_live s; ks_orphans := drop_nth k (ks_orphans s) |}
  | None => s
  end.

(* one whole persister iteration *)
Definition k_tick (s : kst) : kst :=
  k_land (with_live s (k_snap (k_recv (ks_live s)))).

(* ---------------------------------------------------------------- shutdown + open *)
(* KPinned: the code as it is (no Drop impl for Walrus / the tracker).
   KFlush:  the proposed fix (PROPOSED_FIX.diff): Drop for Walrus calls flush_and_close, which
            takes the lock persist_topics holds from snapshot to rename, writes every state and
            forbids further writes by this tracker's persister. *)
Inductive kvariant := KPinned | KFlush.

(* flush_and_close: persist_updates(all states); first entry of mem wins = map semantics *)
Definition k_flush_img (store mem : cmap) : cmap := k_apply mem store.

Definition k_reopen (v : kvariant) (same_process : bool) (s : kst) : kst :=
  match v with
  | KPinned =>
    (* queued and received-only updates die with the persister; an upgraded persister goes on *)
    let orph := if same_process
                then match ki_phase (ks_live s) with
                     | KFlying img => ks_orphans s ++ [img]
                     | _ => ks_orphans s
                     end
                else [] in
    {| ks_disk := ks_disk s; ks_live := k_open (ks_disk s); ks_orphans := orph |}
  | KFlush =>
    (* the lock: a write in flight completes first *)
    let s1 := k_land s in
    let disk' := match ki_mem (ks_live s1) with
                 | [] => ks_disk s1                     (* persist_updates(&[]) returns at once *)
                 | _ => k_flush_img (ki_store (ks_live s1)) (ki_mem (ks_live s1))
                 end in
    {| ks_disk := disk'; ks_live := k_open disk'; ks_orphans := if same_process then ks_orphans s1 else [] |}
  end.

(* ---------------------------------------------------------------- histories *)
Inductive kop :=
| KAppend (t : str)        (* append_for_topic / batch_append_for_topic: mark_topic_dirty first *)
| KMarkClean (t : str)
| KMarkDirty (t : str)
| KIsClean (t : str)
| KReopen                  (* drop the instance, new instance in the same process *)
| KRestart                 (* drop the instance, process exit, new process *)
| KRecv | KSnap | KLand    (* persister of the live instance *)
| KTick                    (* KRecv; KSnap; KLand *)
| KOLand (k : nat).        (* persister of a dropped instance *)

Definition k_step (v : kvariant) (s : kst) (o : kop) : kst * option bool :=
  match o with
  | KAppend t => (with_live s (k_mark t false (ks_live s)), None)
  | KMarkDirty t => (with_live s (k_mark t false (ks_live s)), None)
  | KMarkClean t => (with_live s (k_mark t true (ks_live s)), None)
  | KIsClean t => (s, Some (k_clean_of (ki_mem (ks_live s)) t))
  | KReopen => (k_reopen v true s, None)
  | KRestart => (k_reopen v false s, None)
  | KRecv => (with_live s (k_recv (ks_live s)), None)
  | KSnap => (with_live s (k_snap (ks_live s)), None)
  | KLand => (k_land s, None)
  | KTick => (k_tick s, None)
  | KOLand k => (k_oland k s, None)
  end.

(* final state and the answers of the KIsClean calls, in order *)
Fixpoint k_run (v : kvariant) (s : kst) (h : list kop) : kst * list bool :=
  match h with
  | [] => (s, [])
  | o :: h' =>
    let '(s1, r) := k_step v s o in
    let '(s2, rs) := k_run v s1 h' in
    (s2, match r with Some b => b :: rs | None => rs end)
  end.

Definition k_outs (v : kvariant) (h : list kop) : list bool := snd (k_run v k_init h).

(* ---------------------------------------------------------------- what C17 demands *)
(* the last value set per topic: appends and mark_dirty set dirty, mark_clean sets clean,
   nothing else changes it (in particular not a reopen); never touched = clean *)
Definition kspec := str -> bool.
Definition kspec0 : kspec := fun _ => true.
Definition kspec_set (f : kspec) (t : str) (b : bool) : kspec :=
  fun t' => match k_cmp t' t with Eq => b | _ => f t' end.

Definition kspec_step (f : kspec) (o : kop) : kspec :=
  match o with
  | KAppend t | KMarkDirty t => kspec_set f t false
  | KMarkClean t => kspec_set f t true
  | _ => f
  end.

Fixpoint kspec_outs (f : kspec) (h : list kop) : list bool :=
  match h with
  | [] => []
  | KIsClean t :: h' => f t :: kspec_outs f h'
  | o :: h' => kspec_outs (kspec_step f o) h'
  end.

(* ---------------------------------------------------------------- classes of histories *)
Definition k_no_restart (o : kop) : bool :=
  match o with KReopen | KRestart => false | _ => true end.

(* nothing of the live instance is on its way to the file and no dropped instance's persister
   is still writing *)
Definition k_quiet (s : kst) : bool :=
  match ki_queue (ks_live s), ki_phase (ks_live s), ks_orphans s with
  | [], KIdle, [] => true
  | _, _, _ => false
  end.

(* every shutdown of the history happens in a quiet state *)
Fixpoint k_settled (v : kvariant) (s : kst) (h : list kop) : bool :=
  match h with
  | [] => true
  | o :: h' =>
    (if k_no_restart o then true else k_quiet s) && k_settled v (fst (k_step v s o)) h'
  end.

(* the syntactic class of the brief: only client calls and whole ticks, and between the last
   change and each shutdown there is a tick *)
Fixpoint k_tick_separated (pending_change : bool) (h : list kop) : bool :=
  match h with
  | [] => true
  | o :: h' =>
    match o with
    | KAppend _ | KMarkClean _ | KMarkDirty _ => k_tick_separated true h'
    | KIsClean _ => k_tick_separated pending_change h'
    | KTick => k_tick_separated false h'
    | KReopen | KRestart => negb pending_change && k_tick_separated false h'
    | KRecv | KSnap | KLand | KOLand _ => false
    end
  end.

(* ---------------------------------------------------------------- the property, in full *)
(* C17 as demanded: every history (client calls, persister steps at any place, shutdowns at
   any place), every topic: topic_is_clean answers the last value set *)
Definition C17_full (v : kvariant) : Prop := forall h, k_outs v h = kspec_outs kspec0 h.

(* the known class of the code as it is: some shutdown of the history happens while an update
   has not reached the file (queued, received or being written) or while the persister of an
   earlier instance is still writing *)
Definition c17_known (h : list kop) : Prop := k_settled KPinned k_init h = false.
