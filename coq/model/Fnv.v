(* Fnv.v — FNV-1a 64-bit exactly as src/wal/config.rs::checksum64 (wrapping_mul = mod 2^64). *)
From W Require Import model.Base.

Definition fnv_offset : N := 14695981039346656037. (* 0xcbf29ce484222325 *)
Definition fnv_prime  : N := 1099511628211.        (* 0x00000100000001B3 *)
Definition fnv_step (h b : N) : N := (N.lxor h b * fnv_prime) mod two64.
Fixpoint fnv_from (h : N) (bs : list N) : N :=
  match bs with [] => h | b :: r => fnv_from (fnv_step h b) r end.
Definition checksum64 (bs : list N) : N := fnv_from fnv_offset bs.
