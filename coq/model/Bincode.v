(* Bincode.v — the wire format of bincode 1.3's top-level serialize/deserialize (legacy
   default configuration), restricted to the types of distributed-walrus/src/metadata.rs:
     u64            8 bytes little-endian
     u32            4 bytes little-endian (enum variant index)
     String         u64 length + UTF-8 bytes (decoder: length checked against the remaining
                    input first, then strict UTF-8 validation)
     HashMap/BTreeMap  u64 element count + key/value pairs; the decoder inserts the pairs
                    in wire order (a repeated key keeps the last value)
     struct         fields in declaration order, nothing else (#[serde(default)] never applies)
     enum           u32 variant index + the variant's fields
   Trailing bytes after a complete value are NOT an error (bincode::deserialize).
   Bytes are N < 256.  Every decoder returns the value and the unread rest. *)
From W Require Import model.Base model.Utf8 model.Map.
From Coq Require Import Permutation.

(* ---------- the data types of metadata.rs ---------- *)
Record tstate := mkTopic {
  t_cur : N;                    (* current_segment *)
  t_leader : N;                 (* leader_node *)
  t_last : N;                   (* last_sealed_entry_offset *)
  t_sealed : list (N * N);      (* sealed_segments : segment -> entry count *)
  t_leaders : list (N * N)      (* segment_leaders : segment -> node *)
}.

Record cluster := mkCluster {
  c_topics : list (str * tstate);
  c_nodes : list (N * str)
}.

Inductive cmd :=
| CreateTopic (name : str) (initial_leader : N)
| RolloverTopic (name : str) (new_leader : N) (sealed_segment_entry_count : N)
| UpsertNode (node_id : N) (addr : str).

Definition empty_cluster : cluster := mkCluster [] [].

(* ---------- integers ---------- *)
Fixpoint le_bytes (k : nat) (n : N) : list N :=
  match k with O => [] | S k' => (n mod 256) :: le_bytes k' (n / 256) end.

Fixpoint le_val (bs : list N) : N :=
  match bs with [] => 0 | b :: r => b + 256 * le_val r end.

(* SliceReader: exactly k bytes or EOF *)
Fixpoint take (k : nat) (bs : list N) : option (list N * list N) :=
  match k with
  | O => Some ([], bs)
  | S k' =>
    match bs with
    | [] => None
    | b :: r => match take k' r with Some (a, r') => Some (b :: a, r') | None => None end
    end
  end.

Definition enc_u64 (n : N) : list N := le_bytes 8 n.
Definition enc_u32 (n : N) : list N := le_bytes 4 n.

Definition dec_u64 (bs : list N) : option (N * list N) :=
  match take 8 bs with Some (a, r) => Some (le_val a, r) | None => None end.
Definition dec_u32 (bs : list N) : option (N * list N) :=
  match take 4 bs with Some (a, r) => Some (le_val a, r) | None => None end.

(* ---------- strings ---------- *)
Definition enc_str (s : str) : list N :=
  let b := utf8_encode s in enc_u64 (N.of_nat (length b)) ++ b.

Definition dec_str (bs : list N) : option (str * list N) :=
  match dec_u64 bs with
  | None => None
  | Some (n, r) =>
    if N.of_nat (length r) <? n then None            (* EOF check before anything is copied *)
    else match take (N.to_nat n) r with
         | None => None
         | Some (a, r') => match utf8_decode a with None => None | Some s => Some (s, r') end
         end
  end.

(* ---------- maps ---------- *)
Definition enc_map {K V : Type} (ek : K -> list N) (ev : V -> list N) (l : list (K * V)) : list N :=
  enc_u64 (N.of_nat (length l)) ++ flat_map (fun kv => ek (fst kv) ++ ev (snd kv)) l.

Fixpoint dec_entries {K V : Type} (dk : list N -> option (K * list N)) (dv : list N -> option (V * list N))
         (cmp : K -> K -> comparison) (n : nat) (bs : list N) (acc : list (K * V)) : option (list (K * V) * list N) :=
  match n with
  | O => Some (acc, bs)
  | S n' =>
    match dk bs with
    | None => None
    | Some (k, r) =>
      match dv r with
      | None => None
      | Some (v, r') => dec_entries dk dv cmp n' r' (ins cmp k v acc)
      end
    end
  end.

(* The count is not trusted for allocation (serde caps its size hint); the elements are read
   one by one until the count is reached or the input ends.  Every element takes at least
   one byte, so a count larger than the remaining input always ends in EOF: the guard gives
   that answer without iterating 2^64 times (BincodeP.dec_entries_short: it changes nothing). *)
Definition dec_map {K V : Type} (dk : list N -> option (K * list N)) (dv : list N -> option (V * list N))
           (cmp : K -> K -> comparison) (bs : list N) : option (list (K * V) * list N) :=
  match dec_u64 bs with
  | None => None
  | Some (n, r) =>
    if N.of_nat (length r) <? n then None
    else dec_entries dk dv cmp (N.to_nat n) r []
  end.

(* ---------- TopicState / ClusterState ---------- *)
Definition enc_nmap (l : list (N * N)) : list N := enc_map enc_u64 enc_u64 l.
Definition dec_nmap (bs : list N) : option (list (N * N) * list N) := dec_map dec_u64 dec_u64 N.compare bs.

Definition enc_topic (t : tstate) : list N :=
  enc_u64 (t_cur t) ++ enc_u64 (t_leader t) ++ enc_u64 (t_last t) ++ enc_nmap (t_sealed t) ++ enc_nmap (t_leaders t).

Definition dec_topic (bs : list N) : option (tstate * list N) :=
  match dec_u64 bs with None => None | Some (cur, r1) =>
  match dec_u64 r1 with None => None | Some (leader, r2) =>
  match dec_u64 r2 with None => None | Some (last, r3) =>
  match dec_nmap r3 with None => None | Some (sealed, r4) =>
  match dec_nmap r4 with None => None | Some (leaders, r5) =>
    Some (mkTopic cur leader last sealed leaders, r5)
  end end end end end.

(* encodes the listing it is given, in the order it is given (HashMap iteration order is
   arbitrary: any permutation of the entries can appear on the wire) *)
Definition enc_cluster (c : cluster) : list N :=
  enc_map enc_str enc_topic (c_topics c) ++ enc_map enc_u64 enc_str (c_nodes c).

Definition dec_cluster (bs : list N) : option (cluster * list N) :=
  match dec_map dec_str dec_topic str_cmp bs with None => None | Some (topics, r1) =>
  match dec_map dec_u64 dec_str N.compare r1 with None => None | Some (nodes, r2) =>
    Some (mkCluster topics nodes, r2)
  end end.

(* ---------- MetadataCmd ---------- *)
Definition enc_cmd (c : cmd) : list N :=
  match c with
  | CreateTopic name l => enc_u32 0 ++ enc_str name ++ enc_u64 l
  | RolloverTopic name l n => enc_u32 1 ++ enc_str name ++ enc_u64 l ++ enc_u64 n
  | UpsertNode id addr => enc_u32 2 ++ enc_u64 id ++ enc_str addr
  end.

Definition dec_cmd (bs : list N) : option (cmd * list N) :=
  match dec_u32 bs with
  | None => None
  | Some (tag, r) =>
    if tag =? 0 then
      match dec_str r with None => None | Some (name, r1) =>
      match dec_u64 r1 with None => None | Some (l, r2) => Some (CreateTopic name l, r2) end end
    else if tag =? 1 then
      match dec_str r with None => None | Some (name, r1) =>
      match dec_u64 r1 with None => None | Some (l, r2) =>
      match dec_u64 r2 with None => None | Some (n, r3) => Some (RolloverTopic name l n, r3) end end end
    else if tag =? 2 then
      match dec_u64 r with None => None | Some (id, r1) =>
      match dec_str r1 with None => None | Some (addr, r2) => Some (UpsertNode id addr, r2) end end
    else None                                       (* variant index out of range *)
  end.

(* BTreeMap<String, String>: the private map of octopii's state-machine adapter *)
Definition enc_smap (l : list (str * str)) : list N := enc_map enc_str enc_str l.
Definition dec_smap (bs : list N) : option (list (str * str) * list N) := dec_map dec_str dec_str str_cmp bs.

(* ---------- canonical form of a listing ---------- *)
(* A HashMap is written in arbitrary iteration order; [canon_*] is the map a listing denotes
   (entries inserted left to right). *)
Definition canon_topic (t : tstate) : tstate :=
  mkTopic (t_cur t) (t_leader t) (t_last t) (of_list N.compare (t_sealed t)) (of_list N.compare (t_leaders t)).

Definition canon_cluster (c : cluster) : cluster :=
  mkCluster (of_list str_cmp (map (fun nt => (fst nt, canon_topic (snd nt))) (c_topics c)))
            (of_list N.compare (c_nodes c)).

(* everything fits the wire format: integers are u64, strings are sequences of Unicode
   scalar values, lengths fit a u64 *)
Definition str_ok (s : str) : Prop :=
  Forall (fun c => is_scalar c = true) s /\ N.of_nat (length (utf8_encode s)) < two64.
Definition nmap_ok (l : list (N * N)) : Prop :=
  Forall (fun kv => fst kv < two64 /\ snd kv < two64) l /\ N.of_nat (length l) < two64.
Definition topic_wf (t : tstate) : Prop :=
  t_cur t < two64 /\ t_leader t < two64 /\ t_last t < two64 /\ nmap_ok (t_sealed t) /\ nmap_ok (t_leaders t).
Definition cluster_wf (c : cluster) : Prop :=
  Forall (fun nt => str_ok (fst nt) /\ topic_wf (snd nt)) (c_topics c) /\ N.of_nat (length (c_topics c)) < two64 /\
  Forall (fun na => fst na < two64 /\ str_ok (snd na)) (c_nodes c) /\ N.of_nat (length (c_nodes c)) < two64.

(* all maps of a state are in canonical (sorted) form *)
Definition topic_sorted (t : tstate) : Prop :=
  sortedb N.compare (t_sealed t) = true /\ sortedb N.compare (t_leaders t) = true.
Definition cluster_sorted (c : cluster) : Prop :=
  sortedb str_cmp (c_topics c) = true /\ sortedb N.compare (c_nodes c) = true /\
  Forall (fun nt => topic_sorted (snd nt)) (c_topics c).

(* [l] lists the entries of the maps of [c] in some order, at both levels *)
Definition topic_listing (l t : tstate) : Prop :=
  t_cur l = t_cur t /\ t_leader l = t_leader t /\ t_last l = t_last t /\
  Permutation (t_sealed l) (t_sealed t) /\ Permutation (t_leaders l) (t_leaders t).
Definition cluster_listing (l c : cluster) : Prop :=
  (exists mid, Permutation (c_topics l) mid /\
               Forall2 (fun a b => fst a = fst b /\ topic_listing (snd a) (snd b)) mid (c_topics c)) /\
  Permutation (c_nodes l) (c_nodes c).
