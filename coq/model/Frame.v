(* Frame.v — distributed-walrus/src/client.rs: the connection loop (handle_connection),
   the command parser (handle_command) and the response framing (send_response), plus the
   mock NodeController of harness/dwh/src/controller.rs.

   Bytes are N < 256, strings are lists of Unicode scalar values (model/Base.v); the
   conversions between the two are the codec of model/Utf8.v (String::from_utf8 /
   str::as_bytes).

   [drain] selects between the code as it stands in /repo (false: after answering a frame
   whose announced length is 0 or > MAX_FRAME_LEN the loop `continue`s WITHOUT consuming the
   announced body, finding D12) and the code with PROPOSED_FIX.diff applied (true: the
   announced body is read and discarded before the next header is read). *)
From W Require Import gen.Consts model.Base model.Utf8.

(* ---------------------------------------------------------------- constants, literals *)
Definition max_frame_len : N := src_MAX_FRAME_LEN.   (* const MAX_FRAME_LEN: usize = 64 * 1024 *)
Definition two32 : N := 4294967296.

Definition s_REGISTER : str := [82; 69; 71; 73; 83; 84; 69; 82].  (* "REGISTER" *)
Definition s_PUT : str := [80; 85; 84].  (* "PUT" *)
Definition s_GET : str := [71; 69; 84].  (* "GET" *)
Definition s_STATE : str := [83; 84; 65; 84; 69].  (* "STATE" *)
Definition s_METRICS : str := [77; 69; 84; 82; 73; 67; 83].  (* "METRICS" *)
Definition s_OK : str := [79; 75].  (* "OK" *)
Definition s_EMPTY : str := [69; 77; 80; 84; 89].  (* "EMPTY" *)
Definition s_fail : str := [102; 97; 105; 108].  (* "fail" *)
Definition s_ERR_sp : str := [69; 82; 82; 32].  (* "ERR " *)
Definition s_OK_sp : str := [79; 75; 32].  (* "OK " *)
Definition s_STATE_sp : str := [83; 84; 65; 84; 69; 32].  (* "STATE " *)
Definition m_boom : str := [98; 111; 111; 109].  (* "boom" *)
Definition m_len : str := [105; 110; 118; 97; 108; 105; 100; 32; 102; 114; 97; 109; 101; 32; 108; 101; 110; 103; 116; 104].  (* "invalid frame length" *)
Definition m_utf8 : str := [105; 110; 118; 97; 108; 105; 100; 32; 117; 116; 102; 45; 56].  (* "invalid utf-8" *)
Definition m_unknown : str := [117; 110; 107; 110; 111; 119; 110; 32; 99; 111; 109; 109; 97; 110; 100].  (* "unknown command" *)
Definition m_reg_topic : str := [82; 69; 71; 73; 83; 84; 69; 82; 32; 114; 101; 113; 117; 105; 114; 101; 115; 32; 97; 32; 116; 111; 112; 105; 99].  (* "REGISTER requires a topic" *)
Definition m_put_topic : str := [80; 85; 84; 32; 114; 101; 113; 117; 105; 114; 101; 115; 32; 97; 32; 116; 111; 112; 105; 99].  (* "PUT requires a topic" *)
Definition m_put_payload : str := [80; 85; 84; 32; 114; 101; 113; 117; 105; 114; 101; 115; 32; 97; 32; 112; 97; 121; 108; 111; 97; 100].  (* "PUT requires a payload" *)
Definition m_get_topic : str := [71; 69; 84; 32; 114; 101; 113; 117; 105; 114; 101; 115; 32; 97; 32; 116; 111; 112; 105; 99].  (* "GET requires a topic" *)
Definition m_state_topic : str := [83; 84; 65; 84; 69; 32; 114; 101; 113; 117; 105; 114; 101; 115; 32; 97; 32; 116; 111; 112; 105; 99].  (* "STATE requires a topic" *)

(* ---------------------------------------------------------------- wire helpers *)
(* u32::to_le_bytes(len as u32): the `as u32` truncation is the final `mod 256` *)
Definition le32 (n : N) : list N :=
  [n mod 256; (n / 256) mod 256; (n / 65536) mod 256; (n / 16777216) mod 256].
(* u32::from_le_bytes(..) as usize (64-bit target: no truncation) *)
Definition un_le32 (b0 b1 b2 b3 : N) : N := b0 + 256 * b1 + 65536 * b2 + 16777216 * b3.

(* socket.read_exact(&mut buf[..n]): Some (buf, remaining stream) or None when the stream
   ends first (the error the caller propagates; whatever was read is lost with the
   connection) *)
Fixpoint read_exact (n : N) (l : list N) : option (list N * list N) :=
  if n =? 0 then Some ([], l)
  else match l with
       | [] => None
       | b :: r => match read_exact (n - 1) r with
                   | Some (a, rest) => Some (b :: a, rest)
                   | None => None
                   end
       end.

Definition blen (l : list N) : N := N.of_nat (length l).

(* ---------------------------------------------------------------- str helpers *)
(* char::is_whitespace = Unicode White_Space *)
Definition is_ws (c : N) : bool :=
  ((9 <=? c) && (c <=? 13)) || (c =? 32) || (c =? 133) || (c =? 160) || (c =? 5760)
  || ((8192 <=? c) && (c <=? 8202)) || (c =? 8232) || (c =? 8233) || (c =? 8239)
  || (c =? 8287) || (c =? 12288).

(* str::trim_end *)
Fixpoint trim_end (s : str) : str :=
  match s with
  | [] => []
  | c :: r => match trim_end r with
              | [] => if is_ws c then [] else [c]
              | r' => c :: r'
              end
  end.

(* one step of str::splitn(_, ' '): the piece before the first U+0020 and, if there was
   one, everything after it *)
Fixpoint split_sp (s : str) : str * option str :=
  match s with
  | [] => ([], None)
  | c :: r => if c =? ch_sp then ([], Some r)
              else let (a, b) := split_sp r in (c :: a, b)
  end.

(* ---------------------------------------------------------------- mock controller *)
(* map topic -> FIFO queue of payloads (bytes); harness/dwh/src/controller.rs *)
Definition ctl := list (str * list (list N)).
Definition ctl0 : ctl := [].

Fixpoint ctl_get (c : ctl) (t : str) : option (list (list N)) :=
  match c with
  | [] => None
  | (k, q) :: r => if str_eqb k t then Some q else ctl_get r t
  end.
Fixpoint ctl_set (c : ctl) (t : str) (q : list (list N)) : ctl :=
  match c with
  | [] => [(t, q)]
  | (k, q0) :: r => if str_eqb k t then (k, q) :: r else (k, q0) :: ctl_set r t q
  end.
Definition ctl_queue (c : ctl) (t : str) : list (list N) :=
  match ctl_get c t with Some q => q | None => [] end.
Definition is_fail (t : str) : bool := str_eqb t s_fail.

(* String::from_utf8_lossy on a queued payload.  Every queued payload is the as_bytes() of a
   &str, so the replacement branch is never taken (proofs/FrameP.v: ctl_valid is an invariant);
   it is not modelled beyond "one U+FFFD". *)
Definition lossy (bs : list N) : str :=
  match utf8_decode bs with Some s => s | None => [65533] end.

(* ---------------------------------------------------------------- commands *)
Inductive fcmd :=
| FRegister (t : str)
| FPut (t p : str)
| FGet (t : str)
| FState (t : str)
| FMetrics
| FBad (msg : str).     (* handle_command returned Err(anyhow!(msg)) before reaching the controller *)

(* handle_command's parsing: `line.splitn(3, ' ')`, first piece is the verb (splitn always
   yields a first piece, so "empty command" cannot happen), pieces beyond what the verb
   needs are ignored *)
Definition parse_cmd (line : str) : fcmd :=
  let (verb, r1) := split_sp line in
  if str_eqb verb s_REGISTER then
    match r1 with None => FBad m_reg_topic | Some r => FRegister (fst (split_sp r)) end
  else if str_eqb verb s_PUT then
    match r1 with
    | None => FBad m_put_topic
    | Some r => let (t, r2) := split_sp r in
                match r2 with None => FBad m_put_payload | Some p => FPut t p end
    end
  else if str_eqb verb s_GET then
    match r1 with None => FBad m_get_topic | Some r => FGet (fst (split_sp r)) end
  else if str_eqb verb s_STATE then
    match r1 with None => FBad m_state_topic | Some r => FState (fst (split_sp r)) end
  else if str_eqb verb s_METRICS then FMetrics
  else FBad m_unknown.

(* what goes back for one frame *)
Inductive fresp :=
| FOk                    (* "OK" *)
| FData (p : str)        (* "OK <payload>" *)
| FEmpty                 (* "EMPTY" *)
| FText (s : str)        (* STATE / METRICS text *)
| FErr (msg : str).      (* "ERR <msg>" *)

Definition resp_text (r : fresp) : str :=
  match r with
  | FOk => s_OK
  | FData p => s_OK_sp ++ p
  | FEmpty => s_EMPTY
  | FText s => s
  | FErr m => s_ERR_sp ++ m
  end.

(* the command table against the mock controller *)
Definition exec (c : ctl) (cm : fcmd) : ctl * fresp :=
  match cm with
  | FRegister t =>
      if is_fail t then (c, FErr m_boom)
      else (match ctl_get c t with Some _ => c | None => ctl_set c t [] end, FOk)
  | FPut t p =>
      if is_fail t then (c, FErr m_boom)
      else (ctl_set c t (ctl_queue c t ++ [utf8_encode p]), FOk)
  | FGet t =>
      if is_fail t then (c, FErr m_boom)
      else match ctl_get c t with
           | Some (x :: q) => (ctl_set c t q, FData (lossy x))
           | _ => (c, FEmpty)
           end
  | FState t => if is_fail t then (c, FErr m_boom) else (c, FText (s_STATE_sp ++ t))
  | FMetrics => (c, FText s_METRICS)
  | FBad m => (c, FErr m)
  end.

(* a frame body that passed the length check: from_utf8, trim_end, handle_command *)
Definition handle_body (c : ctl) (body : list N) : ctl * fresp :=
  match utf8_decode body with
  | None => (c, FErr m_utf8)
  | Some text => exec c (parse_cmd (trim_end text))
  end.

(* send_response *)
Definition enc_resp (r : fresp) : list N :=
  let b := utf8_encode (resp_text r) in le32 (blen b) ++ b.

Definition bad_len (n : N) : bool := (n =? 0) || (max_frame_len <? n).

(* ---------------------------------------------------------------- the connection loop *)
(* everything written back on one connection whose peer sends [inp] and closes *)
Fixpoint serve_fuel (drain : bool) (fuel : nat) (c : ctl) (inp : list N) : list N :=
  match fuel with
  | O => []
  | S f =>
    match inp with
    | b0 :: b1 :: b2 :: b3 :: rest =>
      let n := un_le32 b0 b1 b2 b3 in
      if bad_len n then
        enc_resp (FErr m_len) ++
        (if drain then
           match read_exact n rest with            (* PROPOSED_FIX: discard the announced body *)
           | Some (_, rest') => serve_fuel drain f c rest'
           | None => []
           end
         else serve_fuel drain f c rest)           (* as it stands: `continue` *)
      else
        match read_exact n rest with
        | None => []                               (* `read_exact(&mut buf).await?` *)
        | Some (body, rest') =>
          let (c', r) := handle_body c body in
          enc_resp r ++ serve_fuel drain f c' rest'
        end
    | _ => []                                      (* EOF in the header: Ok(()) *)
    end
  end.

(* every iteration consumes at least the four header bytes *)
Definition serve_from (drain : bool) (c : ctl) (inp : list N) : list N :=
  serve_fuel drain (S (length inp)) c inp.
Definition serve_gen (drain : bool) (inp : list N) : list N := serve_from drain ctl0 inp.

Definition serve_v0 : list N -> list N := serve_gen false.   (* /repo as it stands *)
Definition serve_fixed : list N -> list N := serve_gen true. (* with PROPOSED_FIX.diff *)

(* ---------------------------------------------------------------- structured version *)
(* a frame as the client means it: announced length and that many body bytes *)
Record frame := { f_len : N; f_body : list N }.
Definition enc_frame (f : frame) : list N := le32 (f_len f) ++ f_body f.
Definition enc_frames (fs : list frame) : list N := concat (map enc_frame fs).
Definition frame_wfb (f : frame) : bool := (f_len f <? two32) && (blen (f_body f) =? f_len f).
Definition in_range (f : frame) : bool := f_len f <=? max_frame_len.

Definition respond (c : ctl) (f : frame) : ctl * fresp :=
  if bad_len (f_len f) then (c, FErr m_len) else handle_body c (f_body f).

Fixpoint responses_from (c : ctl) (fs : list frame) : list fresp :=
  match fs with
  | [] => []
  | f :: r => let (c', x) := respond c f in x :: responses_from c' r
  end.
Definition responses (fs : list frame) : list fresp := responses_from ctl0 fs.
Fixpoint ctl_after (c : ctl) (fs : list frame) : ctl :=
  match fs with [] => c | f :: r => ctl_after (fst (respond c f)) r end.
Definition enc_resps (rs : list fresp) : list N := concat (map enc_resp rs).

(* the frame a client sends for a line of text *)
Definition text_frame (line : str) : frame :=
  let b := utf8_encode line in {| f_len := blen b; f_body := b |}.
Definition put_line (t p : str) : str := s_PUT ++ ch_sp :: t ++ ch_sp :: p.
Definition get_line (t : str) : str := s_GET ++ ch_sp :: t.
