(* Utf8.v — UTF-8 encoding of a Unicode scalar value and a strict decoder
   (the one Rust's String::from_utf8 implements: shortest form only, no surrogates,
   max U+10FFFF).  Division/modulo instead of shifts so that lia can reason. *)
From W Require Import model.Base.

Definition is_scalar (c : N) : bool :=
  (c <? 55296) || ((57343 <? c) && (c <? 1114112)).

Definition utf8_enc1 (c : N) : list N :=
  if c <? 128 then [c]
  else if c <? 2048 then [192 + c / 64; 128 + c mod 64]
  else if c <? 65536 then [224 + c / 4096; 128 + (c / 64) mod 64; 128 + c mod 64]
  else [240 + c / 262144; 128 + (c / 4096) mod 64; 128 + (c / 64) mod 64; 128 + c mod 64].

Fixpoint utf8_encode (s : str) : list N :=
  match s with [] => [] | c :: r => utf8_enc1 c ++ utf8_encode r end.

Definition is_cont (b : N) : bool := (128 <=? b) && (b <? 192).

(* decode one scalar from the front; None = invalid *)
Definition utf8_dec1 (bs : list N) : option (N * list N) :=
  match bs with
  | [] => None
  | b0 :: r =>
    if b0 <? 128 then Some (b0, r)
    else if b0 <? 194 then None                      (* continuation or overlong 2-byte lead *)
    else if b0 <? 224 then
      match r with
      | b1 :: r1 => if is_cont b1 then Some ((b0 - 192) * 64 + (b1 - 128), r1) else None
      | _ => None
      end
    else if b0 <? 240 then
      match r with
      | b1 :: b2 :: r2 =>
        if is_cont b1 && is_cont b2 then
          let c := (b0 - 224) * 4096 + (b1 - 128) * 64 + (b2 - 128) in
          if (c <? 2048) || ((55295 <? c) && (c <? 57344)) then None else Some (c, r2)
        else None
      | _ => None
      end
    else if b0 <? 245 then
      match r with
      | b1 :: b2 :: b3 :: r3 =>
        if is_cont b1 && is_cont b2 && is_cont b3 then
          let c := (b0 - 240) * 262144 + (b1 - 128) * 4096 + (b2 - 128) * 64 + (b3 - 128) in
          if (c <? 65536) || (1114111 <? c) then None else Some (c, r3)
        else None
      | _ => None
      end
    else None
  end.

Fixpoint utf8_decode_fuel (fuel : nat) (bs : list N) : option str :=
  match bs with
  | [] => Some []
  | _ =>
    match fuel with
    | O => None
    | S f =>
      match utf8_dec1 bs with
      | None => None
      | Some (c, r) => match utf8_decode_fuel f r with
                       | None => None
                       | Some s => Some (c :: s)
                       end
      end
    end
  end.
Definition utf8_decode (bs : list N) : option str := utf8_decode_fuel (length bs) bs.
