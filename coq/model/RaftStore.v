(* RaftStore.v — octopii's durable Raft storage as the code implements it (definitions only).

   Source of every definition (read branch by branch):
     /repo/octopii/src/wal/mod.rs           WriteAheadLog::{new, append, read_all} over octopii's own
                                            fork of walrus (the directory src/wal/wal), opened StrictlyAtOnce
     /repo/octopii/src/openraft/storage.rs  WalLogRecord, WalLogStore::{new, recover_from_wal, persist_record,
                                            append, truncate, purge, save_vote, save_committed},
                                            MemLogStoreInner::{truncate, purge}, MemStateMachine::apply
     /repo/octopii/src/openraft/node.rs     PeerAddrRecord, load_peer_addr_records, append_peer_addr_record,
                                            persist_peer_addr_if_needed, the peer part of
                                            new_with_optional_state_machine

   The WAL wrapper is a queue with a DURABLE CONSUMING cursor: read_all issues
   batch_read_for_topic(.., checkpoint = true, None) until two reads in a row come back empty, and in
   StrictlyAtOnce every such read persists the consumer position.  The position survives a restart, so
   what read_all returns in one lifetime is never returned again.  [Replaying] is the wrapper with the
   proposed repair (the persisted position is dropped when the log is opened).

   Domain (stated as assumptions in the evidence, probed by the check):
     - read_all is called only before the first append of a lifetime (the three callers in octopii
       do exactly that).  A read_all after an append persists a position inside the writer's block
       under a block id that the next lifetime assigns differently; that path is not modelled
       ([wal_disciplined] is the predicate).
     - one record plus its 64-byte header fits one 10 MiB block.
     - no file is reclaimed (needs 1000 MiB written by one process lifetime). *)
From W Require Import model.Base.

(* ====================================================================================== *)
(* 1. WriteAheadLog (wal/mod.rs)                                                           *)
(* ====================================================================================== *)

Inductive wmode : Type := Consuming | Replaying.

Record wal (A : Type) : Type := mkWal {
  w_log : list A;    (* every acknowledged append, oldest first — durable *)
  w_cur : nat;       (* number of entries consumed — durable (read_offset_idx) *)
  w_off : N          (* offset_counter — in memory, starts at 0 in every lifetime *)
}.
Arguments mkWal {A} _ _ _.
Arguments w_log {A} _.
Arguments w_cur {A} _.
Arguments w_off {A} _.

Definition wal_empty {A : Type} : wal A := mkWal [] 0%nat 0.

(* append: walrus.append_for_topic, then offset_counter.fetch_add(1) is returned *)
Definition wal_append {A : Type} (w : wal A) (p : A) : wal A * N :=
  (mkWal (w_log w ++ [p]) (w_cur w) (w_off w + 1), w_off w).

(* read_all: consuming batch reads until nothing is left.  [keep] = "payload is not empty": the
   fork's batch read consumes zero-length entries without returning them. *)
Definition wal_read_all {A : Type} (keep : A -> bool) (w : wal A) : wal A * list A :=
  (mkWal (w_log w) (length (w_log w)) (w_off w), filter keep (skipn (w_cur w) (w_log w))).

(* drop + WriteAheadLog::new on the same path (same process or a new one) *)
Definition wal_reopen {A : Type} (m : wmode) (w : wal A) : wal A :=
  mkWal (w_log w) (match m with Consuming => w_cur w | Replaying => 0%nat end) 0.

Inductive wop (A : Type) : Type :=
| WAppend (p : A)
| WReadAll
| WReopen.
Arguments WAppend {A} _.
Arguments WReadAll {A}.
Arguments WReopen {A}.

Inductive wres (A : Type) : Type :=
| WOff (n : N)
| WEntries (l : list A)
| WOpened.
Arguments WOff {A} _.
Arguments WEntries {A} _.
Arguments WOpened {A}.

Definition wal_step {A : Type} (m : wmode) (keep : A -> bool) (w : wal A) (o : wop A) : wal A * wres A :=
  match o with
  | WAppend p => let (w', n) := wal_append w p in (w', WOff n)
  | WReadAll => let (w', l) := wal_read_all keep w in (w', WEntries l)
  | WReopen => (wal_reopen m w, WOpened)
  end.

Fixpoint wal_run {A : Type} (m : wmode) (keep : A -> bool) (w : wal A) (ops : list (wop A)) : list (wres A) :=
  match ops with
  | [] => []
  | o :: r => let (w', x) := wal_step m keep w o in x :: wal_run m keep w' r
  end.

(* the calling discipline of the model's domain: no read_all after an append of the same lifetime *)
Fixpoint wal_disciplined {A : Type} (fresh : bool) (ops : list (wop A)) : bool :=
  match ops with
  | [] => true
  | WAppend _ :: r => wal_disciplined false r
  | WReadAll :: r => fresh && wal_disciplined fresh r
  | WReopen :: r => wal_disciplined true r
  end.

(* ====================================================================================== *)
(* 2. Log store (openraft/storage.rs)                                                      *)
(* ====================================================================================== *)

(* LogId { leader_id: LeaderId { term, node_id }, index } — derive(PartialOrd, Ord): by field order *)
Record logid : Type := mkLogId { l_term : N; l_node : N; l_index : N }.

Definition logid_ltb (a b : logid) : bool :=
  if l_term a <? l_term b then true
  else if l_term b <? l_term a then false
  else if l_node a <? l_node b then true
  else if l_node b <? l_node a then false
  else l_index a <? l_index b.

(* ld.as_ref() <= Some(&log_id) on Option<&LogId>: None is below every Some *)
Definition opt_logid_le (ld : option logid) (b : logid) : bool :=
  match ld with
  | None => true
  | Some a => negb (logid_ltb b a)
  end.

Inductive payload : Type :=
| PBlank
| PNormal (d : list N)      (* AppEntry(Vec<u8>) *)
| PMember (k : N).          (* Membership, opaque to the code under study *)

Record lentry : Type := mkEntry { e_id : logid; e_pl : payload }.
Definition e_idx (e : lentry) : N := l_index (e_id e).

Record vote : Type := mkVote { v_term : N; v_node : N; v_committed : bool }.

(* enum WalLogRecord *)
Inductive record : Type :=
| RLog (e : lentry)
| RVote (v : vote)
| RCommitted (c : option logid)
| RPurged (l : logid)
| RTruncated (l : logid).

(* MemLogStoreInner; the BTreeMap<u64, Entry> is the list of its values in key order *)
Record mem : Type := mkMem {
  m_purged : option logid;
  m_log : list lentry;
  m_committed : option logid;
  m_vote : option vote
}.
Definition mem_empty : mem := mkMem None [] None None.

(* BTreeMap::insert(lentry.log_id.index, lentry) *)
Fixpoint log_insert (e : lentry) (l : list lentry) : list lentry :=
  match l with
  | [] => [e]
  | x :: r =>
      if e_idx e <? e_idx x then e :: l
      else if e_idx e =? e_idx x then e :: r
      else x :: log_insert e r
  end.
(* remove every key in range(i..) *)
Definition log_truncate (i : N) (l : list lentry) : list lentry := filter (fun x => e_idx x <? i) l.
(* remove every key in range(..=i) *)
Definition log_purge (i : N) (l : list lentry) : list lentry := filter (fun x => i <? e_idx x) l.

(* recover_from_wal: one arm per record kind *)
Definition apply_record (m : mem) (r : record) : mem :=
  match r with
  | RLog e => mkMem (m_purged m) (log_insert e (m_log m)) (m_committed m) (m_vote m)
  | RVote v => mkMem (m_purged m) (m_log m) (m_committed m) (Some v)
  | RCommitted c => mkMem (m_purged m) (m_log m) c (m_vote m)
  | RPurged l => mkMem (Some l) (log_purge (l_index l) (m_log m)) (m_committed m) (m_vote m)
  | RTruncated l => mkMem (m_purged m) (log_truncate (l_index l) (m_log m)) (m_committed m) (m_vote m)
  end.

Fixpoint replay_from (m : mem) (rs : list record) : mem :=
  match rs with
  | [] => m
  | r :: rest => replay_from (apply_record m r) rest
  end.
Definition replay (rs : list record) : mem := replay_from mem_empty rs.

(* the live operations of WalLogStore: memory first, then persist_record (one record per lentry) *)
Fixpoint live_insert_all (es : list lentry) (l : list lentry) : list lentry :=
  match es with
  | [] => l
  | e :: r => live_insert_all r (log_insert e l)
  end.
Definition live_append (m : mem) (es : list lentry) : mem :=
  mkMem (m_purged m) (live_insert_all es (m_log m)) (m_committed m) (m_vote m).
Definition live_truncate (m : mem) (l : logid) : mem :=
  mkMem (m_purged m) (log_truncate (l_index l) (m_log m)) (m_committed m) (m_vote m).
(* MemLogStoreInner::purge starts with assert!(ld.as_ref() <= Some(&log_id)): None = the assertion fails *)
Definition live_purge (m : mem) (l : logid) : option mem :=
  if opt_logid_le (m_purged m) l
  then Some (mkMem (Some l) (log_purge (l_index l) (m_log m)) (m_committed m) (m_vote m))
  else None.
Definition live_vote (m : mem) (v : vote) : mem := mkMem (m_purged m) (m_log m) (m_committed m) (Some v).
Definition live_committed (m : mem) (c : option logid) : mem := mkMem (m_purged m) (m_log m) c (m_vote m).

Fixpoint wal_append_all {A : Type} (w : wal A) (ps : list A) : wal A :=
  match ps with
  | [] => w
  | p :: r => wal_append_all (fst (wal_append w p)) r
  end.

(* ====================================================================================== *)
(* 3. Peer address book (openraft/node.rs)                                                 *)
(* ====================================================================================== *)

(* PeerAddrRecord { peer_id, addr }; an address is host * 65536 + port *)
Definition prec : Type := (N * N)%type.
Definition book : Type := list prec.   (* HashMap<u64, SocketAddr>, kept in key order *)

Fixpoint pb_get (k : N) (b : book) : option N :=
  match b with
  | [] => None
  | (k', a) :: r => if k =? k' then Some a else pb_get k r
  end.
Fixpoint pb_set (k a : N) (b : book) : book :=
  match b with
  | [] => [(k, a)]
  | (k', a') :: r =>
      if k <? k' then (k, a) :: b
      else if k =? k' then (k, a) :: r
      else (k', a') :: pb_set k a r
  end.
Definition opt_n_eqb (x y : option N) : bool :=
  match x, y with
  | None, None => true
  | Some a, Some b => a =? b
  | _, _ => false
  end.

(* load_peer_addr_records *)
Fixpoint replay_peers_from (b : book) (rs : list prec) : book :=
  match rs with
  | [] => b
  | (k, a) :: rest => replay_peers_from (pb_set k a b) rest
  end.
Definition replay_peers (rs : list prec) : book := replay_peers_from [] rs.

(* (peer_addr.port() % 10) as u64 *)
Definition peer_id_of (addr : N) : N := (addr mod 65536) mod 10.

(* "map differs -> insert and append a record": the body shared by the start-up loop over
   config.peers and persist_peer_addr_if_needed; the bool says whether a record was appended *)
Definition peer_upsert (k a : N) (b : book) (w : wal prec) : book * wal prec * bool :=
  if opt_n_eqb (pb_get k b) (Some a) then (b, w, false)
  else (pb_set k a b, fst (wal_append w (k, a)), true).

(* for peer_addr in config.peers: if peer_id != node_id && peer_id > 0 && map differs { append; insert } *)
Fixpoint peer_assert (node : N) (ps : list N) (b : book) (w : wal prec) : book * wal prec :=
  match ps with
  | [] => (b, w)
  | p :: r =>
      let k := peer_id_of p in
      if negb (k =? node) && (0 <? k)
      then let '(b', w', _) := peer_upsert k p b w in peer_assert node r b' w'
      else peer_assert node r b w
  end.

(* ====================================================================================== *)
(* 4. One node: both stores, operations, restarts                                          *)
(* ====================================================================================== *)

Record ncfg : Type := mkCfg {
  c_mode : wmode;
  c_node : N;            (* config.node_id *)
  c_bind : N;            (* config.bind_addr *)
  c_peers : list N       (* config.peers *)
}.

Record node : Type := mkNode {
  n_lw : wal record;     (* wal_dir/openraft_log *)
  n_mem : mem;
  n_pw : wal prec;       (* wal_dir/peer_addrs *)
  n_book : book
}.

Definition keep_all {A : Type} (_ : A) : bool := true.   (* a bincode record is never empty *)

(* the start-up sequence: WalLogStore::new (recover_from_wal), then the peer book *)
Definition node_open (c : ncfg) (lw : wal record) (pw : wal prec) : node :=
  let (lw1, rs) := wal_read_all keep_all lw in
  let (pw1, prs) := wal_read_all keep_all pw in
  let b1 := pb_set (c_node c) (c_bind c) (replay_peers prs) in
  let (b2, pw2) := peer_assert (c_node c) (c_peers c) b1 pw1 in
  mkNode lw1 (replay rs) pw2 b2.

Definition node_init (c : ncfg) : node := node_open c wal_empty wal_empty.

Inductive sop : Type :=
| SAppend (es : list lentry)
| STruncate (l : logid)
| SPurge (l : logid)
| SVote (v : vote)
| SCommitted (c : option logid)
| SPeer (k a : N)
| SReopen
| SState          (* observation: vote, committed, purged, log *)
| SPeers.         (* observation: the address book *)

Inductive sres : Type :=
| XOk
| XPanic
| XErr                      (* never produced by the model (no I/O faults); implementations may *)
| XPersisted (b : bool)
| XState (m : mem)
| XBook (b : book).

Definition node_step (c : ncfg) (n : node) (o : sop) : node * sres :=
  match o with
  | SAppend es =>
      (mkNode (wal_append_all (n_lw n) (map RLog es)) (live_append (n_mem n) es) (n_pw n) (n_book n), XOk)
  | STruncate l =>
      (mkNode (fst (wal_append (n_lw n) (RTruncated l))) (live_truncate (n_mem n) l) (n_pw n) (n_book n), XOk)
  | SPurge l =>
      match live_purge (n_mem n) l with
      | Some m' => (mkNode (fst (wal_append (n_lw n) (RPurged l))) m' (n_pw n) (n_book n), XOk)
      | None => (n, XPanic)
      end
  | SVote v =>
      (mkNode (fst (wal_append (n_lw n) (RVote v))) (live_vote (n_mem n) v) (n_pw n) (n_book n), XOk)
  | SCommitted cm =>
      (mkNode (fst (wal_append (n_lw n) (RCommitted cm))) (live_committed (n_mem n) cm) (n_pw n) (n_book n), XOk)
  | SPeer k a =>
      let '(b', w', p) := peer_upsert k a (n_book n) (n_pw n) in
      (mkNode (n_lw n) (n_mem n) w' b', XPersisted p)
  | SReopen => (node_open c (wal_reopen (c_mode c) (n_lw n)) (wal_reopen (c_mode c) (n_pw n)), XOk)
  | SState => (n, XState (n_mem n))
  | SPeers => (n, XBook (n_book n))
  end.

Fixpoint run_from (c : ncfg) (n : node) (h : list sop) : node * list (sop * sres) :=
  match h with
  | [] => (n, [])
  | o :: r =>
      let (n', x) := node_step c n o in
      let (n'', tr) := run_from c n' r in
      (n'', (o, x) :: tr)
  end.
Definition node_run (c : ncfg) (h : list sop) : node * list (sop * sres) := run_from c (node_init c) h.
Definition final (c : ncfg) (h : list sop) : node := fst (node_run c h).
Definition trace (c : ncfg) (h : list sop) : list (sop * sres) := snd (node_run c h).

(* ====================================================================================== *)
(* 5. State-machine adapter (MemStateMachine::apply), for C19                              *)
(* ====================================================================================== *)

(* the application state machine is any function command -> (new state, Ok response | Err) *)
Record smdata (S : Type) : Type := mkSm {
  sm_app : S;
  sm_last : option logid;            (* last_applied_log *)
  sm_memb : option (logid * N);      (* last_membership = StoredMembership::new(Some(log_id), mem) *)
  sm_cmds : list (list N);           (* ghost: every command handed to the application, oldest first *)
  sm_resp : list (N * list N)        (* responses sent to waiting clients: (lentry index, bytes) *)
}.
Arguments mkSm {S} _ _ _ _ _.
Arguments sm_app {S} _.
Arguments sm_last {S} _.
Arguments sm_memb {S} _.
Arguments sm_cmds {S} _.
Arguments sm_resp {S} _.

Definition sm_init {S : Type} (s : S) : smdata S := mkSm s None None [] [].

(* while let Some((lentry, responder)) = entries.try_next().await? { .. } ; bool = a responder is attached *)
Fixpoint sm_apply {S : Type} (app : S -> list N -> S * option (list N))
         (st : smdata S) (es : list (lentry * bool)) : smdata S * bool :=
  match es with
  | [] => (st, true)
  | (e, waiting) :: r =>
      let st1 := mkSm (sm_app st) (Some (e_id e)) (sm_memb st) (sm_cmds st) (sm_resp st) in
      match e_pl e with
      | PBlank =>
          sm_apply app (mkSm (sm_app st1) (sm_last st1) (sm_memb st1) (sm_cmds st1)
                             (if waiting then sm_resp st1 ++ [(e_idx e, [])] else sm_resp st1)) r
      | PNormal d =>
          match app (sm_app st1) d with
          | (s', Some resp) =>
              sm_apply app (mkSm s' (sm_last st1) (sm_memb st1) (sm_cmds st1 ++ [d])
                                 (if waiting then sm_resp st1 ++ [(e_idx e, resp)] else sm_resp st1)) r
          | (s', None) =>
              (* self.sm.apply(..) returned Err: `?` leaves the loop; last_applied_log already moved *)
              (mkSm s' (sm_last st1) (sm_memb st1) (sm_cmds st1) (sm_resp st1), false)
          end
      | PMember k =>
          sm_apply app (mkSm (sm_app st1) (sm_last st1) (Some (e_id e, k)) (sm_cmds st1)
                             (if waiting then sm_resp st1 ++ [(e_idx e, [])] else sm_resp st1)) r
      end
  end.

(* the recording application used by the harness: a command starting with '!' is refused,
   every other command is answered with "r:" ++ command *)
Definition rec_app (s : unit) (d : list N) : unit * option (list N) :=
  match d with
  | 33 :: _ => (s, None)
  | _ => (s, Some (114 :: 58 :: d))
  end.
