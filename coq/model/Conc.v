(* Conc.v — small-step concurrent model of one walrus instance (C05).

   Every API call is split into the atomic segments the code really has: a segment is a region
   of one call between two consecutive scheduling points, and the scheduling points sit at the
   lock operations on the per-topic column RwLock (ColReaderInfo), the writer mutexes
   (current_block + current_offset, always taken and released together), the batch flag
   (is_batch_writing) and the read-offset index lock.  Threads interleave at segment
   granularity with sequentially consistent memory.  The shared state is the sequential
   model's state (model/Engine.v: [st]) plus who holds which topic's writer mutexes and which
   topics have the batch flag set; thread-local state ([pc]) carries the snapshots the code
   keeps in local variables (tail snapshot, writer snapshot, batch plan, pending index write).

   Segments per call, with the scheduling point (hook site, HOOK.diff) that ends each one.
   Line numbers: /repo/src/wal/runtime at the revision the model was written from
   (walrus_read.rs = R, writer.rs = W, walrus_write.rs = WW, reader.rs = RD).

   append_for_topic (WW:4-12 -> Writer::write W:81-166)
     1  get_or_create_writer (writers map lock; allocates the topic's first block); batch-flag
        load W:83 (set -> WouldBlock, call ends); check_appendable W:87       .. w_flag
     2  lock current_block+current_offset W:89-94.  No rotation: Block::write, offset advance,
        unlock .. a_written.   Rotation (W:97): unlock the file tracker entry, flush        .. w_seal_pre
     2b Reader::append_block_to_chain RD:33-70 (column write lock: push, carry the tail
        progress over)                                                                    .. w_seal_post
     2c alloc_block, Block::write into the new block, offset := need, unlock              .. a_written
     3  increment_topic_entry_count (its own lock), return
   batch_append_for_topic (WW:14-22 -> Writer::batch_write W:162-370)
     1  get_or_create_writer; entry-count and byte limits W:175-194; check_appendable; empty
        batch -> Ok; compare_exchange on the batch flag W:200 (fails -> WouldBlock)       .. b_flag
     2  lock the writer mutexes; plan entries into the current block until one does not fit:
        all planned -> 2z.  Otherwise seal copy with used := planning offset W:270-273    .. b_seal_pre
     2b append_block_to_chain (the sealed copy's [used] covers planned, unwritten entries) .. b_seal_post
     2c alloc_block(max need block_size), current block := new, continue planning: -> 2z or .. b_seal_pre
     2z write every planned entry (io_uring batch or Block::write loop), flush, offset :=
        planning offset, unlock, flag := false (guard)                                    .. b_written
     3  increment_topic_entry_count(n), return
   read_next (R:24-380)
     1  reader map get/create; column write lock: hydrate from the index, fold a persisted
        tail position; unlock R:116                                                       .. rn_hyd
     2  loop top: column write lock.
        sealed block exhausted -> mark, advance, unlock (`continue`)                      .. rn_adv  (back to 2)
        sealed block has data  -> Block::read; Err -> return None; Ok: checkpoint -> advance
                                  the cursor, should_persist, unlock R:165                .. rn_s_commit
                                  (peek: unlock, return the entry)
        chain exhausted        -> tail snapshot (tail_block_id, tail_offset), unlock R:206 .. rn_t_snap
     3s index write lock: set(idx, off) when due                                          .. rn_s_idx
        (not due: skipped; then 4s)
     4s decrement_topic_entry_count, return the entry
     3t writers map read lock (no writer -> return None); Writer::snapshot_block (locks and
        releases the writer mutexes) R:219                                                .. rn_t_wsnap
     4t column write lock: known offset from the tail snapshot, provisional index write
        (nested index lock) when checkpoint and offset 0; unlock R:288                    .. rn_t_init
     5t no lock: offset < written -> Block::read on the snapshot (else return None); column
        write lock: checkpoint -> tail := (block, new offset), should_persist; unlock R:329 .. rn_t_commit
        (peek: return the entry)
     6t index write lock: set(block|TAIL, off) when due                                   .. rn_t_idx
     7t decrement_topic_entry_count, return the entry
   batch_read_for_topic, stateful (start_offset = None) (R:400-1245)
     1  writers map read lock; Writer::snapshot_block (BEFORE the column lock) R:424-437  .. br_wsnap
     2  reader map; column write lock R:647: hydrate, plan sealed ranges + tail range from the
        snapshot, read, parse, commit the in-memory cursor; unlock.  Nothing planned or
        nothing parsed -> return.  checkpoint ->                                          .. br_commit
        (peek under StrictlyAtOnce: return)
     3  index write lock: set when StrictlyAtOnce                                         .. br_idx
     4  decrement_topic_entry_count(parsed), return
     Not modelled: AtLeastOnce peeks (the lock is released before the I/O: site br_unlock)
     and offset-addressed reads; both are marked [ts_unmodelled].

   Folded into the following segment (they touch no modelled shared state other than creating
   an empty map entry): the reader-map and writers-map lock regions.  A nested index-lock
   region inside a column-lock region (hydration reads, the provisional tail write) is part
   of its column-lock segment: index-lock regions never wait for anything else.

   [fx] selects the code WITH the proposed fix (PROPOSED_FIX.diff) applied:
     read_next 4t: a block sealed since the tail snapshot sends the call back to the sealed
       path, and the tail position is re-read under this lock;
     read_next 5t: before committing, the snapshot block must still be unsealed and the tail
       position unchanged, otherwise the read is retried from the loop top;
     batch read 2: a writer snapshot whose block has been sealed meanwhile is dropped.
   Definitions only — proofs in proofs/Conc*.v. *)
From W Require Import model.Base model.Engine.

(* ------------------------------------------------------------------ calls, sites *)
Inductive call :=
| CAppend (t : topic) (e : entry)
| CBatch (t : topic) (es : list entry)
| CRead (t : topic) (ck : bool)
| CBatchRead (t : topic) (maxb : N) (ck : bool).

Definition call_topic (c : call) : topic :=
  match c with CAppend t _ | CBatch t _ | CRead t _ | CBatchRead t _ _ => t end.

Inductive site :=
| SRet
| S_w_flag | S_w_seal_pre | S_w_seal_post | S_a_written
| S_b_flag | S_b_seal_pre | S_b_seal_post | S_b_written
| S_rn_hyd | S_rn_adv | S_rn_s_commit | S_rn_s_idx
| S_rn_t_snap | S_rn_t_wsnap | S_rn_t_init | S_rn_t_commit | S_rn_t_idx
| S_br_wsnap | S_br_commit | S_br_idx.

(* the plan of a batch append in flight (Writer::batch_write's local variables) *)
Record cbstate := {
  bs_cur : blk;                       (* current block; b_used = planning offset, b_ents = what is on disk *)
  bs_plan : list entry;               (* planned into bs_cur by this batch, not yet written *)
  bs_sealed : list (N * list entry);  (* blocks sealed by this batch: id, entries still to be written into them *)
  bs_rest : list entry                (* not yet planned *)
}.

Inductive pc :=
| PStart
| PA_flag | PA_seal_pre (sealed : blk) | PA_seal_post | PA_written
| PB_flag | PB_seal_pre (b : cbstate) | PB_seal_post (b : cbstate) | PB_written
| PR_top                                                   (* parked at rn_hyd / rn_adv: next is the loop top *)
| PR_commit (tl : bool) (r : result) (pers : option ppos)  (* cursor committed; index write / count owed *)
| PR_idx (r : result)
| PR_t_snap (sb so : N)
| PR_t_wsnap (sb so : N) (a : blk)
| PR_t_init (a : blk) (off : N)
| PBR_wsnap (w : option blk)
| PBR_commit (r : result) (pers : option ppos) (n : N)
| PBR_idx (r : result) (n : N).

(* ------------------------------------------------------------------ shared state *)
Record shared := {
  sh_st : st;
  sh_wl : list (N * nat);     (* topics whose writer mutexes are held, and by which thread *)
  sh_bf : list N              (* topics whose is_batch_writing flag is set *)
}.
Definition with_st (sh : shared) (s : st) : shared := {| sh_st := s; sh_wl := sh_wl sh; sh_bf := sh_bf sh |}.

Definition wl_holder (wl : list (N * nat)) (t : N) : option nat :=
  match find (fun p => fst p =? t) wl with Some p => Some (snd p) | None => None end.
Definition wl_take (sh : shared) (t : N) (tid : nat) : shared :=
  {| sh_st := sh_st sh; sh_wl := (t, tid) :: sh_wl sh; sh_bf := sh_bf sh |}.
Definition wl_release (sh : shared) (t : N) : shared :=
  {| sh_st := sh_st sh; sh_wl := filter (fun p => negb (fst p =? t)) (sh_wl sh); sh_bf := sh_bf sh |}.
Definition bf_mem (bf : list N) (t : N) : bool := existsb (N.eqb t) bf.
Definition bf_set (sh : shared) (t : N) : shared :=
  {| sh_st := sh_st sh; sh_wl := sh_wl sh; sh_bf := t :: sh_bf sh |}.
Definition bf_clear (sh : shared) (t : N) : shared :=
  {| sh_st := sh_st sh; sh_wl := sh_wl sh; sh_bf := filter (fun x => negb (x =? t)) (sh_bf sh) |}.

Definition upd_ts (sh : shared) (t : N) (ts : tstate) : shared := with_st sh (set_ts (sh_st sh) t ts).

Inductive segres :=
| SPark (sh : shared) (p : pc) (l : site)    (* reached scheduling point l *)
| SDoneC (sh : shared) (r : result)            (* the call returned *)
| SBlockedC.                                   (* needs writer mutexes another thread holds *)

(* ------------------------------------------------------------------ append *)
Definition write_entry (s : st) (t : topic) (w : blk) (c : Cfg) (e : entry) : st :=
  let s3 := st_disk_write s w t [e] in
  set_ts s3 (t_id t) (with_writer (get_ts s3 (t_id t)) (Some (blk_add w c [e]))).

Definition seg_append (c : Cfg) (tid : nat) (sh : shared) (t : topic) (e : entry) (p : pc) : segres :=
  let s := sh_st sh in
  match p with
  | PStart =>
    let '(s1, _) := ensure_writer c s t in
    let sh1 := with_st sh s1 in
    if bf_mem (sh_bf sh) (t_id t) then SDoneC sh1 (RErr EWouldBlock) else
    match appendable c t (e_len e) with
    | Some k => SDoneC sh1 (RErr k)
    | None => SPark sh1 PA_flag S_w_flag
    end
  | PA_flag =>
    match wl_holder (sh_wl sh) (t_id t) with
    | Some _ => SBlockedC
    | None =>
      match ts_writer (get_ts s (t_id t)) with
      | None => SDoneC sh (RErr EOther)
      | Some w =>
        if b_limit w <? b_used w + need c e
        then SPark (wl_take sh (t_id t) tid) (PA_seal_pre w) S_w_seal_pre
        else SPark (with_st sh (write_entry s t w c e)) PA_written S_a_written
      end
    end
  | PA_seal_pre w =>
    SPark (upd_ts sh (t_id t) (seal (get_ts s (t_id t)) w)) PA_seal_post S_w_seal_post
  | PA_seal_post =>
    match alloc_sized c s (need c e) with
    | None => SDoneC (wl_release sh (t_id t)) (RErr EInvalidInput)
    | Some (s1, nb) => SPark (wl_release (with_st sh (write_entry s1 t nb c e)) (t_id t)) PA_written S_a_written
    end
  | PA_written => SDoneC (upd_ts sh (t_id t) (count_add (get_ts s (t_id t)) 1)) ROk
  | _ => SDoneC sh RPanic
  end.

(* ------------------------------------------------------------------ batch append *)
(* plan entries into the current block while they fit.  (The disk image [s_disk], which only
   recovery reads, receives an entry when it is planned, exactly as in Engine.batch_plan; what
   readers can see of a block is its [b_ents], which grows only when the batch is written.) *)
Fixpoint bplan (c : Cfg) (s : st) (t : topic) (cur : blk) (plan rest : list entry) : st * blk * list entry * list entry :=
  match rest with
  | [] => (s, cur, plan, [])
  | e :: r =>
    if need c e <=? b_limit cur - b_used cur
    then bplan c (st_disk_write s cur t [e]) t
               {| b_id := b_id cur; b_file := b_file cur; b_off := b_off cur; b_limit := b_limit cur;
                  b_used := b_used cur + need c e; b_ents := b_ents cur |} (plan ++ [e]) r
    else (s, cur, plan, rest)
  end.

Definition blk_fill (b : blk) (es : list entry) : blk :=
  {| b_id := b_id b; b_file := b_file b; b_off := b_off b; b_limit := b_limit b; b_used := b_used b;
     b_ents := b_ents b ++ es |}.

(* the data of a sealed block reaches the disk: the chain's copy shows it from now on *)
Definition chain_fill (r : reader) (id : N) (es : list entry) : reader :=
  {| r_chain := map (fun b => if b_id b =? id then blk_fill b es else b) (r_chain r);
     r_idx := r_idx r; r_off := r_off r; r_tail_bid := r_tail_bid r; r_tail_off := r_tail_off r;
     r_since := r_since r; r_hydrated := r_hydrated r |}.

Fixpoint fill_sealed (ts : tstate) (l : list (N * list entry)) : tstate :=
  match l with
  | [] => ts
  | (id, es) :: r =>
    fill_sealed (match ts_reader ts with
                 | Some rd => with_reader ts (chain_fill rd id es)
                 | None => ts end) r
  end.

(* all planned: write everything, publish, release *)
Definition batch_finish (c : Cfg) (sh : shared) (t : topic) (b : cbstate) : segres :=
  let s := sh_st sh in
  let ts1 := fill_sealed (get_ts s (t_id t)) (bs_sealed b) in
  let ts2 := with_writer ts1 (Some (blk_fill (bs_cur b) (bs_plan b))) in
  SPark (bf_clear (wl_release (with_st sh (set_ts s (t_id t) ts2)) (t_id t)) (t_id t)) PB_written S_b_written.

Definition batch_continue (c : Cfg) (sh : shared) (t : topic) (b : cbstate) : segres :=
  let '(s1, cur, plan, rest) := bplan c (sh_st sh) t (bs_cur b) (bs_plan b) (bs_rest b) in
  let b' := {| bs_cur := cur; bs_plan := plan; bs_sealed := bs_sealed b; bs_rest := rest |} in
  match rest with
  | [] => batch_finish c (with_st sh s1) t b'
  | _ => SPark (with_st sh s1) (PB_seal_pre b') S_b_seal_pre
  end.

Definition seg_batch (c : Cfg) (tid : nat) (sh : shared) (t : topic) (es : list entry) (p : pc) : segres :=
  let s := sh_st sh in
  match p with
  | PStart =>
    let '(s1, _) := ensure_writer c s t in
    let sh1 := with_st sh s1 in
    if c_max_entries c <? N.of_nat (length es) then SDoneC sh1 (RErr EInvalidInput) else
    if c_max_bytes c <? sum_need c es then SDoneC sh1 (RErr EInvalidInput) else
    match appendable c t (max_len es) with
    | Some k => SDoneC sh1 (RErr k)
    | None =>
      match es with
      | [] => SDoneC sh1 ROk
      | _ => if bf_mem (sh_bf sh) (t_id t) then SDoneC sh1 (RErr EWouldBlock)
             else SPark (bf_set sh1 (t_id t)) PB_flag S_b_flag
      end
    end
  | PB_flag =>
    match wl_holder (sh_wl sh) (t_id t) with
    | Some _ => SBlockedC
    | None =>
      match ts_writer (get_ts s (t_id t)) with
      | None => SDoneC (bf_clear sh (t_id t)) (RErr EOther)
      | Some w => batch_continue c (wl_take sh (t_id t) tid) t
                    {| bs_cur := w; bs_plan := []; bs_sealed := []; bs_rest := es |}
      end
    end
  | PB_seal_pre b =>
    (* the sealed copy: what is on disk, [used] = planning offset *)
    SPark (upd_ts sh (t_id t) (seal (get_ts s (t_id t)) (bs_cur b)))
          (PB_seal_post {| bs_cur := bs_cur b; bs_plan := []; bs_sealed := bs_sealed b ++ [(b_id (bs_cur b), bs_plan b)];
                           bs_rest := bs_rest b |}) S_b_seal_post
  | PB_seal_post b =>
    match bs_rest b with
    | [] => SDoneC sh RPanic
    | e :: _ =>
      match alloc_sized c s (N.max (need c e) (c_block c)) with
      | None => SDoneC (bf_clear (wl_release (with_st sh (mark_unmodelled s (t_id t))) (t_id t)) (t_id t)) (RErr EInvalidInput)
      | Some (s1, nb) =>
        (* the blocks sealed so far still wait for their data; remember where it goes *)
        batch_continue c (with_st sh s1) t {| bs_cur := nb; bs_plan := []; bs_sealed := bs_sealed b; bs_rest := bs_rest b |}
      end
    end
  | PB_written => SDoneC (upd_ts sh (t_id t) (count_add (get_ts s (t_id t)) (N.of_nat (length es)))) ROk
  | _ => SDoneC sh RPanic
  end.

(* ------------------------------------------------------------------ read_next *)
(* first locked section: hydration and folding of a persisted tail position *)
Definition rn_hydrate (ts : tstate) : reader :=
  let r0 := reader_of ts in
  let '(r1, pt) := hydrate r0 (ts_index ts) false in
  match pt with
  | Some (id, off) =>
    match r_chain r1 with
    | [] => r1
    | _ => match find_id (r_chain r1) id 0 with
           | Some j => set_cur r1 j (match used_at (r_chain r1) j with Some u => N.min off u | None => 0 end)
           | None => set_cur r1 0 0
           end
    end
  | None => r1
  end.

Definition pers_of (p : bool) (tail : bool) (a off : N) : option ppos :=
  if p then Some {| p_tail := tail; p_a := a; p_off := off |} else None.

(* loop top: one locked section *)
Definition rn_top (c : Cfg) (m : mode) (sh : shared) (t : topic) (ck : bool) : segres :=
  let s := sh_st sh in
  let ts := get_ts s (t_id t) in
  let r := reader_of ts in
  match nth_error (r_chain r) (r_idx r) with
  | Some b =>
    if b_used b <=? r_off r
    then SPark (upd_ts sh (t_id t) (with_reader ts (set_cur r (S (r_idx r)) 0))) PR_top S_rn_adv
    else
      match block_read c b (r_off r) with
      | None => SDoneC sh RNone
      | Some (e, consumed) =>
        if ck then
          let r4 := set_cur r (r_idx r) (r_off r + consumed) in
          let '(r5, p) := should_persist m r4 false in
          SPark (upd_ts sh (t_id t) (with_reader ts r5))
                (PR_commit false (REntry (out_of e)) (pers_of p false (N.of_nat (r_idx r)) (r_off r + consumed)))
                S_rn_s_commit
        else SDoneC sh (REntry (out_of e))
      end
  | None => SPark sh (PR_t_snap (r_tail_bid r) (r_tail_off r)) S_rn_t_snap
  end.

(* has the block of a writer snapshot been sealed since?  chain ids ascend *)
Fixpoint last_id (ch : list blk) : option N :=
  match ch with
  | [] => None
  | b :: r => match r with [] => Some (b_id b) | _ => last_id r end
  end.
Definition sealed_since (ch : list blk) (a : blk) : bool :=
  match last_id ch with
  | Some l => b_id a <=? l
  | None => false
  end.

Definition seg_read (c : Cfg) (m : mode) (fx : bool) (tid : nat) (sh : shared) (t : topic) (ck : bool) (p : pc) : segres :=
  let s := sh_st sh in
  let ts := get_ts s (t_id t) in
  match p with
  | PStart => SPark (upd_ts sh (t_id t) (with_reader ts (rn_hydrate ts))) PR_top S_rn_hyd
  | PR_top => rn_top c m sh t ck
  | PR_commit tl r pers =>
    match pers with
    | Some pp => SPark (upd_ts sh (t_id t) (with_index ts pp)) (PR_idx r) (if tl then S_rn_t_idx else S_rn_s_idx)
    | None => SDoneC (upd_ts sh (t_id t) (count_sub ts 1)) r
    end
  | PR_idx r => SDoneC (upd_ts sh (t_id t) (count_sub ts 1)) r
  | PR_t_snap sb so =>
    match ts_writer ts with
    | None => SDoneC sh RNone
    | Some w =>
      match wl_holder (sh_wl sh) (t_id t) with
      | Some _ => SBlockedC
      | None => SPark sh (PR_t_wsnap sb so w) S_rn_t_wsnap
      end
    end
  | PR_t_wsnap sb so a =>
    let r := reader_of ts in
    if fx && (r_idx r <? length (r_chain r))%nat then rn_top c m sh t ck else
    let '(sb', so') := if fx then (r_tail_bid r, r_tail_off r) else (sb, so) in
    let off := if sb' =? b_id a then so' else 0 in
    let ts1 :=
      if ck && (off =? 0) && (0 <? b_used a) then
        let '(r', p) := should_persist m r true in
        let ts' := with_reader ts r' in
        if p then persist ts' true (b_id a) 0 else ts'
      else ts in
    SPark (upd_ts sh (t_id t) ts1) (PR_t_init a off) S_rn_t_init
  | PR_t_init a off =>
    if off <? b_used a then
      match block_read c a off with
      | None => SDoneC sh RNone
      | Some (e, consumed) =>
        let r := reader_of ts in
        let cur_tail := if r_tail_bid r =? b_id a then r_tail_off r else 0 in
        if fx && ((r_idx r <? length (r_chain r))%nat || sealed_since (r_chain r) a || negb (cur_tail =? off))
        then rn_top c m sh t ck
        else if ck then
          let r5 := set_tail r (b_id a) (off + consumed) in
          let '(r6, p) := should_persist m r5 false in
          SPark (upd_ts sh (t_id t) (with_reader ts r6))
                (PR_commit true (REntry (out_of e)) (pers_of p true (b_id a) (off + consumed))) S_rn_t_commit
        else SDoneC sh (REntry (out_of e))
      end
    else SDoneC sh RNone
  | _ => SDoneC sh RPanic
  end.

(* ------------------------------------------------------------------ batch read (stateful) *)
Record br_out := {
  bo_ts : tstate;             (* after hydration and the in-memory commit *)
  bo_outs : list out;
  bo_pers : option ppos;      (* index write owed *)
  bo_parsed : N;
  bo_stateless : bool
}.

(* Engine.br_from with the writer snapshot as a parameter, stopped before the index write and
   the count update (which are later segments) *)
Definition br_core (c : Cfg) (m : mode) (maxb : N) (ck : bool) (ts : tstate) (pos : br_pos) (wsnap : option blk) : br_out :=
  let '(r1, chain, idx0, off0, tail_bid, tail_off, trim0, hint0, stateless) := pos in
  let ts_h := match r1 with Some r => with_reader ts r | None => ts end in
  let '(racc, planned, idx_after, truncated) :=
    plan_sealed c maxb stateless (skipn idx0 chain) idx0 off0 hint0 0 [] in
  let chain_len := length chain in
  let '(racc2, trim1) :=
    if negb truncated && (chain_len <=? idx_after)%nat then
      match wsnap with
      | Some w =>
        let '(tstart, trim) :=
          if stateless then
            match off_scan c (b_ents w) 0 (b_used w) tail_off with
            | (Some (co, _, tr), _) => (co, if co + c_hdr c <? tail_off then tr else trim0)
            | (None, _) => (0, trim0)
            end
          else ((if tail_bid =? b_id w then tail_off else 0), trim0) in
        if tstart <? b_used w
        then ({| pi_blk := w; pi_start := tstart; pi_end := b_used w; pi_tail := true; pi_idx := 0 |} :: racc, trim)
        else (racc, trim)
      | None => (racc, trim0)
      end
    else (racc, trim0) in
  match racc2 with
  | [] => {| bo_ts := ts_h; bo_outs := []; bo_pers := None; bo_parsed := 0; bo_stateless := stateless |}
  | _ =>
    let p0 := {| ps_outs := []; ps_n := 0; ps_total := 0; ps_parsed := 0; ps_trim := trim1;
                 ps_fin_idx := 0; ps_fin_off := 0; ps_tail_id := 0; ps_tail_off := 0; ps_saw_tail := false; ps_stop := false |} in
    let p := parse_plan c maxb (rev racc2) p0 in
    let '(ts_m, pers) :=
      if (0 <? ps_parsed p) && ck && negb stateless then
        let r := reader_of ts_h in
        let '(r', persist_disk) :=
          match m with
          | Strict => (r, true)
          | ALO n => let every := N.max n 1 in
                     let total := N.min u32_max (r_since r + ps_parsed p) in
                     (set_since r (if every <=? total then 0 else total), false)
          end in
        if ps_saw_tail p then
          (with_reader ts_h (set_tail (set_cur r' chain_len 0) (ps_tail_id p) (ps_tail_off p)),
           pers_of persist_disk true (ps_tail_id p) (ps_tail_off p))
        else
          (with_reader ts_h (set_cur r' (ps_fin_idx p) (ps_fin_off p)),
           pers_of persist_disk false (N.of_nat (ps_fin_idx p)) (ps_fin_off p))
      else (ts_h, None) in
    {| bo_ts := ts_m; bo_outs := rev (ps_outs p); bo_pers := pers; bo_parsed := ps_parsed p; bo_stateless := stateless |}
  end.

Definition is_alo (m : mode) : bool := match m with Strict => false | ALO _ => true end.

Definition seg_bread (c : Cfg) (m : mode) (fx : bool) (tid : nat) (sh : shared) (t : topic) (maxb : N) (ck : bool) (p : pc) : segres :=
  let s := sh_st sh in
  let ts := get_ts s (t_id t) in
  match p with
  | PStart =>
    match ts_writer ts with
    | None => SPark sh (PBR_wsnap None) S_br_wsnap
    | Some w =>
      match wl_holder (sh_wl sh) (t_id t) with
      | Some _ => SBlockedC
      | None => SPark sh (PBR_wsnap (Some w)) S_br_wsnap
      end
    end
  | PBR_wsnap wsnap =>
    if is_alo m && negb ck then SDoneC (with_st sh (mark_unmodelled s (t_id t))) (REntries []) else
    let pos := br_position c ts None in
    let '(_, chain, _, _, _, _, _, _, _) := pos in
    let wsnap' := match wsnap with
                  | Some w => if fx && sealed_since chain w then None else Some w
                  | None => None
                  end in
    let o := br_core c m maxb ck ts pos wsnap' in
    let sh1 := upd_ts sh (t_id t) (bo_ts o) in
    if (0 <? bo_parsed o) && ck
    then SPark sh1 (PBR_commit (REntries (bo_outs o)) (bo_pers o) (bo_parsed o)) S_br_commit
    else SDoneC sh1 (REntries (bo_outs o))
  | PBR_commit r pers n =>
    match pers with
    | Some pp => SPark (upd_ts sh (t_id t) (with_index ts pp)) (PBR_idx r n) S_br_idx
    | None => SDoneC (upd_ts sh (t_id t) (count_sub ts n)) r
    end
  | PBR_idx r n => SDoneC (upd_ts sh (t_id t) (count_sub ts n)) r
  | _ => SDoneC sh RPanic
  end.

(* ------------------------------------------------------------------ threads, schedules *)
Definition seg (v : env) (fx : bool) (tid : nat) (sh : shared) (cl : call) (p : pc) : segres :=
  match cl with
  | CAppend t e => seg_append (v_cfg v) tid sh t e p
  | CBatch t es => seg_batch (v_cfg v) tid sh t es p
  | CRead t ck => seg_read (v_cfg v) (v_mode v) fx tid sh t ck p
  | CBatchRead t maxb ck => seg_bread (v_cfg v) (v_mode v) fx tid sh t maxb ck p
  end.

Record thread := { th_todo : list call; th_pc : pc; th_done : list result (* newest first *) }.

Record cstate := { cs_sh : shared; cs_threads : list thread }.

Definition cinit (progs : list (list call)) : cstate :=
  {| cs_sh := {| sh_st := init; sh_wl := []; sh_bf := [] |};
     cs_threads := map (fun p => {| th_todo := p; th_pc := PStart; th_done := [] |}) progs |}.

Fixpoint c_set_nth {A} (l : list A) (n : nat) (x : A) : list A :=
  match l, n with
  | [], _ => []
  | _ :: r, O => x :: r
  | a :: r, S k => a :: c_set_nth r k x
  end.

Inductive coutcome := OStep (cs : cstate) (l : site) | OBlockedC | OFinished.

Definition cstep (v : env) (fx : bool) (tid : nat) (cs : cstate) : coutcome :=
  match nth_error (cs_threads cs) tid with
  | None => OFinished
  | Some th =>
    match th_todo th with
    | [] => OFinished
    | cl :: rest =>
      match seg v fx tid (cs_sh cs) cl (th_pc th) with
      | SBlockedC => OBlockedC
      | SPark sh p l =>
        OStep {| cs_sh := sh; cs_threads := c_set_nth (cs_threads cs) tid {| th_todo := cl :: rest; th_pc := p; th_done := th_done th |} |} l
      | SDoneC sh r =>
        OStep {| cs_sh := sh; cs_threads := c_set_nth (cs_threads cs) tid {| th_todo := rest; th_pc := PStart; th_done := r :: th_done th |} |} SRet
      end
    end
  end.

(* ---- the mechanism monitor: which known race windows did the run pass through? ---- *)
Record kflags := { k_two_readers : bool; k_seal_in_read : bool; k_seal_in_bread : bool }.
Definition kflags0 : kflags := {| k_two_readers := false; k_seal_in_read := false; k_seal_in_bread := false |}.

(* a consuming read_next between its tail snapshot and its commit, on topic t *)
Definition in_read_window (th : thread) (t : N) : bool :=
  match th_todo th with
  | CRead t' true :: _ =>
    (t_id t' =? t) && match th_pc th with PR_t_snap _ _ | PR_t_wsnap _ _ _ | PR_t_init _ _ => true | _ => false end
  | _ => false
  end.
(* a consuming batch read between its writer snapshot and its locked section *)
Definition in_bread_window (th : thread) (t : N) : bool :=
  match th_todo th with
  | CBatchRead t' _ true :: _ => (t_id t' =? t) && match th_pc th with PBR_wsnap _ => true | _ => false end
  | _ => false
  end.

Fixpoint others_exist (f : thread -> bool) (ths : list thread) (skip : nat) : bool :=
  match ths with
  | [] => false
  | th :: r => match skip with
               | O => existsb f r
               | S k => f th || others_exist f r k
               end
  end.

Definition cur_topic (cs : cstate) (tid : nat) : option N :=
  match nth_error (cs_threads cs) tid with
  | Some th => match th_todo th with cl :: _ => Some (t_id (call_topic cl)) | [] => None end
  | None => None
  end.

(* flags raised by one step: [cs] is the state BEFORE the step of thread tid that reached l *)
Definition kstep (cs : cstate) (tid : nat) (l : site) (k : kflags) : kflags :=
  match cur_topic cs tid with
  | None => k
  | Some t =>
    let commit := match l with S_rn_s_commit | S_rn_t_commit | S_br_commit => true | _ => false end in
    let sealed := match l with S_w_seal_post | S_b_seal_post => true | _ => false end in
    {| k_two_readers := k_two_readers k || (commit && others_exist (fun th => in_read_window th t) (cs_threads cs) tid);
       k_seal_in_read := k_seal_in_read k || (sealed && existsb (fun th => in_read_window th t) (cs_threads cs));
       k_seal_in_bread := k_seal_in_bread k || (sealed && existsb (fun th => in_bread_window th t) (cs_threads cs)) |}
  end.

Record run_out := {
  ro_cs : cstate;
  ro_steps : list (nat * site);      (* executed steps, in order *)
  ro_blocked : option nat;           (* the schedule could not be followed: index of the step that needs a held mutex *)
  ro_k : kflags
}.

Fixpoint crun_from (v : env) (fx : bool) (cs : cstate) (sched : list nat) (acc : list (nat * site)) (k : kflags) : run_out :=
  match sched with
  | [] => {| ro_cs := cs; ro_steps := rev acc; ro_blocked := None; ro_k := k |}
  | tid :: rest =>
    match cstep v fx tid cs with
    | OFinished => crun_from v fx cs rest acc k
    | OBlockedC => {| ro_cs := cs; ro_steps := rev acc; ro_blocked := Some (length acc); ro_k := k |}
    | OStep cs' l => crun_from v fx cs' rest ((tid, l) :: acc) (kstep cs tid l k)
    end
  end.

Definition run_schedule (v : env) (fx : bool) (progs : list (list call)) (sched : list nat) : run_out :=
  crun_from v fx (cinit progs) sched [] kflags0.

Definition cresults (cs : cstate) : list (list result) := map (fun th => rev (th_done th)) (cs_threads cs).
Definition threads_done (cs : cstate) : bool := forallb (fun th => match th_todo th with [] => true | _ => false end) (cs_threads cs).

(* the default completion of a schedule: lowest unfinished thread that can move, until none can *)
Fixpoint first_enabled (v : env) (fx : bool) (cs : cstate) (n tid : nat) : option (nat * cstate * site) :=
  match n with
  | O => None
  | S n' => match cstep v fx tid cs with
            | OStep cs' l => Some (tid, cs', l)
            | _ => first_enabled v fx cs n' (S tid)
            end
  end.
Fixpoint ccomplete (v : env) (fx : bool) (fuel : nat) (cs : cstate) (acc : list nat) : list nat :=
  match fuel with
  | O => rev acc
  | S f => match first_enabled v fx cs (length (cs_threads cs)) 0 with
           | Some (tid, cs', _) => ccomplete v fx f cs' (tid :: acc)
           | None => rev acc
           end
  end.

Definition conc_unmodelled (cs : cstate) : bool := any_unmodelled (sh_st (cs_sh cs)).
