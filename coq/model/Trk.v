(* Trk.v — executable model of the process-global reclamation bookkeeping of
   /repo/src/wal/runtime/allocator.rs: BlockStateTracker (block id -> file, checkpointed
   flag), FileStateTracker (file -> locked / checkpointed / total counters, fully_allocated)
   and flush_check, as a state machine over the calls the engine makes.  Definitions only.

   Files are numbers here (the check numbers the file paths of a run consistently).
   The counters are AtomicU16 in the code: fetch_add / fetch_sub wrap, and so does the model. *)
From W Require Import model.Base.

Inductive kcall :=
| CRegister (id file : N)   (* BlockStateTracker::register_block(id, file) *)
| CRegFile (file : N)       (* FileStateTracker::register_file_if_absent(file) *)
| CAddBlock (file : N)      (* FileStateTracker::add_block_to_file_state(file) *)
| CLock (id : N)            (* FileStateTracker::set_block_locked(id) *)
| CUnlock (id : N)          (* FileStateTracker::set_block_unlocked(id) *)
| CMark (id : N)            (* BlockStateTracker::set_checkpointed_true(id) *)
| CFull (file : N)          (* FileStateTracker::set_fully_allocated(file) *)
| CFlush (file : N).        (* flush_check(file) called directly (startup_chore) *)

Record bstate := { bs_file : N; bs_flag : bool }.
Record fstate := { f_locked : N; f_ckpt : N; f_total : N; f_full : bool }.
Record trk := { t_blocks : list (N * bstate); t_files : list (N * fstate) }.

Definition trk0 : trk := {| t_blocks := []; t_files := [] |}.
Definition fstate0 : fstate := {| f_locked := 0; f_ckpt := 0; f_total := 0; f_full := false |}.

(* association lists: first binding of a key is the binding; keys are only ever appended
   when absent (HashMap::entry(..).or_insert_with) and values replaced in place *)
Fixpoint tlookup {A} (k : N) (l : list (N * A)) : option A :=
  match l with
  | [] => None
  | (k', v) :: r => if k' =? k then Some v else tlookup k r
  end.

Fixpoint tset {A} (k : N) (v : A) (l : list (N * A)) : list (N * A) :=
  match l with
  | [] => []
  | (k', v') :: r => if k' =? k then (k', v) :: r else (k', v') :: tset k v r
  end.

(* AtomicU16 arithmetic *)
Definition u16_mod : N := 65536.
Definition inc16 (x : N) : N := (x + 1) mod u16_mod.
Definition dec16 (x : N) : N := (x + 65535) mod u16_mod.

Definition known (t : trk) (f : N) : bool :=
  match tlookup f (t_files t) with Some _ => true | None => false end.
Definition fget (t : trk) (f : N) : fstate :=
  match tlookup f (t_files t) with Some fs => fs | None => fstate0 end.

(* register_file_if_absent *)
Definition reg_file (t : trk) (f : N) : trk :=
  if known t f then t
  else {| t_blocks := t_blocks t; t_files := t_files t ++ [(f, fstate0)] |}.

(* `if let Some(st) = r.get(file) { st.<counter>.fetch_..(..) }` *)
Definition upd_file (t : trk) (f : N) (u : fstate -> fstate) : trk :=
  match tlookup f (t_files t) with
  | Some fs => {| t_blocks := t_blocks t; t_files := tset f (u fs) (t_files t) |}
  | None => t
  end.

Definition add_total (fs : fstate) : fstate :=
  {| f_locked := f_locked fs; f_ckpt := f_ckpt fs; f_total := inc16 (f_total fs); f_full := f_full fs |}.
Definition add_locked (fs : fstate) : fstate :=
  {| f_locked := inc16 (f_locked fs); f_ckpt := f_ckpt fs; f_total := f_total fs; f_full := f_full fs |}.
Definition sub_locked (fs : fstate) : fstate :=
  {| f_locked := dec16 (f_locked fs); f_ckpt := f_ckpt fs; f_total := f_total fs; f_full := f_full fs |}.
Definition add_ckpt (fs : fstate) : fstate :=
  {| f_locked := f_locked fs; f_ckpt := inc16 (f_ckpt fs); f_total := f_total fs; f_full := f_full fs |}.
Definition set_full (fs : fstate) : fstate :=
  {| f_locked := f_locked fs; f_ckpt := f_ckpt fs; f_total := f_total fs; f_full := true |}.

(* fully_allocated && locked == 0 && total > 0 && checkpointed >= total *)
Definition ready (fs : fstate) : bool :=
  f_full fs && (f_locked fs =? 0) && (0 <? f_total fs) && (f_total fs <=? f_ckpt fs).

(* flush_check: the deletion requests it sends (none or one) *)
Definition flush_check (t : trk) (f : N) : list N :=
  match tlookup f (t_files t) with
  | Some fs => if ready fs then [f] else []
  | None => []
  end.

Definition set_flag (t : trk) (id : N) (b : bstate) : trk :=
  {| t_blocks := tset id {| bs_file := bs_file b; bs_flag := true |} (t_blocks t); t_files := t_files t |}.

(* One tracker call.  [fixed] selects set_checkpointed_true: false = the code as it is
   (every call increments the file's counter, "mark_v0"), true = the proposed idempotent
   variant (swap the flag, count only the first time). *)
Definition trk_step (fixed : bool) (t : trk) (c : kcall) : trk * list N :=
  match c with
  | CRegister id f =>
      (match tlookup id (t_blocks t) with
       | Some _ => t                                   (* or_insert_with: the first registration wins *)
       | None => {| t_blocks := t_blocks t ++ [(id, {| bs_file := f; bs_flag := false |})];
                    t_files := t_files t |}
       end, [])
  | CRegFile f => (reg_file t f, [])
  | CAddBlock f => (upd_file (reg_file t f) f add_total, [])
  | CFull f => let t2 := upd_file (reg_file t f) f set_full in (t2, flush_check t2 f)
  | CLock id =>
      match tlookup id (t_blocks t) with
      | Some b => (upd_file t (bs_file b) add_locked, [])
      | None => (t, [])
      end
  | CUnlock id =>
      match tlookup id (t_blocks t) with
      | Some b => let t1 := upd_file t (bs_file b) sub_locked in (t1, flush_check t1 (bs_file b))
      | None => (t, [])
      end
  | CMark id =>
      match tlookup id (t_blocks t) with
      | Some b =>
          if fixed && bs_flag b then (t, [])
          else let t2 := upd_file (set_flag t id b) (bs_file b) add_ckpt in (t2, flush_check t2 (bs_file b))
      | None => (t, [])                                (* unknown id: nothing happens *)
      end
  | CFlush f => (t, flush_check t f)
  end.

(* state after a call sequence (chronological), and every deletion request in order *)
Definition trk_st (fixed : bool) (h : list kcall) : trk :=
  fold_left (fun t c => fst (trk_step fixed t c)) h trk0.

Fixpoint trk_run_from (fixed : bool) (t : trk) (cs : list kcall) : trk * list N :=
  match cs with
  | [] => (t, [])
  | c :: r => let '(t1, o1) := trk_step fixed t c in
              let '(t2, o2) := trk_run_from fixed t1 r in (t2, o1 ++ o2)
  end.
Definition trk_run (fixed : bool) (cs : list kcall) : trk * list N := trk_run_from fixed trk0 cs.
Definition trk_requests (fixed : bool) (cs : list kcall) : list N := snd (trk_run fixed cs).

(* ---- the caller's side: which blocks are locked right now (multiset of ids) ---- *)
Fixpoint remove_one (x : N) (l : list N) : list N :=
  match l with
  | [] => []
  | y :: r => if y =? x then r else y :: remove_one x r
  end.
Fixpoint memN (x : N) (l : list N) : bool :=
  match l with [] => false | y :: r => (y =? x) || memN x r end.

Definition lk (g : list N) (c : kcall) : list N :=
  match c with
  | CLock id => id :: g
  | CUnlock id => remove_one id g
  | _ => g
  end.
Definition locked_ids (h : list kcall) : list N := fold_left lk h [].

(* ---- counting over the block map ---- *)
Fixpoint countN {A} (p : A -> bool) (l : list A) : N :=
  match l with [] => 0 | x :: r => (if p x then 1 else 0) + countN p r end.

Definition in_file (f : N) (p : N * bstate) : bool := bs_file (snd p) =? f.
Definition marked_in_file (f : N) (p : N * bstate) : bool := (bs_file (snd p) =? f) && bs_flag (snd p).
Definition regs_in (t : trk) (f : N) : N := countN (in_file f) (t_blocks t).
Definition marked_in (t : trk) (f : N) : N := countN (marked_in_file f) (t_blocks t).
Definition id_in_file (t : trk) (f : N) (id : N) : bool :=
  match tlookup id (t_blocks t) with Some b => bs_file b =? f | None => false end.
Definition locked_in (t : trk) (g : list N) (f : N) : N := countN (id_in_file t f) g.

(* every registration of a block of [f] so far was followed by its add_block_to_file_state *)
Definition paired (t : trk) (f : N) : bool := regs_in t f <=? f_total (fget t f).

(* ---- the CONTRACT, as a precondition of each call in the state reached so far ----
   fixed = false (code as it is):
     - every block id is registered once                       (CRegister: id is new)
     - Mark is called at most once per block                    (CMark: flag still false)
   both variants:
     - Lock / first Mark of a block find its file registered; Unlock only of a locked block
     - at every point where flush_check runs for a file, each of its registered blocks has
       been counted into the file's total (the allocator and recovery always do
       register_block; add_block_to_file_state back to back)
     - 16-bit bounds: a file's total and locked counters do not wrap (< 65536 blocks per file)
   The contract clause "a block is marked only when its entries are consumed" is about the
   engine, not about the trackers; it enters the theorems as a hypothesis on CMark. *)
Definition pre (fixed : bool) (t : trk) (g : list N) (c : kcall) : bool :=
  match c with
  | CRegister id _ => match tlookup id (t_blocks t) with None => true | Some _ => false end
  | CRegFile _ => true
  | CAddBlock f => f_total (fget t f) + 1 <? u16_mod
  | CLock id =>
      match tlookup id (t_blocks t) with
      | Some b => known t (bs_file b) && (f_locked (fget t (bs_file b)) + 1 <? u16_mod)
      | None => false
      end
  | CUnlock id =>
      match tlookup id (t_blocks t) with
      | Some b => memN id g && paired t (bs_file b)
      | None => false
      end
  | CMark id =>
      match tlookup id (t_blocks t) with
      | Some b => if bs_flag b then fixed else known t (bs_file b) && paired t (bs_file b)
      | None => true
      end
  | CFull f => paired t f
  | CFlush f => paired t f
  end.

Fixpoint contract_from (fixed : bool) (t : trk) (g : list N) (cs : list kcall) : bool :=
  match cs with
  | [] => true
  | c :: r => pre fixed t g c && contract_from fixed (fst (trk_step fixed t c)) (lk g c) r
  end.
Definition contract_ok (fixed : bool) (cs : list kcall) : bool := contract_from fixed trk0 [] cs.
Definition contract (fixed : bool) (cs : list kcall) : Prop := contract_ok fixed cs = true.

(* ---- mechanism-shaped classes of call sequences (known findings) ---- *)
(* some registered block is marked while its flag is already set *)
Fixpoint marks_repeated_from (t : trk) (cs : list kcall) : bool :=
  match cs with
  | [] => false
  | c :: r =>
      (match c with
       | CMark id => match tlookup id (t_blocks t) with Some b => bs_flag b | None => false end
       | _ => false
       end) || marks_repeated_from (fst (trk_step false t c)) r
  end.
Definition marks_repeated (cs : list kcall) : bool := marks_repeated_from trk0 cs.

(* some block id is registered while already registered (same-process reopen, second instance) *)
Fixpoint reregistered_from (t : trk) (cs : list kcall) : bool :=
  match cs with
  | [] => false
  | c :: r =>
      (match c with
       | CRegister id _ => match tlookup id (t_blocks t) with Some _ => true | None => false end
       | _ => false
       end) || reregistered_from (fst (trk_step false t c)) r
  end.
Definition reregistered (cs : list kcall) : bool := reregistered_from trk0 cs.

(* ---- the safety conclusion as a boolean over a trace (acceptor) ----
   For every deletion request the model emits along [cs]: the file is flagged full, every
   block registered in it is flagged, none of its blocks is locked (caller's view). *)
Definition file_safe (t : trk) (g : list N) (f : N) : bool :=
  f_full (fget t f) && (regs_in t f =? marked_in t f) && (locked_in t g f =? 0).

Fixpoint trace_safe_from (fixed : bool) (t : trk) (g : list N) (cs : list kcall) : bool :=
  match cs with
  | [] => true
  | c :: r =>
      let '(t1, o) := trk_step fixed t c in
      let g1 := lk g c in
      forallb (file_safe t1 g1) o && trace_safe_from fixed t1 g1 r
  end.
Definition c12_trace_ok (fixed : bool) (cs : list kcall) : bool := trace_safe_from fixed trk0 [] cs.

(* ---- several instances in one process (C13): calls tagged with the instance ---- *)
Definition tcall := (N * kcall)%type.
Definition untag (cs : list tcall) : list kcall := map snd cs.
Definition proj (a : N) (cs : list tcall) : list kcall :=
  map snd (filter (fun p => fst p =? a) cs).

(* restriction of the tracker state to one side's ids and files *)
Definition keyp {A} (p : N -> bool) : N * A -> bool := fun x => p (fst x).
Definition restrict (pid pf : N -> bool) (t : trk) : trk :=
  {| t_blocks := filter (keyp pid) (t_blocks t);
     t_files := filter (keyp pf) (t_files t) |}.

Definition call_side (pid pf : N -> bool) (c : kcall) : bool :=
  match c with
  | CRegister id f => pid id && pf f
  | CRegFile f | CAddBlock f | CFull f | CFlush f => pf f
  | CLock id | CUnlock id | CMark id => pid id
  end.

(* instance [a] uses ids/files satisfying pid/pf, every other instance the complement *)
Definition sided (a : N) (pid pf : N -> bool) (cs : list tcall) : Prop :=
  forall i c, In (i, c) cs ->
    if i =? a then call_side pid pf c = true
    else call_side (fun x => negb (pid x)) (fun x => negb (pf x)) c = true.

(* ---- witnesses and their side conditions ---- *)
(* instance 1 owns file 10, instance 2 owns file 20 *)
Definition c13_witness_collision : list tcall :=
  [(1, CRegister 1 10); (1, CRegFile 10); (1, CAddBlock 10); (1, CLock 1);
   (1, CRegister 2 10); (1, CRegFile 10); (1, CAddBlock 10); (1, CLock 2);
   (2, CRegister 1 20); (2, CRegFile 20); (2, CAddBlock 20); (2, CLock 1);
   (2, CRegister 2 20); (2, CRegFile 20); (2, CAddBlock 20); (2, CLock 2);
   (1, CUnlock 1); (1, CUnlock 2); (1, CFull 10);
   (2, CUnlock 1); (2, CUnlock 2); (2, CMark 1); (2, CMark 2)].

(* side conditions of the witness as booleans *)
Definition tags_in (cs : list tcall) (a b : N) : bool :=
  forallb (fun p => (fst p =? a) || (fst p =? b)) cs.
Definition file_registered_only_by (cs : list tcall) (f a : N) : bool :=
  forallb (fun p => match snd p with CRegister _ f' => negb (f' =? f) || (fst p =? a) | _ => true end) cs.
Definition registers_in (cs : list tcall) (f a : N) : bool :=
  existsb (fun p => match snd p with CRegister _ f' => (f' =? f) && (fst p =? a) | _ => false end) cs.
Definition never_marks (cs : list tcall) (a : N) : bool :=
  forallb (fun p => match snd p with CMark _ => negb (fst p =? a) | _ => true end) cs.

Definition c12_witness_repeated_mark : list kcall :=
  [CRegister 1 7; CRegFile 7; CAddBlock 7; CLock 1;
   CRegister 2 7; CRegFile 7; CAddBlock 7; CLock 2;
   CUnlock 1; CUnlock 2; CFull 7; CMark 1; CMark 1].

Definition c12_witness_wrap : list kcall :=
  [CRegister 1 7; CRegister 2 7] ++ repeat (CAddBlock 7) (N.to_nat 65537) ++ [CFull 7; CMark 1].
