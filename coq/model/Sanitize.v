(* Sanitize.v — src/wal/config.rs::sanitize_namespace and the root-directory rule of
   src/wal/paths.rs (root = data_dir.push(component)). *)
From W Require Import model.Base model.Fnv model.Utf8.

Definition san_char (c : N) : N :=
  if is_ascii_alnum c || (c =? ch_dash) || (c =? ch_us) || (c =? ch_dot) then c else ch_us.

Definition all_us (s : str) : bool := forallb (fun c => c =? ch_us) s.

(* lower-case hex without leading zeros, "0" for zero — Rust's {:x} *)
Definition hex_digit (d : N) : N := if d <? 10 then ch_0 + d else ch_a + (d - 10).
Fixpoint hex_aux (fuel : nat) (n : N) (acc : str) : str :=
  match fuel with
  | O => acc
  | S f => if n <? 16 then hex_digit n :: acc
           else hex_aux f (n / 16) (hex_digit (n mod 16) :: acc)
  end.
(* 16 hex digits suffice for every u64 *)
Definition hex (n : N) : str := hex_aux 16 n [].

Definition ns_prefix : str := [ch_n; ch_s; ch_us].
Definition fallback (key : str) : str := ns_prefix ++ hex (checksum64 (utf8_encode key)).

(* the pinned-tree version: only the all-underscore (incl. empty) case falls back *)
Definition sanitize_v0 (key : str) : str :=
  let s := map san_char key in
  if all_us s then fallback key else s.

Definition is_dot_component (s : str) : bool :=
  str_eqb s [ch_dot] || str_eqb s [ch_dot; ch_dot].

(* the current tree (after "fix: dot-only namespace keys"): "." and ".." fall back as well *)
Definition sanitize (key : str) : str :=
  let s := map san_char key in
  if all_us s || is_dot_component s then fallback key else s.

(* what "one private path component" means for PathBuf::push on Linux *)
Definition safe_component (c : str) : bool :=
  negb (match c with [] => true | _ => false end)
  && negb (is_dot_component c)
  && forallb (fun x => negb (x =? ch_slash) && negb (x =? 0)) c.
