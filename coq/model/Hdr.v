(* Hdr.v — byte-level model of the WAL entry header and of the code that decodes it.

   On disk an entry is a 256-byte prefix followed by the payload (src/wal/block.rs):
     bytes 0..1    meta_len, little endian
     bytes 2..     meta_len bytes: the rkyv 0.7 (size_32) archive of
                     struct Metadata { read_size: usize, owned_by: String, next_block_start: u64, checksum: u64 }
                   = [ name bytes, zero-padded to a multiple of 8 ]   only when the name is longer than 7 bytes
                     32-byte root:  0..7   name repr   inline: bytes 0..6 data, byte 7 = length (bit 7 clear)
                                                       out of line: bytes 0..3 length (u32), bytes 4..7 signed
                                                       offset (i32) of the name relative to the repr itself;
                                                       byte 7 has bit 7 set because the offset is negative
                                    8..15  next_block_start (u64)
                                    16..23 checksum (u64, FNV-1a of the payload)
                                    24..27 read_size (u32)
                                    28..31 padding
     rest          zeros up to 256
   The code (Block::read, the recovery scan in walrus.rs, five sites in walrus_read.rs) checks
   1 <= meta_len <= 254, copies the meta_len bytes into an AlignedVec and calls the UNCHECKED
   rkyv::archived_root: root position = len - 32 (a plain subtraction: overflow panic in a debug
   build, wrap-around to a pointer in front of the buffer in a release build), the name pointer and
   length are followed without bounds check and the bytes become a String without UTF-8 check.
   [variant V0] is that code; [variant V1] is the repaired code (rkyv::check_archived_root and a
   payload-window bound), see PROPOSED_FIX.diff. *)
From W Require Import model.Base model.Fnv model.Utf8.

Definition hdr_size : N := 256.        (* PREFIX_META_SIZE *)
Definition root_size : N := 32.        (* size_of::<ArchivedMetadata>() *)
Definition max_meta_len : N := 254.    (* PREFIX_META_SIZE - 2 *)

(* ---------------------------------------------------------------- little endian *)
Fixpoint le_bytes (n : nat) (v : N) : list N :=
  match n with O => [] | S k => v mod 256 :: le_bytes k (v / 256) end.
Fixpoint le_num (bs : list N) : N :=
  match bs with [] => 0 | b :: r => b + 256 * le_num r end.

Definition zeros (n : nat) : list N := repeat 0 n.
Definition all_zero (bs : list N) : bool := forallb (fun b => b =? 0) bs.

Record meta := mkMeta { m_name : list N; m_read_size : N; m_nbs : N; m_checksum : N }.

(* ---------------------------------------------------------------- encoder (Block::write) *)
Definition roundup8 (n : nat) : nat := ((n + 7) / 8) * 8.

Definition name_prefix (name : list N) : list N :=
  if (length name <=? 7)%nat then [] else name ++ zeros (roundup8 (length name) - length name).

Definition name_repr (name : list N) : list N :=
  if (length name <=? 7)%nat
  then name ++ zeros (7 - length name) ++ [N.of_nat (length name)]
  else le_bytes 4 (N.of_nat (length name)) ++ le_bytes 4 (4294967296 - N.of_nat (roundup8 (length name))).

Definition root_bytes (m : meta) : list N :=
  name_repr (m_name m) ++ le_bytes 8 (m_nbs m) ++ le_bytes 8 (m_checksum m) ++ le_bytes 4 (m_read_size m) ++ zeros 4.

Definition meta_bytes (m : meta) : list N := name_prefix (m_name m) ++ root_bytes m.

(* Block::write refuses (InvalidData) when the archive is longer than 254 bytes *)
Definition encode_hdr (m : meta) : list N :=
  let mb := meta_bytes m in
  le_bytes 2 (N.of_nat (length mb)) ++ mb ++ zeros (254 - length mb).

Definition bytes_ok (bs : list N) : Prop := Forall (fun b => b < 256) bs.

Definition wf_meta (m : meta) : Prop :=
  (length (m_name m) <= 216)%nat /\ bytes_ok (m_name m) /\
  m_read_size m < 4294967296 /\ m_nbs m < two64 /\ m_checksum m < two64.

(* what Block::write puts on disk for (payload, topic, next_block_start) *)
Definition meta_for (name payload : list N) (nbs : N) : meta :=
  mkMeta name (N.of_nat (length payload)) nbs (checksum64 payload).
Definition enc_entry (name payload : list N) (nbs : N) : list N :=
  encode_hdr (meta_for name payload nbs) ++ payload.

(* ---------------------------------------------------------------- decoders *)
Inductive variant := V0 | V1.

Inductive hdr_out :=
| HBadLen                 (* meta_len = 0 or > 254: Err(InvalidData) before any archive access *)
| HShortRoot              (* V0, meta_len < 32: len - 32 underflows — debug: panic inside rkyv::archived_root;
                             release: the root reference points in front of the AlignedVec (undefined behaviour) *)
| HMisaligned             (* V0, (meta_len - 32) mod 8 <> 0: the root reference is not 8-aligned inside the 16-aligned
                             AlignedVec (undefined behaviour; a debug build aborts on rustc's alignment check, a release
                             build on x86 performs the unaligned loads) *)
| HOob                    (* V0: the name slice (pointer, length) leaves the copied buffer (undefined behaviour) *)
| HInvalid                (* V1 only: check_archived_root rejected the archive: Err(InvalidData) *)
| HMeta (m : meta).       (* a Metadata value was produced (V0: whatever the bytes say) *)

Definition slice (bs : list N) (start len : N) : list N := firstn (N.to_nat len) (skipn (N.to_nat start) bs).

(* fields of the 32-byte root *)
Definition root_nbs (root : list N) : N := le_num (slice root 8 8).
Definition root_checksum (root : list N) : N := le_num (slice root 16 8).
Definition root_read_size (root : list N) : N := le_num (slice root 24 4).

(* V0: rkyv::archived_root + Deserialize with Infallible, nothing validated.
   The name slice the unchecked accessors produce; None = it leaves the copied buffer. *)
Definition name_unchecked (buf : list N) (meta_len : N) : option (list N) :=
  let pos := meta_len - root_size in
  let root := skipn (N.to_nat pos) buf in
  let b7 := nth 7 root 0 in
  if b7 <? 128 then                                  (* inline: byte 7 is the length, any value <= 127 *)
    (if pos + b7 <=? meta_len then Some (slice root 0 b7) else None)
  else                                               (* out of line: u32 length, negative i32 offset *)
    let len := le_num (slice root 0 4) in
    let back := 4294967296 - le_num (slice root 4 4) in
    if (back <=? pos) && (pos - back + len <=? meta_len) then Some (slice buf (pos - back) len) else None.

Definition meta_at (buf : list N) (meta_len : N) (nm : list N) : meta :=
  let root := skipn (N.to_nat (meta_len - root_size)) buf in
  mkMeta nm (root_read_size root) (root_nbs root) (root_checksum root).

Definition decode_unchecked (buf : list N) (meta_len : N) : hdr_out :=
  if meta_len <? root_size then HShortRoot else
  if negb ((meta_len - root_size) mod 8 =? 0) then HMisaligned else
  match name_unchecked buf meta_len with
  | None => HOob
  | Some nm => HMeta (meta_at buf meta_len nm)
  end.

(* V1: rkyv::check_archived_root::<Metadata> (DefaultValidator): root position non-negative and
   8-aligned inside a 16-aligned buffer, inline length <= 7, out-of-line name inside the subtree
   range [0, root position), UTF-8 validity of the name *)
Definition utf8_ok (bs : list N) : bool := match utf8_decode bs with Some _ => true | None => false end.

Definition name_checked (buf : list N) (meta_len : N) : option (list N) :=
  let pos := meta_len - root_size in
  let root := skipn (N.to_nat pos) buf in
  let b7 := nth 7 root 0 in
  if b7 <? 128 then (if b7 <=? 7 then Some (slice root 0 b7) else None)
  else
    let len := le_num (slice root 0 4) in
    let back := 4294967296 - le_num (slice root 4 4) in
    if (back <=? pos) && (if len =? 0 then true else (0 <? back) && (len <=? back))
    then Some (slice buf (pos - back) len) else None.

Definition decode_checked (buf : list N) (meta_len : N) : hdr_out :=
  if meta_len <? root_size then HInvalid else
  if negb ((meta_len - root_size) mod 8 =? 0) then HInvalid else
  match name_checked buf meta_len with
  | None => HInvalid
  | Some nm => if utf8_ok nm then HMeta (meta_at buf meta_len nm) else HInvalid
  end.

(* the 256-byte prefix as every call site handles it *)
Definition decode_hdr (v : variant) (hdr : list N) : hdr_out :=
  let meta_len := le_num (firstn 2 hdr) in
  if (meta_len =? 0) || (max_meta_len <? meta_len) then HBadLen else
  let buf := slice hdr 2 meta_len in
  match v with V0 => decode_unchecked buf meta_len | V1 => decode_checked buf meta_len end.

(* outcome classes used by the correspondence run and the known-finding classes *)
Inductive hdr_class := CBadLen | CShortRoot | CMisaligned | COob | CBadUtf8 | CInlineLong | CInvalid | CValid.
Definition class_of (v : variant) (hdr : list N) : hdr_class :=
  match decode_hdr v hdr with
  | HBadLen => CBadLen | HShortRoot => CShortRoot | HMisaligned => CMisaligned | HOob => COob | HInvalid => CInvalid
  | HMeta m =>
    match v with
    | V1 => CValid
    | V0 => match decode_hdr V1 hdr with
            | HMeta _ => CValid
            | _ => if utf8_ok (m_name m) then CInlineLong else CBadUtf8
            end
    end
  end.

(* ---------------------------------------------------------------- Block::read *)
(* [bs] = the bytes of the file from the entry's offset to the end of the file.
   [lenient] = release build with the FD backend: a payload window that extends past the end of
   the file is a short pread (the rest of the buffer stays zero); in a debug build
   (debug_assert in SharedMmap::read) and with the mmap backend (slice index) it is a panic. *)
Inductive rd_out :=
| RErr                              (* Err(InvalidData): bad meta_len, rejected archive (V1), window out of file (V1), checksum mismatch *)
| RUb (h : hdr_out)                 (* V0: HShortRoot / HMisaligned / HOob *)
| RPastEnd (m : meta)               (* V0, strict: panic *)
| ROk (m : meta) (payload : list N).  (* consumed = 256 + length payload *)

(* the executable model pads at most this many zero bytes for a lenient short read; a larger
   window (up to 4 GiB - 1: the process allocates and hashes it) is reported as RPastEnd and not
   compared *)
Definition lenient_pad_cap : N := 1048576.

Definition entry_read (v : variant) (lenient : bool) (bs : list N) : rd_out :=
  match decode_hdr v (firstn 256 bs) with
  | HBadLen | HInvalid => RErr
  | HShortRoot => RUb HShortRoot
  | HMisaligned => RUb HMisaligned
  | HOob => RUb HOob
  | HMeta m =>
    let rest := skipn 256 bs in
    let avail := N.of_nat (length rest) in
    let rs := m_read_size m in
    if avail <? rs then
      match v with
      | V1 => RErr
      | V0 => if lenient && (rs - avail <=? lenient_pad_cap)
              then (let p := rest ++ zeros (N.to_nat (rs - avail)) in
                    if checksum64 p =? m_checksum m then ROk m p else RErr)
              else RPastEnd m
      end
    else
      let p := firstn (N.to_nat rs) rest in
      if checksum64 p =? m_checksum m then ROk m p else RErr
  end.

(* ---------------------------------------------------------------- recovery scan of one block *)
Inductive stop :=
| StErr         (* a read returned Err: normal end of the written part *)
| StEnd         (* the next header window would cross MAX_FILE_SIZE *)
| StLimit       (* in_block_off reached the block limit *)
| StFuel
| StUb (h : hdr_out)
| StPastEnd (m : meta).

Record blk_scan := mkScan { sc_entries : list (list N); sc_used : N; sc_limit : N; sc_stop : stop }.

(* startup_chore's inner loop.  [bs] = file bytes from the current entry on, [pos] = its absolute
   offset in the file, [off] = in_block_off, [fsz] = MAX_FILE_SIZE, [B] = DEFAULT_BLOCK_SIZE *)
Fixpoint scan_loop (fuel : nat) (v : variant) (lenient : bool) (fsz B : N)
         (bs : list N) (pos off limit : N) : blk_scan :=
  match fuel with
  | O => mkScan [] off limit StFuel
  | S f =>
    if fsz <? pos + hdr_size then mkScan [] off limit StEnd else
    match entry_read v lenient bs with
    | RErr => mkScan [] off limit StErr
    | RUb h => mkScan [] off limit (StUb h)
    | RPastEnd m => mkScan [] off limit (StPastEnd m)
    | ROk _ p =>
      let c := hdr_size + N.of_nat (length p) in
      let off' := off + c in
      (* an entry that ends beyond the extent known so far grows it to the unit boundary behind it
         (fix af34b61: not only for the first entry of the block) *)
      let limit' := if limit <? off' then ((off' + B - 1) / B) * B else limit in
      if limit' <=? off' then mkScan [p] off' limit' StLimit else
      let r := scan_loop f v lenient fsz B (skipn (N.to_nat c) bs) (pos + c) off' limit' in
      mkScan (p :: sc_entries r) (sc_used r) (sc_limit r) (sc_stop r)
    end
  end.

(* ---------------------------------------------------------------- recovery scan of one file *)
Record rblock := mkRBlock { rb_name : list N; rb_offset : N; rb_scan : blk_scan }.

Inductive file_stop :=
| FsDone                    (* all units visited *)
| FsEmptyBlock              (* a block whose first entry does not verify ends the scan of the file *)
| FsUb (h : hdr_out)        (* undefined behaviour / rkyv panic while decoding a header *)
| FsPastEnd (m : meta)      (* panic: payload window past the end of the file *)
| FsFuel.

Record file_scan := mkFScan { fs_blocks : list rblock; fs_stop : file_stop }.

Definition file_stop_of (s : stop) : option file_stop :=
  match s with StUb h => Some (FsUb h) | StPastEnd m => Some (FsPastEnd m) | _ => None end.

(* [bs] = file bytes from [boff] on *)
Fixpoint scan_file_loop (fuel : nat) (v : variant) (lenient : bool) (fsz B : N)
         (bs : list N) (boff : N) : file_scan :=
  match fuel with
  | O => mkFScan [] FsFuel
  | S f =>
    if fsz <? boff + B then mkFScan [] FsDone else
    let next u := scan_file_loop f v lenient fsz B (skipn (N.to_nat u) bs) (boff + u) in
    if all_zero (firstn 8 bs) then next B else
    match decode_hdr v (firstn 256 bs) with
    | HBadLen => next B
    | HInvalid => next B                       (* V1: a block whose first header is corrupt is skipped *)
    | HShortRoot => mkFScan [] (FsUb HShortRoot)
    | HMisaligned => mkFScan [] (FsUb HMisaligned)
    | HOob => mkFScan [] (FsUb HOob)
    | HMeta md =>
      let sc := scan_loop (S (N.to_nat (fsz / hdr_size))) v lenient fsz B bs boff 0 B in
      match file_stop_of (sc_stop sc) with
      | Some st => mkFScan [] st
      | None =>
        if sc_used sc =? 0 then mkFScan [] FsEmptyBlock else
        let r := next (sc_limit sc) in
        mkFScan (mkRBlock (m_name md) boff sc :: fs_blocks r) (fs_stop r)
      end
    end
  end.

(* files shorter than MAX_FILE_SIZE are not scanned (fix 06cdd94) *)
Definition scan_file (v : variant) (lenient : bool) (fsz B : N) (file : list N) : file_scan :=
  if N.of_nat (length file) <? fsz then mkFScan [] FsDone
  else scan_file_loop (S (N.to_nat (fsz / B))) v lenient fsz B file 0.

(* what a consumer of [topic] is handed after the restart, file after file in name order
   (no persisted read position): blocks with an empty owner name join no chain *)
Definition topic_stream (topic : list N) (blocks : list rblock) : list (list N) :=
  flat_map (fun b => match rb_name b with
                     | [] => []
                     | _ => if str_eqb (rb_name b) topic then sc_entries (rb_scan b) else []
                     end) blocks.
