(* Engine.v — executable model of one walrus instance (sequential, fault-free I/O):
   allocator, writer (single + batch append), read_next, batch_read_for_topic, counts,
   read-offset index, and the on-disk block layout that recovery scans.
   Follows src/wal/runtime/{allocator,writer,walrus_read,walrus,reader}.rs branch by branch;
   payload bytes are abstract: an entry is (pid, len) and its header+payload occupy
   256 + len bytes.  Definitions only — proofs live in proofs/. *)
From W Require Import model.Base.

(* ------------------------------------------------------------------ configuration *)
Record Cfg := {
  c_block : N;          (* DEFAULT_BLOCK_SIZE *)
  c_bpf : N;            (* BLOCKS_PER_FILE *)
  c_max_alloc : N;      (* MAX_ALLOC *)
  c_hdr : N;            (* PREFIX_META_SIZE *)
  c_max_entries : N;    (* MAX_BATCH_ENTRIES *)
  c_max_bytes : N;      (* MAX_BATCH_BYTES *)
  c_small : N;          (* double-peek / small-entry threshold, the literal 128 *)
  c_overflow_checks : bool  (* debug profile: arithmetic overflow panics *)
}.
Definition c_file (c : Cfg) : N := c_block c * c_bpf c.
Definition usize_max : N := u64_max.

Inductive mode := Strict | ALO (persist_every : N).
Inductive backend := Fd | Mmap.

(* ------------------------------------------------------------------ entries, blocks *)
Record entry := { e_pid : N; e_len : N }.
Definition need (c : Cfg) (e : entry) : N := c_hdr c + e_len e.
Fixpoint sum_need (c : Cfg) (es : list entry) : N :=
  match es with [] => 0 | e :: r => need c e + sum_need c r end.

Record blk := {
  b_id : N;
  b_file : N; b_off : N;      (* location: file sequence number, byte offset in it *)
  b_limit : N;
  b_used : N;                 (* sealed: bytes handed to readers; writer: published offset *)
  b_ents : list entry         (* what is on disk from offset 0, tiling [0, sum_need) *)
}.

(* the header found at in-block offset [off] of a block whose content is [es] *)
Inductive hdr_view := HEntry (e : entry) (rest : list entry) | HZero | HJunk.
Fixpoint view_at (c : Cfg) (es : list entry) (off : N) : hdr_view :=
  match es with
  | [] => HZero                      (* never written: zeros *)
  | e :: r => if off =? 0 then HEntry e r
              else if off <? need c e then HJunk   (* inside an entry: not a boundary *)
              else view_at c r (off - need c e)
  end.

(* Block::read at an in-block offset: Some (entry, consumed) or None (= Err) *)
Definition block_read (c : Cfg) (b : blk) (off : N) : option (entry * N) :=
  match view_at c (b_ents b) off with
  | HEntry e _ => Some (e, need c e)
  | _ => None
  end.

(* ------------------------------------------------------------------ per-topic state *)
Record ppos := { p_tail : bool; p_a : N; p_off : N }.   (* persisted BlockPos; TAIL_FLAG as a bool *)

Record topic := { t_id : N; t_nlen : N }.   (* identity and byte length of the name *)

Record reader := {
  r_chain : list blk;
  r_idx : nat; r_off : N;
  r_tail_bid : N; r_tail_off : N;
  r_since : N;
  r_hydrated : bool
}.
Definition reader0 : reader :=
  {| r_chain := []; r_idx := 0; r_off := 0; r_tail_bid := 0; r_tail_off := 0; r_since := 0; r_hydrated := false |}.

Record tstate := {
  ts_reader : option reader;      (* ColReaderInfo, created lazily *)
  ts_writer : option blk;         (* Writer: current block; b_used is current_offset *)
  ts_poisoned : bool;             (* writer mutexes poisoned by a panic *)
  ts_count : option N;            (* topic_entry_counts entry *)
  ts_index : option ppos;         (* read_offset_index entry (memory = disk: persisted on every set) *)
  ts_unmodelled : bool            (* a failure path left a state this model does not represent *)
}.
Definition tstate0 : tstate :=
  {| ts_reader := None; ts_writer := None; ts_poisoned := false; ts_count := None; ts_index := None; ts_unmodelled := false |}.

Record alloc := { a_next : N; a_file : N; a_off : N }.

(* a block on disk, in allocation order; [d_topic] is the name length + id of the first
   writer (None while nothing was written) *)
Record dblk := { d_file : N; d_off : N; d_limit : N; d_topic : option topic; d_ents : list entry }.

Record st := {
  s_topics : list (N * tstate);
  s_alloc : alloc;
  s_disk : list dblk;             (* newest first *)
  s_files : N                     (* files created so far in this directory *)
}.

Definition get_ts (s : st) (t : N) : tstate :=
  match find (fun p => fst p =? t) (s_topics s) with Some p => snd p | None => tstate0 end.
Fixpoint set_assoc {A} (k : N) (v : A) (l : list (N * A)) : list (N * A) :=
  match l with
  | [] => [(k, v)]
  | (k', v') :: r => if k' =? k then (k, v) :: r else (k', v') :: set_assoc k v r
  end.
Definition set_ts (s : st) (t : N) (ts : tstate) : st :=
  {| s_topics := set_assoc t ts (s_topics s); s_alloc := s_alloc s; s_disk := s_disk s; s_files := s_files s |}.

(* ------------------------------------------------------------------ results *)
Inductive errk := EInvalidInput | EInvalidData | EWouldBlock | EOther.
Record out := { o_pid : N; o_skip : N; o_len : N }.   (* returned bytes = payload pid [skip, skip+len) *)
Inductive result :=
| ROk | RErr (k : errk) | RPanic | RNone | REntry (o : out) | REntries (os : list out) | RNum (n : N).

Definition out_of (e : entry) : out := {| o_pid := e_pid e; o_skip := 0; o_len := e_len e |}.

(* ------------------------------------------------------------------ allocator *)
Definition div_up (a b : N) : N := (a + b - 1) / b.

Definition disk_add (s : st) (f o lim : N) : list dblk :=
  {| d_file := f; d_off := o; d_limit := lim; d_topic := None; d_ents := [] |} :: s_disk s.

(* get_next_available_block *)
Definition alloc_first (c : Cfg) (s : st) : st * blk :=
  let a := s_alloc s in
  let '(f, o, nf) := if c_file c <=? a_off a then (s_files s, 0, s_files s + 1) else (a_file a, a_off a, s_files s) in
  let b := {| b_id := a_next a; b_file := f; b_off := o; b_limit := c_block c; b_used := 0; b_ents := [] |} in
  ({| s_topics := s_topics s;
      s_alloc := {| a_next := a_next a + 1; a_file := f; a_off := o + c_block c |};
      s_disk := disk_add s f o (c_block c); s_files := nf |}, b).

(* alloc_block want *)
Definition alloc_sized (c : Cfg) (s : st) (want : N) : option (st * blk) :=
  if (want =? 0) || (c_max_alloc c <? want) then None else
  let size := div_up want (c_block c) * c_block c in
  let a := s_alloc s in
  let '(f, o, nf) := if c_file c <? a_off a + size then (s_files s, 0, s_files s + 1) else (a_file a, a_off a, s_files s) in
  let b := {| b_id := a_next a; b_file := f; b_off := o; b_limit := size; b_used := 0; b_ents := [] |} in
  Some ({| s_topics := s_topics s;
           s_alloc := {| a_next := a_next a + 1; a_file := f; a_off := o + size |};
           s_disk := disk_add s f o size; s_files := nf |}, b).

(* record entries written at the end of the on-disk block at (f, o) *)
Fixpoint disk_write (d : list dblk) (f o : N) (t : topic) (es : list entry) : list dblk :=
  match d with
  | [] => []
  | x :: r => if (d_file x =? f) && (d_off x =? o)
              then {| d_file := f; d_off := o; d_limit := d_limit x;
                      d_topic := match d_topic x with Some t0 => Some t0 | None => Some t end;
                      d_ents := d_ents x ++ es |} :: r
              else x :: disk_write r f o t es
  end.
Definition st_disk_write (s : st) (b : blk) (t : topic) (es : list entry) : st :=
  {| s_topics := s_topics s; s_alloc := s_alloc s;
     s_disk := disk_write (s_disk s) (b_file b) (b_off b) t es; s_files := s_files s |}.

(* ------------------------------------------------------------------ reader chain *)
(* Reader::append_block_to_chain *)
Definition chain_push (r : reader) (b : blk) : reader :=
  if b_used b =? 0 then r else       (* a block sealed empty is retired, not chained *)
  let ch := r_chain r ++ [b] in
  if r_tail_bid r =? b_id b
  then {| r_chain := ch; r_idx := length ch - 1; r_off := N.min (r_tail_off r) (b_used b);
          r_tail_bid := r_tail_bid r; r_tail_off := r_tail_off r; r_since := r_since r; r_hydrated := r_hydrated r |}
  else {| r_chain := ch; r_idx := r_idx r; r_off := r_off r;
          r_tail_bid := r_tail_bid r; r_tail_off := r_tail_off r; r_since := r_since r; r_hydrated := r_hydrated r |}.

Definition reader_of (ts : tstate) : reader := match ts_reader ts with Some r => r | None => reader0 end.

Definition seal (ts : tstate) (b : blk) : tstate :=
  {| ts_reader := Some (chain_push (reader_of ts) b); ts_writer := ts_writer ts;
     ts_poisoned := ts_poisoned ts; ts_count := ts_count ts; ts_index := ts_index ts; ts_unmodelled := ts_unmodelled ts |}.

Definition with_writer (ts : tstate) (w : option blk) : tstate :=
  {| ts_reader := ts_reader ts; ts_writer := w; ts_poisoned := ts_poisoned ts; ts_count := ts_count ts; ts_index := ts_index ts; ts_unmodelled := ts_unmodelled ts |}.
Definition with_reader (ts : tstate) (r : reader) : tstate :=
  {| ts_reader := Some r; ts_writer := ts_writer ts; ts_poisoned := ts_poisoned ts; ts_count := ts_count ts; ts_index := ts_index ts; ts_unmodelled := ts_unmodelled ts |}.
Definition with_index (ts : tstate) (p : ppos) : tstate :=
  {| ts_reader := ts_reader ts; ts_writer := ts_writer ts; ts_poisoned := ts_poisoned ts; ts_count := ts_count ts; ts_index := Some p; ts_unmodelled := ts_unmodelled ts |}.
Definition with_poison (ts : tstate) : tstate :=
  {| ts_reader := ts_reader ts; ts_writer := ts_writer ts; ts_poisoned := true; ts_count := ts_count ts; ts_index := ts_index ts; ts_unmodelled := ts_unmodelled ts |}.
Definition sat_sub (a b : N) : N := a - b.   (* N subtraction truncates at 0 = saturating_sub *)
Definition count_add (ts : tstate) (d : N) : tstate :=
  if d =? 0 then ts else
  {| ts_reader := ts_reader ts; ts_writer := ts_writer ts; ts_poisoned := ts_poisoned ts;
     ts_count := Some (N.min u64_max (match ts_count ts with Some n => n | None => 0 end + d)); ts_index := ts_index ts; ts_unmodelled := ts_unmodelled ts |}.
Definition count_sub (ts : tstate) (d : N) : tstate :=
  if d =? 0 then ts else
  {| ts_reader := ts_reader ts; ts_writer := ts_writer ts; ts_poisoned := ts_poisoned ts;
     ts_count := Some (sat_sub (match ts_count ts with Some n => n | None => 0 end) d); ts_index := ts_index ts; ts_unmodelled := ts_unmodelled ts |}.

(* ------------------------------------------------------------------ writer *)
(* rkyv archive of Metadata: 32-byte root, plus the name padded to 8 when longer than 7 bytes *)
Definition meta_len (nlen : N) : N := 32 + (if nlen <=? 7 then 0 else div_up nlen 8 * 8).
Definition name_ok (c : Cfg) (t : topic) : bool := meta_len (t_nlen t) <=? c_hdr c - 2.

(* get_or_create_writer: allocates the topic's first block before any validation *)
Definition ensure_writer (c : Cfg) (s : st) (t : topic) : st * blk :=
  match ts_writer (get_ts s (t_id t)) with
  | Some w => (s, w)
  | None => let '(s1, b) := alloc_first c s in
            (set_ts s1 (t_id t) (with_writer (get_ts s1 (t_id t)) (Some b)), b)
  end.

Definition blk_add (b : blk) (c : Cfg) (es : list entry) : blk :=
  {| b_id := b_id b; b_file := b_file b; b_off := b_off b; b_limit := b_limit b;
     b_used := b_used b + sum_need c es; b_ents := b_ents b ++ es |}.

(* walrus_write.rs::check_appendable: rejections that depend only on the arguments, decided
   before anything is marked, allocated or sealed *)
Definition appendable (c : Cfg) (t : topic) (maxlen : N) : option errk :=
  if c_max_alloc c <? N.min u64_max (c_hdr c + maxlen) then Some EInvalidInput
  else if negb (name_ok c t) then Some EInvalidData else None.
Definition max_len (es : list entry) : N := fold_right (fun e a => N.max (e_len e) a) 0 es.

(* Walrus::append_for_topic + Writer::write *)
Definition append (c : Cfg) (s : st) (t : topic) (e : entry) : st * result :=
  let '(s1, w) := ensure_writer c s t in
  match appendable c t (e_len e) with Some k => (s1, RErr k) | None =>
  let ts := get_ts s1 (t_id t) in
  if ts_poisoned ts then (s1, RErr EOther) else
  let nd := need c e in
  let rot := b_limit w <? b_used w + nd in
  (* rotation: seal the current block, then allocate *)
  let '(s2, w2, failed) :=
    if rot then
      let s1' := set_ts s1 (t_id t) (seal ts w) in
      match alloc_sized c s1' nd with
      | None => (s1', w, true)        (* sealed copy is in the chain, writer keeps the old block *)
      | Some (s1'', nb) => (set_ts s1'' (t_id t) (with_writer (get_ts s1'' (t_id t)) (Some nb)), nb, false)
      end
    else (s1, w, false) in
  if failed then (s2, RErr EInvalidInput) else
  if negb (name_ok c t) then (s2, RErr EInvalidData) else
  let w3 := blk_add w2 c [e] in
  let s3 := st_disk_write s2 w2 t [e] in
  let ts3 := get_ts s3 (t_id t) in
  (set_ts s3 (t_id t) (count_add (with_writer ts3 (Some w3)) 1), ROk)
  end.

(* Writer::batch_write planning.  [cur] carries the planned entries (b_used is the planning
   offset); a rotation seals [cur] as it stands (its used covers entries of this batch) and
   switches the writer.  Returns (state, final block, allocation ok?, rotated?). The disk
   image receives each entry when it is planned: in the fault-free model every planned
   write succeeds, and a failing plan that has written nothing is discarded by the caller. *)
Fixpoint batch_plan (c : Cfg) (s : st) (t : topic) (cur : blk) (rot : bool) (es : list entry)
  : st * blk * bool * bool :=
  match es with
  | [] => (s, cur, true, rot)
  | e :: r =>
    let nd := need c e in
    if nd <=? b_limit cur - b_used cur
    then batch_plan c (st_disk_write s cur t [e]) t (blk_add cur c [e]) rot r
    else
      let s' := set_ts s (t_id t) (seal (get_ts s (t_id t)) cur) in
      match alloc_sized c s' (N.max nd (c_block c)) with
      | None => (s', cur, false, rot)
      | Some (s'', nb) => batch_plan c (st_disk_write s'' nb t [e]) t (blk_add nb c [e]) true r
      end
  end.

Definition mark_unmodelled (s : st) (t : N) : st :=
  let ts := get_ts s t in
  set_ts s t {| ts_reader := ts_reader ts; ts_writer := ts_writer ts; ts_poisoned := ts_poisoned ts;
                ts_count := ts_count ts; ts_index := ts_index ts; ts_unmodelled := true |}.

(* Walrus::batch_append_for_topic + Writer::batch_write *)
Definition batch (c : Cfg) (be : backend) (s : st) (t : topic) (es : list entry) : st * result :=
  let '(s1, w) := ensure_writer c s t in
  let ts := get_ts s1 (t_id t) in
  if c_max_entries c <? N.of_nat (length es) then (s1, RErr EInvalidInput) else
  if c_max_bytes c <? sum_need c es then (s1, RErr EInvalidInput) else
  match appendable c t (max_len es) with Some k => (s1, RErr k) | None =>
  match es with
  | [] => (s1, ROk)
  | _ =>
    if ts_poisoned ts then (s1, RErr EOther) else
    let '(s2, wfin, okp, rot) := batch_plan c s1 t w false es in
    if negb okp then
      (* allocation refused mid-plan: the chain already holds a sealed copy whose [used]
         covers unwritten entries; beyond what this model represents *)
      (mark_unmodelled s2 (t_id t), RErr EInvalidInput)
    else if negb (name_ok c t) then
      match be with
      | Fd => (* header copy panics while the writer mutexes are held *)
              let s' := if rot then mark_unmodelled s2 (t_id t) else s1 in
              (set_ts s' (t_id t) (with_poison (get_ts s' (t_id t))), RPanic)
      | Mmap => ((if rot then mark_unmodelled s2 (t_id t) else s1), RErr EInvalidData)
      end
    else
      let ts2 := get_ts s2 (t_id t) in
      (set_ts s2 (t_id t) (count_add (with_writer ts2 (Some wfin)) (N.of_nat (length es))), ROk)
  end
  end.

(* ------------------------------------------------------------------ read_next *)
Definition u32_max : N := 4294967295.

Definition set_since (r : reader) (n : N) : reader :=
  {| r_chain := r_chain r; r_idx := r_idx r; r_off := r_off r; r_tail_bid := r_tail_bid r;
     r_tail_off := r_tail_off r; r_since := n; r_hydrated := r_hydrated r |}.
Definition set_cur (r : reader) (i : nat) (o : N) : reader :=
  {| r_chain := r_chain r; r_idx := i; r_off := o; r_tail_bid := r_tail_bid r;
     r_tail_off := r_tail_off r; r_since := r_since r; r_hydrated := r_hydrated r |}.
Definition set_tail (r : reader) (b o : N) : reader :=
  {| r_chain := r_chain r; r_idx := r_idx r; r_off := r_off r; r_tail_bid := b;
     r_tail_off := o; r_since := r_since r; r_hydrated := r_hydrated r |}.
Definition set_hydrated (r : reader) : reader :=
  {| r_chain := r_chain r; r_idx := r_idx r; r_off := r_off r; r_tail_bid := r_tail_bid r;
     r_tail_off := r_tail_off r; r_since := r_since r; r_hydrated := true |}.

(* Walrus::should_persist *)
Definition should_persist (m : mode) (r : reader) (force : bool) : reader * bool :=
  match m with
  | Strict => (r, true)
  | ALO n =>
    let every := N.max n 1 in
    if force then (set_since r 0, true)
    else let next := N.min (r_since r + 1) u32_max in
         if every <=? next then (set_since r 0, true) else (set_since r next, false)
  end.

(* clamp a persisted u64 block index to the chain length without building a huge nat *)
Definition clamp_idx (a : N) (len : nat) : nat :=
  if N.of_nat len <? a then len else N.to_nat a.

Definition used_at (ch : list blk) (i : nat) : option N :=
  match nth_error ch i with Some b => Some (b_used b) | None => None end.

Fixpoint find_id (ch : list blk) (id : N) (i : nat) : option nat :=
  match ch with
  | [] => None
  | b :: r => if b_id b =? id then Some i else find_id r id (S i)
  end.

(* hydration from the persisted position (shared by both read paths; [set_tail_too] is the
   batch-read variant that also restores the in-memory tail progress) *)
Definition hydrate (r : reader) (idx : option ppos) (set_tail_too : bool) : reader * option (N * N) :=
  if r_hydrated r then (r, None) else
  match idx with
  | None => (set_hydrated r, None)
  | Some p =>
    let len := length (r_chain r) in
    if p_tail p then
      let r1 := if set_tail_too then set_tail r (p_a p) (p_off p) else r in
      (set_hydrated (set_cur r1 len 0), Some (p_a p, p_off p))
    else
      let ib := clamp_idx (p_a p) len in
      let off := match used_at (r_chain r) ib with Some u => N.min (p_off p) u | None => 0 end in
      (set_hydrated (set_cur r ib off), None)
  end.

(* walk the sealed chain from (idx, off): skip exhausted blocks (each is marked
   checkpointed in the trackers), stop at the first block with unread bytes *)
Fixpoint rn_walk (rest : list blk) (idx : nat) (off : N) : nat * N * option blk :=
  match rest with
  | [] => (idx, off, None)
  | b :: rest' => if b_used b <=? off then rn_walk rest' (S idx) 0 else (idx, off, Some b)
  end.

Definition persist (ts : tstate) (tail : bool) (a off : N) : tstate :=
  with_index ts {| p_tail := tail; p_a := a; p_off := off |}.

Definition read_next (c : Cfg) (m : mode) (s : st) (t : topic) (ckpt : bool) : st * result :=
  let ts := get_ts s (t_id t) in
  let r0 := reader_of ts in
  let '(r1, pt) := hydrate r0 (ts_index ts) false in
  (* fold a persisted tail position into the recovered chain *)
  let r2 := match pt with
            | Some (id, off) =>
              match r_chain r1 with
              | [] => r1
              | _ => match find_id (r_chain r1) id 0 with
                     | Some j => set_cur r1 j (match used_at (r_chain r1) j with Some u => N.min off u | None => 0 end)
                     | None => set_cur r1 0 0
                     end
              end
            | None => r1
            end in
  let '(i, o, hit) := rn_walk (skipn (r_idx r2) (r_chain r2)) (r_idx r2) (r_off r2) in
  let r3 := set_cur r2 i o in          (* the walk's advance is committed even for peeks *)
  match hit with
  | Some b =>
    match block_read c b o with
    | None => (set_ts s (t_id t) (with_reader ts r3), RNone)
    | Some (e, consumed) =>
      if ckpt then
        let r4 := set_cur r3 i (o + consumed) in
        let '(r5, p) := should_persist m r4 false in
        let ts' := with_reader ts r5 in
        let ts'' := if p then persist ts' false (N.of_nat i) (o + consumed) else ts' in
        (set_ts s (t_id t) (count_sub ts'' 1), REntry (out_of e))
      else (set_ts s (t_id t) (with_reader ts r3), REntry (out_of e))
    end
  | None =>
    (* tail path *)
    match ts_writer ts with
    | None => (set_ts s (t_id t) (with_reader ts r3), RNone)
    | Some w =>
      if ts_poisoned ts then (set_ts s (t_id t) (with_reader ts r3), RErr EOther) else
      let start := if r_tail_bid r3 =? b_id w then r_tail_off r3 else 0 in
      (* "no persisted tail": initialise at the active block, keeping in-memory progress;
         the provisional position is persisted only while nothing of the block was consumed
         and only when the block holds something (an empty block is not rebuilt by a restart) *)
      let '(r4, ts1) :=
        if ckpt && (start =? 0) && (0 <? b_used w) then
          let '(r', p) := should_persist m r3 true in
          (r', if p then persist ts true (b_id w) start else ts)
        else (r3, ts) in
      if start <? b_used w then
        match block_read c w start with
        | None => (set_ts s (t_id t) (with_reader ts1 r4), RNone)
        | Some (e, consumed) =>
          if ckpt then
            let r5 := set_tail r4 (b_id w) (start + consumed) in
            let '(r6, p) := should_persist m r5 false in
            let ts2 := with_reader ts1 r6 in
            let ts3 := if p then persist ts2 true (b_id w) (start + consumed) else ts2 in
            (set_ts s (t_id t) (count_sub ts3 1), REntry (out_of e))
          else (set_ts s (t_id t) (with_reader ts1 r4), REntry (out_of e))
        end
      else (set_ts s (t_id t) (with_reader ts1 r4), RNone)
    end
  end.

(* ------------------------------------------------------------------ batch_read_for_topic *)
Record plan_item := { pi_blk : blk; pi_start : N; pi_end : N; pi_tail : bool; pi_idx : nat }.

(* entry-boundary scan used by offset-addressed reads, over the content [es] of a block
   whose readable length is [used]; [pos] is the running in-block offset.
   Result: Some (entry start, entry end, trim) when found; None when the scan ran off the
   data or hit a zero/short header; the flag tells whether the scan position reached [used]. *)
Fixpoint off_scan (c : Cfg) (es : list entry) (pos used rem : N) : option (N * N * N) * bool :=
  if used <=? pos then (None, true) else
  if used <? pos + c_hdr c then (None, false) else
  match es with
  | [] => (None, false)                       (* zero header *)
  | e :: r =>
    let e_end := pos + need c e in
    if (rem =? 0) && (e_len e <? c_small c) then off_scan c r e_end used rem
    else if rem <? e_end then
      (Some (pos, e_end, (if pos + c_hdr c <? rem then rem - (pos + c_hdr c) else 0)), false)
    else off_scan c r e_end used rem
  end.

(* locate the chain block containing raw offset [rem] *)
Fixpoint off_locate (ch : list blk) (i : nat) (rem : N) : option (nat * blk) * N :=
  match ch with
  | [] => (None, rem)
  | b :: r => if rem <? b_used b then (Some (i, b), rem) else off_locate r (S i) (rem - b_used b)
  end.

(* the header peek(s) of the first planned range *)
Definition peek_want (c : Cfg) (b : blk) (off : N) : option N :=
  if b_used b <? off + c_hdr c then None else
  match view_at c (b_ents b) off with
  | HEntry e1 rest =>
    let req1 := need c e1 in
    if e_len e1 <? c_small c then
      let off2 := off + req1 in
      if b_used b <? off2 + c_hdr c then Some req1 else
      match rest with
      | e2 :: _ => Some (req1 + need c e2)
      | [] => Some req1
      end
    else Some req1
  | _ => None
  end.

(* plan the sealed ranges.  [first] = nothing planned yet.  Returns the plan (reversed),
   planned bytes, and the cursor after planning. *)
Fixpoint plan_sealed (c : Cfg) (maxb : N) (stateless : bool) (rest : list blk) (idx : nat) (off : N)
         (hint : N) (planned : N) (acc : list plan_item) : list plan_item * N * nat * bool :=
  match rest with
  | [] => (acc, planned, idx, false)
  | b :: rest' =>
    if negb ((planned <? maxb) || (match acc with [] => true | _ => false end)) then (acc, planned, idx, false) else
    if b_used b <=? off then plan_sealed c maxb stateless rest' (S idx) 0 0 planned acc else
    let want0 := maxb - planned in
    let want :=
      match acc with
      | [] =>
        if stateless && (off <? hint) then N.max want0 (hint - off)
        else match peek_want c b off with Some req => N.max want0 req | None => want0 end
      | _ => want0
      end in
    let e := N.min (b_used b) (N.min u64_max (off + want)) in
    let acc' := if off <? e then {| pi_blk := b; pi_start := off; pi_end := e; pi_tail := false; pi_idx := idx |} :: acc else acc in
    let planned' := if off <? e then planned + (e - off) else planned in
    if e <? b_used b then (acc', planned', idx, true)      (* truncated by the budget: stop here *)
    else plan_sealed c maxb stateless rest' (S idx) 0 hint planned' acc'
  end.

Record pstate := {
  ps_outs : list out;       (* reversed *)
  ps_n : N;                 (* entries pushed *)
  ps_total : N;             (* payload bytes *)
  ps_parsed : N;
  ps_trim : N;
  ps_fin_idx : nat; ps_fin_off : N; ps_tail_id : N; ps_tail_off : N; ps_saw_tail : bool;
  ps_stop : bool            (* the byte budget ended the whole read *)
}.

(* parse one planned range: [es] = entries from in-block offset [pos] on *)
Fixpoint parse_range (c : Cfg) (maxb : N) (pi : plan_item) (es : list entry) (pos : N) (p : pstate) : pstate :=
  match es with
  | [] => p
  | e :: r =>
    if c_max_entries c <=? ps_n p then p else
    if pi_end pi <? pos + c_hdr c then p else
    if pi_end pi <? pos + need c e then p else
    let next_total := N.min usize_max (ps_total p + e_len e) in
    if (maxb <? next_total) && negb (ps_n p =? 0) then
      {| ps_outs := ps_outs p; ps_n := ps_n p; ps_total := ps_total p; ps_parsed := ps_parsed p; ps_trim := ps_trim p;
         ps_fin_idx := ps_fin_idx p; ps_fin_off := ps_fin_off p; ps_tail_id := ps_tail_id p; ps_tail_off := ps_tail_off p;
         ps_saw_tail := ps_saw_tail p; ps_stop := true |}
    else
    let skip := N.min (ps_trim p) (e_len e) in
    let o := {| o_pid := e_pid e; o_skip := skip; o_len := e_len e - skip |} in
    let np := pos + need c e in
    parse_range c maxb pi r np
      {| ps_outs := o :: ps_outs p; ps_n := ps_n p + 1; ps_total := next_total; ps_parsed := ps_parsed p + 1;
         ps_trim := 0;
         ps_fin_idx := if pi_tail pi then ps_fin_idx p else pi_idx pi;
         ps_fin_off := if pi_tail pi then ps_fin_off p else np;
         ps_tail_id := if pi_tail pi then b_id (pi_blk pi) else ps_tail_id p;
         ps_tail_off := if pi_tail pi then np else ps_tail_off p;
         ps_saw_tail := ps_saw_tail p || pi_tail pi; ps_stop := false |}
  end.

(* entries of a block from a boundary offset on; [] when the offset is not a boundary *)
Fixpoint ents_from (c : Cfg) (es : list entry) (off : N) : list entry :=
  match es with
  | [] => []
  | e :: r => if off =? 0 then es else if off <? need c e then [] else ents_from c r (off - need c e)
  end.

Fixpoint parse_plan (c : Cfg) (maxb : N) (plan : list plan_item) (p : pstate) : pstate :=
  match plan with
  | [] => p
  | pi :: rest =>
    if (c_max_entries c <=? ps_n p) || ps_stop p then p else
    parse_plan c maxb rest (parse_range c maxb pi (ents_from c (b_ents (pi_blk pi)) (pi_start pi)) (pi_start pi) p)
  end.

(* the cursor a batch read starts from: (reader to store back, chain, idx, off, tail id,
   tail offset / remaining raw offset, trim, hint, stateless) *)
Definition br_pos := (option reader * list blk * nat * N * N * N * N * N * bool)%type.

(* 1) position *)
Definition br_position (c : Cfg) (ts : tstate) (start : option N) : br_pos :=
    match start with
    | Some req =>
      let ch := match ts_reader ts with Some r => r_chain r | None => [] end in
      match off_locate ch 0 req with
      | (Some (i, b), rem) =>
        match off_scan c (b_ents b) 0 (b_used b) rem with
        | (Some (co, hint, trim), _) => (None, ch, i, co, 0, rem, trim, hint, true)
        | (None, true) => (None, ch, i, b_used b, 0, rem, 0, 0, true)
        | (None, false) => (None, ch, i, 0, 0, rem, 0, 0, true)
        end
      | (None, rem) => (None, ch, length ch, 0, 0, rem, 0, 0, true)
      end
    | None =>
      let '(r, pt) := hydrate (reader_of ts) (ts_index ts) true in
      let r' := match pt with
                | Some (id, off) =>
                  match find_id (r_chain r) id 0 with
                  | Some j => set_cur r j (match used_at (r_chain r) j with Some u => N.min off u | None => 0 end)
                  | None => r
                  end
                | None => r
                end in
      (Some r', r_chain r', r_idx r', r_off r', r_tail_bid r', r_tail_off r', 0, 0, false)
    end.

(* 2-5) plan, read, parse, commit from a position *)
Definition br_from (c : Cfg) (m : mode) (s : st) (t : topic) (maxb : N) (ckpt : bool) (ts : tstate) (pos : br_pos)
  : st * result :=
  let wsnap := if ts_poisoned ts then None else ts_writer ts in
  let '(r1, chain, idx0, off0, tail_bid, tail_off, trim0, hint0, stateless) := pos in
  let ts_h := match r1 with Some r => with_reader ts r | None => ts end in
  (* 2) plan *)
  let '(racc, planned, idx_after, truncated) :=
    plan_sealed c maxb stateless (skipn idx0 chain) idx0 off0 hint0 0 [] in
  let chain_len := length chain in
  let '(racc2, trim1) :=
    if negb truncated && (chain_len <=? idx_after)%nat then
      match wsnap with
      | Some w =>
        let '(tstart, trim) :=
          if stateless then
            match off_scan c (b_ents w) 0 (b_used w) tail_off with
            | (Some (co, _, tr), _) => (co, if co + c_hdr c <? tail_off then tr else trim0)
            | (None, _) => (0, trim0)
            end
          else ((if tail_bid =? b_id w then tail_off else 0), trim0) in
        if tstart <? b_used w
        then ({| pi_blk := w; pi_start := tstart; pi_end := b_used w; pi_tail := true; pi_idx := 0 |} :: racc, trim)
        else (racc, trim)
      | None => (racc, trim0)
      end
    else (racc, trim0) in
  match racc2 with
  | [] => (set_ts s (t_id t) ts_h, REntries [])
  | _ =>
    (* 3+4) read and parse *)
    let p0 := {| ps_outs := []; ps_n := 0; ps_total := 0; ps_parsed := 0; ps_trim := trim1;
                 ps_fin_idx := 0; ps_fin_off := 0; ps_tail_id := 0; ps_tail_off := 0; ps_saw_tail := false; ps_stop := false |} in
    let p := parse_plan c maxb (rev racc2) p0 in
    (* 5) commit *)
    let ts_c :=
      if (0 <? ps_parsed p) && ckpt && negb stateless then
        let r := reader_of ts_h in
        let '(r', persist_disk) :=
          match m with
          | Strict => (r, true)
          | ALO n => let every := N.max n 1 in
                     let total := N.min u32_max (r_since r + ps_parsed p) in
                     (set_since r (if every <=? total then 0 else total), false)
          end in
        if ps_saw_tail p then
          let r'' := set_tail (set_cur r' chain_len 0) (ps_tail_id p) (ps_tail_off p) in
          let ts1 := with_reader ts_h r'' in
          if persist_disk then persist ts1 true (ps_tail_id p) (ps_tail_off p) else ts1
        else
          let r'' := set_cur r' (ps_fin_idx p) (ps_fin_off p) in
          let ts1 := with_reader ts_h r'' in
          if persist_disk then persist ts1 false (N.of_nat (ps_fin_idx p)) (ps_fin_off p) else ts1
      else ts_h in
    let ts_d := if ckpt && negb stateless then count_sub ts_c (ps_parsed p) else ts_c in
    (set_ts s (t_id t) ts_d, REntries (rev (ps_outs p)))
  end.

Definition batch_read (c : Cfg) (m : mode) (s : st) (t : topic) (maxb : N) (ckpt : bool) (start : option N)
  : st * result :=
  let ts := get_ts s (t_id t) in
  br_from c m s t maxb ckpt ts (br_position c ts start).

(* ------------------------------------------------------------------ recovery (startup_chore) *)
Record recovered := {
  rc_chains : list (N * (topic * list blk));    (* topic id -> (topic, chain in scan order) *)
  rc_flag : bool                                  (* scan met bytes this model does not interpret *)
}.

Fixpoint rc_push (l : list (N * (topic * list blk))) (t : topic) (b : blk) : list (N * (topic * list blk)) :=
  match l with
  | [] => [(t_id t, (t, [b]))]
  | (k, (t0, ch)) :: r => if k =? t_id t then (k, (t0, ch ++ [b])) :: r else (k, (t0, ch)) :: rc_push r t b
  end.

(* the recovery walk of one block: from [es] at in-block offset [pos], continuing while
   pos < the extent known so far [lim]; an entry that starts inside the extent and ends beyond
   it extends the extent to the unit boundary behind it.  Result: entries seen, used, extent *)
Definition round_up (c : Cfg) (x : N) : N := div_up x (c_block c) * c_block c.
Fixpoint walk_unit (c : Cfg) (lim : N) (es : list entry) (pos : N) (acc : list entry) : list entry * N * N :=
  match es with
  | [] => (rev acc, pos, lim)
  | e :: r => if lim <=? pos then (rev acc, pos, lim)
              else let np := pos + need c e in
                   walk_unit c (if lim <? np then round_up c np else lim) r np (e :: acc)
  end.

(* scan the blocks of one file in offset order.  [zeros] = all-zero units seen since the last
   block with data: they count towards the block ids only when data follows in this file.
   The on-disk blocks of a file are contiguous from offset 0 (allocation is sequential), so
   walking the list is walking the file unit by unit; a never-written block of k units is k
   zero probes, and so are the units of a written block beyond the extent the walk derives.
   If the derived extent exceeds the allocated one the scan is out of step with the layout:
   flagged (cannot happen for blocks written by this model). *)
Fixpoint scan_blocks (c : Cfg) (f : N) (blocks : list dblk) (zeros : N) (next_id : N) (acc : recovered)
  : recovered * N :=
  match blocks with
  | [] => (acc, next_id)
  | b :: rest =>
    match d_ents b, d_topic b with
    | _ :: _, Some t =>
      let '(seen, used, lim) := walk_unit c (c_block c) (d_ents b) 0 [] in
      if d_limit b <? lim then ({| rc_chains := rc_chains acc; rc_flag := true |}, next_id) else
      let id := next_id + zeros in
      let nb := {| b_id := id; b_file := f; b_off := d_off b; b_limit := lim; b_used := used; b_ents := seen |} in
      scan_blocks c f rest ((d_limit b - lim) / c_block c) (id + 1)
                  {| rc_chains := rc_push (rc_chains acc) t nb; rc_flag := rc_flag acc |}
    | _, _ => scan_blocks c f rest (zeros + d_limit b / c_block c) next_id acc
    end
  end.

Fixpoint scan_files (c : Cfg) (nfiles : nat) (f : N) (disk : list dblk) (next_id : N) (acc : recovered)
  : recovered * N :=
  match nfiles with
  | O => (acc, next_id)
  | S k =>
    let blocks := filter (fun x => d_file x =? f) disk in
    let '(acc', id') := scan_blocks c f blocks 0 next_id acc in
    scan_files c k (f + 1) disk id' acc'
  end.

(* count_entries_in_block_up_to *)
Fixpoint count_upto (c : Cfg) (es : list entry) (off limit : N) (n : N) : N :=
  match es with
  | [] => n
  | e :: r => if limit <=? off then n
              else if limit <? off + need c e then n
              else count_upto c r (off + need c e) limit (n + 1)
  end.

Definition blk_count (b : blk) : N := N.of_nat (length (b_ents b)).
Definition sum_counts (bs : list blk) : N := fold_right (fun b a => blk_count b + a) 0 bs.

Definition consumed_at (c : Cfg) (ch : list blk) (i : nat) (off : N) : N :=
  sum_counts (firstn i ch) +
  match nth_error ch i with
  | Some b => if b_used b <=? off then blk_count b else count_upto c (b_ents b) 0 (N.min off (b_used b)) 0
  | None => 0
  end.

Definition rebuilt_count (c : Cfg) (ch : list blk) (idx : option ppos) : N :=
  let total := sum_counts ch in
  let consumed :=
    match idx with
    | None => 0
    | Some p =>
      if p_tail p then
        match find_id ch (p_a p) 0 with
        | Some i => consumed_at c ch i (p_off p)
        | None => 0
        end
      else consumed_at c ch (clamp_idx (p_a p) (length ch)) (p_off p)
    end in
  total - consumed.

(* startup hydration of the in-memory cursor (a tail-flagged position is read as a huge index) *)
Definition startup_cursor (ch : list blk) (idx : option ppos) : nat * N :=
  match idx with
  | None => (O, 0)
  | Some p =>
    let ib := if p_tail p then length ch else clamp_idx (p_a p) (length ch) in
    (ib, match used_at ch ib with Some u => N.min (p_off p) u | None => 0 end)
  end.

Definition all_topic_ids (s : st) (rc : recovered) : list N :=
  map fst (s_topics s) ++ map fst (rc_chains rc).

(* drop the instance cleanly and open a new one on the same directory *)
Definition reopen (c : Cfg) (s : st) : st :=
  let disk := rev (s_disk s) in   (* allocation order: offsets ascend within a file *)
  let newfile := s_files s in
  let '(rc, next_id) := scan_files c (N.to_nat (s_files s + 1)) 0 disk 1
                                   {| rc_chains := []; rc_flag := false |} in
  let topics :=
    map (fun p : N * tstate =>
      let t := fst p in
      let old := snd p in
      match find (fun q => fst q =? t) (rc_chains rc) with
      | Some (_, (_, ch)) =>
        let '(i, o) := startup_cursor ch (ts_index old) in
        (t, {| ts_reader := Some {| r_chain := ch; r_idx := i; r_off := o; r_tail_bid := 0; r_tail_off := 0;
                                    r_since := 0; r_hydrated := false |};
               ts_writer := None; ts_poisoned := false;
               ts_count := Some (rebuilt_count c ch (ts_index old));
               ts_index := ts_index old; ts_unmodelled := ts_unmodelled old || rc_flag rc |})
      | None =>
        (t, {| ts_reader := None; ts_writer := None; ts_poisoned := false; ts_count := None;
               ts_index := ts_index old; ts_unmodelled := ts_unmodelled old || rc_flag rc |})
      end) (s_topics s) in
  {| s_topics := topics;
     s_alloc := {| a_next := N.max 1 next_id; a_file := newfile; a_off := 0 |};
     s_disk := s_disk s; s_files := newfile + 1 |}.

(* would a restart now give some written block another id than it has in memory?  (Block ids
   are positional at recovery: a never-written block at the end of a WAL file that is not the
   last one consumed an allocator id which recovery does not count.)  Persisted tail positions
   name their block by id, so after such a restart they resolve to the wrong block or to none. *)
Fixpoint nlist_eqb (a b : list N) : bool :=
  match a, b with
  | [], [] => true
  | x :: a', y :: b' => (x =? y) && nlist_eqb a' b'
  | _, _ => false
  end.
Definition id_drift (c : Cfg) (s : st) : bool :=
  let '(rc, _) := scan_files c (N.to_nat (s_files s + 1)) 0 (rev (s_disk s)) 1 {| rc_chains := []; rc_flag := false |} in
  existsb (fun p : N * tstate =>
    let ts := snd p in
    let mem := filter (fun b => match b_ents b with [] => false | _ => true end)
                      ((match ts_reader ts with Some r => r_chain r | None => [] end) ++
                       (match ts_writer ts with Some w => [w] | None => [] end)) in
    let rcv := match find (fun q => fst q =? fst p) (rc_chains rc) with Some (_, (_, ch)) => ch | None => [] end in
    negb (nlist_eqb (map b_id rcv) (map b_id mem))) (s_topics s).

Definition init : st :=
  {| s_topics := []; s_alloc := {| a_next := 1; a_file := 0; a_off := 0 |}; s_disk := []; s_files := 1 |}.

(* ------------------------------------------------------------------ operations *)
Inductive op :=
| OAppend (t : topic) (e : entry)
| OBatch (t : topic) (es : list entry)
| ORead (t : topic) (ckpt : bool)
| OBatchRead (t : topic) (maxb : N) (ckpt : bool) (start : option N)
| OCount (t : topic)
| OReopen.

Record env := { v_cfg : Cfg; v_mode : mode; v_backend : backend }.

Definition step (v : env) (s : st) (o : op) : st * result :=
  match o with
  | OAppend t e => append (v_cfg v) s t e
  | OBatch t es => batch (v_cfg v) (v_backend v) s t es
  | ORead t ck => read_next (v_cfg v) (v_mode v) s t ck
  | OBatchRead t mb ck st0 => batch_read (v_cfg v) (v_mode v) s t mb ck st0
  | OCount t => (s, RNum (match ts_count (get_ts s (t_id t)) with Some n => n | None => 0 end))
  | OReopen => (reopen (v_cfg v) s, ROk)
  end.

Fixpoint run (v : env) (s : st) (ops : list op) : list result :=
  match ops with
  | [] => []
  | o :: r => let '(s', res) := step v s o in res :: run v s' r
  end.

(* ------------------------------------------------------------------ process crash (completed writes persist) *)
(* A crash between two operations leaves exactly the disk image and the persisted read
   positions of that moment; a fresh process then opens the directory: [reopen].
   A crash INSIDE a batch append after the writes of its first [j] entries completed (the
   io_uring path submits one write per entry; the mmap path writes them in order): the plan
   has allocated what it needed and those j entries are on disk, nothing is published. *)
Definition batch_crash (c : Cfg) (s : st) (t : topic) (es : list entry) (j : nat) : st :=
  let '(s1, w) := ensure_writer c s t in
  let '(s2, _, _, _) := batch_plan c s1 t w false (firstn j es) in
  reopen c s2.

Definition stream_of (s : st) (t : N) : list entry :=
  let ts := get_ts s t in
  flat_map b_ents (match ts_reader ts with Some r => r_chain r | None => [] end)
  ++ match ts_writer ts with Some w => b_ents w | None => [] end.

Definition unmodelled (s : st) (t : N) : bool := ts_unmodelled (get_ts s t).

Definition any_unmodelled (s : st) : bool := existsb (fun p => ts_unmodelled (snd p)) (s_topics s).
