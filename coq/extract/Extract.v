(* Extraction of the executable model and acceptors to OCaml (ExtrOcamlBasic only). *)
From Coq Require Import ExtrOcamlBasic.
From W Require Import model.Base model.Fnv model.Utf8 model.Sanitize model.WalKey model.Engine model.EngineCfg model.EngineKnown spec.Queue spec.Crash model.Frame spec.FrameSpec model.Map model.Bincode model.Meta model.Adapter model.RaftStore spec.RaftSpec model.Hdr spec.Damage model.Durable spec.PowerLoss model.Clean spec.CleanSpec model.Trk model.Cluster model.ClusterSys spec.StreamSpec spec.ClusterClass model.Conc spec.ConcSpec.
Extraction "model.ml"
  N.add N.mul N.div N.modulo N.eqb N.ltb N.leb N.sub N.of_nat N.to_nat
  checksum64 utf8_encode utf8_decode
  sanitize sanitize_v0 safe_component
  wal_key parse_wal_key
  real_cfg small_cfg init step unmodelled any_unmodelled
  c01_ok c03_ok c15_ok c02b_ok c02c_ok c06alo_ok
  c07_ok c08_ok c09_strict_ok c09_alo_ok batch_crash stream_of id_drift stale_tail_b
  serve_v0 serve_fixed split_frames responses resp_text enc_resp classify_frame c24_ok c24_known c24_rt_ok
  text_frame put_line get_line enc_frames
  str_cmp of_list enc_cmd dec_cmd enc_cluster dec_cluster m_init apply apply_fx snapshot restore get_topic_state visible snap_item
  sum_overflow cluster_ok cluster_ext c18_ok cluster_eqb c20_snap_ok
  a_init a_apply build_snapshot install_snapshot a_visible
  wal_run wal_disciplined wal_empty trace final c21_ok c21_known reopens ghost_of sm_apply sm_init rec_app apply_spec
  decode_hdr class_of encode_hdr enc_entry entry_read scan_file topic_stream utf8_ok c11_ok
  drun dstep d_init proto_ok mrun_stop dm_init pick_outcome unsynced admissible_outcomes dlook owner flen ino_ops version_of reflected_ends
  c10_strict_ok c10_appends_ok
  k_init k_step k_quiet k_accept k_c17_ok
  trk0 trk_run trk_requests contract_ok c12_trace_ok marks_repeated reregistered
  cl_init cl_step cl_run cl_trace c22_verdict c23_verdict c23_foreign_ok cl_classes c22_known c23_known seq_trace fenced_trace c22_seq_ok
  cinit cstep run_schedule crun_from ccomplete cresults threads_done conc_unmodelled kflags0 kstep c05_run_ok c05_ok events_all offered_pids.
