(* FrameSpec.v — C24 as an executable acceptor over what a client sent on one connection
   ([inp]) and everything the server wrote back ([out]).

   Framing as the protocol defines it: a 4-byte little-endian length L followed by exactly L
   body bytes, WHATEVER L is.  The acceptor demands
     * [out] is a sequence of complete response frames (nothing left over);
     * one response per complete request frame, in order (a request whose announced length
       is 0 or above MAX_FRAME_LEN, or whose body is not UTF-8, gets its specific error;
       an unknown or incomplete command gets some "ERR ...");
     * payload round trip against an abstract per-topic FIFO driven only by what was
       acknowledged: a PUT answered "OK" enqueues its payload bytes, a GET is answered
       "OK " ++ (the oldest acknowledged, not yet returned payload of that topic, byte for
       byte), or "EMPTY" exactly when there is none, or "ERR ..." (and then consumes nothing);
     * bytes after the last complete request (a truncated frame) get no response, except
       that a truncated frame whose announced length is above the limit may already have
       been refused. *)
From W Require Import gen.Consts model.Base model.Utf8 model.Frame.

Fixpoint split_frames_fuel (fuel : nat) (inp : list N) : list frame * list N :=
  match fuel with
  | O => ([], inp)
  | S f =>
    match inp with
    | b0 :: b1 :: b2 :: b3 :: rest =>
      let n := un_le32 b0 b1 b2 b3 in
      match read_exact n rest with
      | Some (body, rest') =>
        let (fs, tl) := split_frames_fuel f rest' in ({| f_len := n; f_body := body |} :: fs, tl)
      | None => ([], inp)
      end
    | _ => ([], inp)
    end
  end.
Definition split_frames (inp : list N) : list frame * list N :=
  split_frames_fuel (S (length inp)) inp.

Inductive fclass := KBadLen | KBadUtf8 | KCmd (c : fcmd).
Definition classify_frame (f : frame) : fclass :=
  if bad_len (f_len f) then KBadLen
  else match utf8_decode (f_body f) with
       | None => KBadUtf8
       | Some text => KCmd (parse_cmd (trim_end text))
       end.

(* response bodies are compared as bytes; the literals are ASCII, so their UTF-8 bytes are
   their scalar values *)
Definition is_err (r : list N) : bool :=
  match strip_prefix s_ERR_sp r with Some _ => true | None => false end.
Definition err_len_bytes : list N := s_ERR_sp ++ m_len.
Definition err_utf8_bytes : list N := s_ERR_sp ++ m_utf8.

(* the truncated final piece of the input announces an over-long frame *)
Definition tail_oversize (tl : list N) : bool :=
  match tl with
  | b0 :: b1 :: b2 :: b3 :: _ => max_frame_len <? un_le32 b0 b1 b2 b3
  | _ => false
  end.
Definition tail_ok (tl : list N) (extra : list (list N)) : bool :=
  match extra with
  | [] => true
  | [r] => tail_oversize tl && str_eqb r err_len_bytes
  | _ => false
  end.

(* one request frame against its response; [q]: abstract queues (topic -> acknowledged, not
   yet returned payloads); None = rejected *)
Definition check1 (q : ctl) (f : frame) (r : list N) : option ctl :=
  match classify_frame f with
  | KBadLen => if str_eqb r err_len_bytes then Some q else None
  | KBadUtf8 => if str_eqb r err_utf8_bytes then Some q else None
  | KCmd (FPut t p) =>
      if str_eqb r s_OK then Some (ctl_set q t (ctl_queue q t ++ [utf8_encode p]))
      else if is_err r then Some q else None
  | KCmd (FGet t) =>
      if is_err r then Some q
      else match ctl_queue q t with
           | [] => if str_eqb r s_EMPTY then Some q else None
           | x :: rest => if str_eqb r (s_OK_sp ++ x) then Some (ctl_set q t rest) else None
           end
  | KCmd (FBad _) => if is_err r then Some q else None
  | KCmd (FRegister _) => if str_eqb r s_OK || is_err r then Some q else None
  | KCmd (FState _) => Some q
  | KCmd FMetrics => Some q
  end.

Fixpoint check (q : ctl) (tl : list N) (fs : list frame) (rs : list (list N)) : bool :=
  match fs with
  | [] => tail_ok tl rs
  | f :: fs' =>
    match rs with
    | [] => false
    | r :: rs' => match check1 q f r with
                  | Some q' => check q' tl fs' rs'
                  | None => false
                  end
    end
  end.

Definition c24_ok (inp out : list N) : bool :=
  let (fs, tl) := split_frames inp in
  match split_frames out with
  | (ofs, []) => check ctl0 tl fs (map f_body ofs)
  | _ => false
  end.

(* the mechanism-shaped class of finding D12: some header announces more than
   MAX_FRAME_LEN bytes (complete or truncated frame) *)
Definition c24_known (inp : list N) : bool :=
  let (fs, tl) := split_frames inp in
  existsb (fun f => max_frame_len <? f_len f) fs || tail_oversize tl.

(* side conditions of the payload round trip, as the code needs them:
   topic: scalar values, no U+0020, non-empty, does not end in whitespace (the GET line is
          trimmed), is not the mock's failing topic;
   payload: scalar values, something is left after trim_end;
   both lines fit a frame *)
Definition no_space (s : str) : bool := forallb (fun c => negb (c =? ch_sp)) s.
Definition nonempty (s : str) : bool := match s with [] => false | _ => true end.
Definition c24_rt_ok (t p : str) : bool :=
  forallb is_scalar t && forallb is_scalar p
  && no_space t && nonempty t && str_eqb (trim_end t) t && negb (is_fail t)
  && nonempty (trim_end p)
  && (blen (utf8_encode (put_line t p)) <=? max_frame_len).
