(* RaftSpec.v — what C21 / C19 ask for, independent of how the code stores anything.

   The specification object is the IDEAL store: the in-memory log store and address book that
   never forget (a restart changes nothing in the log store; in the address book it re-asserts the
   node's own address and the configured peers, as every start does).  C21 says: the real store,
   restarted any number of times, is indistinguishable from the ideal one — every operation result
   and every observation (vote, committed id, purge point, log entries, peer addresses) agrees.

   [c21_accept] is that statement as an executable acceptor over observed traces; it is what the
   check runs over the implementation's output. *)
From W Require Import model.Base model.RaftStore.

(* ---------- decidable equalities used by the acceptor ---------- *)
Definition logid_eqb (a b : logid) : bool :=
  (l_term a =? l_term b) && (l_node a =? l_node b) && (l_index a =? l_index b).
Definition opt_logid_eqb (a b : option logid) : bool :=
  match a, b with
  | None, None => true
  | Some x, Some y => logid_eqb x y
  | _, _ => false
  end.
Definition payload_eqb (a b : payload) : bool :=
  match a, b with
  | PBlank, PBlank => true
  | PNormal x, PNormal y => str_eqb x y
  | PMember x, PMember y => x =? y
  | _, _ => false
  end.
Definition lentry_eqb (a b : lentry) : bool := logid_eqb (e_id a) (e_id b) && payload_eqb (e_pl a) (e_pl b).
Fixpoint entries_eqb (a b : list lentry) : bool :=
  match a, b with
  | [], [] => true
  | x :: a', y :: b' => lentry_eqb x y && entries_eqb a' b'
  | _, _ => false
  end.
Definition vote_eqb (a b : vote) : bool :=
  (v_term a =? v_term b) && (v_node a =? v_node b) && Bool.eqb (v_committed a) (v_committed b).
Definition opt_vote_eqb (a b : option vote) : bool :=
  match a, b with
  | None, None => true
  | Some x, Some y => vote_eqb x y
  | _, _ => false
  end.
Definition mem_eqb (a b : mem) : bool :=
  opt_logid_eqb (m_purged a) (m_purged b) && entries_eqb (m_log a) (m_log b)
  && opt_logid_eqb (m_committed a) (m_committed b) && opt_vote_eqb (m_vote a) (m_vote b).

(* two address books are the same when every lookup agrees *)
Definition book_same (a b : book) : Prop := forall k, pb_get k a = pb_get k b.
Definition book_eqb (a b : book) : bool :=
  forallb (fun k => opt_n_eqb (pb_get k a) (pb_get k b)) (map fst a ++ map fst b).

Definition sres_eqb (x y : sres) : bool :=
  match x, y with
  | XOk, XOk => true
  | XPanic, XPanic => true
  | XErr, XErr => true
  | XPersisted a, XPersisted b => Bool.eqb a b
  | XState a, XState b => mem_eqb a b
  | XBook a, XBook b => book_eqb a b
  | _, _ => false
  end.

(* ---------- the ideal store ---------- *)
Definition ideal : Type := (mem * book)%type.

(* the peer part of a start: own address, then the configured peers (no log to append to) *)
Fixpoint ideal_assert (node : N) (ps : list N) (b : book) : book :=
  match ps with
  | [] => b
  | p :: r =>
      let k := peer_id_of p in
      if negb (k =? node) && (0 <? k)
      then ideal_assert node r (if opt_n_eqb (pb_get k b) (Some p) then b else pb_set k p b)
      else ideal_assert node r b
  end.
Definition ideal_start (c : ncfg) (b : book) : book :=
  ideal_assert (c_node c) (c_peers c) (pb_set (c_node c) (c_bind c) b).

Definition ideal_init (c : ncfg) : ideal := (mem_empty, ideal_start c []).

Definition ideal_step (c : ncfg) (s : ideal) (o : sop) : ideal * sres :=
  let (m, b) := s in
  match o with
  | SAppend es => ((live_append m es, b), XOk)
  | STruncate l => ((live_truncate m l, b), XOk)
  | SPurge l => match live_purge m l with
                | Some m' => ((m', b), XOk)
                | None => (s, XPanic)
                end
  | SVote v => ((live_vote m v, b), XOk)
  | SCommitted cm => ((live_committed m cm, b), XOk)
  | SPeer k a => if opt_n_eqb (pb_get k b) (Some a) then (s, XPersisted false)
                 else ((m, pb_set k a b), XPersisted true)
  | SReopen => ((m, ideal_start c b), XOk)
  | SState => (s, XState m)
  | SPeers => (s, XBook b)
  end.

Fixpoint ideal_run_from (c : ncfg) (s : ideal) (h : list sop) : ideal * list (sop * sres) :=
  match h with
  | [] => (s, [])
  | o :: r =>
      let (s', x) := ideal_step c s o in
      let (s'', tr) := ideal_run_from c s' r in
      (s'', (o, x) :: tr)
  end.
Definition ideal_final (c : ncfg) (h : list sop) : ideal := fst (ideal_run_from c (ideal_init c) h).

(* ---------- the acceptor ---------- *)
Definition is_reopen (o : sop) : bool := match o with SReopen => true | _ => false end.

(* An operation that reported an error is not acknowledged and must leave no trace (a failed
   reopen is never acceptable); every other result and observation must be the ideal store's. *)
Fixpoint c21_accept_from (c : ncfg) (s : ideal) (tr : list (sop * sres)) : bool :=
  match tr with
  | [] => true
  | (o, x) :: rest =>
      match x with
      | XErr => negb (is_reopen o) && c21_accept_from c s rest
      | _ => let (s', y) := ideal_step c s o in sres_eqb x y && c21_accept_from c s' rest
      end
  end.
Definition c21_ok (c : ncfg) (tr : list (sop * sres)) : bool := c21_accept_from c (ideal_init c) tr.

(* the same as a relation *)
Inductive Accepts (c : ncfg) : ideal -> list (sop * sres) -> Prop :=
| Acc_nil : forall s, Accepts c s []
| Acc_err : forall s o rest, is_reopen o = false -> Accepts c s rest -> Accepts c s ((o, XErr) :: rest)
| Acc_step : forall s o x rest, x <> XErr ->
    sres_eqb x (snd (ideal_step c s o)) = true ->
    Accepts c (fst (ideal_step c s o)) rest -> Accepts c s ((o, x) :: rest).

(* ---------- which acknowledged records a restart can still see ---------- *)
(* Ghost accounting alongside the model node_run.  For each of the two logs three lists:
     lost  records that no later recovery read returns
     vis   records acknowledged before the current lifetime that its recovery read returned
     cur   records acknowledged in the current lifetime
   lost ++ vis ++ cur is every record ever acknowledged, in order. *)
Record ghost : Type := mkGhost {
  g_lost : list record; g_vis : list record; g_cur : list record;
  p_lost : list prec; p_vis : list prec; p_cur : list prec
}.

(* records acknowledged by one log-store operation, from the operation and its RESULT *)
Definition acks (o : sop) (x : sres) : list record :=
  match o, x with
  | SAppend es, XOk => map RLog es
  | STruncate l, XOk => [RTruncated l]
  | SPurge l, XOk => [RPurged l]
  | SVote v, XOk => [RVote v]
  | SCommitted cm, XOk => [RCommitted cm]
  | _, _ => []
  end.
Definition packs (o : sop) (x : sres) : list prec :=
  match o, x with
  | SPeer k a, XPersisted true => [(k, a)]
  | _, _ => []
  end.

(* records appended by the start-up loop over config.peers, given the loaded book *)
Fixpoint assert_emits (node : N) (ps : list N) (b : book) : list prec :=
  match ps with
  | [] => []
  | p :: r =>
      let k := peer_id_of p in
      if negb (k =? node) && (0 <? k)
      then if opt_n_eqb (pb_get k b) (Some p) then assert_emits node r b
           else (k, p) :: assert_emits node r (pb_set k p b)
      else assert_emits node r b
  end.
Definition start_emits (c : ncfg) (loaded : list prec) : list prec :=
  assert_emits (c_node c) (c_peers c) (pb_set (c_node c) (c_bind c) (replay_peers loaded)).

Definition ghost_init (c : ncfg) : ghost := mkGhost [] [] [] [] [] (start_emits c []).

Definition ghost_step (c : ncfg) (g : ghost) (o : sop) (x : sres) : ghost :=
  match o with
  | SReopen =>
      match c_mode c with
      | Consuming =>
          mkGhost (g_lost g ++ g_vis g) (g_cur g) []
                  (p_lost g ++ p_vis g) (p_cur g) (start_emits c (p_cur g))
      | Replaying =>
          mkGhost (g_lost g) (g_vis g ++ g_cur g) []
                  (p_lost g) (p_vis g ++ p_cur g) (start_emits c (p_lost g ++ p_vis g ++ p_cur g))
      end
  | _ => mkGhost (g_lost g) (g_vis g) (g_cur g ++ acks o x) (p_lost g) (p_vis g) (p_cur g ++ packs o x)
  end.

Fixpoint ghost_run (c : ncfg) (g : ghost) (tr : list (sop * sres)) : ghost :=
  match tr with
  | [] => g
  | (o, x) :: rest => ghost_run c (ghost_step c g o x) rest
  end.
Definition ghost_of (c : ncfg) (h : list sop) : ghost := ghost_run c (ghost_init c) (trace c h).

Definition is_nil {A : Type} (l : list A) : bool := match l with [] => true | _ => false end.

(* KnownClass of finding C21-D11: some acknowledged record lies before the previous reopen
   (computed from the case alone: the model decides which operations are acknowledged) *)
Definition c21_known (c : ncfg) (h : list sop) : bool :=
  let g := ghost_of c h in negb (is_nil (g_lost g)) || negb (is_nil (p_lost g)).

Definition reopens (h : list sop) : nat := length (filter is_reopen h).

(* ---------- C19: what the adapter hands to the application ---------- *)
Fixpoint normals (es : list lentry) : list (list N) :=
  match es with
  | [] => []
  | e :: r => match e_pl e with PNormal d => d :: normals r | _ => normals r end
  end.

Fixpoint is_prefix (a b : list (list N)) : bool :=
  match a, b with
  | [], _ => true
  | x :: a', y :: b' => str_eqb x y && is_prefix a' b'
  | _ :: _, [] => false
  end.
Definition Prefix {A : Type} (a b : list A) : Prop := exists t, b = a ++ t.
Definition Comparable {A : Type} (a b : list A) : Prop := Prefix a b \/ Prefix b a.

(* acceptor for one APPLY observation: entries given, outcome, commands the application accepted,
   responses sent, last_applied afterwards — against the adapter specification below *)
Fixpoint apply_spec (app_ok : list N -> option (list N)) (es : list (lentry * bool))
  : list (list N) * list (N * list N) * option logid * bool :=
  match es with
  | [] => ([], [], None, true)
  | (e, waiting) :: r =>
      match e_pl e with
      | PNormal d =>
          match app_ok d with
          | None => ([], [], Some (e_id e), false)
          | Some resp =>
              let '(cs, rs, last, ok) := apply_spec app_ok r in
              (d :: cs, (if waiting then [(e_idx e, resp)] else []) ++ rs,
               match last with Some l => Some l | None => Some (e_id e) end, ok)
          end
      | _ =>
          let '(cs, rs, last, ok) := apply_spec app_ok r in
          (cs, (if waiting then [(e_idx e, [])] else []) ++ rs,
           match last with Some l => Some l | None => Some (e_id e) end, ok)
      end
  end.

(* ---------- acknowledged records of a trace, and the trace cut into lifetimes ---------- *)
Definition ackl (tr : list (sop * sres)) : list record := flat_map (fun ox => acks (fst ox) (snd ox)) tr.

(* (everything before the previous reopen, the previous lifetime, the current lifetime) *)
Fixpoint split3 (e p cu : list (sop * sres)) (tr : list (sop * sres))
  : list (sop * sres) * list (sop * sres) * list (sop * sres) :=
  match tr with
  | [] => (e, p, cu)
  | (o, x) :: r => if is_reopen o then split3 (e ++ p) cu [] r else split3 e p (cu ++ [(o, x)]) r
  end.
Definition lifetimes3 (tr : list (sop * sres)) := split3 [] [] [] tr.
