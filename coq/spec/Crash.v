(* Crash.v — acceptors for the crash properties (C07, C08, C09) over what a harness can
   observe: the entries of acknowledged appends, the entries of the operation in flight when
   the process died, what consuming reads had returned before, and what the recovered
   instance delivers when drained.  Extracted and applied to implementation runs. *)
From W Require Import model.Base model.Engine spec.Queue.

(* C07: recovered = acknowledged ++ a prefix of the in-flight operation's entries *)
Definition c07_ok (acked inflight : list entry) (rec : list out) : bool :=
  let n := (length rec - length acked)%nat in
  (length acked <=? length rec)%nat && (n <=? length inflight)%nat && outs_are rec (acked ++ firstn n inflight).

(* C08: ... and of an in-flight batch either nothing or everything *)
Definition c08_ok (acked batch : list entry) (rec : list out) : bool :=
  c07_ok acked batch rec &&
  (((length rec =? length acked)%nat) || ((length rec =? length acked + length batch)%nat)).

(* C09.  [app] = the topic's appended entries that can be there (acknowledged ++ j in-flight),
   [deliv] = what consuming reads returned before the crash, [rec] = what the drained recovered
   instance delivers, [gap] = how many entries the read in flight at the crash may have taken
   (0 when no consuming read on this topic was in flight). *)
Definition suffix_from (app : list entry) (rec : list out) : option nat :=
  (* position p such that rec covers exactly skipn p app *)
  if (length rec <=? length app)%nat
  then let p := (length app - length rec)%nat in if outs_are rec (skipn p app) then Some p else None
  else None.

Definition c09_strict_one (app : list entry) (deliv rec : list out) (gap : nat) : bool :=
  outs_are deliv (firstn (length deliv) app) &&
  match suffix_from app rec with
  | Some p => (length deliv <=? p)%nat && (p <=? length deliv + gap)%nat   (* nothing again, nothing skipped *)
  | None => false
  end.

Definition c09_alo_one (app : list entry) (deliv rec : list out) (gap : nat) (bound : option nat) : bool :=
  outs_are deliv (firstn (length deliv) app) &&
  match suffix_from app rec with
  | Some p => (p <=? length deliv + gap)%nat &&                           (* never skip *)
              match bound with Some n => (length deliv <=? p + n)%nat | None => true end
  | None => false
  end.

(* the in-flight append may have left any prefix of its entries *)
Fixpoint try_prefixes (f : list entry -> bool) (acked inflight : list entry) (j : nat) : bool :=
  f (acked ++ firstn j inflight) || match j with O => false | S j' => try_prefixes f acked inflight j' end.

Definition c09_strict_ok (acked inflight : list entry) (deliv rec : list out) (gap : nat) : bool :=
  try_prefixes (fun app => c09_strict_one app deliv rec gap) acked inflight (length inflight).
Definition c09_alo_ok (acked inflight : list entry) (deliv rec : list out) (gap : nat) (bound : option nat) : bool :=
  try_prefixes (fun app => c09_alo_one app deliv rec gap bound) acked inflight (length inflight).
