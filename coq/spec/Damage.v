(* Damage.v — acceptor for C11 over what the harness observes when a (damaged) directory is
   opened in a fresh process and every topic is drained.
   [app]       what was ever appended: topic (bytes) -> payload ids
   [o_clean]   the process neither panicked, aborted, died on a signal, tripped memcheck
               nor ran into the time limit, at open or while draining
   [o_delivered]  per topic the payloads handed out; Some pid = the bytes are exactly payload
               pid of that topic's registry, None = bytes that were never appended to it *)
From W Require Import model.Base.

Record obs := mkObs { o_clean : bool; o_delivered : list (list N * list (option N)) }.

Definition appended_of (app : list (list N * list N)) (topic : list N) : list N :=
  flat_map (fun tp => if str_eqb (fst tp) topic then snd tp else []) app.

Definition id_ok (app : list (list N * list N)) (topic : list N) (x : option N) : bool :=
  match x with
  | Some pid => existsb (N.eqb pid) (appended_of app topic)
  | None => false
  end.

Definition c11_ok (app : list (list N * list N)) (o : obs) : bool :=
  o_clean o && forallb (fun tp => forallb (id_ok app (fst tp)) (snd tp)) (o_delivered o).
