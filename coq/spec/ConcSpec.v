(* ConcSpec.v — C05 as an executable acceptor over what concurrent callers observe.

   Observations: per thread, its calls in program order with their results.  From them:
     appends  — one event per acknowledged append / batch append (thread, topic, entries);
     deliveries — one event per consuming read that returned entries (thread, topic, outs).
   Entries are identified by their payload id (the harness makes every payload distinct).

   c05_ok apps dels drained, per topic:
     (whole)    every delivered out is a whole entry acknowledged by some append on the topic;
     (once)     no entry is delivered twice (over all consumers);
     (all)      when the run ends with a drain, every acknowledged entry was delivered;
     (order)    in what ONE consumer thread received, the entries of ONE producer thread appear
                in the order that producer appended them;
     (batch)    in what one consumer thread received, the entries of one batch are adjacent.
   (order)/(batch) are per consumer thread because the only order several consumers can
   observe is the order of their own calls. *)
From W Require Import model.Base model.Engine model.Conc.

Record aev := { av_tid : nat; av_topic : N; av_ents : list entry }.
Record dev := { dv_tid : nat; dv_topic : N; dv_outs : list out }.

(* the events of one thread; [bad] = a result no correct run can produce (error or panic
   from a read, panic from an append, missing result) *)
Fixpoint events_of (tid : nat) (cs : list call) (rs : list result) : list aev * list dev * bool :=
  match cs with
  | [] => ([], [], false)
  | c :: cs' =>
    match rs with
    | [] => ([], [], false)        (* the call did not return (schedule ended first) *)
    | r :: rs' =>
      let '(a, d, bad) := events_of tid cs' rs' in
      match c, r with
      | CAppend t e, ROk => ({| av_tid := tid; av_topic := t_id t; av_ents := [e] |} :: a, d, bad)
      | CAppend _ _, RErr _ => (a, d, bad)
      | CBatch t es, ROk => ({| av_tid := tid; av_topic := t_id t; av_ents := es |} :: a, d, bad)
      | CBatch _ _, RErr _ => (a, d, bad)
      | CRead t ck, REntry o => (a, (if ck then [{| dv_tid := tid; dv_topic := t_id t; dv_outs := [o] |}] else []) ++ d, bad)
      | CRead _ _, RNone => (a, d, bad)
      | CBatchRead t _ ck, REntries os =>
        (a, (if ck then match os with [] => [] | _ => [{| dv_tid := tid; dv_topic := t_id t; dv_outs := os |}] end else []) ++ d, bad)
      | _, _ => (a, d, true)
      end
    end
  end.

Fixpoint events_all (tid : nat) (progs : list (list call)) (res : list (list result)) : list aev * list dev * bool :=
  match progs, res with
  | p :: ps, r :: rs =>
    let '(a1, d1, b1) := events_of tid p r in
    let '(a2, d2, b2) := events_all (S tid) ps rs in
    (a1 ++ a2, d1 ++ d2, b1 || b2)
  | _, _ => ([], [], false)
  end.

(* ---- list helpers over payload ids ---- *)
Definition c_memN (x : N) (l : list N) : bool := existsb (N.eqb x) l.
Fixpoint nodupN (l : list N) : bool :=
  match l with [] => true | x :: r => negb (c_memN x r) && nodupN r end.
Fixpoint drop_to (x : N) (ys : list N) : option (list N) :=
  match ys with [] => None | y :: r => if x =? y then Some r else drop_to x r end.
Fixpoint c_is_subseq (xs ys : list N) : bool :=
  match xs with
  | [] => true
  | x :: xs' => match drop_to x ys with Some r => c_is_subseq xs' r | None => false end
  end.
Fixpoint drop_until {A} (f : A -> bool) (l : list A) : list A :=
  match l with [] => [] | x :: r => if f x then l else drop_until f r end.
Fixpoint drop_while {A} (f : A -> bool) (l : list A) : list A :=
  match l with [] => [] | x :: r => if f x then drop_while f r else l end.
Definition contiguous {A} (f : A -> bool) (l : list A) : bool :=
  negb (existsb f (drop_while f (drop_until f l))).

Fixpoint dedup_nat (l : list nat) : list nat :=
  match l with [] => [] | x :: r => x :: filter (fun y => negb (Nat.eqb x y)) (dedup_nat r) end.
Fixpoint dedupN (l : list N) : list N :=
  match l with [] => [] | x :: r => x :: filter (fun y => negb (x =? y)) (dedupN r) end.

Definition apps_on (apps : list aev) (t : N) : list aev := filter (fun a => av_topic a =? t) apps.
Definition dels_on (dels : list dev) (t : N) : list dev := filter (fun d => dv_topic d =? t) dels.
Definition acked (apps : list aev) (t : N) : list entry := flat_map av_ents (apps_on apps t).
Definition delivered (dels : list dev) (t : N) : list out := flat_map dv_outs (dels_on dels t).
Definition got_by (dels : list dev) (t : N) (q : nat) : list out :=
  flat_map dv_outs (filter (fun d => Nat.eqb (dv_tid d) q) (dels_on dels t)).
Definition sent_by (apps : list aev) (t : N) (p : nat) : list entry :=
  flat_map av_ents (filter (fun a => Nat.eqb (av_tid a) p) (apps_on apps t)).

Definition whole_of (o : out) (es : list entry) : bool :=
  (o_skip o =? 0) && existsb (fun e => (e_pid e =? o_pid o) && (e_len e =? o_len o)) es.

Definition c05_topic_ok (apps : list aev) (dels : list dev) (drained : bool) (t : N) : bool :=
  let A := acked apps t in
  let R := delivered dels t in
  let rp := map o_pid R in
  forallb (fun o => whole_of o A) R
  && nodupN rp
  && (negb drained || forallb (fun e => c_memN (e_pid e) rp) A)
  && forallb (fun q =>
       let S := map o_pid (got_by dels t q) in
       forallb (fun p =>
         let P := map e_pid (sent_by apps t p) in
         c_is_subseq (filter (fun x => c_memN x P) S) P) (dedup_nat (map av_tid (apps_on apps t)))
       && forallb (fun a =>
            let B := map e_pid (av_ents a) in
            contiguous (fun x => c_memN x B) S) (apps_on apps t))
     (dedup_nat (map dv_tid (dels_on dels t))).

Definition c05_ok (apps : list aev) (dels : list dev) (drained : bool) : bool :=
  forallb (c05_topic_ok apps dels drained) (dedupN (map av_topic apps ++ map dv_topic dels)).

(* every offered payload id is distinct (what the harness guarantees) *)
Fixpoint offered_pids (progs : list (list call)) : list N :=
  match progs with
  | [] => []
  | p :: r => flat_map (fun c => match c with CAppend _ e => [e_pid e] | CBatch _ es => map e_pid es | _ => [] end) p
              ++ offered_pids r
  end.

(* the verdict on a whole run: programs, per-thread results *)
Definition c05_run_ok (progs : list (list call)) (res : list (list result)) (drained : bool) : bool :=
  let '(a, d, bad) := events_all 0 progs res in
  negb bad && c05_ok a d drained.
