(* PowerLoss.v — acceptor for C10 over what the harness observes of one topic after a power
   loss: [acked] the entries of appends that had returned, [inflight] the entries of the append
   in flight (each of its writes may or may not have survived: any SUBSEQUENCE may be there),
   [deliv] what consuming reads had returned, [rec] what the recovered instance delivers when
   drained, positions [lo..hi] the consumer may legitimately resume from.
   Strict position: lo = |deliv| (nothing again), hi = |deliv| + gap (gap: the read in flight).
   Appends only:    lo = 0 (re-delivery tolerated), same hi (nothing skipped, nothing lost). *)
From W Require Import model.Base model.Engine spec.Queue.

Fixpoint is_subseq (os : list out) (es : list entry) : bool :=
  match es with
  | [] => match os with [] => true | _ => false end
  | e :: es' => match os with
                | [] => true
                | o :: os' => if out_is o e then is_subseq os' es' else is_subseq os es'
                end
  end.

Definition c10_at (acked inflight : list entry) (rec : list out) (p : nat) : bool :=
  let rest := skipn p acked in
  (length rest <=? length rec)%nat && outs_are (firstn (length rest) rec) rest && is_subseq (skipn (length rest) rec) inflight.

Definition c10_one (lo hi : nat) (acked inflight : list entry) (deliv rec : list out) : bool :=
  outs_are deliv (firstn (length deliv) acked) && existsb (c10_at acked inflight rec) (seq lo (S hi - lo)).

Definition c10_strict_ok (acked inflight : list entry) (deliv rec : list out) (gap : nat) : bool :=
  c10_one (length deliv) (Nat.min (length deliv + gap) (length acked)) acked inflight deliv rec.
Definition c10_appends_ok (acked inflight : list entry) (deliv rec : list out) (gap : nat) : bool :=
  c10_one 0 (Nat.min (length deliv + gap) (length acked)) acked inflight deliv rec.
