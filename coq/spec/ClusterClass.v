(* spec/ClusterClass.v — mechanism classes of a CASE (configuration + schedule), computed by
   running the model on it with ghost bookkeeping.  These are the KnownClass predicates of
   C22 / C23: they name what happens in the schedule, not what the output looks like.

   C23
     k_ctw     check-then-write: a PUT's ensure_lease passed while the segment was open in the
               node's applied metadata, apply@n of the rollover sealing it came next, then
               the engine append
     k_stale   stale refresh: ensure_lease passed AFTER apply@n of the sealing, because
               active_leases (re)gained the sealed key from an `expected` computed before it
   C22
     k_under   a segment is sealed with an entry count smaller than the number of entries
               written into it (the count was read before a later write: two PUTs at the
               threshold, or a write under a stale lease): readers leave after `count`
     k_behind  an entry is written into a segment that some node's read cursor has already
               left
     k_lag     a GET answers EMPTY on a node that has not applied every committed command
     k_reset   a node restarts while its `offsets` counter of the open segment is non-zero:
               the counter restarts at 0, the segment is later sealed with too small a count
     k_double  two rollovers are proposed from the counter of the same segment (the second
               seals whatever segment is current when it is applied) *)
From W Require Import model.Base model.Map model.Bincode model.Meta model.Cluster spec.StreamSpec.

Record ghost := mkGhost {
  g_written : list (N * N);            (* segment -> entries ever written *)
  g_props : list N;                    (* segments whose counter has produced a proposal *)
  g_ens : list (nat * bool);           (* client -> was the segment sealed when its ensure_lease passed *)
  g_ctw : bool; g_stale : bool; g_behind : bool; g_lag : bool; g_double : bool; g_reset : bool
}.

Definition ghost0 : ghost := mkGhost [] [] [] false false false false false false.

Definition pc_of_ev (s : cst) (e : cev) : option cpc :=
  match e with
  | EvC i => match nth_error (s_clients s) i with Some c => cl_pc c | None => None end
  | EvL n => lookup N.compare n (s_lease s)
  | EvM n => lookup N.compare n (s_mon s)
  | EvA _ => None
  | EvR _ => None
  end.

Definition node_sealed (s : cst) (n seg : N) : bool :=
  match get_node s n with Some x => sealed_in (nd_meta x) seg | None => false end.

Definition cursor_past (s : cst) (seg : N) : bool :=
  existsb (fun nx => match nd_cursor (snd nx) with Some c => seg <? fst c | None => false end) (s_nodes s).

Definition nat_cmp (a b : nat) : comparison := Nat.compare a b.

Definition bump (seg : N) (w : list (N * N)) : list (N * N) :=
  ins N.compare seg (match lookup N.compare seg w with Some c => c + 1 | None => 1 end) w.

Definition ghost_sub (s : cst) (e : cev) (g : ghost) (u : csub) : ghost :=
  match u with
  | EW n seg _ _ =>
    let sealed := node_sealed s n seg in
    let was := match e with
               | EvC i => match lookup nat_cmp i (g_ens g) with Some b => b | None => false end
               | _ => false
               end in
    mkGhost (bump seg (g_written g)) (g_props g) (g_ens g)
            (g_ctw g || (sealed && negb was)) (g_stale g || (sealed && was))
            (g_behind g || cursor_past s seg) (g_lag g) (g_double g) (g_reset g)
  | EResp c k CREmpty =>
    let lag := match e with
               | EvC i =>
                 match pc_of_ev s e with
                 | Some (PGHw h _ _ _) =>
                   match get_node s h with Some x => Nat.ltb (nd_applied x) (length (s_log s)) | None => false end
                 | _ => false
                 end
               | _ => false
               end in
    mkGhost (g_written g) (g_props g) (g_ens g) (g_ctw g) (g_stale g) (g_behind g) (g_lag g || lag) (g_double g) (g_reset g)
  | _ => g
  end.

(* pc transitions of the acting task that the ghost watches *)
Definition ghost_pc (s : cst) (e : cev) (s' : cst) (g : ghost) : ghost :=
  match pc_of_ev s e, pc_of_ev s' e with
  | Some (PEnsure n seg _), Some (PWlRead _ _ _) =>
    match e with
    | EvC i => mkGhost (g_written g) (g_props g) (ins nat_cmp i (node_sealed s n seg) (g_ens g))
                       (g_ctw g) (g_stale g) (g_behind g) (g_lag g) (g_double g) (g_reset g)
    | _ => g
    end
  | Some (PCount _ seg), Some (PPropose _ _) | Some (PCount _ seg), Some (PMetaRpc _ _)
  | Some (PMCount _ seg), Some (PPropose _ _) | Some (PMCount _ seg), Some (PMetaRpc _ _) =>
    mkGhost (g_written g) (seg :: g_props g) (g_ens g) (g_ctw g) (g_stale g) (g_behind g) (g_lag g)
            (g_double g || mem seg (g_props g)) (g_reset g)
  | _, _ => g
  end.

(* a restart that takes effect while the node counts entries of the segment it leads *)
Definition ghost_restart (s : cst) (e : cev) (t : ctok) (g : ghost) : ghost :=
  match e, fst t with
  | EvR n, SRestarted =>
    let lost := match get_node s n with
                | Some x => match owned (nd_meta x) n with Some seg => 0 <? count_of x seg | None => false end
                | None => false
                end in
    mkGhost (g_written g) (g_props g) (g_ens g) (g_ctw g) (g_stale g) (g_behind g) (g_lag g) (g_double g)
            (g_reset g || lost)
  | _, _ => g
  end.

Fixpoint cl_run_g (cfg : ccfg) (s : cst) (g : ghost) (sched : list cev) : cst * ghost :=
  match sched with
  | [] => (s, g)
  | e :: r =>
    let '(s1, t) := cl_step cfg s e in
    let g1 := fold_left (ghost_sub s e) (snd t) g in
    cl_run_g cfg s1 (ghost_restart s e t (ghost_pc s e s1 g1)) r
  end.

(* sealed with a count below what was written (judged on the Raft leader's applied metadata) *)
Definition undercount (s : cst) (g : ghost) : bool :=
  match get_node s raft_leader with
  | None => false
  | Some x =>
    match topic_of (nd_meta x) with
    | None => false
    | Some t => existsb (fun sc => match lookup N.compare (fst sc) (g_written g) with
                                   | Some w => snd sc <? w
                                   | None => false
                                   end) (t_sealed t)
    end
  end.

Record classes := mkClasses {
  k_ctw : bool; k_stale : bool; k_under : bool; k_behind : bool; k_lag : bool; k_double : bool; k_reset : bool
}.

Definition cl_classes (cfg : ccfg) (sched : list cev) : classes :=
  let '(s, g) := cl_run_g cfg (cl_init cfg) ghost0 sched in
  mkClasses (g_ctw g) (g_stale g) (undercount s g) (g_behind g) (g_lag g) (g_double g) (g_reset g).

(* KnownClass of C23: some write is justified by a lease that predates the node's apply of
   the sealing *)
Definition c23_known (cfg : ccfg) (sched : list cev) : bool :=
  let k := cl_classes cfg sched in k_ctw k || k_stale k.
(* KnownClass of C22 *)
Definition c22_known (cfg : ccfg) (sched : list cev) : bool :=
  let k := cl_classes cfg sched in k_under k || k_behind k || k_lag k.
