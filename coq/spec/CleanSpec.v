(* CleanSpec.v — acceptor for C17 over what a harness can observe of a real run.
   The persister threads of the implementation run on their own; a run of the harness shows
   only the client's calls and their answers (topic_is_clean), the store file's content when
   the harness reads it, and the fact that a wait-until-caught-up returned.  A run is
   ADMISSIBLE when some placement of persister steps between the client's calls makes the model
   (Clean.v) give exactly these observations.  [k_accept] decides that, by carrying the set of
   all model states reachable under some placement (duplicates removed).  Extracted and applied
   to implementation runs.  Definitions only; the meaning is proved in proofs/CleanAccP.v. *)
From W Require Import model.Base model.Clean.

(* ---------------------------------------------------------------- boolean equalities *)
Fixpoint list_eqb {A} (f : A -> A -> bool) (a b : list A) : bool :=
  match a, b with
  | [], [] => true
  | x :: a', y :: b' => f x y && list_eqb f a' b'
  | _, _ => false
  end.

Definition crec_eqb (a b : crec) : bool := (cr_gen a =? cr_gen b) && Bool.eqb (cr_clean a) (cr_clean b).
Definition cmap_eqb : cmap -> cmap -> bool :=
  list_eqb (fun x y => str_eqb (fst x) (fst y) && crec_eqb (snd x) (snd y)).
Definition kphase_eqb (a b : kphase) : bool :=
  match a, b with
  | KIdle, KIdle => true
  | KGot p, KGot q => list_eqb str_eqb p q
  | KFlying m, KFlying n => cmap_eqb m n
  | _, _ => false
  end.
Definition kinst_eqb (a b : kinst) : bool :=
  cmap_eqb (ki_mem a) (ki_mem b) && list_eqb str_eqb (ki_queue a) (ki_queue b) &&
  kphase_eqb (ki_phase a) (ki_phase b) && cmap_eqb (ki_store a) (ki_store b).
Definition kst_eqb (a b : kst) : bool :=
  cmap_eqb (ks_disk a) (ks_disk b) && kinst_eqb (ks_live a) (ks_live b) &&
  list_eqb cmap_eqb (ks_orphans a) (ks_orphans b).

Fixpoint k_dedup (l : list kst) : list kst :=
  match l with
  | [] => []
  | x :: r => if existsb (kst_eqb x) r then k_dedup r else x :: k_dedup r
  end.

(* ---------------------------------------------------------------- observations *)
Inductive kobs :=
| BAppend (t : str)
| BMarkClean (t : str)
| BMarkDirty (t : str)
| BIsClean (t : str) (b : bool)       (* topic_is_clean(t) answered b *)
| BReopen
| BRestart
| BDisk (m : cmap)                    (* the store file held exactly m *)
| BSynced (ts : list str)             (* for every t of ts: flag in the file = flag reported *)
| BStuck (ts : list str).             (* waited long enough for every persister to finish what it
                                         had to do (assumption of the check), and for some t of ts the
                                         flag in the file still differs from the flag reported *)

Definition k_synced (s : kst) (ts : list str) : bool :=
  forallb (fun t => Bool.eqb (k_clean_of (ks_disk s) t) (k_clean_of (ki_mem (ks_live s)) t)) ts.

(* one observation against one model state: the successor, or None when the model state
   cannot have produced it *)
Definition k_ostep (v : kvariant) (s : kst) (b : kobs) : option kst :=
  match b with
  | BAppend t => Some (fst (k_step v s (KAppend t)))
  | BMarkClean t => Some (fst (k_step v s (KMarkClean t)))
  | BMarkDirty t => Some (fst (k_step v s (KMarkDirty t)))
  | BIsClean t b => if Bool.eqb (k_clean_of (ki_mem (ks_live s)) t) b then Some s else None
  | BReopen => Some (fst (k_step v s KReopen))
  | BRestart => Some (fst (k_step v s KRestart))
  | BDisk m => if cmap_eqb (ks_disk s) m then Some s else None
  | BSynced ts => if k_synced s ts then Some s else None
  | BStuck ts => if k_quiet s && negb (k_synced s ts) then Some s else None
  end.

(* ---------------------------------------------------------------- persister steps *)
Definition k_is_pev (o : kop) : bool :=
  match o with KRecv | KSnap | KLand | KOLand _ => true | _ => false end.

Definition k_psteps (v : kvariant) (s : kst) (es : list kop) : kst :=
  fold_left (fun s e => fst (k_step v s e)) es s.

(* every state one persister step away *)
Definition k_expand (s : kst) : list kst :=
  [with_live s (k_recv (ks_live s)); with_live s (k_snap (ks_live s)); k_land s] ++
  map (fun k => k_oland k s) (seq 0 (length (ks_orphans s))).

Fixpoint k_closure (fuel : nat) (S : list kst) : list kst :=
  match fuel with
  | O => S
  | Datatypes.S n => let C := k_closure n S in k_dedup (C ++ flat_map k_expand C)
  end.

(* a persister does at most five effective steps between two client calls, each dropped
   instance's persister at most one *)
Definition k_fuel (S : list kst) : nat := 6 + list_max (map (fun s => length (ks_orphans s)) S).

(* ---------------------------------------------------------------- the acceptor *)
Definition k_after (v : kvariant) (S : list kst) (b : kobs) : list kst :=
  k_dedup (flat_map (fun s => match k_ostep v s b with Some s' => [s'] | None => [] end)
                    (k_closure (k_fuel S) S)).

Fixpoint k_accept_from (v : kvariant) (S : list kst) (h : list kobs) : bool :=
  match h with
  | [] => match S with [] => false | _ => true end
  | b :: h' => k_accept_from v (k_after v S b) h'
  end.

Definition k_accept (v : kvariant) (h : list kobs) : bool := k_accept_from v [k_init] h.

(* ---------------------------------------------------------------- what "admissible" means *)
(* a schedule gives, for every observation, the persister steps that happen before it *)
Fixpoint k_sched (v : kvariant) (s : kst) (h : list kobs) (bursts : list (list kop)) : option kst :=
  match h with
  | [] => Some s
  | b :: h' =>
    match bursts with
    | [] => None
    | es :: bs' =>
      match k_ostep v (k_psteps v s es) b with
      | Some s' => k_sched v s' h' bs'
      | None => None
      end
    end
  end.

Definition k_pev_only (bursts : list (list kop)) : Prop :=
  Forall (fun es => Forall (fun e => k_is_pev e = true) es) bursts.

Definition k_admissible (v : kvariant) (h : list kobs) : Prop :=
  exists bursts, k_pev_only bursts /\ k_sched v k_init h bursts <> None.

(* the same run as one flat history of the model: persister steps woven between the calls *)
Definition k_op_of (b : kobs) : list kop :=
  match b with
  | BAppend t => [KAppend t]
  | BMarkClean t => [KMarkClean t]
  | BMarkDirty t => [KMarkDirty t]
  | BIsClean t _ => [KIsClean t]
  | BReopen => [KReopen]
  | BRestart => [KRestart]
  | BDisk _ | BSynced _ | BStuck _ => []
  end.

Fixpoint k_weave (h : list kobs) (bursts : list (list kop)) : list kop :=
  match h, bursts with
  | b :: h', es :: bs' => es ++ k_op_of b ++ k_weave h' bs'
  | _, _ => []
  end.

Fixpoint k_answers (h : list kobs) : list bool :=
  match h with
  | [] => []
  | BIsClean _ b :: h' => b :: k_answers h'
  | _ :: h' => k_answers h'
  end.

(* ---------------------------------------------------------------- C17 itself, on a run *)
(* the client's calls of a run, as a history *)
Definition k_client (h : list kobs) : list kop := flat_map k_op_of h.

(* the property, literally: every observed answer is the last value set for that topic
   (appends and mark_dirty: dirty, mark_clean: clean, never touched: clean), shutdowns change
   nothing.  Applied to implementation runs next to [k_accept]. *)
Definition k_c17_ok (h : list kobs) : bool :=
  list_eqb Bool.eqb (k_answers h) (kspec_outs kspec0 (k_client h)).
