(* Queue.v — the abstract object the engine properties are stated against: per topic, the
   list of successfully appended entries and the number already handed to the consumer.
   Plus boolean acceptors over observable traces (list (op * result)): the same
   definitions the theorems use are extracted and run over implementation traces. *)
From W Require Import model.Base model.Engine.

Record ledger := { l_app : list entry; l_del : nat }.
Definition ledger0 : ledger := {| l_app := []; l_del := 0 |}.
Definition lg := list (N * ledger).

Definition lget (g : lg) (t : N) : ledger :=
  match find (fun p => fst p =? t) g with Some p => snd p | None => ledger0 end.
Definition lset (g : lg) (t : N) (l : ledger) : lg := set_assoc t l g.

Definition entry_eqb (a b : entry) : bool := (e_pid a =? e_pid b) && (e_len a =? e_len b).
(* an output that is a whole entry *)
Definition out_is (o : out) (e : entry) : bool :=
  (o_len o =? e_len e) && (o_skip o =? 0) && ((e_len e =? 0) || (o_pid o =? e_pid e)).
Fixpoint outs_are (os : list out) (es : list entry) : bool :=
  match os, es with
  | [], [] => true
  | o :: os', e :: es' => out_is o e && outs_are os' es'
  | _, _ => false
  end.

Definition remaining (l : ledger) : list entry := skipn (l_del l) (l_app l).

(* entries an op offered, whether or not it succeeded *)
Definition op_topic (o : op) : option N :=
  match o with
  | OAppend t _ | OBatch t _ | ORead t _ | OBatchRead t _ _ _ | OCount t => Some (t_id t)
  | OReopen => None
  end.

Definition outs_of_result (r : result) : option (list out) :=
  match r with
  | RNone => Some []
  | REntry o => Some [o]
  | REntries os => Some os
  | _ => None
  end.

(* ledger update by one observed (op, result): successful appends extend, consuming reads advance *)
Definition ledger_step (g : lg) (o : op) (r : result) : lg :=
  match o, r with
  | OAppend t e, ROk => let l := lget g (t_id t) in lset g (t_id t) {| l_app := l_app l ++ [e]; l_del := l_del l |}
  | OBatch t es, ROk => let l := lget g (t_id t) in lset g (t_id t) {| l_app := l_app l ++ es; l_del := l_del l |}
  | ORead t true, REntry _ => let l := lget g (t_id t) in lset g (t_id t) {| l_app := l_app l; l_del := S (l_del l) |}
  | OBatchRead t _ true None, REntries os =>
      let l := lget g (t_id t) in lset g (t_id t) {| l_app := l_app l; l_del := l_del l + length os |}
  | _, _ => g
  end.

(* C01 for one step: a consuming read returns exactly the next entries, and nothing only
   when nothing is left.  Error/panic results of reads are rejected. *)
Definition c01_step_ok (g : lg) (o : op) (r : result) : bool :=
  match o with
  | ORead t true =>
    match r with
    | RNone => match remaining (lget g (t_id t)) with [] => true | _ => false end
    | REntry x => match remaining (lget g (t_id t)) with e :: _ => out_is x e | [] => false end
    | _ => false
    end
  | OBatchRead t _ true None =>
    match r with
    | REntries os =>
      let rem := remaining (lget g (t_id t)) in
      match os with
      | [] => match rem with [] => true | _ => false end
      | _ => outs_are os (firstn (length os) rem)
      end
    | _ => false
    end
  | _ => true
  end.

Fixpoint c01_ok_from (g : lg) (tr : list (op * result)) : bool :=
  match tr with
  | [] => true
  | (o, r) :: rest => c01_step_ok g o r && c01_ok_from (ledger_step g o r) rest
  end.
Definition c01_ok (tr : list (op * result)) : bool := c01_ok_from [] tr.

(* C03: cap, budget, progress for every batch read (stateful or offset-addressed) *)
Definition sum_out_len (os : list out) : N := fold_right (fun o a => o_len o + a) 0 os.
Definition c03_step_ok (cap : N) (g : lg) (o : op) (r : result) : bool :=
  match o with
  | OBatchRead t maxb ck start =>
    match r with
    | REntries os =>
      (N.of_nat (length os) <=? cap)
      && ((N.min u64_max (sum_out_len os) <=? maxb) || (length os <=? 1)%nat)
      && (match start, os, remaining (lget g (t_id t)) with
          | None, [], _ :: _ => false        (* stateful, something unconsumed, nothing returned *)
          | _, _, _ => true
          end)
    | _ => false
    end
  | _ => true
  end.
Fixpoint c03_ok_from (cap : N) (g : lg) (tr : list (op * result)) : bool :=
  match tr with
  | [] => true
  | (o, r) :: rest => c03_step_ok cap g o r && c03_ok_from cap (ledger_step g o r) rest
  end.
Definition c03_ok (cap : N) (tr : list (op * result)) : bool := c03_ok_from cap [] tr.

(* C15: a reported count equals appended minus consumed *)
Definition c15_step_ok (g : lg) (o : op) (r : result) : bool :=
  match o, r with
  | OCount t, RNum n => let l := lget g (t_id t) in n =? N.of_nat (length (l_app l) - l_del l)
  | OCount _, _ => false
  | _, _ => true
  end.
Fixpoint c15_ok_from (g : lg) (tr : list (op * result)) : bool :=
  match tr with
  | [] => true
  | (o, r) :: rest => c15_step_ok g o r && c15_ok_from (ledger_step g o r) rest
  end.
Definition c15_ok (tr : list (op * result)) : bool := c15_ok_from [] tr.

(* C02 (b): a peek returns what the immediately following consuming read with the same
   arguments returns; (c) offset reads return sub-ranges of appended entries in order *)
Definition result_eqb (a b : result) : bool :=
  match a, b with
  | RNone, RNone => true
  | REntry x, REntry y => (o_pid x =? o_pid y) && (o_skip x =? o_skip y) && (o_len x =? o_len y) || ((o_len x =? 0) && (o_len y =? 0))
  | REntries xs, REntries ys =>
    (length xs =? length ys)%nat &&
    forallb (fun p => ((o_pid (fst p) =? o_pid (snd p)) && (o_skip (fst p) =? o_skip (snd p)) && (o_len (fst p) =? o_len (snd p)))
                      || ((o_len (fst p) =? 0) && (o_len (snd p) =? 0))) (combine xs ys)
  | _, _ => false
  end.
Definition same_read_args (a b : op) : bool :=
  match a, b with
  | ORead t false, ORead t' true => t_id t =? t_id t'
  | OBatchRead t m false None, OBatchRead t' m' true None => (t_id t =? t_id t') && (m =? m')
  | _, _ => false
  end.
Fixpoint c02b_ok (tr : list (op * result)) : bool :=
  match tr with
  | (o1, r1) :: (((o2, r2) :: _) as rest) =>
    (if same_read_args o1 o2 then result_eqb r1 r2 else true) && c02b_ok rest
  | _ => true
  end.

(* sub-range check for offset reads: each out names an appended entry of the topic and a
   range inside it; outs follow append order *)
Fixpoint find_entry_from (es : list entry) (o : out) : option (list entry) :=
  match es with
  | [] => None
  | e :: r => if ((e_pid e =? o_pid o) && (o_skip o + o_len o <=? e_len e)) || ((o_len o =? 0) && (o_skip o <=? e_len e) && (e_len e =? o_skip o))
              then Some r else find_entry_from r o
  end.
Fixpoint outs_subranges (es : list entry) (os : list out) : bool :=
  match os with
  | [] => true
  | o :: os' => match find_entry_from es o with Some r => outs_subranges r os' | None => false end
  end.
Definition c02c_step_ok (g : lg) (o : op) (r : result) : bool :=
  match o, r with
  | OBatchRead t _ _ (Some _), REntries os => outs_subranges (l_app (lget g (t_id t))) os
  | OBatchRead _ _ _ (Some _), _ => false
  | _, _ => true
  end.
Fixpoint c02c_ok_from (g : lg) (tr : list (op * result)) : bool :=
  match tr with
  | [] => true
  | (o, r) :: rest => c02c_step_ok g o r && c02c_ok_from (ledger_step g o r) rest
  end.
Definition c02c_ok (tr : list (op * result)) : bool := c02c_ok_from [] tr.

(* C06, StrictlyAtOnce: restarts are invisible = the C01 and C15 acceptors pass on the trace
   with the restart events simply present (they do not touch the ledger).
   AtLeastOnce: after a restart the consumer may be handed again a suffix of what it already
   got (never skip): the ledger position may move back once per topic right after a restart. *)
(* Entries with equal payloads (all empty payloads, in particular) cannot be told apart in a
   trace, so the position the consumer was rolled back to may be ambiguous: the acceptor tracks
   the SET of positions consistent with everything seen so far and rejects when it is empty. *)
Record aledger := { al_app : list entry; al_pos : list nat }.
Definition alg := list (N * aledger).
Definition aget (g : alg) (t : N) : aledger :=
  match find (fun p => fst p =? t) g with Some p => snd p | None => {| al_app := []; al_pos := [0%nat] |} end.
Definition aset (g : alg) (t : N) (l : aledger) : alg := set_assoc t l g.

Definition matches_at (os : list out) (app : list entry) (d : nat) : bool :=
  match os with
  | [] => match skipn d app with [] => true | _ => false end
  | _ => outs_are os (firstn (length os) (skipn d app))
  end.
Definition max_pos (l : list nat) : nat := fold_right Nat.max 0%nat l.
Definition upto (n : nat) : list nat := seq 0 (S n).

Definition c06alo_step (g : alg) (fresh : list N) (o : op) (r : result) : option (alg * list N) :=
  (* [fresh]: topics that have not yet had a consuming read since the last restart *)
  match o with
  | OReopen => Some (g, map fst g)
  | OAppend t e =>
    match r with
    | ROk => let l := aget g (t_id t) in Some (aset g (t_id t) {| al_app := al_app l ++ [e]; al_pos := al_pos l |}, fresh)
    | _ => Some (g, fresh)
    end
  | OBatch t es =>
    match r with
    | ROk => let l := aget g (t_id t) in Some (aset g (t_id t) {| al_app := al_app l ++ es; al_pos := al_pos l |}, fresh)
    | _ => Some (g, fresh)
    end
  | ORead t true | OBatchRead t _ true None =>
    match outs_of_result r with
    | None => None
    | Some os =>
      let l := aget g (t_id t) in
      let cands := if existsb (N.eqb (t_id t)) fresh then upto (max_pos (al_pos l)) else al_pos l in
      match filter (matches_at os (al_app l)) cands with
      | [] => None
      | ok => Some (aset g (t_id t) {| al_app := al_app l; al_pos := map (fun d => (d + length os)%nat) ok |},
                    filter (fun x => negb (x =? t_id t)) fresh)
      end
    end
  | _ => Some (g, fresh)
  end.
Fixpoint c06alo_ok_from (g : alg) (fresh : list N) (tr : list (op * result)) : bool :=
  match tr with
  | [] => true
  | (o, r) :: rest => match c06alo_step g fresh o r with
                      | Some (g', f') => c06alo_ok_from g' f' rest
                      | None => false
                      end
  end.
Definition c06alo_ok (tr : list (op * result)) : bool := c06alo_ok_from [] [] tr.
