(* StreamSpec.v — the C22 and C23 acceptors over a trace of tokens (model's or harness's).

   C22 works on the client-visible history: invocations and answers of PUT/GET, in trace
   order.  A cpayload is named by the PUT that carries it, (client, op index).
     dup    a cpayload is returned by two GETs                                   (exactly once)
     src    a GET returns a cpayload whose PUT had not been invoked               (no invention)
     order  two GETs that do not overlap (the first answered before the second is invoked)
            return payloads of the same producer client in the wrong order       (in order)
     empty  a GET answers EMPTY although some PUT was answered OK before that GET was
            invoked and is returned by no GET invoked before this answer         (EMPTY only
            when every acknowledged PUT has already been returned; a run that ends with a
            quiescent drain down to EMPTY therefore also decides "delivered by some GET")
   C23 works on the engine writes: each EW carries the writing node's apply pointer; the
   node's applied metadata is the replay of that prefix of the command log (bootstrap prefix
   plus the EL events).
     sealed   the segment written is sealed in the writer's applied metadata
     foreign  the writer's applied metadata assigns the segment to another node *)
From W Require Import model.Base model.Map model.Bincode model.Meta model.Cluster.

Definition events (toks : list ctok) : list csub := flat_map snd toks.

Definition pl_eqb (a b : cpayload) : bool := (fst a =? fst b) && (snd a =? snd b).

Fixpoint number_from {A : Type} (i : nat) (l : list A) : list (nat * A) :=
  match l with [] => [] | a :: r => (i, a) :: number_from (S i) r end.
Definition numbered {A : Type} (l : list A) : list (nat * A) := number_from 0 l.

(* position of the invocation of operation (c, k) *)
Fixpoint inv_pos (h : list (nat * csub)) (c k : N) : option nat :=
  match h with
  | [] => None
  | (i, EInv c' k' _ _) :: r => if (c =? c') && (k =? k') then Some i else inv_pos r c k
  | _ :: r => inv_pos r c k
  end.

Definition is_put_inv (h : list (nat * csub)) (p : cpayload) (before : nat) : bool :=
  existsb (fun e => match e with
                    | (i, EInv c k true _) => pl_eqb (c, k) p && Nat.ltb i before
                    | _ => false
                    end) h.

(* all (answer position, invocation position, cpayload) of GETs that returned a value *)
Fixpoint deliveries (h all : list (nat * csub)) : list (nat * nat * cpayload) :=
  match h with
  | [] => []
  | (j, EResp c k (CRVal p)) :: r =>
    (j, match inv_pos all c k with Some i => i | None => j end, p) :: deliveries r all
  | _ :: r => deliveries r all
  end.

Fixpoint nodup_pl (l : list cpayload) : bool :=
  match l with [] => true | a :: r => negb (existsb (pl_eqb a) r) && nodup_pl r end.

Definition c22_dup_ok (h : list (nat * csub)) : bool :=
  nodup_pl (map snd (deliveries h h)).

Definition c22_src_ok (h : list (nat * csub)) : bool :=
  forallb (fun d => is_put_inv h (snd d) (fst (fst d))) (deliveries h h).

(* d1 answered before d2 was invoked, same producer: indices must increase *)
Definition c22_order_ok (h : list (nat * csub)) : bool :=
  let ds := deliveries h h in
  forallb (fun d1 => forallb (fun d2 =>
    if Nat.ltb (fst (fst d1)) (snd (fst d2)) && (fst (snd d1) =? fst (snd d2))
    then snd (snd d1) <? snd (snd d2) else true) ds) ds.

(* PUTs answered OK strictly before position [before] *)
Definition acked_before (h : list (nat * csub)) (before : nat) : list cpayload :=
  flat_map (fun e => match e with
                     | (i, EResp c k CROk) => if Nat.ltb i before then [(c, k)] else []
                     | _ => []
                     end) h.

Definition c22_empty_ok (h : list (nat * csub)) : bool :=
  let ds := deliveries h h in
  forallb (fun e => match e with
    | (j, EResp c k CREmpty) =>
      let i := match inv_pos h c k with Some i => i | None => j end in
      forallb (fun p => existsb (fun d => pl_eqb (snd d) p && Nat.ltb (snd (fst d)) j) ds) (acked_before h i)
    | _ => true
    end) h.

(* 0 = accepted; otherwise the first clause that fails *)
Definition c22_verdict_evs (evs : list csub) : N :=
  let h := numbered evs in
  if negb (c22_dup_ok h) then 1
  else if negb (c22_src_ok h) then 2
  else if negb (c22_order_ok h) then 3
  else if negb (c22_empty_ok h) then 4
  else 0.
Definition c22_verdict (toks : list ctok) : N := c22_verdict_evs (events toks).
Definition c22_ok (toks : list ctok) : bool := c22_verdict toks =? 0.

(* The acceptor for histories without overlapping operations: the four clauses collapse to a
   queue — a PUT answered OK enqueues its payload, a GET must return the oldest queued payload,
   and may answer EMPTY only when nothing is queued. *)
Fixpoint c22_seq_scan (q : list cpayload) (evs : list csub) : bool :=
  match evs with
  | [] => true
  | EResp c k CROk :: r => c22_seq_scan (q ++ [(c, k)]) r
  | EResp _ _ (CRVal p) :: r =>
    match q with a :: q' => pl_eqb a p && c22_seq_scan q' r | [] => false end
  | EResp _ _ CREmpty :: r => match q with [] => c22_seq_scan q r | _ :: _ => false end
  | _ :: r => c22_seq_scan q r
  end.
Definition c22_seq_ok (toks : list ctok) : bool := c22_seq_scan [] (events toks).

(* A history without overlapping operations: an invocation only when no operation is open, an
   answer only for the open operation; a client's operation indices increase; OK / error
   answer PUTs, a value / EMPTY / error answer GETs.  [last] = per client the last index
   invoked, [cur] = the open operation (client, index, is it a PUT). *)
Definition res_fits (isput : bool) (r : cres) : bool :=
  match r with
  | CROk => isput
  | CRErr _ => true
  | CRVal _ => negb isput
  | CREmpty => negb isput
  end.
Fixpoint seq_hist (last : list (N * N)) (cur : option (N * N * bool)) (evs : list csub) : bool :=
  match evs with
  | [] => true
  | EInv c k isput _ :: r =>
    match cur with
    | Some _ => false
    | None =>
      match lookup N.compare c last with
      | Some k0 => (k0 <? k) && seq_hist (ins N.compare c k last) (Some (c, k, isput)) r
      | None => seq_hist (ins N.compare c k last) (Some (c, k, isput)) r
      end
    end
  | EResp c k res :: r =>
    match cur with
    | Some (c0, k0, isput) => (c =? c0) && (k =? k0) && res_fits isput res && seq_hist last None r
    | None => false
    end
  | _ :: r => seq_hist last cur r
  end.

(* ---------- C23 ---------- *)
Definition sealed_in (m : mstate) (seg : N) : bool :=
  match topic_of m with
  | Some t => match lookup N.compare seg (t_sealed t) with Some _ => true | None => false end
  | None => false
  end.
Definition foreign_in (m : mstate) (n seg : N) : bool :=
  match topic_of m with
  | Some t => match lookup N.compare seg (t_leaders t) with Some l => negb (l =? n) | None => false end
  | None => false
  end.

(* fold over the events with the log built so far; 0 ok, 1 sealed, 2 foreign, 3 malformed *)
Fixpoint c23_scan (log : list cmd) (evs : list csub) : N :=
  match evs with
  | [] => 0
  | EL idx c :: r => if Nat.eqb idx (length log) then c23_scan (log ++ [c]) r else 3
  | EW n seg _ a :: r =>
    if Nat.ltb (length log) a then 3
    else
      let m := replay m_init (firstn a log) in
      if sealed_in m seg then 1
      else if foreign_in m n seg then 2
      else c23_scan log r
  | _ :: r => c23_scan log r
  end.
Definition c23_verdict (cfg : ccfg) (toks : list ctok) : N := c23_scan (boot_log cfg) (events toks).
Definition c23_ok (cfg : ccfg) (toks : list ctok) : bool := c23_verdict cfg toks =? 0.

(* the second clause alone: never a write into a segment assigned to another node *)
Fixpoint c23_foreign_scan (log : list cmd) (evs : list csub) : bool :=
  match evs with
  | [] => true
  | EL idx c :: r => c23_foreign_scan (log ++ [c]) r
  | EW n seg _ a :: r => negb (foreign_in (replay m_init (firstn a log)) n seg) && c23_foreign_scan log r
  | _ :: r => c23_foreign_scan log r
  end.
Definition c23_foreign_ok (cfg : ccfg) (toks : list ctok) : bool := c23_foreign_scan (boot_log cfg) (events toks).
