(* C08 — a batch interrupted by a crash is recovered entirely or not at all.  Pinned statements.
   The faithful model REFUTES the property: the batch's entries are separate writes and
   recovery accepts every checksum-valid prefix.  Known finding C08-batch-not-crash-atomic
   (design level: the repository's own docs promise only in-process atomicity). *)
From W Require Import model.Base model.Engine model.EngineCfg spec.Queue spec.Crash proofs.CrashP.

Theorem c08_refuted : exists c s t es j, (j <= length es)%nat /\
    stream_of (batch_crash c s t es j) (t_id t) <> stream_of (batch_crash c s t es 0) (t_id t) /\
    stream_of (batch_crash c s t es j) (t_id t) <> stream_of (batch_crash c s t es (length es)) (t_id t).
Proof. exact batch_not_crash_atomic. Qed.

(* outside the known class (batches of two or more entries) the property holds in the model *)
Theorem c08_outside_known : forall c s t e j, (j <= 1)%nat ->
  batch_crash c s t [e] j = batch_crash c s t [e] 0 \/ batch_crash c s t [e] j = batch_crash c s t [e] 1.
Proof. exact single_entry_batch_atomic. Qed.

Theorem c08_acceptor_means : forall acked batch rec,
  c08_ok acked batch rec = true <-> (outs_are rec acked = true \/ outs_are rec (acked ++ batch) = true).
Proof. exact c08_ok_spec. Qed.

Check c08_refuted : exists c s t es j, (j <= length es)%nat /\
    stream_of (batch_crash c s t es j) (t_id t) <> stream_of (batch_crash c s t es 0) (t_id t) /\
    stream_of (batch_crash c s t es j) (t_id t) <> stream_of (batch_crash c s t es (length es)) (t_id t).
Print Assumptions c08_refuted.
Print Assumptions c08_outside_known.
Print Assumptions c08_acceptor_means.
