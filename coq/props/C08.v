(* C08 — a batch interrupted by a crash is recovered entirely or not at all.  Pinned statements.
   The faithful model REFUTES the property: the batch's entries are separate writes and
   recovery accepts every checksum-valid prefix.  Known finding C08-batch-not-crash-atomic
   (design level: the repository's own docs promise only in-process atomicity). *)
From W Require Import model.Base model.Engine model.EngineCfg spec.Queue spec.Crash proofs.EngineWF proofs.EngineW proofs.EngineMain proofs.EngineDisk proofs.CrashP proofs.EngineCrash proofs.EngineC06 proofs.EngineCrashR.

Theorem c08_refuted : exists c s t es j, (j <= length es)%nat /\
    stream_of (batch_crash c s t es j) (t_id t) <> stream_of (batch_crash c s t es 0) (t_id t) /\
    stream_of (batch_crash c s t es j) (t_id t) <> stream_of (batch_crash c s t es (length es)) (t_id t).
Proof. exact batch_not_crash_atomic. Qed.

(* outside the known class (batches of two or more entries) the property holds in the model *)
Theorem c08_outside_known : forall c s t e j, (j <= 1)%nat ->
  batch_crash c s t [e] j = batch_crash c s t [e] 0 \/ batch_crash c s t [e] j = batch_crash c s t [e] 1.
Proof. exact single_entry_batch_atomic. Qed.

(* the strongest true statement next to the refutation: after ANY admissible restart-free history
   (any mode), what is recovered of an interrupted admissible batch is ALWAYS a prefix of it
   (never a non-prefix subset, never a reordering, never a foreign entry), behind the intact
   acknowledged stream *)
Theorem c08_only_prefixes : forall (c : Cfg) (m : mode) (be : backend) (ops : list op) (t : topic) (es : list entry) (j : nat),
  cfg_ok c -> Forall (op_ok c) ops ->
  N.of_nat (length (offered_all ops)) <= u64_max -> sum_len (offered_all ops) <= u64_max ->
  batch_ok c t es ->
  let s := exec (env_of c m be) init ops in
  exists k, (k <= length es)%nat /\ stream_of (batch_crash c s t es j) (t_id t) = stream_of s (t_id t) ++ firstn k es.
Proof. exact crash_only_prefixes_reachable. Qed.

(* ... and the same after ANY history WITH restarts outside block-id drift (any mode) *)
Theorem c08_only_prefixes_after_restarts : forall (c : Cfg) (m : mode) (be : backend) (ops : list op) (t : topic) (es : list entry) (j : nat),
  cfg_ok c -> outside_known (env_of c m be) init ops = true ->
  N.of_nat (length (offered_all ops)) <= u64_max -> sum_len (offered_all ops) <= u64_max ->
  batch_ok c t es ->
  let s := exec (env_of c m be) init ops in
  exists k, (k <= length es)%nat /\ stream_of (batch_crash c s t es j) (t_id t) = stream_of s (t_id t) ++ firstn k es.
Proof. exact crash_only_prefixes_after_restarts. Qed.

Theorem c08_acceptor_means : forall acked batch rec,
  c08_ok acked batch rec = true <-> (outs_are rec acked = true \/ outs_are rec (acked ++ batch) = true).
Proof. exact c08_ok_spec. Qed.

Check c08_refuted : exists c s t es j, (j <= length es)%nat /\
    stream_of (batch_crash c s t es j) (t_id t) <> stream_of (batch_crash c s t es 0) (t_id t) /\
    stream_of (batch_crash c s t es j) (t_id t) <> stream_of (batch_crash c s t es (length es)) (t_id t).
Print Assumptions c08_refuted.
Print Assumptions c08_outside_known.
Print Assumptions c08_acceptor_means.
Check c08_only_prefixes : forall (c : Cfg) (m : mode) (be : backend) (ops : list op) (t : topic) (es : list entry) (j : nat),
  cfg_ok c -> Forall (op_ok c) ops ->
  N.of_nat (length (offered_all ops)) <= u64_max -> sum_len (offered_all ops) <= u64_max ->
  batch_ok c t es ->
  let s := exec (env_of c m be) init ops in
  exists k, (k <= length es)%nat /\ stream_of (batch_crash c s t es j) (t_id t) = stream_of s (t_id t) ++ firstn k es.
Print Assumptions c08_only_prefixes.
Check c08_only_prefixes_after_restarts : forall (c : Cfg) (m : mode) (be : backend) (ops : list op) (t : topic) (es : list entry) (j : nat),
  cfg_ok c -> outside_known (env_of c m be) init ops = true ->
  N.of_nat (length (offered_all ops)) <= u64_max -> sum_len (offered_all ops) <= u64_max ->
  batch_ok c t es ->
  let s := exec (env_of c m be) init ops in
  exists k, (k <= length es)%nat /\ stream_of (batch_crash c s t es j) (t_id t) = stream_of s (t_id t) ++ firstn k es.
Print Assumptions c08_only_prefixes_after_restarts.
