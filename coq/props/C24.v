(* C24 — client protocol stays frame-synchronised and round-trips payloads.
   Only pinned statements; proofs live in proofs/Utf8P.v, FrameP.v, FrameSpecP.v.

   serve_v0    = model of distributed-walrus/src/client.rs as it stands in /repo
   serve_fixed = model of the same file with PROPOSED_FIX.diff applied (the body of a refused
                 frame is read and discarded)
   responses   = the per-frame answers (structured), enc_resps their wire encoding
   c24_ok      = the spec acceptor (spec/FrameSpec.v) that ./check runs over the
                 implementation's own output *)
From W Require Import gen.Consts model.Base model.Utf8 model.Frame spec.FrameSpec
  proofs.Utf8P proofs.FrameP proofs.FrameSpecP.

(* ---- frame synchronisation, one response per frame, in order (induction on the frame list, no bound) *)
(* code as it stands: every list of well-formed frames none of which announces more than MAX_FRAME_LEN
   (zero-length, invalid UTF-8, unknown and incomplete commands included) *)
Theorem c24_sync : forall fs : list frame,
  forallb frame_wfb fs = true -> forallb in_range fs = true ->
  serve_v0 (enc_frames fs) = enc_resps (responses fs).
Proof. exact sync_v0. Qed.

(* with the fix: every list of well-formed frames, any announced length below 2^32 *)
Theorem c24_sync_fixed : forall fs : list frame,
  forallb frame_wfb fs = true ->
  serve_fixed (enc_frames fs) = enc_resps (responses fs).
Proof. exact sync_fixed. Qed.

Theorem c24_one_response_per_frame : forall fs : list frame, length (responses fs) = length fs.
Proof. exact one_response_per_frame. Qed.

(* a truncated final frame (incomplete header, or fewer body bytes than a within-limit header
   announces) is never answered and never disturbs the answers before it *)
Theorem c24_truncated_final : forall (d : bool) (fs : list frame) (tl : list N),
  forallb frame_wfb fs = true -> (d = false -> forallb in_range fs = true) ->
  incomplete tl -> tail_oversize tl = false ->
  serve_gen d (enc_frames fs ++ tl) = enc_resps (responses fs).
Proof. exact truncated_final. Qed.

(* ---- payload round trip *)
(* any controller state in which topic t has nothing queued *)
Theorem c24_roundtrip_state : forall (c : ctl) (t p : str),
  c24_rt_ok t p = true -> ctl_queue c t = [] ->
  let f1 := text_frame (put_line t p) in
  let f2 := text_frame (get_line t) in
  snd (respond c f1) = FOk /\
  snd (respond (fst (respond c f1)) f2) = FData (trim_end p) /\
  ctl_queue (fst (respond (fst (respond c f1)) f2)) t = [] /\
  wf f1 /\ wf f2 /\ in_range f1 = true /\ in_range f2 = true.
Proof. exact roundtrip_state. Qed.

(* on the wire, behind any earlier traffic that leaves topic t empty, for both variants of the code:
   the answers are "OK" and "OK " ++ (the payload without the line's trailing whitespace) *)
Theorem c24_roundtrip : forall (d : bool) (pre : list frame) (t p : str),
  forallb frame_wfb pre = true -> (d = false -> forallb in_range pre = true) ->
  c24_rt_ok t p = true -> ctl_queue (ctl_after ctl0 pre) t = [] ->
  serve_gen d (enc_frames (pre ++ [text_frame (put_line t p); text_frame (get_line t)])) =
  enc_resps (responses pre ++ [FOk; FData (trim_end p)]).
Proof. exact roundtrip_stream. Qed.

(* ... byte-identical when the payload does not end in whitespace *)
Theorem c24_roundtrip_identical : forall (d : bool) (pre : list frame) (t p : str),
  forallb frame_wfb pre = true -> (d = false -> forallb in_range pre = true) ->
  c24_rt_ok t p = true -> str_eqb (trim_end p) p = true -> ctl_queue (ctl_after ctl0 pre) t = [] ->
  serve_gen d (enc_frames (pre ++ [text_frame (put_line t p); text_frame (get_line t)])) =
  enc_resps (responses pre ++ [FOk; FData p]).
Proof. exact roundtrip_stream_identical. Qed.

Theorem c24_utf8_roundtrip : forall s : str,
  Forall (fun c => is_scalar c = true) s -> utf8_decode (utf8_encode s) = Some s.
Proof. exact utf8_decode_encode. Qed.

Theorem c24_utf8_decode_sound : forall (bs : list N) (s : str),
  utf8_decode bs = Some s -> utf8_encode s = bs /\ Forall (fun c => is_scalar c = true) s.
Proof. exact utf8_encode_decode. Qed.

(* whatever reaches the controller's queues is the UTF-8 of a string within the frame limit:
   from_utf8_lossy never replaces anything *)
Theorem c24_queued_payloads_valid : forall (fs : list frame) (t : str) (x : list N),
  forallb frame_wfb fs = true -> In x (ctl_queue (ctl_after ctl0 fs) t) ->
  exists p, Forall (fun c => is_scalar c = true) p /\ x = utf8_encode p /\ lossy x = p /\ blen x <= max_frame_len.
Proof. exact queued_payloads_valid. Qed.

(* ---- the whole property as the acceptor states it, over ALL byte streams *)
(* with the fix: whatever bytes a client sends, the output is accepted *)
Theorem c24_accepted_fixed : forall inp : list N,
  Forall (fun b => b < 256) inp -> c24_ok inp (serve_fixed inp) = true.
Proof. exact accepted_fixed. Qed.

(* code as it stands: every byte stream in which no header announces more than MAX_FRAME_LEN *)
Theorem c24_outside_known : forall inp : list N,
  Forall (fun b => b < 256) inp -> c24_known inp = false -> c24_ok inp (serve_v0 inp) = true.
Proof. exact accepted_v0_outside_known. Qed.

(* ---- finding D12: the code as it stands executes the body of a refused frame *)
Definition C24_full : Prop :=
  forall inp : list N, Forall (fun b => b < 256) inp -> c24_ok inp (serve_v0 inp) = true.

Theorem c24_full_refuted : ~ C24_full.
Proof. exact full_refuted. Qed.

Theorem c24_refuted_oversize : exists fs : list frame,
  forallb frame_wfb fs = true /\
  serve_v0 (enc_frames fs) <> enc_resps (responses fs) /\
  c24_ok (enc_frames fs) (serve_v0 (enc_frames fs)) = false.
Proof. exact refuted_oversize. Qed.

(* the witness spelled out: one frame announcing MAX_FRAME_LEN+1 bytes whose body begins with the
   frames "PUT t smug", "GET t".  Owed: one refusal.  Written by the code as it stands: the refusal,
   then "OK", then "OK smug" — the smuggled commands ran.  With the fix: the refusal only. *)
Theorem c24_pinned_refuted :
  frame_wfb d12_frame = true /\
  responses [d12_frame] = [FErr m_len] /\
  serve_fixed (enc_frames [d12_frame]) = enc_resps [FErr m_len] /\
  serve_v0 (enc_frames [d12_frame]) = enc_resps [FErr m_len; FOk; FData d12_payload] /\
  c24_known (enc_frames [d12_frame]) = true /\
  c24_ok (enc_frames [d12_frame]) (serve_v0 (enc_frames [d12_frame])) = false.
Proof. exact d12_witness. Qed.

(* ---- ties and non-vacuity *)
Example c24_max_frame_tied : max_frame_len = src_MAX_FRAME_LEN /\ max_frame_len + 16 < two32.
Proof. split; [reflexivity|exact max_frame_small]. Qed.

(* a pipeline of good and malformed frames: PUT t "é x", zero length, invalid UTF-8, "GET", GET t, GET t *)
Example c24_witness_sync :
  let fs := [text_frame (put_line [116] [233; 32; 120]); {| f_len := 0; f_body := [] |};
             {| f_len := 2; f_body := [237; 160] |}; text_frame s_GET;
             text_frame (get_line [116]); text_frame (get_line [116])] in
  forallb frame_wfb fs = true /\ forallb in_range fs = true /\
  responses fs = [FOk; FErr m_len; FErr m_utf8; FErr m_get_topic; FData [233; 32; 120]; FEmpty] /\
  serve_v0 (enc_frames fs) = enc_resps (responses fs) /\
  c24_ok (enc_frames fs) (serve_v0 (enc_frames fs)) = true.
Proof. vm_compute. repeat split; reflexivity. Qed.

(* the round trip's side condition holds for topic "tópic" and payload "a b" ++ U+3000 (trailing
   ideographic space: trimmed), and fails for a payload of whitespace only *)
Example c24_witness_rt :
  c24_rt_ok [116; 243; 112; 105; 99] [97; 32; 98; 12288] = true /\
  trim_end [97; 32; 98; 12288] = [97; 32; 98] /\
  c24_rt_ok [116] [32; 12288] = false.
Proof. vm_compute. repeat split; reflexivity. Qed.

Check c24_sync : forall fs : list frame,
  forallb frame_wfb fs = true -> forallb in_range fs = true ->
  serve_v0 (enc_frames fs) = enc_resps (responses fs).
Check c24_sync_fixed : forall fs : list frame,
  forallb frame_wfb fs = true -> serve_fixed (enc_frames fs) = enc_resps (responses fs).
Check c24_roundtrip : forall (d : bool) (pre : list frame) (t p : str),
  forallb frame_wfb pre = true -> (d = false -> forallb in_range pre = true) ->
  c24_rt_ok t p = true -> ctl_queue (ctl_after ctl0 pre) t = [] ->
  serve_gen d (enc_frames (pre ++ [text_frame (put_line t p); text_frame (get_line t)])) =
  enc_resps (responses pre ++ [FOk; FData (trim_end p)]).
Check c24_accepted_fixed : forall inp : list N,
  Forall (fun b => b < 256) inp -> c24_ok inp (serve_fixed inp) = true.
Check c24_outside_known : forall inp : list N,
  Forall (fun b => b < 256) inp -> c24_known inp = false -> c24_ok inp (serve_v0 inp) = true.
Check c24_refuted_oversize : exists fs : list frame,
  forallb frame_wfb fs = true /\
  serve_v0 (enc_frames fs) <> enc_resps (responses fs) /\
  c24_ok (enc_frames fs) (serve_v0 (enc_frames fs)) = false.
Print Assumptions c24_sync.
Print Assumptions c24_sync_fixed.
Print Assumptions c24_one_response_per_frame.
Print Assumptions c24_truncated_final.
Print Assumptions c24_roundtrip_state.
Print Assumptions c24_roundtrip.
Print Assumptions c24_roundtrip_identical.
Print Assumptions c24_utf8_roundtrip.
Print Assumptions c24_utf8_decode_sound.
Print Assumptions c24_queued_payloads_valid.
Print Assumptions c24_accepted_fixed.
Print Assumptions c24_outside_known.
Print Assumptions c24_full_refuted.
Print Assumptions c24_refuted_oversize.
Print Assumptions c24_pinned_refuted.
