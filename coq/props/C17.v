(* C17 — topic clean/dirty markers reflect the latest change, across restarts.
   Only pinned statements; proofs live in proofs/CleanP.v and proofs/CleanAccP.v.
   Model: model/Clean.v (tracker states with generations, channel, persister thread in three
   steps, store file, persisters of dropped instances, two shutdown variants: KPinned = the
   code as it is, KFlush = with PROPOSED_FIX.diff).  Acceptor: spec/CleanSpec.v. *)
From W Require Import model.Base model.Clean spec.CleanSpec proofs.CleanP proofs.CleanAccP.

(* 1. inside one instance the answer is always the last value set: every history without a
      shutdown, persister steps anywhere, either variant *)
Theorem c17_in_process : forall v h,
  forallb k_no_restart h = true -> k_outs v h = kspec_outs kspec0 h.
Proof. exact clean_in_process. Qed.

(* 2. the code as it is does NOT satisfy C17: for every topic, a change followed at once by a
      clean shutdown is forgotten (an append is reported clean; a mark_clean is undone) *)
Theorem c17_refuted_restart_before_tick : forall t,
  k_outs KPinned [KAppend t; KReopen; KIsClean t] = [true] /\
  kspec_outs kspec0 [KAppend t; KReopen; KIsClean t] = [false] /\
  k_outs KPinned [KAppend t; KTick; KMarkClean t; KRestart; KIsClean t] = [false] /\
  kspec_outs kspec0 [KAppend t; KTick; KMarkClean t; KRestart; KIsClean t] = [true].
Proof. exact clean_lost_before_tick. Qed.

Theorem c17_pinned_not_full : ~ C17_full KPinned.
Proof. exact clean_pinned_not_full. Qed.

(* 2b. second mechanism (same process): the persister of a dropped instance lands its old file
      image later — the answer changes between two reopens without any call, and a marker that
      a completed persister run of the NEW instance had written is wiped out, although a tick
      separates that change from the shutdown *)
Theorem c17_refuted_late_write :
  let a := [97] in let b := [98] in
  k_outs KPinned [KMarkDirty a; KRecv; KSnap; KReopen; KIsClean a; KOLand 0; KIsClean a; KReopen; KIsClean a]
    = [true; true; false] /\
  k_outs KPinned [KMarkDirty a; KRecv; KSnap; KReopen; KMarkDirty b; KTick; KIsClean b; KOLand 0; KReopen; KIsClean b]
    = [false; true] /\
  kspec_outs kspec0 [KMarkDirty a; KRecv; KSnap; KReopen; KMarkDirty b; KTick; KIsClean b; KOLand 0; KReopen; KIsClean b]
    = [false; false] /\
  k_tick_separated false [KMarkDirty b; KTick; KIsClean b; KReopen; KIsClean b] = true.
Proof. exact clean_late_write. Qed.

(* 3. the strongest true statement for the code as it is: outside the known class (every
      shutdown happens with nothing on its way to the file) C17 holds, all histories *)
Theorem c17_outside_known : forall h, ~ c17_known h -> k_outs KPinned h = kspec_outs kspec0 h.
Proof. exact clean_outside_known'. Qed.

(* 3b. in particular: histories of client calls, whole persister runs and shutdowns in which a
      persister run separates every change from the next shutdown *)
Theorem c17_tick_separated : forall h,
  k_tick_separated false h = true -> k_outs KPinned h = kspec_outs kspec0 h.
Proof. exact clean_tick_separated. Qed.

(* 4. with the proposed flush on drop C17 holds in full *)
Theorem c17_restart_with_flush : C17_full KFlush.
Proof. exact clean_restart_flush. Qed.

(* 5. the acceptor applied to implementation runs accepts exactly the runs the model can
      produce under some placement of persister steps between the client's calls ... *)
Theorem c17_acceptor_means : forall v h, k_accept v h = true <-> k_admissible v h.
Proof. exact clean_acceptor_means. Qed.

(* ... such a schedule is one history of the model, whose answers are the observed ones ... *)
Theorem c17_admissible_is_model_run : forall v h bursts s',
  k_pev_only bursts -> k_sched v k_init h bursts = Some s' ->
  exists s'', k_run v k_init (k_weave h bursts) = (s'', k_answers h).
Proof. intros v h bursts s'. exact (k_sched_weave v h bursts k_init s'). Qed.

(* ... with the flush on drop an accepted run satisfies C17 literally; on the code as it is an
   accepted run does whenever the explaining history is outside the known class *)
Theorem c17_accepted_flush_exact : forall h,
  k_accept KFlush h = true -> k_answers h = kspec_outs kspec0 (k_client h).
Proof. exact clean_accept_flush_exact. Qed.

(* the literal acceptor of the property, also applied to every implementation run *)
Theorem c17_literal_acceptor_means : forall h,
  k_c17_ok h = true <-> k_answers h = kspec_outs kspec0 (k_client h).
Proof. exact clean_c17_ok_means. Qed.

Theorem c17_accepted_flush_is_c17 : forall h, k_accept KFlush h = true -> k_c17_ok h = true.
Proof. exact clean_accept_flush_c17. Qed.

Theorem c17_accepted_pinned_settled : forall h bursts s',
  k_pev_only bursts -> k_sched KPinned k_init h bursts = Some s' ->
  k_settled KPinned k_init (k_weave h bursts) = true ->
  k_answers h = kspec_outs kspec0 (k_client h).
Proof. exact clean_accept_pinned_settled. Qed.

(* non-vacuity: the acceptor admits both outcomes of the race on the code as it is, only the
   right one once the persister has caught up or with the flush on drop, and it watches the
   file's content including generations *)
Example c17_acceptor_witness :
  let t := [116; 49] in
  k_accept KPinned [BMarkDirty t; BReopen; BIsClean t true] = true /\
  k_accept KPinned [BMarkDirty t; BReopen; BIsClean t false] = true /\
  k_accept KPinned [BMarkDirty t; BSynced [t]; BReopen; BIsClean t true] = false /\
  k_accept KPinned [BMarkDirty t; BSynced [t]; BReopen; BIsClean t false] = true /\
  k_accept KFlush [BMarkDirty t; BReopen; BIsClean t true] = false /\
  k_accept KFlush [BMarkDirty t; BReopen; BIsClean t false] = true /\
  k_accept KPinned [BMarkDirty t; BMarkClean t; BSynced [t]; BDisk [(t, {| cr_gen := 2; cr_clean := true |})]] = true /\
  k_accept KPinned [BMarkDirty t; BMarkClean t; BSynced [t]; BDisk [(t, {| cr_gen := 1; cr_clean := true |})]] = false /\
  k_accept KPinned [BMarkDirty t; BReopen; BIsClean t true; BReopen; BIsClean t false] = true /\
  k_accept KPinned [BMarkDirty t; BRestart; BIsClean t true; BRestart; BIsClean t false] = false /\
  (* the file can stay different from the reported state for good only through a late write *)
  k_accept KPinned [BMarkDirty t; BReopen; BIsClean t true; BStuck [t]] = true /\
  k_accept KPinned [BMarkDirty t; BRestart; BIsClean t true; BStuck [t]] = false /\
  k_accept KPinned [BMarkDirty t; BStuck [t]] = false.
Proof. vm_compute. repeat split; reflexivity. Qed.

Check c17_in_process : forall v h,
  forallb k_no_restart h = true -> k_outs v h = kspec_outs kspec0 h.
Check c17_pinned_not_full : ~ C17_full KPinned.
Check c17_outside_known : forall h, ~ c17_known h -> k_outs KPinned h = kspec_outs kspec0 h.
Check c17_tick_separated : forall h,
  k_tick_separated false h = true -> k_outs KPinned h = kspec_outs kspec0 h.
Check c17_restart_with_flush : C17_full KFlush.
Check c17_acceptor_means : forall v h, k_accept v h = true <-> k_admissible v h.
Check c17_accepted_flush_exact : forall h,
  k_accept KFlush h = true -> k_answers h = kspec_outs kspec0 (k_client h).
Print Assumptions c17_in_process.
Print Assumptions c17_refuted_restart_before_tick.
Print Assumptions c17_pinned_not_full.
Print Assumptions c17_refuted_late_write.
Print Assumptions c17_outside_known.
Print Assumptions c17_tick_separated.
Print Assumptions c17_restart_with_flush.
Print Assumptions c17_acceptor_means.
Print Assumptions c17_admissible_is_model_run.
Print Assumptions c17_accepted_flush_exact.
Print Assumptions c17_accepted_pinned_settled.
Print Assumptions c17_literal_acceptor_means.
Print Assumptions c17_accepted_flush_is_c17.
