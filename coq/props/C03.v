(* C03 — batch reads honour the entry cap and the byte budget and always make progress.
   Pinned statements only. *)
From W Require Import gen.Consts model.Base model.Engine model.EngineCfg spec.Queue
  proofs.EngineBasic proofs.EngineWF proofs.EngineW proofs.EngineMain props.C01.
From Coq Require Import Lia.

(* cap and budget: for EVERY state whatsoever (reachable or not), every budget, every mode,
   stateful and offset-addressed reads alike.  The byte total is compared saturated at
   usize::MAX, exactly like the accumulator in the code. *)
Theorem c03_cap_budget : forall c m s t maxb ck start s' os,
  batch_read c m s t maxb ck start = (s', REntries os) ->
  N.of_nat (length os) <= c_max_entries c /\
  (N.min usize_max (sum_out_len os) <= maxb \/ (length os <= 1)%nat).
Proof. exact batch_read_cap_budget. Qed.

(* the cap is the advertised 2000 in the constants the code is compiled with today *)
Theorem c03_cap_is_2000 : c_max_entries real_cfg = 2000 /\ c_max_entries small_cfg = 2000.
Proof. split; reflexivity. Qed.

(* progress, together with cap and budget, along every admissible history: the acceptor
   c03_ok checks, at every batch read, |outs| <= cap, bytes <= budget or one entry, and
   "something unconsumed => something returned" against the queue specification *)
Theorem c03_all_sequences : forall (c : Cfg) (m : mode) (be : backend) (ops : list op),
  cfg_ok c -> Forall (op_ok c) ops ->
  N.of_nat (length (offered_all ops)) <= u64_max -> sum_len (offered_all ops) <= u64_max ->
  c03_ok (c_max_entries c) (trace (env_of c m be) init ops) = true.
Proof. intros c m be ops Hc Ho H1 H2. exact (proj2 (proj2 (engine_from_init c m be ops Hc Ho H1 H2))). Qed.

(* non-vacuity: budget 0 with unread data in a sealed block returns one entry *)
Example c03_witness :
  map snd (trace (env_of small_cfg Strict Fd) init
             [OAppend t1 (e 0 3000); OAppend t1 (e 1 3000); OBatchRead t1 0 true None;
              OBatchRead t1 18446744073709551615 true None])
  = [ROk; ROk; REntries [out_of (e 0 3000)]; REntries [out_of (e 1 3000)]].
Proof. vm_compute. reflexivity. Qed.

Check c03_cap_budget : forall c m s t maxb ck start s' os,
  batch_read c m s t maxb ck start = (s', REntries os) ->
  N.of_nat (length os) <= c_max_entries c /\
  (N.min usize_max (sum_out_len os) <= maxb \/ (length os <= 1)%nat).
Check c03_all_sequences : forall (c : Cfg) (m : mode) (be : backend) (ops : list op),
  cfg_ok c -> Forall (op_ok c) ops ->
  N.of_nat (length (offered_all ops)) <= u64_max -> sum_len (offered_all ops) <= u64_max ->
  c03_ok (c_max_entries c) (trace (env_of c m be) init ops) = true.
Print Assumptions c03_cap_budget.
Print Assumptions c03_all_sequences.
