(* C18 — cluster metadata keeps an immutable, contiguous segment history.
   Model: model/Meta.v (metadata.rs apply, with the RwLock poison flag and both overflow
   behaviours), model/Bincode.v (command decoding).  Proofs: proofs/MetaP.v, proofs/MapP.v.
   This file holds only pinned statements.

   Inputs are arbitrary byte strings (list N): decodable commands of any kind, duplicates,
   unknown topics and undecodable bytes are all covered by the quantifier.
   [oc] = overflow checks (true: dev profile, false: release profile, wrapping).
   The length hypothesis excludes only sequences of 2^64 - 1 or more commands (the only
   way `current_segment += 1` can overflow). *)
From W Require Import model.Base model.Map model.Bincode model.Meta proofs.MapP proofs.MetaP.

(* the invariant holds initially ... *)
Theorem c18_inv_init : forall e, inv e 0 m_init.
Proof. exact inv_init. Qed.

(* ... and is kept by every input that does not overflow a cumulative count; the step
   extends every topic's history without changing any existing entry, and does not panic *)
Theorem c18_inv_step : forall e oc n s bs,
  inv e n s -> n + 2 < two64 -> (e = true \/ oc = true -> no_ovf_in s bs) ->
  exists s' r, apply oc s bs = (s', r) /\ apply false s bs = (s', r) /\
               inv e (n + 1) s' /\ cluster_ext (m_cl s) (m_cl s') = true /\ is_panic r = false.
Proof. exact step_apply. Qed.

Theorem c18_inv_meaning : forall e n s, inv e n s -> m_poisoned s = false /\ cluster_ok e (m_cl s) = true.
Proof. exact inv_meaning. Qed.

(* EVERY sequence, wrapping build: no panic; segments numbered 1..current with one leader
   each; leader of the open segment = topic leader; sealed = 1..current-1; nothing already
   recorded ever changes; the cumulative offset equals the sum of the sealed counts
   modulo 2^64 *)
Theorem c18_all_sequences : forall inputs,
  N.of_nat (length inputs) + 1 < two64 ->
  trace_okb false empty_cluster (mrun false m_init inputs) = true.
Proof. exact all_sequences. Qed.

(* immutability between any two points of any run *)
Theorem c18_sealed_immutable : forall pre suf,
  N.of_nat (length (pre ++ suf)) + 1 < two64 ->
  cluster_ext (m_cl (mexec false m_init pre)) (m_cl (mexec false m_init (pre ++ suf))) = true.
Proof. exact sealed_immutable. Qed.

(* the defect: a cumulative count reaching 2^64 *)
Theorem c18_refuted_sum_overflow :
  exists inputs,
    N.of_nat (length inputs) + 1 < two64 /\ sum_overflow inputs = true /\
    map snd (mrun true m_init inputs) = [MOk b_created; MOk b_rolled; MPanic PSum] /\
    m_poisoned (mexec true m_init inputs) = true /\
    visible (mexec true m_init inputs) = empty_cluster /\
    map snd (mrun false m_init inputs) = [MOk b_created; MOk b_rolled; MOk b_rolled] /\
    cluster_ok true (m_cl (mexec false m_init inputs)) = false /\
    cluster_ok false (m_cl (mexec false m_init inputs)) = true.
Proof. exact refuted_sum_overflow. Qed.

Theorem c18_full_refuted : ~ C18_full.
Proof. exact full_refuted. Qed.

(* outside the known class the property holds at full strength, for both build profiles
   (which then behave identically): exact sum, no panic, lock never poisoned *)
Theorem c18_outside_known : forall oc inputs,
  N.of_nat (length inputs) + 1 < two64 -> sum_overflow inputs = false ->
  mrun oc m_init inputs = mrun false m_init inputs /\
  trace_okb true empty_cluster (mrun oc m_init inputs) = true.
Proof. exact outside_known. Qed.

(* the checked build panics at the sum exactly when the sum does not fit in a u64 *)
Theorem c18_known_class_exact : forall e n s bs,
  inv e n s -> n + 2 < two64 -> (is_psum (snd (apply true s bs)) = false <-> no_ovf_in s bs).
Proof. exact psum_iff_ovf_in. Qed.

(* ---- with PROPOSED_FIX.diff applied (model: apply_fx): the property holds at full strength
   for EVERY sequence, both build profiles, no class excluded, no bound on the length ---- *)
Theorem c18_fixed_all_sequences : forall inputs,
  trace_okb true empty_cluster (mrun_fx m_init inputs) = true.
Proof. exact fixed_all_sequences. Qed.

Theorem c18_fixed_sealed_immutable : forall pre suf,
  cluster_ext (m_cl (mexec_fx m_init pre)) (m_cl (mexec_fx m_init (pre ++ suf))) = true.
Proof. intros pre suf. exact (fixed_sealed_immutable pre suf m_init inv0_init). Qed.

(* and the fix changes nothing outside the known class *)
Theorem c18_fixed_agrees : forall oc n s bs,
  inv true n s -> n + 2 < two64 -> no_ovf_in s bs -> apply_fx s bs = apply oc s bs.
Proof. exact fixed_agrees. Qed.

(* what the boolean acceptors say *)
Theorem c18_topic_ok_meaning : forall t, topic_ok true t = true ->
  (forall k, (exists v, lookup N.compare k (t_leaders t) = Some v) <-> 1 <= k <= t_cur t) /\
  lookup N.compare (t_cur t) (t_leaders t) = Some (t_leader t) /\
  (forall k, (exists v, lookup N.compare k (t_sealed t) = Some v) <-> 1 <= k < t_cur t) /\
  NoDup (keys (t_leaders t)) /\ NoDup (keys (t_sealed t)) /\
  t_last t = sum_vals (t_sealed t).
Proof. exact topic_ok_meaning. Qed.

Theorem c18_topic_ext_meaning : forall t t', topic_ext t t' = true ->
  (forall k v, In (k, v) (t_sealed t) -> lookup N.compare k (t_sealed t') = Some v) /\
  (forall k v, In (k, v) (t_leaders t) -> lookup N.compare k (t_leaders t') = Some v) /\
  t_cur t <= t_cur t'.
Proof. exact topic_ext_meaning. Qed.

(* non-vacuity: create, two rollovers with different leaders, a duplicate create, a rollover
   of an unknown topic, garbage bytes — accepted, and the final state is the expected one *)
Example c18_witness_ok :
  let inputs := [enc_cmd (CreateTopic [116] 1); enc_cmd (RolloverTopic [116] 2 5);
                 enc_cmd (CreateTopic [116] 9); enc_cmd (RolloverTopic [117] 1 1); [255; 0];
                 enc_cmd (RolloverTopic [116] 3 18446744073709551610)] in
  trace_okb true empty_cluster (mrun true m_init inputs) = true /\
  c_topics (m_cl (mexec true m_init inputs)) =
    [([116], mkTopic 3 3 18446744073709551615 [(1, 5); (2, 18446744073709551610)] [(1, 1); (2, 2); (3, 3)])].
Proof. vm_compute. split; reflexivity. Qed.

Check c18_inv_init : forall e, inv e 0 m_init.
Check c18_inv_step : forall e oc n s bs,
  inv e n s -> n + 2 < two64 -> (e = true \/ oc = true -> no_ovf_in s bs) ->
  exists s' r, apply oc s bs = (s', r) /\ apply false s bs = (s', r) /\
               inv e (n + 1) s' /\ cluster_ext (m_cl s) (m_cl s') = true /\ is_panic r = false.
Check c18_all_sequences : forall inputs,
  N.of_nat (length inputs) + 1 < two64 ->
  trace_okb false empty_cluster (mrun false m_init inputs) = true.
Check c18_sealed_immutable : forall pre suf,
  N.of_nat (length (pre ++ suf)) + 1 < two64 ->
  cluster_ext (m_cl (mexec false m_init pre)) (m_cl (mexec false m_init (pre ++ suf))) = true.
Check c18_outside_known : forall oc inputs,
  N.of_nat (length inputs) + 1 < two64 -> sum_overflow inputs = false ->
  mrun oc m_init inputs = mrun false m_init inputs /\
  trace_okb true empty_cluster (mrun oc m_init inputs) = true.
Check c18_full_refuted : ~ C18_full.
Check c18_fixed_all_sequences : forall inputs,
  trace_okb true empty_cluster (mrun_fx m_init inputs) = true.
Print Assumptions c18_inv_init.
Print Assumptions c18_inv_step.
Print Assumptions c18_inv_meaning.
Print Assumptions c18_all_sequences.
Print Assumptions c18_sealed_immutable.
Print Assumptions c18_refuted_sum_overflow.
Print Assumptions c18_full_refuted.
Print Assumptions c18_outside_known.
Print Assumptions c18_known_class_exact.
Print Assumptions c18_fixed_all_sequences.
Print Assumptions c18_fixed_sealed_immutable.
Print Assumptions c18_fixed_agrees.
Print Assumptions c18_topic_ok_meaning.
Print Assumptions c18_topic_ext_meaning.
