(* C23 — a segment is never written after the node holding it applied its sealing.
   This file holds only pinned statements; proofs live in proofs/ClusterP.v (invariant over all
   schedules), proofs/ClusterFence.v (the fenced scheduler), proofs/ClusterWit.v (witnesses). *)
From W Require Import model.Base model.Map model.Bincode model.Meta model.Cluster model.ClusterSys
  spec.StreamSpec spec.ClusterClass proofs.ClusterP proofs.ClusterFence proofs.ClusterKnown proofs.ClusterWit.

(* the property at full strength: every schedule; c23_ok = no engine write into a segment that
   is sealed in, or assigned to another node by, the writer's applied metadata *)
Definition C23_full : Prop := forall cfg sched, c23_ok cfg (cl_trace cfg sched) = true.

(* first clause refuted (verdict 1 = written after the writer applied the sealing) *)
Theorem c23_refuted_check_then_write : exists cfg sched,
  c23_verdict cfg (cl_trace cfg sched) = 1 /\ k_ctw (cl_classes cfg sched) = true.
Proof. exact c23_refuted_a. Qed.

Theorem c23_refuted_stale_refresh : exists cfg sched,
  c23_verdict cfg (cl_trace cfg sched) = 1 /\ k_stale (cl_classes cfg sched) = true.
Proof. exact c23_refuted_b. Qed.

Theorem c23_full_refuted : ~ (forall cfg sched, c23_ok cfg (cl_trace cfg sched) = true).
Proof. exact c23_full_false. Qed.

(* second clause, ALL schedules (any nodes, threshold, clients, interleaving, restarts): a node
   never writes into a segment that its applied metadata assigns to another node *)
Theorem c23_never_foreign : forall cfg sched, c23_foreign_ok cfg (cl_trace cfg sched) = true.
Proof. exact never_foreign. Qed.

(* the missing lock, ALL schedules of the fenced scheduler: if [metadata read -> lease refresh ->
   lease check -> engine append] (and every other lease refresh) is atomic with respect to
   apply@n and to other refreshes on n, both clauses hold *)
Theorem c23_atomic_fence_partial : forall cfg sched, c23_ok cfg (fenced_trace cfg sched) = true.
Proof. exact fenced_ok. Qed.

(* outside the known class, ALL schedules: if the model's run of a case never appends into a
   segment that is sealed in the writer's metadata at that moment (neither k_ctw nor k_stale is
   raised), the acceptor accepts the whole trace — the two mechanisms are the only ones *)
Theorem c23_outside_known : forall cfg sched,
  c23_known cfg sched = false -> c23_ok cfg (cl_trace cfg sched) = true.
Proof. exact outside_known_c23. Qed.

(* non-vacuity: the fenced scheduler still writes (the two refuting schedules, fenced: the PUTs
   complete, 2 engine writes each, verdict 0) *)
Example c23_witness_fenced :
  (c23_verdict w5_cfg (fenced_trace w5_cfg w5a_sched),
   length (filter (fun u => match u with EW _ _ _ _ => true | _ => false end) (events (fenced_trace w5_cfg (w5a_sched ++ rp 12 (EvC 1))))))
  = (0, 2%nat).
Proof. vm_compute. reflexivity. Qed.

Check c23_refuted_check_then_write : exists cfg sched,
  c23_verdict cfg (cl_trace cfg sched) = 1 /\ k_ctw (cl_classes cfg sched) = true.
Check c23_refuted_stale_refresh : exists cfg sched,
  c23_verdict cfg (cl_trace cfg sched) = 1 /\ k_stale (cl_classes cfg sched) = true.
Check c23_full_refuted : ~ (forall cfg sched, c23_ok cfg (cl_trace cfg sched) = true).
Check c23_never_foreign : forall cfg sched, c23_foreign_ok cfg (cl_trace cfg sched) = true.
Check c23_atomic_fence_partial : forall cfg sched, c23_ok cfg (fenced_trace cfg sched) = true.
Check c23_outside_known : forall cfg sched,
  c23_known cfg sched = false -> c23_ok cfg (cl_trace cfg sched) = true.
Print Assumptions c23_refuted_check_then_write.
Print Assumptions c23_refuted_stale_refresh.
Print Assumptions c23_full_refuted.
Print Assumptions c23_never_foreign.
Print Assumptions c23_atomic_fence_partial.
Print Assumptions c23_outside_known.
