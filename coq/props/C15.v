(* C15 — topic entry counts equal appended minus consumed entries.  Pinned statements only. *)
From W Require Import gen.Consts model.Base model.Engine model.EngineCfg spec.Queue
  proofs.EngineWF proofs.EngineInv proofs.EngineW proofs.EngineMain proofs.EngineDisk proofs.EngineNorm proofs.EngineC06
  proofs.EngineSince proofs.EngineSinceR props.C01.
From Coq Require Import Lia.

(* along every admissible restart-free history, every count query answers
   |appended| - |returned by consuming reads| for its topic; peeks and offset-addressed
   reads (which the ledger ignores) therefore never change it *)
Theorem c15_counts : forall (c : Cfg) (m : mode) (be : backend) (ops : list op),
  cfg_ok c -> Forall (op_ok c) ops ->
  N.of_nat (length (offered_all ops)) <= u64_max -> sum_len (offered_all ops) <= u64_max ->
  c15_ok (trace (env_of c m be) init ops) = true.
Proof. intros c m be ops Hc Ho H1 H2. exact (proj1 (proj2 (engine_from_init c m be ops Hc Ho H1 H2))). Qed.

Example c15_witness :
  map snd (trace (env_of small_cfg (ALO 2) Fd) init
             [OAppend t1 (e 0 10); OBatch t1 [e 1 0; e 2 4000]; OCount t1; ORead t1 false; OCount t1;
              OBatchRead t1 5 true (Some 0); OCount t1; OBatchRead t1 1000 true None; OCount t1])
  = [ROk; ROk; RNum 3; REntry (out_of (e 0 10)); RNum 3; REntries [out_of (e 2 4000)]; RNum 3;
     REntries [out_of (e 0 10); out_of (e 1 0)]; RNum 1].
Proof. vm_compute. reflexivity. Qed.

(* the restart clause in AtLeastOnce{persist_every = n} mode (read_next consumers, any number of
   earlier restarts outside block-id drift): right after a restart the count is appended minus the
   PERSISTED position k, which lags behind the consumer's position l_del by at most n — so the count
   is at most n above what the consumer truly had left (first conjunct), never below.  The ledger is
   the one of c09_alo_redelivery_bound_with_restarts (props/C09.v). *)
Theorem c15_alo_count_after_restart : forall (c : Cfg) (n : N) (be : backend) (ops : list op) (t : topic),
  cfg_ok c -> n <= u32_max ->
  forallb rn_only ops = true ->
  outside_known (env_of c (ALO n) be) init (ops ++ [OReopen]) = true ->
  N.of_nat (length (offered_all ops)) <= u64_max -> sum_len (offered_all ops) <= u64_max ->
  let s := exec (env_of c (ALO n) be) init ops in
  let l := lget (gm_ledger (env_of c (ALO n) be) init [] ops) (t_id t) in
  length (unread c (nrm false (get_ts s (t_id t)))) = (length (l_app l) - l_del l)%nat /\
  exists k, (k <= l_del l)%nat /\ N.of_nat (l_del l - k) <= n /\
    snd (step (env_of c (ALO n) be) (reopen c s) (OCount t)) = RNum (N.of_nat (length (l_app l) - k)).
Proof. intros c n be ops t. exact (count_after_restarts_alo c n be ops t). Qed.

(* non-vacuity (the history of c09_witness_alo_bound_with_restarts): 6 appended, the consumer has 1
   left (5 delivered since the roll-back), the restart answers 3 = 6 - 3 *)
Example c15_alo_restart_witness :
  let ops := [OAppend t1 (e 0 10); OAppend t1 (e 1 10); OAppend t1 (e 2 10); OAppend t1 (e 3 10); OAppend t1 (e 4 10);
              ORead t1 true; ORead t1 true; ORead t1 true; ORead t1 true; OReopen; OCount t1;
              ORead t1 true; OBatchRead t1 100000 false None; ORead t1 true; OAppend t1 (e 5 10)] in
  let v := env_of small_cfg (ALO 3) Fd in
  forallb rn_only ops = true /\ outside_known v init (ops ++ [OReopen]) = true /\
  length (unread small_cfg (nrm false (get_ts (exec v init ops) 1))) = 1%nat /\
  l_del (lget (gm_ledger v init [] ops) 1) = 5%nat /\
  snd (step v (reopen small_cfg (exec v init ops)) (OCount t1)) = RNum 3.
Proof. vm_compute. repeat split; reflexivity. Qed.

Check c15_counts : forall (c : Cfg) (m : mode) (be : backend) (ops : list op),
  cfg_ok c -> Forall (op_ok c) ops ->
  N.of_nat (length (offered_all ops)) <= u64_max -> sum_len (offered_all ops) <= u64_max ->
  c15_ok (trace (env_of c m be) init ops) = true.
Print Assumptions c15_counts.
Check c15_alo_count_after_restart.
Print Assumptions c15_alo_count_after_restart.
