(* C15 — topic entry counts equal appended minus consumed entries.  Pinned statements only. *)
From W Require Import gen.Consts model.Base model.Engine model.EngineCfg spec.Queue
  proofs.EngineWF proofs.EngineW proofs.EngineMain props.C01.
From Coq Require Import Lia.

(* along every admissible restart-free history, every count query answers
   |appended| - |returned by consuming reads| for its topic; peeks and offset-addressed
   reads (which the ledger ignores) therefore never change it *)
Theorem c15_counts : forall (c : Cfg) (m : mode) (be : backend) (ops : list op),
  cfg_ok c -> Forall (op_ok c) ops ->
  N.of_nat (length (offered_all ops)) <= u64_max -> sum_len (offered_all ops) <= u64_max ->
  c15_ok (trace (env_of c m be) init ops) = true.
Proof. intros c m be ops Hc Ho H1 H2. exact (proj1 (proj2 (engine_from_init c m be ops Hc Ho H1 H2))). Qed.

Example c15_witness :
  map snd (trace (env_of small_cfg (ALO 2) Fd) init
             [OAppend t1 (e 0 10); OBatch t1 [e 1 0; e 2 4000]; OCount t1; ORead t1 false; OCount t1;
              OBatchRead t1 5 true (Some 0); OCount t1; OBatchRead t1 1000 true None; OCount t1])
  = [ROk; ROk; RNum 3; REntry (out_of (e 0 10)); RNum 3; REntries [out_of (e 2 4000)]; RNum 3;
     REntries [out_of (e 0 10); out_of (e 1 0)]; RNum 1].
Proof. vm_compute. reflexivity. Qed.

Check c15_counts : forall (c : Cfg) (m : mode) (be : backend) (ops : list op),
  cfg_ok c -> Forall (op_ok c) ops ->
  N.of_nat (length (offered_all ops)) <= u64_max -> sum_len (offered_all ops) <= u64_max ->
  c15_ok (trace (env_of c m be) init ops) = true.
Print Assumptions c15_counts.
