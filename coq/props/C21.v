(* C21 — Raft log store and peer address book survive any number of restarts.
   This file holds only pinned statements; proofs live in proofs/RaftStoreP.v.

   The faithful model (mode Consuming = /repo as it is) does NOT satisfy the property: the
   recovery read consumes the log (finding C21-D11).  Pinned here: the witness, the strongest
   true statement outside the known class, the general law of the code as it is, and the full
   property for the repaired wrapper (mode Replaying = PROPOSED_FIX.diff applied). *)
From W Require Import model.Base model.RaftStore spec.RaftSpec proofs.RaftStoreP.

(* The property at full strength, for every configuration (both modes) and every history of
   append / truncate / purge / save_vote / save_committed / peer-address operations, observations
   and reopens: every result and observation is the ideal (never restarting) store's, and the
   reopened log store is the replay of every acknowledged record.  FALSE for mode Consuming. *)
Definition C21_full : Prop := forall c h,
  c21_ok c (trace c h) = true
  /\ n_mem (final c h) = fst (ideal_final c h)
  /\ book_same (n_book (final c h)) (snd (ideal_final c h))
  /\ n_mem (final c h) = replay (ackl (trace c h)).

Theorem c21_refuted_second_reopen :
  exists c h, c_mode c = Consuming /\ reopens h = 2%nat /\ c21_known c h = true
    /\ c21_ok c (trace c h) = false
    /\ c21_ok c (trace c (firstn 6 h)) = true
    /\ n_mem (final c h) = mem_empty
    /\ mem_eqb (n_mem (final c h)) (replay (ackl (trace c h))) = false
    /\ pb_get 3 (n_book (final c h)) = None
    /\ pb_get 3 (snd (ideal_final c h)) = Some (167772163 * 65536 + 9323).
Proof. exact raft_refuted. Qed.

Theorem c21_full_refuted : ~ C21_full.
Proof. exact raft_full_refuted. Qed.

Theorem c21_one_reopen : forall c h, (reopens h <= 1)%nat ->
  c21_ok c (trace c h) = true
  /\ n_mem (final c h) = fst (ideal_final c h)
  /\ book_same (n_book (final c h)) (snd (ideal_final c h))
  /\ n_mem (final c h) = replay (ackl (trace c h)).
Proof. exact raft_one_reopen_full. Qed.

Theorem c21_outside_known : forall c h, c21_known c h = false ->
  c21_ok c (trace c h) = true
  /\ n_mem (final c h) = fst (ideal_final c h)
  /\ book_same (n_book (final c h)) (snd (ideal_final c h))
  /\ n_mem (final c h) = replay (ackl (trace c h)).
Proof. exact raft_outside_known. Qed.

Theorem c21_known_needs_two_reopens : forall c h, c21_known c h = true -> (2 <= reopens h)%nat.
Proof. exact raft_known_two. Qed.

(* the code as it is, any number of reopens: the log store is the replay of the records acknowledged
   in the previous and the current lifetime, and of nothing older *)
Theorem c21_loses_all_before_last_reopen : forall c h, c_mode c = Consuming ->
  let '(e, p, cu) := lifetimes3 (trace c h) in
  n_mem (final c h) = replay (ackl p ++ ackl cu)
  /\ ackl (trace c h) = ackl e ++ ackl p ++ ackl cu.
Proof. exact raft_law_consuming. Qed.

(* both stores, both modes, in terms of the accounting lost / visible / current *)
Theorem c21_law : forall c h,
  let n := final c h in let g := ghost_of c h in
  n_mem n = replay (g_vis g ++ g_cur g)
  /\ n_book n = book_of c (p_vis g) (p_cur g)
  /\ w_log (n_lw n) = ackl (trace c h)
  /\ g_lost g ++ g_vis g ++ g_cur g = ackl (trace c h).
Proof. exact raft_law. Qed.

(* with the proposed repair the property holds for every history *)
Theorem c21_fixed_all_reopens : forall c h, c_mode c = Replaying ->
  c21_ok c (trace c h) = true
  /\ n_mem (final c h) = fst (ideal_final c h)
  /\ book_same (n_book (final c h)) (snd (ideal_final c h))
  /\ n_mem (final c h) = replay (ackl (trace c h)).
Proof. exact raft_fixed. Qed.

(* the acceptor node_run over implementation output is the relation Accepts *)
Theorem c21_acceptor_reflects : forall c tr s, c21_accept_from c s tr = true <-> Accepts c s tr.
Proof. exact accept_reflect. Qed.

(* the wrapper alone in the shape of the first observation: append*, reopen, read_all, reopen, read_all *)
Theorem c21_wal_d11_shape : forall (A : Type) (keep : A -> bool) (ps : list A),
  wal_run Consuming keep wal_empty (map WAppend ps ++ [WReopen; WReadAll; WReopen; WReadAll])
  = map (fun k => WOff (N.of_nat k)) (seq 0 (length ps))
    ++ [WOpened; WEntries (filter keep ps); WOpened; WEntries []].
Proof. exact @wal_d11_shape. Qed.

Theorem c21_wal_fixed_shape : forall (A : Type) (keep : A -> bool) (ps : list A),
  wal_run Replaying keep wal_empty (map WAppend ps ++ [WReopen; WReadAll; WReopen; WReadAll])
  = map (fun k => WOff (N.of_nat k)) (seq 0 (length ps))
    ++ [WOpened; WEntries (filter keep ps); WOpened; WEntries (filter keep ps)].
Proof. exact @wal_fixed_shape. Qed.

(* non-vacuity: every record kind, a refused purge, a learned peer, one reopen; and three reopens
   with nothing acknowledged before the last two (outside the known class although reopens = 3) *)
Example c21_witness_one_reopen :
  let c := mkCfg Consuming 1 (2130706433 * 65536 + 9321) [2130706433 * 65536 + 9322] in
  let id := fun i => mkLogId 2 1 i in
  let h := [SVote (mkVote 2 1 true);
            SAppend [mkEntry (id 1) PBlank; mkEntry (id 2) (PNormal [120]); mkEntry (id 3) (PMember 2); mkEntry (id 4) (PNormal [])];
            SCommitted (Some (id 3)); STruncate (id 4); SPurge (id 1); SPurge (mkLogId 0 0 0);
            SPeer 3 77; SPeer 2 78; SReopen; SState; SPeers] in
  reopens h = 1%nat /\ c21_known c h = false /\ c21_ok c (trace c h) = true
  /\ n_mem (final c h) = mkMem (Some (id 1)) [mkEntry (id 2) (PNormal [120]); mkEntry (id 3) (PMember 2)]
                               (Some (id 3)) (Some (mkVote 2 1 true))
  /\ n_book (final c h) = [(1, 2130706433 * 65536 + 9321); (2, 2130706433 * 65536 + 9322); (3, 77)]
  /\ length (w_log (n_pw (final c h))) = 4%nat.
Proof. vm_compute. repeat split; reflexivity. Qed.

Example c21_witness_three_reopens_outside :
  let c := mkCfg Consuming 1 5 [] in
  let h := [SReopen; SReopen; SVote (mkVote 1 1 false); SReopen; SState] in
  reopens h = 3%nat /\ c21_known c h = false /\ m_vote (n_mem (final c h)) = Some (mkVote 1 1 false).
Proof. vm_compute. repeat split; reflexivity. Qed.

Check c21_refuted_second_reopen :
  exists c h, c_mode c = Consuming /\ reopens h = 2%nat /\ c21_known c h = true
    /\ c21_ok c (trace c h) = false
    /\ c21_ok c (trace c (firstn 6 h)) = true
    /\ n_mem (final c h) = mem_empty
    /\ mem_eqb (n_mem (final c h)) (replay (ackl (trace c h))) = false
    /\ pb_get 3 (n_book (final c h)) = None
    /\ pb_get 3 (snd (ideal_final c h)) = Some (167772163 * 65536 + 9323).
Check c21_full_refuted : ~ C21_full.
Check c21_one_reopen : forall c h, (reopens h <= 1)%nat ->
  c21_ok c (trace c h) = true
  /\ n_mem (final c h) = fst (ideal_final c h)
  /\ book_same (n_book (final c h)) (snd (ideal_final c h))
  /\ n_mem (final c h) = replay (ackl (trace c h)).
Check c21_outside_known : forall c h, c21_known c h = false ->
  c21_ok c (trace c h) = true
  /\ n_mem (final c h) = fst (ideal_final c h)
  /\ book_same (n_book (final c h)) (snd (ideal_final c h))
  /\ n_mem (final c h) = replay (ackl (trace c h)).
Check c21_known_needs_two_reopens : forall c h, c21_known c h = true -> (2 <= reopens h)%nat.
Check c21_loses_all_before_last_reopen : forall c h, c_mode c = Consuming ->
  let '(e, p, cu) := lifetimes3 (trace c h) in
  n_mem (final c h) = replay (ackl p ++ ackl cu)
  /\ ackl (trace c h) = ackl e ++ ackl p ++ ackl cu.
Check c21_law : forall c h,
  let n := final c h in let g := ghost_of c h in
  n_mem n = replay (g_vis g ++ g_cur g)
  /\ n_book n = book_of c (p_vis g) (p_cur g)
  /\ w_log (n_lw n) = ackl (trace c h)
  /\ g_lost g ++ g_vis g ++ g_cur g = ackl (trace c h).
Check c21_fixed_all_reopens : forall c h, c_mode c = Replaying ->
  c21_ok c (trace c h) = true
  /\ n_mem (final c h) = fst (ideal_final c h)
  /\ book_same (n_book (final c h)) (snd (ideal_final c h))
  /\ n_mem (final c h) = replay (ackl (trace c h)).
Check c21_acceptor_reflects : forall c tr s, c21_accept_from c s tr = true <-> Accepts c s tr.
Check c21_wal_d11_shape : forall (A : Type) (keep : A -> bool) (ps : list A),
  wal_run Consuming keep wal_empty (map WAppend ps ++ [WReopen; WReadAll; WReopen; WReadAll])
  = map (fun k => WOff (N.of_nat k)) (seq 0 (length ps))
    ++ [WOpened; WEntries (filter keep ps); WOpened; WEntries []].
Check c21_wal_fixed_shape : forall (A : Type) (keep : A -> bool) (ps : list A),
  wal_run Replaying keep wal_empty (map WAppend ps ++ [WReopen; WReadAll; WReopen; WReadAll])
  = map (fun k => WOff (N.of_nat k)) (seq 0 (length ps))
    ++ [WOpened; WEntries (filter keep ps); WOpened; WEntries (filter keep ps)].
Print Assumptions c21_refuted_second_reopen.
Print Assumptions c21_full_refuted.
Print Assumptions c21_one_reopen.
Print Assumptions c21_outside_known.
Print Assumptions c21_known_needs_two_reopens.
Print Assumptions c21_loses_all_before_last_reopen.
Print Assumptions c21_law.
Print Assumptions c21_fixed_all_reopens.
Print Assumptions c21_acceptor_reflects.
Print Assumptions c21_wal_d11_shape.
Print Assumptions c21_wal_fixed_shape.
