(* C04 — rejected or failed appends leave no trace; batches are all-or-nothing.  Pinned statements.
   Proved for the fault-free engine model: (1) the rejections that depend only on the arguments
   leave every topic's stream, unread entries and count untouched (at most the topic's writer
   and its first, empty block are created); (2) along every history in which accepted and rejected
   appends/batches of every kind (too many entries, over the byte limit, oversize entry, topic
   name that does not fit the header, empty batch) are interleaved with reads and counts, the
   queue acceptors — whose ledger ignores every operation that returned an error and adds a
   successful batch as ONE contiguous run — accept the trace: a rejected operation is invisible
   to every later read and count, a successful batch is delivered contiguously; (3) one batch
   step: Ok = the stream grew by exactly the batch, contiguously; Err = stream and unread unchanged.
   Not proved here: the same across restarts (C06_full) and injected I/O failures (decided per
   run by single-fault enumeration through the I/O event seam). *)
From W Require Import gen.Consts model.Base model.Engine model.EngineCfg spec.Queue
  proofs.EngineWF proofs.EngineInv proofs.EngineW proofs.EngineMain props.C01.
From Coq Require Import Lia.

(* an append or batch refused for its arguments (oversize entry, topic name that does not fit
   the header): at most the topic's writer with its first, empty block has been created; every
   topic's stream, unread entries and count are what they were, in any state satisfying the
   engine invariant *)
Theorem c04_argument_rejections_change_nothing : forall c s g B Bb t, cfg_ok c -> Rel c s g B Bb ->
  Rel c (fst (ensure_writer c s t)) g B Bb /\
  (forall e k, appendable c t (e_len e) = Some k -> append c s t e = (fst (ensure_writer c s t), RErr k)).
Proof.
  intros c s g B Bb t Hc Hrel. split; [now apply ensure_rel|].
  intros e k H. unfold append. destruct (ensure_writer c s t) as [s1 w]. now rewrite H.
Qed.

Theorem c04_rejected_ops_invisible : forall (c : Cfg) (m : mode) (be : backend) (ops : list op),
  cfg_ok c -> Forall (op_ok c) ops ->
  N.of_nat (length (offered_all ops)) <= u64_max -> sum_len (offered_all ops) <= u64_max ->
  c01_ok (trace (env_of c m be) init ops) = true /\ c15_ok (trace (env_of c m be) init ops) = true.
Proof. intros c m be ops Hc Ho H1 H2. destruct (engine_from_init c m be ops Hc Ho H1 H2) as (A & B & _). split; assumption. Qed.

Theorem c04_batch_all_or_nothing : forall c be s t es, cfg_ok c -> GInv c s -> batch_ok c t es ->
  cnt (get_ts s (t_id t)) + N.of_nat (length es) <= u64_max ->
  exists s' r, batch c be s t es = (s', r) /\ GInv c s' /\ others_same s s' (t_id t) /\
    ((r = ROk /\ stream (get_ts s' (t_id t)) = stream (get_ts s (t_id t)) ++ es /\
      unread c (get_ts s' (t_id t)) = unread c (get_ts s (t_id t)) ++ es) \/
     (r = RErr EInvalidInput /\ stream (get_ts s' (t_id t)) = stream (get_ts s (t_id t)) /\
      unread c (get_ts s' (t_id t)) = unread c (get_ts s (t_id t)))).
Proof. exact batch_spec. Qed.

(* non-vacuity: every rejection cause interleaved with successful operations and reads *)
Definition tlong : topic := {| t_id := 7; t_nlen := 217 |}.
Example c04_witness :
  let ops := [OAppend t1 (e 0 100); OAppend t1 (e 1 20000); OBatch t1 [e 2 5; e 3 20000]; OBatch tlong [e 4 1];
              OAppend tlong (e 5 1); OBatch t1 []; OBatch t1 (repeat (e 6 0) 2001); OBatch t1 [e 7 3000; e 8 3000];
              OCount t1; OBatchRead t1 18446744073709551615 true None; ORead tlong true; OCount tlong] in
  Forall (op_ok small_cfg) ops /\
  map snd (trace (env_of small_cfg Strict Fd) init ops) =
    [ROk; RErr EInvalidInput; RErr EInvalidInput; RErr EInvalidData; RErr EInvalidData; ROk; RErr EInvalidInput; ROk;
     RNum 3; REntries [out_of (e 0 100); out_of (e 7 3000); out_of (e 8 3000)]; RNone; RNum 0].
Proof. split; [repeat constructor|vm_compute; reflexivity]. Qed.

Check c04_rejected_ops_invisible : forall (c : Cfg) (m : mode) (be : backend) (ops : list op),
  cfg_ok c -> Forall (op_ok c) ops ->
  N.of_nat (length (offered_all ops)) <= u64_max -> sum_len (offered_all ops) <= u64_max ->
  c01_ok (trace (env_of c m be) init ops) = true /\ c15_ok (trace (env_of c m be) init ops) = true.
Print Assumptions c04_argument_rejections_change_nothing.
Print Assumptions c04_rejected_ops_invisible.
Print Assumptions c04_batch_all_or_nothing.
