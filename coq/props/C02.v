(* C02 — non-consuming reads never change what later reads or counts see.  Pinned statements only;
   proofs in proofs/EngineC02.v and proofs/EngineMain.v. *)
From W Require Import gen.Consts model.Base model.Engine model.EngineCfg spec.Queue
  proofs.EngineWF proofs.EngineInv proofs.EngineW proofs.EngineMain proofs.EngineC02 proofs.EngineErase
  proofs.EngineC06 proofs.EngineEraseG props.C01.
From Coq Require Import Lia.

(* (a) erasure, in full for everything the model holds: deleting every peek (read_next or batch
   read with checkpoint=false) and every offset-addressed read (checkpoint true or false, any
   offset, any budget) from ANY admissible restart-free history leaves the result of every
   remaining operation — every append, batch, consuming read (including HOW MANY entries a
   budgeted batch read returns) and every count — exactly as it was.  Proof: a simulation; a
   non-consuming read changes a topic's state only in the reader's hydration flag and by
   stepping the in-memory cursor over exhausted blocks, and no operation can tell.
   Not covered: the reclamation bookkeeping clause (the block/file trackers are not part of
   model/Engine.v; see C12). *)
Theorem c02_erasure : forall (c : Cfg) (m : mode) (be : backend) (ops : list op),
  cfg_ok c -> Forall (op_ok c) ops ->
  N.of_nat (length (offered_all ops)) <= u64_max -> sum_len (offered_all ops) <= u64_max ->
  filter (fun p => keep (fst p)) (trace (env_of c m be) init ops) = trace (env_of c m be) init (filter keep ops).
Proof. exact erase_from_init. Qed.

(* what [keep] erases *)
Example c02_keep_is : forall t e es mb st,
  keep (OAppend t e) = true /\ keep (OBatch t es) = true /\ keep (OCount t) = true /\
  keep (ORead t true) = true /\ keep (OBatchRead t mb true None) = true /\
  keep (ORead t false) = false /\ keep (OBatchRead t mb false None) = false /\
  keep (OBatchRead t mb true (Some st)) = false /\ keep (OBatchRead t mb false (Some st)) = false.
Proof. intros; repeat split. Qed.

Theorem c02_queue_view : forall (c : Cfg) (m : mode) (be : backend) (ops : list op),
  cfg_ok c -> Forall (op_ok c) ops ->
  N.of_nat (length (offered_all ops)) <= u64_max -> sum_len (offered_all ops) <= u64_max ->
  c01_ok (trace (env_of c m be) init ops) = true /\ c15_ok (trace (env_of c m be) init ops) = true.
Proof. intros c m be ops Hc Ho H1 H2. destruct (engine_from_init c m be ops Hc Ho H1 H2) as (A & B & _). split; assumption. Qed.

(* (b) a peek returns exactly what the immediately following consuming read with the same
   arguments returns, and (c) offset-addressed reads return only sub-ranges of entries appended
   to that topic, in append order: acceptors c02b_ok / c02c_ok hold on every admissible history *)
Theorem c02_peek_and_offset_reads : forall (c : Cfg) (m : mode) (be : backend) (ops : list op),
  cfg_ok c -> Forall (op_ok c) ops ->
  N.of_nat (length (offered_all ops)) <= u64_max -> sum_len (offered_all ops) <= u64_max ->
  c02c_ok (trace (env_of c m be) init ops) = true /\ c02b_ok (trace (env_of c m be) init ops) = true.
Proof. exact c02_from_init. Qed.

(* (b) for batch reads holds in EVERY state (reachable or not), every budget and mode *)
Theorem c02_batch_peek_then_consume : forall c m s t maxb,
  let '(s1, r1) := batch_read c m s t maxb false None in
  let '(s2, r2) := batch_read c m s1 t maxb true None in
  r1 = r2.
Proof. exact batch_peek_then_consume. Qed.

(* (c) in EVERY state: whatever a batch read returns is a list of sub-ranges of the topic's
   stream (sealed chain followed by the writer block), in stream order *)
Theorem c02_subranges_any_state : forall c m s t maxb ck start s' os,
  batch_read c m s t maxb ck start = (s', REntries os) ->
  outs_subranges (stream (get_ts s (t_id t))) os = true.
Proof. exact batch_read_subranges. Qed.

(* an offset-addressed read leaves the whole model state of the topic exactly as it was *)
Theorem c02_offset_read_changes_nothing : forall c m s t maxb ck st0,
  exists os, batch_read c m s t maxb ck (Some st0) = (set_ts s (t_id t) (get_ts s (t_id t)), REntries os).
Proof. exact batch_read_stateless. Qed.

(* non-vacuity: peeks, offset reads with checkpoint=true in AtLeastOnce mode (the pinned tree's
   defect D8, fixed by dc7ca6c), trimmed first entry *)
Example c02_witness :
  map snd (trace (env_of small_cfg (ALO 1) Fd) init
             [OAppend t1 (e 0 300); OAppend t1 (e 1 3700); OAppend t1 (e 2 50);
              OBatchRead t1 1000 true (Some 300); OBatchRead t1 4000 false None; OBatchRead t1 4000 true None;
              ORead t1 false; ORead t1 true; OCount t1])
  = [ROk; ROk; ROk; REntries [{| o_pid := 0; o_skip := 44; o_len := 256 |}];
     REntries [out_of (e 0 300)]; REntries [out_of (e 0 300)];
     REntry (out_of (e 1 3700)); REntry (out_of (e 1 3700)); RNum 1].
Proof. vm_compute. reflexivity. Qed.

(* ------------------------------------------------------------------ (a) and (b) with restarts *)
(* (a) for histories with ANY NUMBER OF RESTARTS ([OReopen] anywhere), any mode, any backend, both
   read APIs mixed freely: deleting every peek and every offset-addressed read leaves the result of
   every remaining operation (every restart included) unchanged.  The two booleans are evaluated
   along the two runs (proofs/EngineC06.v): no restart of the run, resp. of the erased run, happens
   in a state with block-id drift ([id_drift], model/Engine.v).  They cannot be dropped: see
   [c02_erasure_refuted_id_drift] below.
   What [reopen] reads of the in-memory state is, per known topic, the persisted index and the
   unmodelled flag; a non-consuming read changes neither, nor the disk image
   ([reopen_get_eq], proofs/EngineEraseR.v).  The extra work is between a restart and a topic's
   first stateful read: the persisted position is applied by that read, read_next and batch_read
   apply it with different reader tail fields, and an erased peek can make the two runs apply it
   through different APIs; outside block-id drift both tail values are dead (they name a sealed
   block) and no operation can tell (proofs/EngineEraseD.v, proofs/EngineEraseG.v). *)
Theorem c02_erasure_with_restarts : forall (c : Cfg) (m : mode) (be : backend) (ops : list op),
  cfg_ok c ->
  outside_known (env_of c m be) init ops = true ->
  outside_known (env_of c m be) init (filter keep ops) = true ->
  N.of_nat (length (offered_all ops)) <= u64_max -> sum_len (offered_all ops) <= u64_max ->
  filter (fun p => keep (fst p)) (trace (env_of c m be) init ops) = trace (env_of c m be) init (filter keep ops).
Proof. exact erase_with_restarts. Qed.

(* (b) with restarts: a peek returns exactly what the immediately following consuming read with
   the same arguments returns, in every state such a history reaches — in particular when the
   peek is the first read after a restart and itself applies the persisted position *)
Theorem c02_peek_equals_consuming_read_after_restart : forall (c : Cfg) (m : mode) (be : backend) (ops : list op),
  cfg_ok c ->
  outside_known (env_of c m be) init ops = true ->
  N.of_nat (length (offered_all ops)) <= u64_max -> sum_len (offered_all ops) <= u64_max ->
  c02b_ok (trace (env_of c m be) init ops) = true.
Proof. exact c02b_with_restarts. Qed.

(* non-vacuity: two restarts; before the first a consuming read of the writer block persists a
   TAIL position and a rotation seals that block; after it a read_next peek, offset reads and a
   batch peek are erased, so the two runs apply the persisted position through different APIs *)
Definition dt (n : N) : topic := {| t_id := n; t_nlen := 2 |}.
Definition c02_restart_ops : list op :=
  [OAppend t1 (e 0 5000); OAppend t1 (e 1 2000); ORead t1 true; OAppend t1 (e 2 9000); OAppend (dt 2) (e 3 100);
   OReopen;
   ORead t1 false; OBatchRead t1 100000 true (Some 0); OBatchRead t1 100000 true None; OCount t1; OAppend t1 (e 4 300);
   OBatchRead (dt 2) 100000 false None; ORead (dt 2) true; OBatchRead t1 4000 false (Some 5000);
   OReopen;
   OBatchRead t1 100000 false None; ORead t1 true; OCount t1; ORead (dt 2) false; OCount (dt 2); ORead t1 true].

Example c02_restart_witness :
  outside_known (env_of small_cfg Strict Fd) init c02_restart_ops = true /\
  outside_known (env_of small_cfg Strict Fd) init (filter keep c02_restart_ops) = true /\
  map snd (trace (env_of small_cfg Strict Fd) init c02_restart_ops)
  = [ROk; ROk; REntry (out_of (e 0 5000)); ROk; ROk;
     ROk;
     REntry (out_of (e 1 2000)); REntries [out_of (e 0 5000); out_of (e 1 2000); out_of (e 2 9000)];
     REntries [out_of (e 1 2000); out_of (e 2 9000)]; RNum 0; ROk;
     REntries [out_of (e 3 100)]; REntry (out_of (e 3 100)); REntries [{| o_pid := 0; o_skip := 4744; o_len := 256 |}];
     ROk;
     REntries [out_of (e 4 300)]; REntry (out_of (e 4 300)); RNum 0; RNone; RNum 0; RNone] /\
  filter keep c02_restart_ops
  = [OAppend t1 (e 0 5000); OAppend t1 (e 1 2000); ORead t1 true; OAppend t1 (e 2 9000); OAppend (dt 2) (e 3 100);
     OReopen; OBatchRead t1 100000 true None; OCount t1; OAppend t1 (e 4 300); ORead (dt 2) true;
     OReopen; ORead t1 true; OCount t1; OCount (dt 2); ORead t1 true] /\
  map snd (trace (env_of small_cfg Strict Fd) init (filter keep c02_restart_ops))
  = [ROk; ROk; REntry (out_of (e 0 5000)); ROk; ROk;
     ROk; REntries [out_of (e 1 2000); out_of (e 2 9000)]; RNum 0; ROk; REntry (out_of (e 3 100));
     ROk; REntry (out_of (e 4 300)); RNum 0; RNum 0; RNone] /\
  (* AtLeastOnce: the same history is outside the known class too, and the restarts redeliver *)
  outside_known (env_of small_cfg (ALO 2) Mmap) init c02_restart_ops = true /\
  outside_known (env_of small_cfg (ALO 2) Mmap) init (filter keep c02_restart_ops) = true /\
  map snd (trace (env_of small_cfg (ALO 2) Mmap) init (filter keep c02_restart_ops))
  = [ROk; ROk; REntry (out_of (e 0 5000)); ROk; ROk;
     ROk; REntries [out_of (e 0 5000); out_of (e 1 2000); out_of (e 2 9000)]; RNum 0; ROk; REntry (out_of (e 3 100));
     ROk; REntry (out_of (e 0 5000)); RNum 3; RNum 1; REntry (out_of (e 1 2000))].
Proof. vm_compute. repeat split; reflexivity. Qed.

(* the hypothesis cannot be dropped (corpus/C02/iddrift-peek.case, confirmed on the code): seven
   one-entry topics leave a hole in the allocator ids, topic 8's consuming read persists a TAIL
   position, the restart renumbers its blocks (block-id drift).  read_next resolves the dangling
   position to the start of the chain, batch_read keeps the recovered cursor at the end of the
   chain: WITH the read_next peek the consuming batch read returns both entries and the count
   goes to 0; WITHOUT it the batch read returns nothing and the count stays 2. *)
Definition c02_drift_ops : list op :=
  [OAppend (dt 1) (e 0 10); OAppend (dt 2) (e 1 10); OAppend (dt 3) (e 2 10); OAppend (dt 4) (e 3 10); OAppend (dt 5) (e 4 10);
   OAppend (dt 6) (e 5 10); OAppend (dt 7) (e 6 10); OAppend (dt 8) (e 7 5000); OAppend (dt 8) (e 8 100); ORead (dt 8) true;
   OReopen;
   ORead (dt 8) false; OBatchRead (dt 8) 100000 true None; OCount (dt 8)].

Theorem c02_erasure_refuted_id_drift :
  outside_known (env_of small_cfg Strict Fd) init c02_drift_ops = false /\
  map snd (filter (fun p => keep (fst p)) (trace (env_of small_cfg Strict Fd) init c02_drift_ops))
  = [ROk; ROk; ROk; ROk; ROk; ROk; ROk; ROk; ROk; REntry (out_of (e 7 5000)); ROk;
     REntries [out_of (e 7 5000); out_of (e 8 100)]; RNum 0] /\
  map snd (trace (env_of small_cfg Strict Fd) init (filter keep c02_drift_ops))
  = [ROk; ROk; ROk; ROk; ROk; ROk; ROk; ROk; ROk; REntry (out_of (e 7 5000)); ROk;
     REntries []; RNum 2].
Proof. vm_compute. repeat split; reflexivity. Qed.

Theorem c02_erasure_with_restarts_needs_outside_known :
  ~ (forall ops : list op,
       filter (fun p => keep (fst p)) (trace (env_of small_cfg Strict Fd) init ops)
       = trace (env_of small_cfg Strict Fd) init (filter keep ops)).
Proof.
  intros H. pose proof (f_equal (map snd) (H c02_drift_ops)) as E.
  destruct c02_erasure_refuted_id_drift as (_ & H1 & H2).
  pose proof (eq_trans (eq_trans (eq_sym H1) E) H2) as X. discriminate X.
Qed.

(* (b) right after a restart, both APIs, the peek applying the persisted position itself *)
Example c02_peek_after_restart_witness :
  let ops := [OAppend t1 (e 0 5000); OAppend t1 (e 1 2000); ORead t1 true; OAppend t1 (e 2 9000); OReopen;
              ORead t1 false; ORead t1 true; OReopen; OBatchRead t1 100000 false None; OBatchRead t1 100000 true None] in
  outside_known (env_of small_cfg Strict Fd) init ops = true /\
  map snd (trace (env_of small_cfg Strict Fd) init ops)
  = [ROk; ROk; REntry (out_of (e 0 5000)); ROk; ROk; REntry (out_of (e 1 2000)); REntry (out_of (e 1 2000)); ROk;
     REntries [out_of (e 2 9000)]; REntries [out_of (e 2 9000)]].
Proof. vm_compute. split; reflexivity. Qed.

Check c02_erasure : forall (c : Cfg) (m : mode) (be : backend) (ops : list op),
  cfg_ok c -> Forall (op_ok c) ops ->
  N.of_nat (length (offered_all ops)) <= u64_max -> sum_len (offered_all ops) <= u64_max ->
  filter (fun p => keep (fst p)) (trace (env_of c m be) init ops) = trace (env_of c m be) init (filter keep ops).
Check c02_peek_and_offset_reads : forall (c : Cfg) (m : mode) (be : backend) (ops : list op),
  cfg_ok c -> Forall (op_ok c) ops ->
  N.of_nat (length (offered_all ops)) <= u64_max -> sum_len (offered_all ops) <= u64_max ->
  c02c_ok (trace (env_of c m be) init ops) = true /\ c02b_ok (trace (env_of c m be) init ops) = true.
Print Assumptions c02_erasure.
Print Assumptions c02_queue_view.
Print Assumptions c02_peek_and_offset_reads.
Print Assumptions c02_batch_peek_then_consume.
Print Assumptions c02_subranges_any_state.
Print Assumptions c02_offset_read_changes_nothing.
Check c02_erasure_with_restarts : forall (c : Cfg) (m : mode) (be : backend) (ops : list op),
  cfg_ok c ->
  outside_known (env_of c m be) init ops = true ->
  outside_known (env_of c m be) init (filter keep ops) = true ->
  N.of_nat (length (offered_all ops)) <= u64_max -> sum_len (offered_all ops) <= u64_max ->
  filter (fun p => keep (fst p)) (trace (env_of c m be) init ops) = trace (env_of c m be) init (filter keep ops).
Check c02_peek_equals_consuming_read_after_restart : forall (c : Cfg) (m : mode) (be : backend) (ops : list op),
  cfg_ok c ->
  outside_known (env_of c m be) init ops = true ->
  N.of_nat (length (offered_all ops)) <= u64_max -> sum_len (offered_all ops) <= u64_max ->
  c02b_ok (trace (env_of c m be) init ops) = true.
Print Assumptions c02_erasure_with_restarts.
Print Assumptions c02_peek_equals_consuming_read_after_restart.
Print Assumptions c02_erasure_refuted_id_drift.
Print Assumptions c02_erasure_with_restarts_needs_outside_known.
