(* C02 — non-consuming reads never change what later reads or counts see.  Pinned statements only;
   proofs in proofs/EngineC02.v and proofs/EngineMain.v. *)
From W Require Import gen.Consts model.Base model.Engine model.EngineCfg spec.Queue
  proofs.EngineWF proofs.EngineInv proofs.EngineW proofs.EngineMain proofs.EngineC02 proofs.EngineErase props.C01.
From Coq Require Import Lia.

(* (a) erasure, in full for everything the model holds: deleting every peek (read_next or batch
   read with checkpoint=false) and every offset-addressed read (checkpoint true or false, any
   offset, any budget) from ANY admissible restart-free history leaves the result of every
   remaining operation — every append, batch, consuming read (including HOW MANY entries a
   budgeted batch read returns) and every count — exactly as it was.  Proof: a simulation; a
   non-consuming read changes a topic's state only in the reader's hydration flag and by
   stepping the in-memory cursor over exhausted blocks, and no operation can tell.
   Not covered: the reclamation bookkeeping clause (the block/file trackers are not part of
   model/Engine.v; see C12). *)
Theorem c02_erasure : forall (c : Cfg) (m : mode) (be : backend) (ops : list op),
  cfg_ok c -> Forall (op_ok c) ops ->
  N.of_nat (length (offered_all ops)) <= u64_max -> sum_len (offered_all ops) <= u64_max ->
  filter (fun p => keep (fst p)) (trace (env_of c m be) init ops) = trace (env_of c m be) init (filter keep ops).
Proof. exact erase_from_init. Qed.

(* what [keep] erases *)
Example c02_keep_is : forall t e es mb st,
  keep (OAppend t e) = true /\ keep (OBatch t es) = true /\ keep (OCount t) = true /\
  keep (ORead t true) = true /\ keep (OBatchRead t mb true None) = true /\
  keep (ORead t false) = false /\ keep (OBatchRead t mb false None) = false /\
  keep (OBatchRead t mb true (Some st)) = false /\ keep (OBatchRead t mb false (Some st)) = false.
Proof. intros; repeat split. Qed.

Theorem c02_queue_view : forall (c : Cfg) (m : mode) (be : backend) (ops : list op),
  cfg_ok c -> Forall (op_ok c) ops ->
  N.of_nat (length (offered_all ops)) <= u64_max -> sum_len (offered_all ops) <= u64_max ->
  c01_ok (trace (env_of c m be) init ops) = true /\ c15_ok (trace (env_of c m be) init ops) = true.
Proof. intros c m be ops Hc Ho H1 H2. destruct (engine_from_init c m be ops Hc Ho H1 H2) as (A & B & _). split; assumption. Qed.

(* (b) a peek returns exactly what the immediately following consuming read with the same
   arguments returns, and (c) offset-addressed reads return only sub-ranges of entries appended
   to that topic, in append order: acceptors c02b_ok / c02c_ok hold on every admissible history *)
Theorem c02_peek_and_offset_reads : forall (c : Cfg) (m : mode) (be : backend) (ops : list op),
  cfg_ok c -> Forall (op_ok c) ops ->
  N.of_nat (length (offered_all ops)) <= u64_max -> sum_len (offered_all ops) <= u64_max ->
  c02c_ok (trace (env_of c m be) init ops) = true /\ c02b_ok (trace (env_of c m be) init ops) = true.
Proof. exact c02_from_init. Qed.

(* (b) for batch reads holds in EVERY state (reachable or not), every budget and mode *)
Theorem c02_batch_peek_then_consume : forall c m s t maxb,
  let '(s1, r1) := batch_read c m s t maxb false None in
  let '(s2, r2) := batch_read c m s1 t maxb true None in
  r1 = r2.
Proof. exact batch_peek_then_consume. Qed.

(* (c) in EVERY state: whatever a batch read returns is a list of sub-ranges of the topic's
   stream (sealed chain followed by the writer block), in stream order *)
Theorem c02_subranges_any_state : forall c m s t maxb ck start s' os,
  batch_read c m s t maxb ck start = (s', REntries os) ->
  outs_subranges (stream (get_ts s (t_id t))) os = true.
Proof. exact batch_read_subranges. Qed.

(* an offset-addressed read leaves the whole model state of the topic exactly as it was *)
Theorem c02_offset_read_changes_nothing : forall c m s t maxb ck st0,
  exists os, batch_read c m s t maxb ck (Some st0) = (set_ts s (t_id t) (get_ts s (t_id t)), REntries os).
Proof. exact batch_read_stateless. Qed.

(* non-vacuity: peeks, offset reads with checkpoint=true in AtLeastOnce mode (the pinned tree's
   defect D8, fixed by dc7ca6c), trimmed first entry *)
Example c02_witness :
  map snd (trace (env_of small_cfg (ALO 1) Fd) init
             [OAppend t1 (e 0 300); OAppend t1 (e 1 3700); OAppend t1 (e 2 50);
              OBatchRead t1 1000 true (Some 300); OBatchRead t1 4000 false None; OBatchRead t1 4000 true None;
              ORead t1 false; ORead t1 true; OCount t1])
  = [ROk; ROk; ROk; REntries [{| o_pid := 0; o_skip := 44; o_len := 256 |}];
     REntries [out_of (e 0 300)]; REntries [out_of (e 0 300)];
     REntry (out_of (e 1 3700)); REntry (out_of (e 1 3700)); RNum 1].
Proof. vm_compute. reflexivity. Qed.

Check c02_erasure : forall (c : Cfg) (m : mode) (be : backend) (ops : list op),
  cfg_ok c -> Forall (op_ok c) ops ->
  N.of_nat (length (offered_all ops)) <= u64_max -> sum_len (offered_all ops) <= u64_max ->
  filter (fun p => keep (fst p)) (trace (env_of c m be) init ops) = trace (env_of c m be) init (filter keep ops).
Check c02_peek_and_offset_reads : forall (c : Cfg) (m : mode) (be : backend) (ops : list op),
  cfg_ok c -> Forall (op_ok c) ops ->
  N.of_nat (length (offered_all ops)) <= u64_max -> sum_len (offered_all ops) <= u64_max ->
  c02c_ok (trace (env_of c m be) init ops) = true /\ c02b_ok (trace (env_of c m be) init ops) = true.
Print Assumptions c02_erasure.
Print Assumptions c02_queue_view.
Print Assumptions c02_peek_and_offset_reads.
Print Assumptions c02_batch_peek_then_consume.
Print Assumptions c02_subranges_any_state.
Print Assumptions c02_offset_read_changes_nothing.
