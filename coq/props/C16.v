(* C16 — FD/io_uring and mmap backends behave identically.  Pinned statements only. *)
From W Require Import model.Base model.Engine proofs.EngineBasic.

(* for every configuration, mode, start state and operation sequence (appends, batches,
   both read APIs, counts, restarts): the results with the two backends are equal, provided
   no batch targets a topic whose name does not fit the entry header (the one known class) *)
Theorem c16_backend_irrelevant : forall (c : Cfg) (m : mode) (ops : list op) (s : st),
  forallb (batch_name_ok c) ops = true ->
  run {| v_cfg := c; v_mode := m; v_backend := Fd |} s ops =
  run {| v_cfg := c; v_mode := m; v_backend := Mmap |} s ops.
Proof. exact run_backend. Qed.

(* ... and that class is real: the FD path panics where the mmap path returns an error *)
Theorem c16_refuted_long_name_batch : exists c s t es, batch c Fd s t es <> batch c Mmap s t es.
Proof. exact backend_differs_on_long_name. Qed.

Check c16_backend_irrelevant : forall (c : Cfg) (m : mode) (ops : list op) (s : st),
  forallb (batch_name_ok c) ops = true ->
  run {| v_cfg := c; v_mode := m; v_backend := Fd |} s ops =
  run {| v_cfg := c; v_mode := m; v_backend := Mmap |} s ops.
Print Assumptions c16_backend_irrelevant.
Print Assumptions c16_refuted_long_name_batch.
