(* C16 — FD/io_uring and mmap backends behave identically.  Pinned statements only. *)
From W Require Import model.Base model.Engine proofs.EngineBasic.

(* for every configuration, mode, start state and operation sequence (appends, batches, both
   read APIs, counts, restarts, rejected operations): the results with the two backends are
   equal.  (On the pinned tree a batch on a topic whose name does not fit the entry header
   panicked on the FD path and returned InvalidData on the mmap path; since fix 47d4d63 the
   argument check in front of both paths makes that branch unreachable, and the theorem needs
   no side condition.) *)
Theorem c16_backend_irrelevant : forall (c : Cfg) (m : mode) (ops : list op) (s : st),
  run {| v_cfg := c; v_mode := m; v_backend := Fd |} s ops =
  run {| v_cfg := c; v_mode := m; v_backend := Mmap |} s ops.
Proof. exact run_backend. Qed.

(* non-vacuity: a history with a rejected long-name batch, an oversize append and a restart *)
Example c16_witness :
  let c := {| c_block := 4096; c_bpf := 8; c_max_alloc := 16384; c_hdr := 256; c_max_entries := 2000;
              c_max_bytes := 262144; c_small := 128; c_overflow_checks := true |} in
  let tl := {| t_id := 9; t_nlen := 217 |} in let t1 := {| t_id := 1; t_nlen := 2 |} in
  run {| v_cfg := c; v_mode := Strict; v_backend := Fd |} init
    [OBatch tl [{| e_pid := 0; e_len := 1 |}]; OAppend t1 {| e_pid := 1; e_len := 20000 |};
     OAppend t1 {| e_pid := 2; e_len := 5 |}; OReopen; ORead t1 true]
  = [RErr EInvalidData; RErr EInvalidInput; ROk; ROk; REntry {| o_pid := 2; o_skip := 0; o_len := 5 |}].
Proof. vm_compute. reflexivity. Qed.

Check c16_backend_irrelevant : forall (c : Cfg) (m : mode) (ops : list op) (s : st),
  run {| v_cfg := c; v_mode := m; v_backend := Fd |} s ops =
  run {| v_cfg := c; v_mode := m; v_backend := Mmap |} s ops.
Print Assumptions c16_backend_irrelevant.
