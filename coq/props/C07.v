(* C07 — acknowledged appends survive a process crash at any point.  Pinned statements only.
   Crash model: completed writes persist; a crash image between two entry writes is a
   well-formed file image (dwf), so the recovery theorem of C06 applies to it verbatim.
   The whole-history statement (every prefix of every workload's write sequence recovers to
   acknowledged ++ prefix of in-flight) is decided per run by crash-point enumeration on the
   real crate (exit before the k-th I/O event, fresh process reopens) with the extracted
   acceptor c07_ok, whose meaning is pinned here. *)
From W Require Import model.Base model.Engine spec.Queue spec.Crash proofs.EngineWF proofs.EngineInv proofs.EngineW proofs.EngineMain proofs.EngineRec proofs.EngineDisk proofs.CrashP.

Theorem c07_acceptor_means : forall acked inflight rec,
  c07_ok acked inflight rec = true <->
  exists k, (k <= length inflight)%nat /\ outs_are rec (acked ++ firstn k inflight) = true.
Proof. exact c07_ok_spec. Qed.

Theorem c07_recovery_of_any_crash_image_partial : forall c, 0 < c_hdr c -> 0 < c_block c -> forall nfiles f disk next_id acc,
  Forall (dwf c) disk ->
  let '(acc', id') := scan_files c nfiles f disk next_id acc in
  rc_flag acc' = rc_flag acc /\
  forall t, chain_ents (rc_get (rc_chains acc') t) = chain_ents (rc_get (rc_chains acc) t) ++ files_ents t nfiles f disk.
Proof. exact scan_files_complete. Qed.

(* a crash BETWEEN two operations of any admissible history (every append acknowledged so far
   has completed its write, nothing is in flight): the fresh process rebuilds every topic's
   stream exactly.  Crash points inside an operation are decided by the enumeration. *)
Theorem c07_crash_between_operations_partial : forall (c : Cfg) (m : mode) (be : backend) (ops : list op),
  cfg_ok c -> Forall (op_ok c) ops ->
  N.of_nat (length (offered_all ops)) <= u64_max -> sum_len (offered_all ops) <= u64_max ->
  forall t, stream (get_ts (reopen c (exec (env_of c m be) init ops)) t) = stream (get_ts (exec (env_of c m be) init ops) t).
Proof. exact restart_rebuilds_streams. Qed.

Check c07_acceptor_means : forall acked inflight rec,
  c07_ok acked inflight rec = true <->
  exists k, (k <= length inflight)%nat /\ outs_are rec (acked ++ firstn k inflight) = true.
Print Assumptions c07_acceptor_means.
Print Assumptions c07_recovery_of_any_crash_image_partial.
Print Assumptions c07_crash_between_operations_partial.
