(* C07 — acknowledged appends survive a process crash at any point.  Pinned statements only.
   Crash model: completed writes persist; a crash image between two entry writes is a
   well-formed file image (dwf), so the recovery theorem of C06 applies to it verbatim.
   The whole-history statement (every prefix of every workload's write sequence recovers to
   acknowledged ++ prefix of in-flight) is decided per run by crash-point enumeration on the
   real crate (exit before the k-th I/O event, fresh process reopens) with the extracted
   acceptor c07_ok, whose meaning is pinned here. *)
From W Require Import model.Base model.Engine spec.Queue spec.Crash proofs.EngineWF proofs.EngineInv proofs.EngineW proofs.EngineMain proofs.EngineRec proofs.EngineDisk proofs.CrashP proofs.EngineCrash.
From W Require Import model.EngineCfg proofs.EngineC06 proofs.EngineCrashR.

Theorem c07_acceptor_means : forall acked inflight rec,
  c07_ok acked inflight rec = true <->
  exists k, (k <= length inflight)%nat /\ outs_are rec (acked ++ firstn k inflight) = true.
Proof. exact c07_ok_spec. Qed.

Theorem c07_recovery_of_any_crash_image_partial : forall c, 0 < c_hdr c -> 0 < c_block c -> forall nfiles f disk next_id acc,
  Forall (dwf c) disk ->
  let '(acc', id') := scan_files c nfiles f disk next_id acc in
  rc_flag acc' = rc_flag acc /\
  forall t, chain_ents (rc_get (rc_chains acc') t) = chain_ents (rc_get (rc_chains acc) t) ++ files_ents t nfiles f disk.
Proof. exact scan_files_complete. Qed.

(* a crash BETWEEN two operations of any admissible history (every append acknowledged so far
   has completed its write, nothing is in flight): the fresh process rebuilds every topic's
   stream exactly.  Crash points inside an operation are decided by the enumeration. *)
Theorem c07_crash_between_operations_partial : forall (c : Cfg) (m : mode) (be : backend) (ops : list op),
  cfg_ok c -> Forall (op_ok c) ops ->
  N.of_nat (length (offered_all ops)) <= u64_max -> sum_len (offered_all ops) <= u64_max ->
  forall t, stream (get_ts (reopen c (exec (env_of c m be) init ops)) t) = stream (get_ts (exec (env_of c m be) init ops) t).
Proof. exact restart_rebuilds_streams. Qed.

(* crash points INSIDE a batch append.  After ANY admissible restart-free history (any mode), for every
   batch [es] whose entries and topic name are admissible (batch_ok: the plan the next operation would
   carry out) and every j: the fresh process on the image left by the first j entry writes of the batch
   (model: batch_crash — first block allocated, rotations and allocations of the plan done, j entries
   written, nothing published) rebuilds, for the batch's topic, the acknowledged stream followed by
   EXACTLY the first j entries of the batch, and every other topic's stream unchanged: acknowledged
   appends survive, only a prefix of the in-flight batch can appear, nothing else. *)
Theorem c07_crash_inside_batch : forall (c : Cfg) (m : mode) (be : backend) (ops : list op) (t : topic) (es : list entry) (j : nat),
  cfg_ok c -> Forall (op_ok c) ops ->
  N.of_nat (length (offered_all ops)) <= u64_max -> sum_len (offered_all ops) <= u64_max ->
  batch_ok c t es ->
  let s := exec (env_of c m be) init ops in
  forall t0, stream (get_ts (batch_crash c s t es j) t0) =
             if t0 =? t_id t then stream (get_ts s (t_id t)) ++ firstn j es else stream (get_ts s t0).
Proof. exact crash_inside_batch_reachable. Qed.

(* ... and the same after ANY history WITH restarts outside block-id drift (any mode): the streams do
   not depend on readers, so un-hydrated readers left by earlier restarts do not matter *)
Theorem c07_crash_inside_batch_after_restarts : forall (c : Cfg) (m : mode) (be : backend) (ops : list op) (t : topic) (es : list entry) (j : nat),
  cfg_ok c -> outside_known (env_of c m be) init ops = true ->
  N.of_nat (length (offered_all ops)) <= u64_max -> sum_len (offered_all ops) <= u64_max ->
  batch_ok c t es ->
  let s := exec (env_of c m be) init ops in
  forall t0, stream (get_ts (batch_crash c s t es j) t0) =
             if t0 =? t_id t then stream (get_ts s (t_id t)) ++ firstn j es else stream (get_ts s t0).
Proof. exact crash_inside_batch_after_restarts. Qed.

(* the same in the boolean form the check applies to implementation crash runs *)
Theorem c07_crash_inside_batch_accepted : forall (c : Cfg) (m : mode) (be : backend) (ops : list op) (t : topic) (es : list entry) (j : nat),
  cfg_ok c -> Forall (op_ok c) ops ->
  N.of_nat (length (offered_all ops)) <= u64_max -> sum_len (offered_all ops) <= u64_max ->
  batch_ok c t es ->
  let s := exec (env_of c m be) init ops in
  c07_ok (stream_of s (t_id t)) es (map out_of (stream_of (batch_crash c s t es j) (t_id t))) = true /\
  forall t0, t0 <> t_id t -> stream_of (batch_crash c s t es j) t0 = stream_of s t0.
Proof. exact crash_inside_batch_c07_reachable. Qed.

(* crash points inside a SINGLE append.  An append is one positional write (header + payload); what it
   does before that write — sealing the full block (a flush of bytes already written), allocating the
   next block (extending the allocator, possibly creating and sizing a fresh file: zero bytes = a
   never-written block for recovery) — changes nothing recovery reads (invariant DIs: never-written
   blocks contribute nothing; the model collapses these I/O events into the append step).  So the
   crash images of an append are the restart of the state before it and of the state after it:
   the acknowledged stream, possibly followed by the entry in flight; other topics unchanged. *)
Theorem c07_crash_inside_append : forall (c : Cfg) (m : mode) (be : backend) (ops : list op) (t : topic) (e : entry),
  cfg_ok c -> Forall (op_ok c) ops ->
  N.of_nat (length (offered_all ops)) + 1 <= u64_max -> sum_len (offered_all ops) + e_len e <= u64_max ->
  let s := exec (env_of c m be) init ops in
  let s' := fst (step (env_of c m be) s (OAppend t e)) in
  forall image, image = reopen c s \/ image = reopen c s' ->
    (exists k, (k <= 1)%nat /\ stream (get_ts image (t_id t)) = stream (get_ts s (t_id t)) ++ firstn k [e]) /\
    forall t0, t0 <> t_id t -> stream (get_ts image t0) = stream (get_ts s t0).
Proof. exact crash_inside_append. Qed.

Definition tq0 : topic := {| t_id := 1; t_nlen := 2 |}.
Definition eq0_ (p l : N) : entry := {| e_pid := p; e_len := l |}.
(* ... and crash points inside a single append after ANY history WITH restarts outside block-id drift (any mode) *)
Theorem c07_crash_inside_append_after_restarts : forall (c : Cfg) (m : mode) (be : backend) (ops : list op) (t : topic) (e : entry),
  cfg_ok c -> outside_known (env_of c m be) init ops = true ->
  N.of_nat (length (offered_all ops)) + 1 <= u64_max -> sum_len (offered_all ops) + e_len e <= u64_max ->
  let s := exec (env_of c m be) init ops in
  let s' := fst (step (env_of c m be) s (OAppend t e)) in
  forall image, image = reopen c s \/ image = reopen c s' ->
    (exists k, (k <= 1)%nat /\ stream (get_ts image (t_id t)) = stream (get_ts s (t_id t)) ++ firstn k [e]) /\
    forall t0, t0 <> t_id t -> stream (get_ts image t0) = stream (get_ts s t0).
Proof. exact crash_inside_append_after_restarts. Qed.

(* a crash BETWEEN two operations of any history WITH restarts outside block-id drift (any mode) loses nothing *)
Theorem c07_crash_between_operations_after_restarts : forall (c : Cfg) (m : mode) (be : backend) (ops : list op),
  cfg_ok c -> outside_known (env_of c m be) init ops = true ->
  N.of_nat (length (offered_all ops)) <= u64_max -> sum_len (offered_all ops) <= u64_max ->
  forall t, stream (get_ts (reopen c (exec (env_of c m be) init ops)) t) = stream (get_ts (exec (env_of c m be) init ops) t).
Proof. exact restart_rebuilds_streams_after_restarts. Qed.

(* the boolean form after any history with restarts outside drift *)
Theorem c07_crash_inside_batch_accepted_after_restarts : forall (c : Cfg) (m : mode) (be : backend) (ops : list op) (t : topic) (es : list entry) (j : nat),
  cfg_ok c -> outside_known (env_of c m be) init ops = true ->
  N.of_nat (length (offered_all ops)) <= u64_max -> sum_len (offered_all ops) <= u64_max ->
  batch_ok c t es ->
  let s := exec (env_of c m be) init ops in
  c07_ok (stream_of s (t_id t)) es (map out_of (stream_of (batch_crash c s t es j) (t_id t))) = true /\
  forall t0, t0 <> t_id t -> stream_of (batch_crash c s t es j) t0 = stream_of s t0.
Proof. exact crash_inside_batch_c07_after_restarts. Qed.

(* non-vacuity: a history with a restart (outside drift), then an append *)
Example c07_witness_after_restart :
  outside_known (env_of small_cfg Strict Fd) init [OAppend tq0 (eq0_ 0 3000); OReopen; OAppend tq0 (eq0_ 1 3000)] = true.
Proof. vm_compute. reflexivity. Qed.

(* non-vacuity: a history with a rotation, then a three-entry batch (the second entry rotates) crashing
   after its second write: exactly the first two entries are recovered behind the acknowledged ones *)
Definition tq : topic := {| t_id := 1; t_nlen := 2 |}.
Definition eq_ (p l : N) : entry := {| e_pid := p; e_len := l |}.
Example c07_witness_inside_batch :
  let ops := [OAppend tq (eq_ 0 3000); OAppend tq (eq_ 1 3000); ORead tq true] in
  let es := [eq_ 2 500; eq_ 3 3000; eq_ 4 10] in
  Forall (op_ok small_cfg) ops /\ name_ok small_cfg tq = true /\
  stream_of (batch_crash small_cfg (exec (env_of small_cfg Strict Fd) init ops) tq es 2) 1
  = [eq_ 0 3000; eq_ 1 3000; eq_ 2 500; eq_ 3 3000].
Proof. split; [repeat constructor|]. vm_compute. split; reflexivity. Qed.

Check c07_acceptor_means : forall acked inflight rec,
  c07_ok acked inflight rec = true <->
  exists k, (k <= length inflight)%nat /\ outs_are rec (acked ++ firstn k inflight) = true.
Print Assumptions c07_acceptor_means.
Print Assumptions c07_recovery_of_any_crash_image_partial.
Print Assumptions c07_crash_between_operations_partial.
Check c07_crash_inside_batch : forall (c : Cfg) (m : mode) (be : backend) (ops : list op) (t : topic) (es : list entry) (j : nat),
  cfg_ok c -> Forall (op_ok c) ops ->
  N.of_nat (length (offered_all ops)) <= u64_max -> sum_len (offered_all ops) <= u64_max ->
  batch_ok c t es ->
  let s := exec (env_of c m be) init ops in
  forall t0, stream (get_ts (batch_crash c s t es j) t0) =
             if t0 =? t_id t then stream (get_ts s (t_id t)) ++ firstn j es else stream (get_ts s t0).
Print Assumptions c07_crash_inside_batch.
Print Assumptions c07_crash_inside_batch_accepted.
Print Assumptions c07_crash_inside_append.
Print Assumptions c07_crash_inside_batch_after_restarts.
Check c07_crash_inside_append_after_restarts : forall (c : Cfg) (m : mode) (be : backend) (ops : list op) (t : topic) (e : entry),
  cfg_ok c -> outside_known (env_of c m be) init ops = true ->
  N.of_nat (length (offered_all ops)) + 1 <= u64_max -> sum_len (offered_all ops) + e_len e <= u64_max ->
  let s := exec (env_of c m be) init ops in
  let s' := fst (step (env_of c m be) s (OAppend t e)) in
  forall image, image = reopen c s \/ image = reopen c s' ->
    (exists k, (k <= 1)%nat /\ stream (get_ts image (t_id t)) = stream (get_ts s (t_id t)) ++ firstn k [e]) /\
    forall t0, t0 <> t_id t -> stream (get_ts image t0) = stream (get_ts s t0).
Print Assumptions c07_crash_inside_append_after_restarts.
Print Assumptions c07_crash_between_operations_after_restarts.
Check c07_crash_inside_batch_accepted_after_restarts : forall (c : Cfg) (m : mode) (be : backend) (ops : list op) (t : topic) (es : list entry) (j : nat),
  cfg_ok c -> outside_known (env_of c m be) init ops = true ->
  N.of_nat (length (offered_all ops)) <= u64_max -> sum_len (offered_all ops) <= u64_max ->
  batch_ok c t es ->
  let s := exec (env_of c m be) init ops in
  c07_ok (stream_of s (t_id t)) es (map out_of (stream_of (batch_crash c s t es j) (t_id t))) = true /\
  forall t0, t0 <> t_id t -> stream_of (batch_crash c s t es j) t0 = stream_of s t0.
Print Assumptions c07_crash_inside_batch_accepted_after_restarts.

(* C07 in ONE statement at model level: every crash image (crash_image: nothing happened / everything
   happened / the first j entry writes of an admissible batch happened) of EVERY operation after ANY
   history with restarts outside block-id drift, any mode, any backend: every topic holds exactly its
   acknowledged stream followed by a prefix of what the operation had in flight for it.
   (The I/O events an operation performs besides its entry writes and the index rename — sealing
   flushes, block allocation, file creation — are collapsed by the model; that they change nothing
   recovery reads is what the crash-point enumeration on the real crate decides per run.) *)
Theorem c07_every_crash_image_outside_known : forall (c : Cfg) (m : mode) (be : backend) (ops : list op) (o : op), cfg_ok c ->
  outside_known (env_of c m be) init ops = true ->
  N.of_nat (length (offered_all ops)) + N.of_nat (length (offered o)) <= u64_max ->
  sum_len (offered_all ops) + sum_len (offered o) <= u64_max ->
  let v := env_of c m be in
  let s := exec v init ops in
  forall image, crash_image c v s o image ->
  forall t0, exists k, (k <= length (inflight o t0))%nat /\
                       stream (get_ts image t0) = stream (get_ts s t0) ++ firstn k (inflight o t0).
Proof. exact c07_every_crash_image. Qed.

Example c07_crash_images_exist :
  let v := env_of small_cfg Strict Fd in
  let s := exec v init [OAppend tq0 (eq0_ 0 3000); OReopen] in
  crash_image small_cfg v s (OBatch tq0 [eq0_ 1 500; eq0_ 2 3000]) (batch_crash small_cfg s tq0 [eq0_ 1 500; eq0_ 2 3000] 1) /\
  crash_image small_cfg v s (OAppend tq0 (eq0_ 1 10)) (reopen small_cfg (fst (step v s (OAppend tq0 (eq0_ 1 10))))).
Proof. split; [apply CI_batch; split; [reflexivity|repeat constructor; vm_compute; discriminate]|apply CI_after; exact I]. Qed.

Check c07_every_crash_image_outside_known : forall (c : Cfg) (m : mode) (be : backend) (ops : list op) (o : op), cfg_ok c ->
  outside_known (env_of c m be) init ops = true ->
  N.of_nat (length (offered_all ops)) + N.of_nat (length (offered o)) <= u64_max ->
  sum_len (offered_all ops) + sum_len (offered o) <= u64_max ->
  let v := env_of c m be in
  let s := exec v init ops in
  forall image, crash_image c v s o image ->
  forall t0, exists k, (k <= length (inflight o t0))%nat /\
                       stream (get_ts image t0) = stream (get_ts s t0) ++ firstn k (inflight o t0).
Print Assumptions c07_every_crash_image_outside_known.

(* ... and in the boolean form: the extracted acceptor the check applies to implementation crash runs
   accepts every crash image of the model *)
Theorem c07_every_crash_image_accepted_outside_known : forall (c : Cfg) (m : mode) (be : backend) (ops : list op) (o : op), cfg_ok c ->
  outside_known (env_of c m be) init ops = true ->
  N.of_nat (length (offered_all ops)) + N.of_nat (length (offered o)) <= u64_max ->
  sum_len (offered_all ops) + sum_len (offered o) <= u64_max ->
  let v := env_of c m be in
  let s := exec v init ops in
  forall image, crash_image c v s o image ->
  forall t0, c07_ok (stream_of s t0) (inflight o t0) (map out_of (stream_of image t0)) = true.
Proof. exact c07_every_crash_image_accepted. Qed.
Check c07_every_crash_image_accepted_outside_known : forall (c : Cfg) (m : mode) (be : backend) (ops : list op) (o : op), cfg_ok c ->
  outside_known (env_of c m be) init ops = true ->
  N.of_nat (length (offered_all ops)) + N.of_nat (length (offered o)) <= u64_max ->
  sum_len (offered_all ops) + sum_len (offered o) <= u64_max ->
  let v := env_of c m be in
  let s := exec v init ops in
  forall image, crash_image c v s o image ->
  forall t0, c07_ok (stream_of s t0) (inflight o t0) (map out_of (stream_of image t0)) = true.
Print Assumptions c07_every_crash_image_accepted_outside_known.
