(* C12 — file reclamation never removes entries that are still unconsumed.
   Pinned statements only; the model is model/Trk.v (both trackers of allocator.rs and
   flush_check as a state machine over the calls the engine makes, 16-bit counters with
   wrap), proofs in proofs/TrkP.v.

   [trk_step false] is the code as it is (set_checkpointed_true increments the file's counter on
   every call); [trk_step true] is the proposed idempotent variant.  [contract fixed cs] is the
   executable precondition check of model/Trk.v (block ids registered once; for the code as it
   is: a block marked at most once; lock/unlock well bracketed; register_block always followed
   by add_block_to_file_state before the next flush_check of the file; fewer than 65536 blocks
   per file). *)
From W Require Import model.Base model.Trk proofs.TrkP.

(* Safety core, code as it is: whenever a call sequence that abides by the contract makes
   flush_check send a deletion request for f, then f was marked fully allocated, every block
   ever registered in f was marked (set_checkpointed_true), and none of them is locked. *)
Theorem c12_safety_core : forall cs, contract false cs ->
  forall p c rest, cs = p ++ c :: rest ->
  forall f, In f (snd (trk_step false (trk_st false p) c)) ->
  In (CFull f) (p ++ [c]) /\
  forall id, In (CRegister id f) (p ++ [c]) ->
             In (CMark id) (p ++ [c]) /\ ~ In id (locked_ids (p ++ [c])).
Proof. exact (trk_safety false). Qed.

(* The same for the idempotent set_checkpointed_true, WITHOUT the premise "marked at most
   once" (contract true has no such clause: repeated marks are allowed and do nothing). *)
Theorem c12_safety_idempotent_mark : forall cs, contract true cs ->
  forall p c rest, cs = p ++ c :: rest ->
  forall f, In f (snd (trk_step true (trk_st true p) c)) ->
  In (CFull f) (p ++ [c]) /\
  forall id, In (CRegister id f) (p ++ [c]) ->
             In (CMark id) (p ++ [c]) /\ ~ In id (locked_ids (p ++ [c])).
Proof. exact (trk_safety true). Qed.

(* With the engine-side clause of the contract as a hypothesis ("a block is marked only when
   its entries are consumed"): every block of a file requested for deletion is consumed. *)
Theorem c12_deleted_file_consumed : forall fixed cs (consumed : N -> Prop),
  contract fixed cs -> (forall id, In (CMark id) cs -> consumed id) ->
  forall p c rest, cs = p ++ c :: rest ->
  forall f, In f (snd (trk_step fixed (trk_st fixed p) c)) ->
  forall id, In (CRegister id f) (p ++ [c]) -> consumed id /\ ~ In id (locked_ids (p ++ [c])).
Proof. exact trk_deleted_file_consumed. Qed.

(* Every deletion request of a run is the output of one step (so the theorems above speak
   about all of [trk_requests]). *)
Theorem c12_requests_are_steps : forall fixed cs f, In f (trk_requests fixed cs) ->
  exists p c rest, cs = p ++ c :: rest /\ In f (snd (trk_step fixed (trk_st fixed p) c)).
Proof. exact requests_split. Qed.

(* REFUTED for the code as it is: the sequence below abides by everything in the contract
   except "marked at most once" (it is accepted by contract true); block 1 of file 7 is marked
   twice (two polls at the exhausted block), block 2 never, and file 7 is requested for deletion. *)
Theorem c12_refuted_repeated_mark : exists cs f id,
  contract true cs /\ marks_repeated cs = true /\
  In f (trk_requests false cs) /\ In (CRegister id f) cs /\ ~ In (CMark id) cs /\
  trk_requests true cs = [].
Proof. exact refuted_repeated_mark. Qed.

(* The strongest true statement for the code as it is: outside the known class (some block
   marked while its flag is already set) the rest of the contract gives safety. *)
Theorem c12_outside_known : forall cs, contract true cs -> marks_repeated cs = false ->
  contract false cs /\ trk_run false cs = trk_run true cs /\ c12_trace_ok false cs = true.
Proof.
  intros cs C M. pose proof (contract_of_no_repeat cs C M) as C0.
  split; [exact C0|]. split; [exact (proj1 (variants_agree cs C0))|exact (contract_accepted false cs C0)].
Qed.

(* The boolean acceptor run over traced call sequences: accepted by construction under the
   contract, and what acceptance means. *)
Theorem c12_contract_accepted : forall fixed cs, contract fixed cs -> c12_trace_ok fixed cs = true.
Proof. exact contract_accepted. Qed.

Theorem c12_acceptor_means : forall fixed cs, c12_trace_ok fixed cs = true ->
  forall p c rest, cs = p ++ c :: rest ->
  forall f, In f (snd (trk_step fixed (trk_st fixed p) c)) ->
  file_safe (trk_st fixed (p ++ [c])) (locked_ids (p ++ [c])) f = true.
Proof. exact trace_ok_means. Qed.

(* On runs that mark every block at most once the proposed fix changes nothing. *)
Theorem c12_fix_is_conservative : forall cs, contract false cs ->
  trk_run false cs = trk_run true cs /\ contract true cs.
Proof. exact variants_agree. Qed.

(* The 16-bit bound is needed: 65537 add_block_to_file_state calls for one file wrap its
   total to 1; one marked block then suffices although block 2 was never marked.  (No id is
   registered twice, no block is marked twice.) *)
Theorem c12_refuted_u16_wrap : exists cs f id,
  reregistered cs = false /\ marks_repeated cs = false /\
  In f (trk_requests false cs) /\ In (CRegister id f) cs /\ ~ In (CMark id) cs.
Proof. exact refuted_u16_wrap. Qed.

(* non-vacuity: a legitimate reclamation — two blocks allocated, sealed, the file rolled
   over, both blocks consumed: contract holds, exactly one request, acceptor accepts *)
Example c12_witness_legit :
  let cs := [CRegister 1 7; CRegFile 7; CAddBlock 7; CLock 1;
             CRegister 2 7; CRegFile 7; CAddBlock 7; CLock 2;
             CUnlock 1; CUnlock 2; CFull 7; CMark 1; CMark 2] in
  (contract_ok false cs, trk_requests false cs, trk_requests true cs, c12_trace_ok false cs,
   c12_trace_ok false c12_witness_repeated_mark) = (true, [7], [7], true, false).
Proof. vm_compute. reflexivity. Qed.

Check c12_safety_core : forall cs, contract false cs ->
  forall p c rest, cs = p ++ c :: rest ->
  forall f, In f (snd (trk_step false (trk_st false p) c)) ->
  In (CFull f) (p ++ [c]) /\
  forall id, In (CRegister id f) (p ++ [c]) ->
             In (CMark id) (p ++ [c]) /\ ~ In id (locked_ids (p ++ [c])).
Check c12_safety_idempotent_mark : forall cs, contract true cs ->
  forall p c rest, cs = p ++ c :: rest ->
  forall f, In f (snd (trk_step true (trk_st true p) c)) ->
  In (CFull f) (p ++ [c]) /\
  forall id, In (CRegister id f) (p ++ [c]) ->
             In (CMark id) (p ++ [c]) /\ ~ In id (locked_ids (p ++ [c])).
Check c12_deleted_file_consumed : forall fixed cs (consumed : N -> Prop),
  contract fixed cs -> (forall id, In (CMark id) cs -> consumed id) ->
  forall p c rest, cs = p ++ c :: rest ->
  forall f, In f (snd (trk_step fixed (trk_st fixed p) c)) ->
  forall id, In (CRegister id f) (p ++ [c]) -> consumed id /\ ~ In id (locked_ids (p ++ [c])).
Check c12_requests_are_steps : forall fixed cs f, In f (trk_requests fixed cs) ->
  exists p c rest, cs = p ++ c :: rest /\ In f (snd (trk_step fixed (trk_st fixed p) c)).
Check c12_refuted_repeated_mark : exists cs f id,
  contract true cs /\ marks_repeated cs = true /\
  In f (trk_requests false cs) /\ In (CRegister id f) cs /\ ~ In (CMark id) cs /\
  trk_requests true cs = [].
Check c12_outside_known : forall cs, contract true cs -> marks_repeated cs = false ->
  contract false cs /\ trk_run false cs = trk_run true cs /\ c12_trace_ok false cs = true.
Check c12_contract_accepted : forall fixed cs, contract fixed cs -> c12_trace_ok fixed cs = true.
Check c12_acceptor_means : forall fixed cs, c12_trace_ok fixed cs = true ->
  forall p c rest, cs = p ++ c :: rest ->
  forall f, In f (snd (trk_step fixed (trk_st fixed p) c)) ->
  file_safe (trk_st fixed (p ++ [c])) (locked_ids (p ++ [c])) f = true.
Check c12_fix_is_conservative : forall cs, contract false cs ->
  trk_run false cs = trk_run true cs /\ contract true cs.
Check c12_refuted_u16_wrap : exists cs f id,
  reregistered cs = false /\ marks_repeated cs = false /\
  In f (trk_requests false cs) /\ In (CRegister id f) cs /\ ~ In (CMark id) cs.
Print Assumptions c12_safety_core.
Print Assumptions c12_safety_idempotent_mark.
Print Assumptions c12_deleted_file_consumed.
Print Assumptions c12_requests_are_steps.
Print Assumptions c12_refuted_repeated_mark.
Print Assumptions c12_outside_known.
Print Assumptions c12_contract_accepted.
Print Assumptions c12_acceptor_means.
Print Assumptions c12_fix_is_conservative.
Print Assumptions c12_refuted_u16_wrap.
