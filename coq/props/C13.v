(* C13 — instances with different namespaces are fully isolated (tracker part).
   Pinned statements only; model/Trk.v, proofs in proofs/TrkIso.v.  Several instances of one
   process share the two trackers; their calls are tagged with the instance here, the
   tracker itself does not see the tag ([untag]). *)
From W Require Import model.Base model.Trk proofs.TrkP proofs.TrkIso.

(* REFUTED: both instances number their blocks from 1 and the block tracker is keyed by the
   id alone (first registration wins).  In the witness each instance on its own abides by the
   whole contract; instance 2's lock/unlock/mark calls are charged to file 10 of instance 1,
   which is requested for deletion although instance 1 never marked any block (and alone
   would never have requested anything).  Idempotent marking does not help. *)
Theorem c13_refuted_block_id_collision : exists (cs : list tcall) (f : N),
  tags_in cs 1 2 = true /\
  contract false (proj 1 cs) /\ contract false (proj 2 cs) /\
  reregistered (untag cs) = true /\
  file_registered_only_by cs f 1 = true /\ registers_in cs f 1 = true /\
  never_marks cs 1 = true /\
  In f (trk_requests false (untag cs)) /\ In f (trk_requests true (untag cs)) /\
  trk_requests false (proj 1 cs) = [].
Proof. exact refuted_block_id_collision. Qed.

(* If the block ids and files used by instance [a] (predicates pid, pf) are disjoint from
   those of all other instances, then for EVERY interleaving the joint tracker state
   restricted to a's ids and files is a's state when run alone, and the deletion requests for
   a's files are exactly a's own. *)
Theorem c13_tracker_isolated_if_ids_disjoint : forall fixed a pid pf (cs : list tcall),
  sided a pid pf cs ->
  restrict pid pf (fst (trk_run fixed (untag cs))) = fst (trk_run fixed (proj a cs)) /\
  filter pf (trk_requests fixed (untag cs)) = trk_requests fixed (proj a cs).
Proof. exact tracker_isolated. Qed.

(* non-vacuity: same shape as the witness but instance 2 numbers its blocks 101, 102 — the
   hypothesis holds, instance 1's file is not requested, instance 2's state is untouched *)
Example c13_witness_disjoint :
  let cs := [(1, CRegister 1 10); (1, CRegFile 10); (1, CAddBlock 10); (1, CLock 1);
             (2, CRegister 101 20); (2, CRegFile 20); (2, CAddBlock 20); (2, CLock 101);
             (1, CUnlock 1); (1, CFull 10); (2, CUnlock 101); (2, CFull 20); (2, CMark 101)] in
  (trk_requests false (untag cs), trk_requests false (proj 1 cs), trk_requests false (proj 2 cs),
   t_files (restrict (fun i => i <? 100) (fun f => f =? 10) (fst (trk_run false (untag cs)))))
  = ([20], [], [20], [(10, {| f_locked := 0; f_ckpt := 0; f_total := 1; f_full := true |})]).
Proof. vm_compute. reflexivity. Qed.

Check c13_refuted_block_id_collision : exists (cs : list tcall) (f : N),
  tags_in cs 1 2 = true /\
  contract false (proj 1 cs) /\ contract false (proj 2 cs) /\
  reregistered (untag cs) = true /\
  file_registered_only_by cs f 1 = true /\ registers_in cs f 1 = true /\
  never_marks cs 1 = true /\
  In f (trk_requests false (untag cs)) /\ In f (trk_requests true (untag cs)) /\
  trk_requests false (proj 1 cs) = [].
Check c13_tracker_isolated_if_ids_disjoint : forall fixed a pid pf (cs : list tcall),
  sided a pid pf cs ->
  restrict pid pf (fst (trk_run fixed (untag cs))) = fst (trk_run fixed (proj a cs)) /\
  filter pf (trk_requests fixed (untag cs)) = trk_requests fixed (proj a cs).
Print Assumptions c13_refuted_block_id_collision.
Print Assumptions c13_tracker_isolated_if_ids_disjoint.
