(* C11 — opening damaged WAL state never crashes and never returns corrupt data.
   Pinned statements only; the byte-level model is model/Hdr.v (V0 = the code as it stands,
   V1 = the code with PROPOSED_FIX.diff), lemmas in proofs/FnvP.v and proofs/HdrP.v.
   The property is FALSE of V0 (theorems c11_refuted_...): the header archive is decoded unchecked and the
   payload window is not bounded.  Outside those two mechanisms it holds at every entry position
   (c11_outside_known); V1 has no undefined outcome for any file content (theorems c11_fixed_...).
   c11_refuted_forged_checksum / c11_refuted_topic_reassigned are limits of the property as
   stated, for both variants: the checksum is not a MAC and does not cover the header. *)
From W Require Import gen.Consts model.Base model.Fnv model.Utf8 model.Hdr spec.Damage proofs.FnvP proofs.HdrP.

(* the constants the model uses are the ones in the source (regenerated on every run) *)
Example c11_consts : hdr_size = src_PREFIX_META_SIZE /\ max_meta_len = src_PREFIX_META_SIZE - 2 /\
  fnv_offset = src_FNV_OFFSET /\ fnv_prime = src_FNV_PRIME.
Proof. repeat split; reflexivity. Qed.

(* ---- positive, all inputs *)
Theorem c11_hdr_roundtrip : forall m, wf_meta m -> decode_hdr V0 (encode_hdr m) = HMeta m.
Proof. exact hdr_roundtrip_v0. Qed.

Theorem c11_hdr_roundtrip_fixed : forall m, wf_meta m -> utf8_ok (m_name m) = true ->
  decode_hdr V1 (encode_hdr m) = HMeta m.
Proof. exact hdr_roundtrip_v1. Qed.

Theorem fnv1a_single_byte_detected : forall pre b b' post,
  Forall (fun x => x < 256) (pre ++ b :: post) -> b' < 256 -> b <> b' ->
  checksum64 (pre ++ b :: post) <> checksum64 (pre ++ b' :: post).
Proof. exact checksum64_single_byte. Qed.

(* the recovery loop over [well-formed entries] ++ [an entry one of whose payload bytes changed]
   ++ [anything]: only payloads stored in front of the damage come back, no undefined outcome *)
Theorem c11_payload_only_damage_detected :
  forall v lenient fsz B es name pre b b' post nbs rest fuel pos off limit,
  Forall wf_entry es -> wf_entry (mkW name (pre ++ b :: post) nbs) -> b' < 256 -> b <> b' ->
  let damaged := encode_hdr (meta_for name (pre ++ b :: post) nbs) ++ (pre ++ b' :: post) ++ rest in
  let r := scan_loop fuel v lenient fsz B (enc_ws es ++ damaged) pos off limit in
  (exists k, sc_entries r = firstn k (map we_payload es)) /\ clean_stop (sc_stop r).
Proof.
  intros v lenient fsz B es name pre b b' post nbs rest fuel pos off limit Hes He Hb Hne.
  exact (scan_prefix v lenient fsz B _ (entry_read_damaged v lenient name pre b b' post nbs rest He Hb Hne)
                     es fuel pos off limit Hes).
Qed.

(* zeroing (or cutting) from an entry boundary on *)
Theorem c11_zeroed_suffix_safe :
  forall v lenient fsz B es tail fuel pos off limit,
  Forall wf_entry es -> le_num (firstn 2 tail) = 0 ->
  let r := scan_loop fuel v lenient fsz B (enc_ws es ++ tail) pos off limit in
  (exists k, sc_entries r = firstn k (map we_payload es)) /\ clean_stop (sc_stop r).
Proof.
  intros v lenient fsz B es tail fuel pos off limit Hes Hz.
  exact (scan_prefix v lenient fsz B tail (entry_read_zero_len v lenient tail Hz) es fuel pos off limit Hes).
Qed.

(* and with room and fuel everything in front of the cut is recovered *)
Theorem c11_scan_complete :
  forall v lenient fsz B es tail fuel pos off limit,
  Forall wf_entry es -> le_num (firstn 2 tail) = 0 -> (length es < fuel)%nat ->
  pos + N.of_nat (length (enc_ws es)) + hdr_size <= fsz ->
  off + N.of_nat (length (enc_ws es)) < limit ->
  let r := scan_loop fuel v lenient fsz B (enc_ws es ++ tail) pos off limit in
  sc_entries r = map we_payload es /\ sc_used r = off + N.of_nat (length (enc_ws es)) /\
  sc_limit r = limit /\ sc_stop r = StErr.
Proof.
  intros v lenient fsz B es tail fuel pos off limit Hes Hz.
  exact (scan_complete v lenient fsz B tail (entry_read_zero_len v lenient tail Hz) es fuel pos off limit Hes).
Qed.

(* ---- the property is false of the code as it stands *)
Theorem c11_refuted_short_root : exists hdr, length hdr = 256%nat /\ decode_hdr V0 hdr = HShortRoot.
Proof. exists (firstn 256 w_short_root). split; vm_compute; reflexivity. Qed.

Theorem c11_refuted_misaligned_root : exists hdr, one_byte_diff (firstn 256 w_entry) hdr /\
  decode_hdr V0 hdr = HMisaligned /\ decode_hdr V1 hdr = HInvalid.
Proof.
  exists (firstn 256 w_misaligned). split; [|split; vm_compute; reflexivity].
  exists [], 32, 33, (skipn 1 (firstn 256 w_entry)). repeat split; try discriminate; vm_compute; reflexivity.
Qed.

Theorem c11_refuted_oob_name : exists hdr1 hdr2, length hdr1 = 256%nat /\ length hdr2 = 256%nat /\
  decode_hdr V0 hdr1 = HOob /\ decode_hdr V0 hdr2 = HOob /\
  one_byte_diff (firstn 256 w_entry) hdr1.
Proof.
  exists (firstn 256 w_oob_inline), (firstn 256 w_oob_huge).
  repeat split; try (vm_compute; reflexivity).
  exists (firstn 9 w_entry), 2, 100, (skipn 10 (firstn 256 w_entry)).
  repeat split; try discriminate; vm_compute; reflexivity.
Qed.

Theorem c11_refuted_inline_len : exists hdr m, one_byte_diff (firstn 256 w_entry) hdr /\
  decode_hdr V0 hdr = HMeta m /\ length (m_name m) = 20%nat /\ decode_hdr V1 hdr = HInvalid.
Proof.
  exists (firstn 256 w_inline_long). eexists. split; [|split; [vm_compute; reflexivity|split; vm_compute; reflexivity]].
  exists (firstn 9 w_entry), 2, 20, (skipn 10 (firstn 256 w_entry)).
  repeat split; try discriminate; vm_compute; reflexivity.
Qed.

Theorem c11_refuted_read_size_past_file : exists bs m, entry_read V0 false bs = RPastEnd m /\
  entry_read V1 false bs = RErr.
Proof. exists w_big_size. eexists. split; vm_compute; reflexivity. Qed.

Theorem c11_full_refuted : ~ C11_full V0.
Proof. exact c11_full_refuted_v0. Qed.

(* limits of the property as stated (both variants) *)
Theorem c11_refuted_forged_checksum : forall v lenient name p' nbs rest, wf_entry (mkW name p' nbs) ->
  entry_read v lenient (enc_entry name p' nbs ++ rest) = ROk (meta_for name p' nbs) p'.
Proof. exact entry_read_forged. Qed.

Theorem c11_refuted_topic_reassigned : forall v, ~ C11_owner_full v.
Proof. exact c11_owner_refuted. Qed.

(* ---- strongest true statement for the code as it stands *)
Theorem c11_outside_known : forall lenient bs, ~ KnownClass bs ->
  match entry_read V0 lenient bs with
  | RErr => True
  | ROk m p => consistent_read bs m p
  | RUb _ | RPastEnd _ => False
  end.
Proof. exact entry_outside_known. Qed.

(* ---- the repaired code *)
Theorem c11_fixed_entry_total : forall lenient bs,
  match entry_read V1 lenient bs with
  | RErr => True
  | ROk m p => consistent_read bs m p
  | RUb _ | RPastEnd _ => False
  end.
Proof. exact entry_fixed_total. Qed.

Theorem c11_fixed_full : C11_full V1.
Proof. exact scan_file_fixed_clean. Qed.

Theorem c11_checked_refines_unchecked : forall hdr m, decode_hdr V1 hdr = HMeta m -> decode_hdr V0 hdr = HMeta m.
Proof. exact checked_refines_unchecked. Qed.

(* ---- the acceptor the check runs over the implementation's observations *)
Theorem c11_acceptor_means : forall app o,
  c11_ok app o = true <->
  o_clean o = true /\
  forall topic ids x, In (topic, ids) (o_delivered o) -> In x ids ->
    exists pid, x = Some pid /\ In pid (appended_of app topic).
Proof. exact c11_ok_spec. Qed.

(* non-vacuity: a two-block file image written by the encoder is recovered in full by both
   variants, and the stream of topic "ab" is its two payloads *)
Example c11_witness :
  let e1 := enc_entry w_name w_payload 512 in
  let e2 := enc_entry w_name [9; 9] 512 in
  let file := (e1 ++ zeros (512 - length e1)) ++ (e2 ++ zeros (512 - length e2)) in
  map (fun v => topic_stream w_name (fs_blocks (scan_file v false 1024 512 file))) [V0; V1]
  = [[w_payload; [9; 9]]; [w_payload; [9; 9]]].
Proof. vm_compute. reflexivity. Qed.

Check c11_hdr_roundtrip : forall m, wf_meta m -> decode_hdr V0 (encode_hdr m) = HMeta m.
Check c11_hdr_roundtrip_fixed : forall m, wf_meta m -> utf8_ok (m_name m) = true ->
  decode_hdr V1 (encode_hdr m) = HMeta m.
Check fnv1a_single_byte_detected : forall pre b b' post,
  Forall (fun x => x < 256) (pre ++ b :: post) -> b' < 256 -> b <> b' ->
  checksum64 (pre ++ b :: post) <> checksum64 (pre ++ b' :: post).
Check c11_payload_only_damage_detected :
  forall v lenient fsz B es name pre b b' post nbs rest fuel pos off limit,
  Forall wf_entry es -> wf_entry (mkW name (pre ++ b :: post) nbs) -> b' < 256 -> b <> b' ->
  let damaged := encode_hdr (meta_for name (pre ++ b :: post) nbs) ++ (pre ++ b' :: post) ++ rest in
  let r := scan_loop fuel v lenient fsz B (enc_ws es ++ damaged) pos off limit in
  (exists k, sc_entries r = firstn k (map we_payload es)) /\ clean_stop (sc_stop r).
Check c11_zeroed_suffix_safe :
  forall v lenient fsz B es tail fuel pos off limit,
  Forall wf_entry es -> le_num (firstn 2 tail) = 0 ->
  let r := scan_loop fuel v lenient fsz B (enc_ws es ++ tail) pos off limit in
  (exists k, sc_entries r = firstn k (map we_payload es)) /\ clean_stop (sc_stop r).
Check c11_scan_complete :
  forall v lenient fsz B es tail fuel pos off limit,
  Forall wf_entry es -> le_num (firstn 2 tail) = 0 -> (length es < fuel)%nat ->
  pos + N.of_nat (length (enc_ws es)) + hdr_size <= fsz ->
  off + N.of_nat (length (enc_ws es)) < limit ->
  let r := scan_loop fuel v lenient fsz B (enc_ws es ++ tail) pos off limit in
  sc_entries r = map we_payload es /\ sc_used r = off + N.of_nat (length (enc_ws es)) /\
  sc_limit r = limit /\ sc_stop r = StErr.
Check c11_refuted_short_root : exists hdr, length hdr = 256%nat /\ decode_hdr V0 hdr = HShortRoot.
Check c11_refuted_misaligned_root : exists hdr, one_byte_diff (firstn 256 w_entry) hdr /\
  decode_hdr V0 hdr = HMisaligned /\ decode_hdr V1 hdr = HInvalid.
Check c11_refuted_oob_name : exists hdr1 hdr2, length hdr1 = 256%nat /\ length hdr2 = 256%nat /\
  decode_hdr V0 hdr1 = HOob /\ decode_hdr V0 hdr2 = HOob /\
  one_byte_diff (firstn 256 w_entry) hdr1.
Check c11_refuted_inline_len : exists hdr m, one_byte_diff (firstn 256 w_entry) hdr /\
  decode_hdr V0 hdr = HMeta m /\ length (m_name m) = 20%nat /\ decode_hdr V1 hdr = HInvalid.
Check c11_refuted_read_size_past_file : exists bs m, entry_read V0 false bs = RPastEnd m /\
  entry_read V1 false bs = RErr.
Check c11_full_refuted : ~ C11_full V0.
Check c11_refuted_forged_checksum : forall v lenient name p' nbs rest, wf_entry (mkW name p' nbs) ->
  entry_read v lenient (enc_entry name p' nbs ++ rest) = ROk (meta_for name p' nbs) p'.
Check c11_refuted_topic_reassigned : forall v, ~ C11_owner_full v.
Check c11_outside_known : forall lenient bs, ~ KnownClass bs ->
  match entry_read V0 lenient bs with
  | RErr => True
  | ROk m p => consistent_read bs m p
  | RUb _ | RPastEnd _ => False
  end.
Check c11_fixed_entry_total : forall lenient bs,
  match entry_read V1 lenient bs with
  | RErr => True
  | ROk m p => consistent_read bs m p
  | RUb _ | RPastEnd _ => False
  end.
Check c11_fixed_full : C11_full V1.
Check c11_checked_refines_unchecked : forall hdr m, decode_hdr V1 hdr = HMeta m -> decode_hdr V0 hdr = HMeta m.
Check c11_acceptor_means : forall app o,
  c11_ok app o = true <->
  o_clean o = true /\
  forall topic ids x, In (topic, ids) (o_delivered o) -> In x ids ->
    exists pid, x = Some pid /\ In pid (appended_of app topic).
Print Assumptions c11_hdr_roundtrip.
Print Assumptions c11_hdr_roundtrip_fixed.
Print Assumptions fnv1a_single_byte_detected.
Print Assumptions c11_payload_only_damage_detected.
Print Assumptions c11_zeroed_suffix_safe.
Print Assumptions c11_scan_complete.
Print Assumptions c11_refuted_short_root.
Print Assumptions c11_refuted_misaligned_root.
Print Assumptions c11_refuted_oob_name.
Print Assumptions c11_refuted_inline_len.
Print Assumptions c11_refuted_read_size_past_file.
Print Assumptions c11_full_refuted.
Print Assumptions c11_refuted_forged_checksum.
Print Assumptions c11_refuted_topic_reassigned.
Print Assumptions c11_outside_known.
Print Assumptions c11_fixed_entry_total.
Print Assumptions c11_fixed_full.
Print Assumptions c11_checked_refines_unchecked.
Print Assumptions c11_acceptor_means.
Print Assumptions c11_witness.
