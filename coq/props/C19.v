(* C19 — all nodes apply the same metadata commands in the same order: THE REPOSITORY-OWNED SLICE.
   This file holds only pinned statements; proofs live in proofs/RaftStoreP.v.

   Consensus itself (openraft) is neither node_run nor modelled.  What is stated:
   (a) the state-machine adapter MemStateMachine::apply hands the application exactly the Normal
       payloads of the entries it is given, in the order given, each once (up to the first lentry the
       application refuses);
   (b) if two nodes are fed prefixes of one committed log — which openraft guarantees only on top
       of a log store that keeps what it acknowledged (store_contract, an explicit premise) — their
       applied command sequences are prefix-comparable;
   (c) the log store of this repository does not meet that contract (C21's witness). *)
From W Require Import model.Base model.RaftStore spec.RaftSpec proofs.RaftStoreP.

Theorem c19_adapter_order :
  forall (St : Type) (app : St -> list N -> St * option (list N)) (es : list (lentry * bool)) (st : smdata St),
  snd (sm_apply app st es) = true ->
  sm_cmds (fst (sm_apply app st es)) = sm_cmds st ++ normals (map fst es)
  /\ sm_last (fst (sm_apply app st es)) = last_ids es (sm_last st).
Proof. exact @sm_apply_ok. Qed.

Theorem c19_adapter_prefix :
  forall (St : Type) (app : St -> list N -> St * option (list N)) (es : list (lentry * bool)) (st : smdata St),
  exists k, (k <= length es)%nat
    /\ sm_cmds (fst (sm_apply app st es)) = sm_cmds st ++ normals (map fst (firstn k es)).
Proof. exact @sm_apply_prefix. Qed.

(* the adapter against the observation-level specification the check runs over implementation output *)
Theorem c19_adapter_meets_spec :
  forall (St : Type) (app : St -> list N -> St * option (list N)) (app_ok : list N -> option (list N)),
  (forall s d, snd (app s d) = app_ok d) ->
  forall es (st : smdata St),
    sm_cmds (fst (sm_apply app st es)) = sm_cmds st ++ fst (fst (fst (apply_spec app_ok es)))
    /\ sm_resp (fst (sm_apply app st es)) = sm_resp st ++ snd (fst (fst (apply_spec app_ok es)))
    /\ sm_last (fst (sm_apply app st es))
       = match snd (fst (apply_spec app_ok es)) with Some l => Some l | None => sm_last st end
    /\ snd (sm_apply app st es) = snd (apply_spec app_ok es).
Proof. exact @sm_apply_meets_spec. Qed.

Theorem c19_prefix_of_common_log :
  forall (St : Type) (app : St -> list N -> St * option (list N)) (s1 s2 : St) (committed es1 es2 : list lentry),
  Prefix es1 committed -> Prefix es2 committed ->
  Comparable (sm_cmds (fst (sm_apply app (sm_init s1) (fed es1))))
             (sm_cmds (fst (sm_apply app (sm_init s2) (fed es2)))).
Proof. exact @adapter_prefix_of_common_log. Qed.

Theorem c19_prefix_given_contract :
  forall (St : Type) (app : St -> list N -> St * option (list N)) (s1 s2 : St) (committed es1 es2 : list lentry),
  store_contract ->
  (store_contract -> Prefix es1 committed /\ Prefix es2 committed) ->
  Comparable (sm_cmds (fst (sm_apply app (sm_init s1) (fed es1))))
             (sm_cmds (fst (sm_apply app (sm_init s2) (fed es2)))).
Proof. exact @adapter_prefix_given_contract. Qed.

Theorem c19_store_contract_refuted : ~ store_contract.
Proof. exact raft_contract_refuted. Qed.

(* non-vacuity: blank, normal, membership, a refused command; responders on some entries *)
Example c19_witness :
  let id := fun i => mkLogId 1 1 i in
  let es := [(mkEntry (id 2) (PNormal [97; 98]), true); (mkEntry (id 3) (PMember 2), false);
             (mkEntry (id 4) PBlank, true); (mkEntry (id 5) (PNormal [33; 97]), false);
             (mkEntry (id 6) (PNormal [122]), false)] in
  let r := sm_apply rec_app (sm_init tt) es in
  snd r = false /\ sm_cmds (fst r) = [[97; 98]] /\ sm_resp (fst r) = [(2, [114; 58; 97; 98]); (4, [])]
  /\ sm_last (fst r) = Some (id 5) /\ sm_memb (fst r) = Some (id 3, 2).
Proof. vm_compute. repeat split; reflexivity. Qed.

Check c19_adapter_order :
  forall (St : Type) (app : St -> list N -> St * option (list N)) (es : list (lentry * bool)) (st : smdata St),
  snd (sm_apply app st es) = true ->
  sm_cmds (fst (sm_apply app st es)) = sm_cmds st ++ normals (map fst es)
  /\ sm_last (fst (sm_apply app st es)) = last_ids es (sm_last st).
Check c19_adapter_prefix :
  forall (St : Type) (app : St -> list N -> St * option (list N)) (es : list (lentry * bool)) (st : smdata St),
  exists k, (k <= length es)%nat
    /\ sm_cmds (fst (sm_apply app st es)) = sm_cmds st ++ normals (map fst (firstn k es)).
Check c19_adapter_meets_spec :
  forall (St : Type) (app : St -> list N -> St * option (list N)) (app_ok : list N -> option (list N)),
  (forall s d, snd (app s d) = app_ok d) ->
  forall es (st : smdata St),
    sm_cmds (fst (sm_apply app st es)) = sm_cmds st ++ fst (fst (fst (apply_spec app_ok es)))
    /\ sm_resp (fst (sm_apply app st es)) = sm_resp st ++ snd (fst (fst (apply_spec app_ok es)))
    /\ sm_last (fst (sm_apply app st es))
       = match snd (fst (apply_spec app_ok es)) with Some l => Some l | None => sm_last st end
    /\ snd (sm_apply app st es) = snd (apply_spec app_ok es).
Check c19_prefix_of_common_log :
  forall (St : Type) (app : St -> list N -> St * option (list N)) (s1 s2 : St) (committed es1 es2 : list lentry),
  Prefix es1 committed -> Prefix es2 committed ->
  Comparable (sm_cmds (fst (sm_apply app (sm_init s1) (fed es1))))
             (sm_cmds (fst (sm_apply app (sm_init s2) (fed es2)))).
Check c19_prefix_given_contract :
  forall (St : Type) (app : St -> list N -> St * option (list N)) (s1 s2 : St) (committed es1 es2 : list lentry),
  store_contract ->
  (store_contract -> Prefix es1 committed /\ Prefix es2 committed) ->
  Comparable (sm_cmds (fst (sm_apply app (sm_init s1) (fed es1))))
             (sm_cmds (fst (sm_apply app (sm_init s2) (fed es2)))).
Check c19_store_contract_refuted : ~ store_contract.
Print Assumptions c19_adapter_order.
Print Assumptions c19_adapter_prefix.
Print Assumptions c19_adapter_meets_spec.
Print Assumptions c19_prefix_of_common_log.
Print Assumptions c19_prefix_given_contract.
Print Assumptions c19_store_contract_refuted.
