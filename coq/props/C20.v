(* C20 — metadata replicas converge, including via snapshot transfer.
   Models: model/Bincode.v (bincode 1.3 default wire format for the types of metadata.rs),
   model/Meta.v (snapshot / restore / apply), model/Adapter.v (octopii's Raft state-machine
   adapter, storage.rs — tied to the source by a fingerprint only).
   Proofs: proofs/BincodeP.v, proofs/SnapP.v, proofs/MapP.v.  Only pinned statements here.

   Part (a), the state machine's own snapshot/restore: holds at full strength.
   Part (b), through the Raft adapter: refuted — the adapter serialises its private,
   never-written map (8 zero bytes) instead of the application state. *)
From W Require Import model.Base model.Utf8 model.Map model.Bincode model.Meta model.Adapter
  proofs.MapP proofs.BincodeP proofs.SnapP.

(* ---- (a) codec: decoding what was encoded gives the state back, whatever order the
   entries of the (hash) maps were written in, at both nesting levels ---- *)
Theorem c20_codec_roundtrip : forall s l rest,
  cluster_sorted s -> cluster_wf l -> cluster_listing l s ->
  dec_cluster (enc_cluster l ++ rest) = Some (s, rest).
Proof. exact codec_roundtrip. Qed.

(* the decoder is total about listings: any well-formed listing decodes to its canonical map *)
Theorem c20_decode_any_listing : forall l rest,
  cluster_wf l -> dec_cluster (enc_cluster l ++ rest) = Some (canon_cluster l, rest).
Proof. exact dec_cluster_enc. Qed.

Theorem c20_cmd_roundtrip : forall c rest, cmd_wf c -> dec_cmd (enc_cmd c ++ rest) = Some (c, rest).
Proof. exact dec_cmd_enc. Qed.

(* a snapshot restored into a fresh state machine reproduces the original state exactly *)
Theorem c20_restore_reproduces : forall s l,
  m_poisoned s = false -> cluster_sorted (m_cl s) -> cluster_wf l -> cluster_listing l (m_cl s) ->
  restore m_init (enc_cluster l) = (s, true).
Proof. exact snapshot_restore_any_order. Qed.

(* ... and the restored replica then behaves exactly like the sender *)
Theorem c20_then_equal : forall oc s l inputs,
  m_poisoned s = false -> cluster_sorted (m_cl s) -> cluster_wf l -> cluster_listing l (m_cl s) ->
  mrun oc (fst (restore m_init (enc_cluster l))) inputs = mrun oc s inputs /\
  mexec oc (fst (restore m_init (enc_cluster l))) inputs = mexec oc s inputs.
Proof. exact then_equal. Qed.

(* every state reachable by applying byte strings is in the domain of the two theorems above *)
Theorem c20_reachable_in_domain : forall oc inputs,
  Forall input_ok inputs -> 2 * N.of_nat (length inputs) + 2 < two64 ->
  cluster_wf (m_cl (mexec oc m_init inputs)) /\ cluster_sorted (m_cl (mexec oc m_init inputs)).
Proof. exact reach_wf. Qed.

(* assembled: all command sequences, snapshot at any point, any iteration order, any
   continuation *)
Theorem c20_snapshot_converges : forall oc inputs l more,
  Forall input_ok inputs -> 2 * N.of_nat (length inputs) + 2 < two64 ->
  let s := mexec oc m_init inputs in
  m_poisoned s = false -> cluster_listing l (m_cl s) ->
  restore m_init (enc_cluster l) = (s, true) /\
  mrun oc (fst (restore m_init (enc_cluster l))) more = mrun oc s more.
Proof. exact snapshot_converges. Qed.

(* whatever bytes restore accepts, the resulting state is in canonical form *)
Theorem c20_decoded_is_canonical : forall bs c r, dec_cluster bs = Some (c, r) -> cluster_sorted c.
Proof. exact dec_cluster_sorted. Qed.

(* ---- (b) the Raft adapter ---- *)
(* the adapter's private map is empty in every reachable adapter ... *)
Theorem c20_adapter_data_empty : forall a, areach a -> a_data a = [].
Proof. exact areach_data. Qed.

(* ... so every snapshot it builds is the same 8 bytes ... *)
Theorem c20_adapter_snapshot_const : forall b, areach b -> snd (snd (build_snapshot b)) = [0; 0; 0; 0; 0; 0; 0; 0].
Proof. exact adapter_snapshot_const. Qed.

(* ... and installing one fails, leaves the application state as it was and overwrites the
   receiver's last-applied bookkeeping with the sender's *)
Theorem c20_adapter_never_transfers : forall a b, areach a -> areach b ->
  let r := install_snapshot a (snd (build_snapshot b)) in
  snd r = false /\ a_visible (fst r) = a_visible a /\ a_last (fst r) = a_last b.
Proof. exact adapter_never_transfers. Qed.

Theorem c20_refuted_adapter :
  exists entries,
    let sender := fst (a_apply false a_init entries) in
    let snap := snd (build_snapshot sender) in
    let r := install_snapshot a_init snap in
    snd snap = [0; 0; 0; 0; 0; 0; 0; 0] /\
    snd r = false /\
    a_visible (fst r) = empty_cluster /\
    a_visible sender <> a_visible (fst r) /\
    a_last (fst r) = a_last sender /\ a_last sender = Some 2.
Proof. exact refuted_adapter. Qed.

Theorem c20_adapter_full_refuted : ~ C20_adapter_full.
Proof. exact adapter_full_refuted. Qed.

(* strongest true statement: the receiver equals the sender afterwards exactly when it
   already did before (KnownClass = the two application states differ at install time) *)
Theorem c20_outside_known : forall a b, areach a -> areach b ->
  (a_visible (fst (install_snapshot a (snd (build_snapshot b)))) = a_visible b <-> a_visible a = a_visible b).
Proof. exact adapter_outside_known. Qed.

(* non-vacuity: a two-topic, two-node state written with its maps in reverse order decodes
   to the sorted state; the model's own snapshot restores *)
Example c20_witness_roundtrip :
  let t1 := mkTopic 3 3 18446744073709551615 [(2, 18446744073709551610); (1, 5)] [(3, 3); (1, 1); (2, 2)] in
  let t2 := mkTopic 1 7 0 [] [(1, 7)] in
  let l := mkCluster [([233; 116], t2); ([97], t1)] [(9, [120]); (2, [128512])] in
  dec_cluster (enc_cluster l) =
    Some (mkCluster [([97], mkTopic 3 3 18446744073709551615 [(1, 5); (2, 18446744073709551610)] [(1, 1); (2, 2); (3, 3)]);
                     ([233; 116], t2)]
                    [(2, [128512]); (9, [120])], []).
Proof. vm_compute. reflexivity. Qed.

Check c20_codec_roundtrip : forall s l rest,
  cluster_sorted s -> cluster_wf l -> cluster_listing l s ->
  dec_cluster (enc_cluster l ++ rest) = Some (s, rest).
Check c20_then_equal : forall oc s l inputs,
  m_poisoned s = false -> cluster_sorted (m_cl s) -> cluster_wf l -> cluster_listing l (m_cl s) ->
  mrun oc (fst (restore m_init (enc_cluster l))) inputs = mrun oc s inputs /\
  mexec oc (fst (restore m_init (enc_cluster l))) inputs = mexec oc s inputs.
Check c20_snapshot_converges : forall oc inputs l more,
  Forall input_ok inputs -> 2 * N.of_nat (length inputs) + 2 < two64 ->
  let s := mexec oc m_init inputs in
  m_poisoned s = false -> cluster_listing l (m_cl s) ->
  restore m_init (enc_cluster l) = (s, true) /\
  mrun oc (fst (restore m_init (enc_cluster l))) more = mrun oc s more.
Check c20_adapter_never_transfers : forall a b, areach a -> areach b ->
  let r := install_snapshot a (snd (build_snapshot b)) in
  snd r = false /\ a_visible (fst r) = a_visible a /\ a_last (fst r) = a_last b.
Check c20_outside_known : forall a b, areach a -> areach b ->
  (a_visible (fst (install_snapshot a (snd (build_snapshot b)))) = a_visible b <-> a_visible a = a_visible b).
Print Assumptions c20_codec_roundtrip.
Print Assumptions c20_decode_any_listing.
Print Assumptions c20_cmd_roundtrip.
Print Assumptions c20_restore_reproduces.
Print Assumptions c20_then_equal.
Print Assumptions c20_reachable_in_domain.
Print Assumptions c20_snapshot_converges.
Print Assumptions c20_decoded_is_canonical.
Print Assumptions c20_adapter_data_empty.
Print Assumptions c20_adapter_snapshot_const.
Print Assumptions c20_adapter_never_transfers.
Print Assumptions c20_refuted_adapter.
Print Assumptions c20_adapter_full_refuted.
Print Assumptions c20_outside_known.
