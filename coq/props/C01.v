(* C01 — consuming reads deliver every appended entry once, in order, byte-identical.
   Pinned statements only; proofs in proofs/EngineMain.v (and the files it imports). *)
From W Require Import gen.Consts model.Base model.Engine model.EngineCfg spec.Queue
  proofs.EngineWF proofs.EngineW proofs.EngineMain.
From Coq Require Import Lia.

(* For every configuration satisfying the side conditions, both consistency modes, both
   backends and EVERY finite sequence of single appends, batch appends, read_next and
   batch_read_for_topic calls (consuming or peeking, any byte budget, stateful or
   offset-addressed) and count queries on any number of topics: the results the model
   produces are accepted by the queue specification — each consuming read returns exactly the
   next not-yet-returned appended entries of its topic, in order, and returns nothing only
   when nothing is left.  EVERY append and batch is admissible, including the ones the engine
   rejects (entry larger than MAX_ALLOC, topic name that does not fit the entry header, more
   than 2000 entries, over the byte limit, empty batch): a rejected operation changes nothing.
   (Before fix 47d4d63 an oversize append made the consumer receive earlier entries twice.)
   Restarts are C06's subject. *)
Theorem c01_outside_known : forall (c : Cfg) (m : mode) (be : backend) (ops : list op),
  cfg_ok c -> Forall (op_ok c) ops ->
  N.of_nat (length (offered_all ops)) <= u64_max -> sum_len (offered_all ops) <= u64_max ->
  c01_ok (trace (env_of c m be) init ops) = true.
Proof. intros c m be ops Hc Ho H1 H2. exact (proj1 (engine_from_init c m be ops Hc Ho H1 H2)). Qed.

(* the two geometries the implementation is built with satisfy the side conditions; the
   constants come from the file regenerated from /repo on every run *)
Lemma real_cfg_ok : cfg_ok real_cfg.
Proof. unfold cfg_ok, real_cfg; cbn. unfold src_PREFIX_META_SIZE, src_DEFAULT_BLOCK_SIZE, src_MAX_ALLOC, src_MAX_BATCH_ENTRIES, u64_max. lia. Qed.
Lemma small_cfg_ok : cfg_ok small_cfg.
Proof. unfold cfg_ok, small_cfg; cbn. unfold src_small_PREFIX_META_SIZE, src_small_DEFAULT_BLOCK_SIZE, src_small_MAX_ALLOC, src_small_MAX_BATCH_ENTRIES, u64_max. lia. Qed.

Theorem c01_real : forall m be ops, Forall (op_ok real_cfg) ops ->
  N.of_nat (length (offered_all ops)) <= u64_max -> sum_len (offered_all ops) <= u64_max ->
  c01_ok (trace (env_of real_cfg m be) init ops) = true.
Proof. intros. apply c01_outside_known; auto. exact real_cfg_ok. Qed.

(* a rejected append leaves no trace: the regression witness of fix 47d4d63 *)
Definition t1 : topic := {| t_id := 1; t_nlen := 2 |}.
Definition e (p l : N) : entry := {| e_pid := p; e_len := l |}.
Example c01_oversize_append_leaves_no_trace :
  map snd (trace (env_of small_cfg Strict Fd) init
            [OAppend t1 (e 0 100); OAppend t1 (e 1 20000); ORead t1 true; ORead t1 true])
  = [ROk; RErr EInvalidInput; REntry (out_of (e 0 100)); RNone].
Proof. vm_compute. reflexivity. Qed.

(* non-vacuity: an admissible history with block rotation, an empty payload, both read APIs *)
Example c01_witness :
  let ops := [OAppend t1 (e 0 3000); OAppend t1 (e 1 0); OBatch t1 [e 2 2000; e 3 127; e 4 3500];
              ORead t1 true; OBatchRead t1 0 true None; OBatchRead t1 100 false None;
              OBatchRead t1 18446744073709551615 true None; ORead t1 true] in
  Forall (op_ok small_cfg) ops /\
  map snd (trace (env_of small_cfg (ALO 3) Mmap) init ops) =
    [ROk; ROk; ROk; REntry (out_of (e 0 3000)); REntries [out_of (e 1 0)]; REntries [out_of (e 2 2000)];
     REntries [out_of (e 2 2000); out_of (e 3 127); out_of (e 4 3500)]; RNone].
Proof.
  split.
  - repeat constructor.
  - vm_compute. reflexivity.
Qed.

Check c01_outside_known : forall (c : Cfg) (m : mode) (be : backend) (ops : list op),
  cfg_ok c -> Forall (op_ok c) ops ->
  N.of_nat (length (offered_all ops)) <= u64_max -> sum_len (offered_all ops) <= u64_max ->
  c01_ok (trace (env_of c m be) init ops) = true.
Print Assumptions c01_outside_known.
Print Assumptions c01_real.
