(* C05 — concurrent producers and consumers: exactly-once, ordered delivery.
   Pinned statements only; model in model/Conc.v, acceptor in spec/ConcSpec.v, proofs in
   proofs/Conc*.v.  [run_schedule v fx progs sched]: the thread programs [progs] interleaved at
   segment granularity as the thread-id list [sched] says; [fx = false] is the code BEFORE fix 4c905dc (kept:
   it documents the defects), [fx = true] the code as it is now. *)
From W Require Import gen.Consts model.Base model.Engine model.EngineCfg model.Conc spec.ConcSpec
  proofs.EngineWF proofs.ConcInv proofs.ConcStep proofs.ConcBridge proofs.ConcMain
  proofs.ConcInvF proofs.ConcStepF proofs.ConcBridgeF proofs.ConcMainF proofs.ConcExplore proofs.ConcFamilies.
From Coq Require Import Lia.

(* the property at full strength: every schedule of every set of thread programs (distinct
   payload ids), run to the end and followed by a drain, is accepted *)
Definition run_accepted (v : env) (fx : bool) (progs : list (list call)) (sched : list nat) : Prop :=
  let ro := run_schedule v fx progs sched in
  ro_blocked ro = None -> threads_done (ro_cs ro) = true ->
  c05_run_ok progs (cresults (ro_cs ro)) false = true.
Definition C05_full (fx : bool) : Prop :=
  forall (c : Cfg) (m : mode) (be : backend) progs sched,
    NoDup (offered_pids progs) ->
    run_accepted {| v_cfg := c; v_mode := m; v_backend := be |} fx progs sched.

(* ------------------------------------------------------------------ witnesses *)
Definition t1 : topic := {| t_id := 1; t_nlen := 2 |}.
Definition e (p l : N) : entry := {| e_pid := p; e_len := l |}.
Definition v0 : env := {| v_cfg := small_cfg; v_mode := Strict; v_backend := Fd |}.
Definition sch (l : list N) : list nat := map N.to_nat l.
Definition rep (n x : N) : list N := repeat x (N.to_nat n).
(* (every call returned, accepted with the final drain counted, mechanism flags) *)
Definition verdict (fx : bool) (progs : list (list call)) (sched : list nat) : bool * bool * kflags :=
  let ro := run_schedule v0 fx progs sched in
  (threads_done (ro_cs ro) && match ro_blocked ro with None => true | Some _ => false end,
   c05_run_ok progs (cresults (ro_cs ro)) true, ro_k ro).
Definition flags (a b c : bool) : kflags := {| k_two_readers := a; k_seal_in_read := b; k_seal_in_bread := c |}.
Definition o (p l : N) : result := REntry {| o_pid := p; o_skip := 0; o_len := l |}.
Definition oo (p l : N) : out := {| o_pid := p; o_skip := 0; o_len := l |}.

(* The last thread of every witness is the drain: it runs after all others have finished. *)

(* K1: two consuming read_next calls both take the tail snapshot (offset 0) before either
   commits: both return entry 0. *)
Definition k1_progs := [[CAppend t1 (e 0 100); CAppend t1 (e 1 100)]; [CRead t1 true]; [CRead t1 true];
                        [CRead t1 true; CRead t1 true]].
Definition k1_sched := sch (rep 6 0 ++ [1;1;2;2] ++ rep 5 1 ++ rep 5 2 ++ rep 20 3).
Theorem c05_refuted_two_readers :
  NoDup (offered_pids k1_progs) /\
  verdict false k1_progs k1_sched = (true, false, flags true false false) /\
  cresults (ro_cs (run_schedule v0 false k1_progs k1_sched)) =
    [[ROk; ROk]; [o 0 100]; [o 0 100]; [o 1 100; RNone]].
Proof. split; [repeat constructor; cbn; intuition discriminate|]. vm_compute. auto. Qed.

(* K2b: ONE consumer, ONE producer.  The reader holds a writer snapshot of block 1 (offset 0);
   the producer's 4th append seals block 1 (the chain push copies the still uncommitted tail
   offset 0 into the sealed cursor); the reader commits tail offset 1256.  The next read_next
   takes the sealed path at offset 0: entry 0 again. *)
Definition a4 := [CAppend t1 (e 0 1000); CAppend t1 (e 1 1000); CAppend t1 (e 2 1000); CAppend t1 (e 3 1000)].
Definition k2_progs := [a4; [CRead t1 true; CRead t1 true; CRead t1 true]; [CRead t1 true; CRead t1 true; CRead t1 true]].
Definition k2b_sched := sch (rep 9 0 ++ [1;1;1] ++ rep 5 0 ++ rep 30 1 ++ rep 30 2).
Theorem c05_refuted_seal_before_commit :
  verdict false k2_progs k2b_sched = (true, false, flags false true false) /\
  cresults (ro_cs (run_schedule v0 false k2_progs k2b_sched)) =
    [[ROk; ROk; ROk; ROk]; [o 0 1000; o 0 1000; o 1 1000]; [o 2 1000; o 3 1000; RNone]].
Proof. vm_compute. auto. Qed.

(* K2a: ONE consumer, ONE producer.  The block is sealed between the reader's tail snapshot
   and its writer snapshot: the snapshot is the NEW block, read from offset 0 — entry 3 is
   delivered before entries 0..2. *)
Definition k2a_sched := sch (rep 9 0 ++ [1;1] ++ rep 5 0 ++ rep 30 1 ++ rep 30 2).
Theorem c05_refuted_seal_before_writer_snapshot :
  verdict false k2_progs k2a_sched = (true, false, flags false true false) /\
  cresults (ro_cs (run_schedule v0 false k2_progs k2a_sched)) =
    [[ROk; ROk; ROk; ROk]; [o 3 1000; o 0 1000; o 1 1000]; [o 2 1000; RNone; RNone]].
Proof. vm_compute. auto. Qed.

(* K3: a consuming batch read takes its writer snapshot (block 1, 3 entries) BEFORE the column
   lock; the block is sealed meanwhile; under the lock the same range is planned as a sealed
   range and as the tail: every entry twice in ONE result. *)
Definition k3_progs := [a4; [CBatchRead t1 u64_max true; CBatchRead t1 u64_max true]; [CRead t1 true]].
Definition k3_sched := sch (rep 9 0 ++ [1] ++ rep 5 0 ++ rep 30 1 ++ rep 30 2).
Theorem c05_refuted_stale_writer_snapshot :
  verdict false k3_progs k3_sched = (true, false, flags false false true) /\
  cresults (ro_cs (run_schedule v0 false k3_progs k3_sched)) =
    [[ROk; ROk; ROk; ROk];
     [REntries [oo 0 1000; oo 1 1000; oo 2 1000; oo 0 1000; oo 1 1000; oo 2 1000]; REntries [oo 3 1000]]; [RNone]].
Proof. vm_compute. auto. Qed.

(* K3 with a multi-block batch: the sealed copy's [used] covers an entry of the batch that is
   not written yet; the stale tail range moves the cursor past the sealed block: entry 2 is
   never delivered (and 0, 1 twice). *)
Definition k3b_progs := [[CAppend t1 (e 0 1000); CAppend t1 (e 1 1000); CBatch t1 [e 2 1000; e 3 1000; e 4 1000]];
                         [CBatchRead t1 u64_max true; CBatchRead t1 u64_max true]; [CRead t1 true; CRead t1 true]].
Definition k3b_sched := sch (rep 6 0 ++ [1] ++ [0;0;0] ++ [1;1;1] ++ rep 30 0 ++ rep 30 1 ++ rep 30 2).
Theorem c05_refuted_stale_snapshot_loses_entry :
  NoDup (offered_pids k3b_progs) /\
  verdict false k3b_progs k3b_sched = (true, false, flags false false true) /\
  cresults (ro_cs (run_schedule v0 false k3b_progs k3b_sched)) =
    [[ROk; ROk; ROk]; [REntries [oo 0 1000; oo 1 1000; oo 0 1000; oo 1 1000]; REntries [oo 3 1000; oo 4 1000]]; [RNone; RNone]].
Proof. split; [repeat constructor; cbn; intuition discriminate|]. vm_compute. auto. Qed.

(* not a violation: a multi-block batch whose sealed prefix is visible before the batch is
   written.  A read_next that reaches the unwritten entry returns None; nothing is lost,
   duplicated or reordered. *)
Definition pb_progs := [[CAppend t1 (e 0 1000); CAppend t1 (e 1 1000); CBatch t1 [e 2 1000; e 3 1000; e 4 1000]];
                        [CRead t1 true; CRead t1 true; CRead t1 true; CRead t1 true; CRead t1 true]; [CRead t1 true; CRead t1 true]].
Definition pb_sched := sch (rep 9 0 ++ rep 10 1 ++ rep 3 0 ++ rep 30 1 ++ rep 30 2).
Example c05_sealed_prefix_visible_is_harmless :
  verdict false pb_progs pb_sched = (true, true, flags false false false) /\
  cresults (ro_cs (run_schedule v0 false pb_progs pb_sched)) =
    [[ROk; ROk; ROk]; [o 0 1000; o 1 1000; RNone; o 2 1000; o 3 1000]; [o 4 1000; RNone]].
Proof. vm_compute. auto. Qed.

(* with the proposed fix every witness schedule is accepted *)
Theorem c05_fixed_witnesses_accepted :
  snd (fst (verdict true k1_progs k1_sched)) = true /\
  snd (fst (verdict true k2_progs k2b_sched)) = true /\
  snd (fst (verdict true k2_progs k2a_sched)) = true /\
  snd (fst (verdict true k3_progs k3_sched)) = true /\
  snd (fst (verdict true k3b_progs k3b_sched)) = true.
Proof. vm_compute. auto. Qed.

(* ------------------------------------------------------------------ the positive result for the pre-fix code *)
(* EVERY schedule (any number of threads, any interleaving at segment granularity, block
   rotations included) of programs made of single appends and consuming read_next calls, with
   at most one consuming thread per topic, code before the fix (fx = false): if no block of a topic is sealed while
   that topic's consumer is between its tail snapshot and its commit (the mechanism monitor's
   seal-in-read flag stays clear) and every call has returned, the results are accepted:
   every delivered entry is a whole acknowledged entry, none is delivered twice, and each
   producer's entries are delivered in the order it appended them.
   "partial": batch appends, batch reads, peeks and several consumers per topic are outside this
   theorem (they are inside the model, the refutations and the differential check); the full
   statement is C05_full above, false for fx = false (refutations above). *)
Theorem c05_single_consumer_outside_known_partial :
  forall (c : Cfg) (m : mode) (be : backend) (progs : list (list call)) (sched : list nat),
    cfg_ok c -> simple_progs progs -> single_consumer progs -> NoDup (offered_pids progs) ->
    let ro := run_schedule {| v_cfg := c; v_mode := m; v_backend := be |} false progs sched in
    k_seal_in_read (ro_k ro) = false -> threads_done (ro_cs ro) = true ->
    c05_run_ok progs (cresults (ro_cs ro)) false = true.
Proof. intros c m be progs sched. exact (single_consumer_outside_known c m be progs sched). Qed.

(* along every such run the delivered entries of a topic are exactly a prefix of the topic's
   append order (the invariant the theorem rests on, proofs/ConcInv.v: iv_del, iv_own) *)
Theorem c05_invariant_every_schedule :
  forall (c : Cfg) (m : mode) (be : backend) (progs : list (list call)) (sched : list nat),
    cfg_ok c -> simple_progs progs -> single_consumer progs -> NoDup (offered_pids progs) ->
    let ro := run_schedule {| v_cfg := c; v_mode := m; v_backend := be |} false progs sched in
    k_seal_in_read (ro_k ro) = false -> INV c progs (ro_cs ro).
Proof. intros c m be progs sched. exact (inv_every_schedule c m be progs sched). Qed.

(* what an accepting verdict means, per topic *)
Theorem c05_acceptor_means : forall apps dels drained t, c05_topic_ok apps dels drained t = true ->
  (forall o, In o (delivered dels t) ->
     o_skip o = 0 /\ exists e, In e (acked apps t) /\ e_pid e = o_pid o /\ e_len e = o_len o) /\
  NoDup (map o_pid (delivered dels t)) /\
  (drained = true -> forall e, In e (acked apps t) -> In (e_pid e) (map o_pid (delivered dels t))).
Proof. exact c05_topic_ok_means. Qed.

(* non-vacuity: two producers and one consumer on one topic, a block rotation in the middle,
   threads switched at almost every step; the flag stays clear, everything is delivered once,
   per-producer order kept (drain counted) *)
Definition nv_progs := [[CAppend t1 (e 0 1000); CAppend t1 (e 1 1000); CAppend t1 (e 2 1000)];
                        [CAppend t1 (e 10 1600); CAppend t1 (e 11 300)];
                        [CRead t1 true; CRead t1 true; CRead t1 true; CRead t1 true; CRead t1 true; CRead t1 true; CRead t1 true]].
Definition nv_sched := sch ([2;2;2;2;2;0;2;1;2;1;1;0;1;2;0;0;0;0;2;0;2;0;0;1;2;2;0;0;2;2;2;2;2;1] ++ rep 60 2).
Lemma nv_single_consumer : single_consumer nv_progs.
Proof.
  assert (H : forall i t, consumes (nth i nv_progs []) t -> i = 2%nat).
  { intros i t (t' & ck & Hin & _). destruct i as [|[|[|i]]]; cbn in Hin; try reflexivity;
      repeat (destruct Hin as [Hin|Hin]; [discriminate|]); try contradiction; destruct i; contradiction. }
  intros t i j Hi Hj. now rewrite (H i t Hi), (H j t Hj).
Qed.
Example c05_witness :
  simple_progs nv_progs /\ NoDup (offered_pids nv_progs) /\ single_consumer nv_progs /\
  verdict false nv_progs nv_sched = (true, true, flags false false false) /\
  existsb (fun s => match snd s with S_w_seal_post => true | _ => false end)
          (ro_steps (run_schedule v0 false nv_progs nv_sched)) = true /\
  cresults (ro_cs (run_schedule v0 false nv_progs nv_sched)) =
    [[ROk; ROk; ROk]; [ROk; ROk]; [RNone; RNone; o 10 1600; o 0 1000; o 1 1000; o 11 300; o 2 1000]].
Proof.
  split; [repeat constructor|]. split; [repeat constructor; cbn; intuition discriminate|].
  split; [exact nv_single_consumer|]. vm_compute. auto.
Qed.

Lemma small_cfg_ok' : cfg_ok small_cfg.
Proof. unfold cfg_ok, small_cfg; cbn. unfold src_small_PREFIX_META_SIZE, src_small_DEFAULT_BLOCK_SIZE, src_small_MAX_ALLOC, src_small_MAX_BATCH_ENTRIES, u64_max. lia. Qed.
Lemma real_cfg_ok' : cfg_ok real_cfg.
Proof. unfold cfg_ok, real_cfg; cbn. unfold src_PREFIX_META_SIZE, src_DEFAULT_BLOCK_SIZE, src_MAX_ALLOC, src_MAX_BATCH_ENTRIES, u64_max. lia. Qed.

(* the theorem at the constants of this source tree (regenerated on every run) *)
Theorem c05_real : forall m be progs sched,
  simple_progs progs -> single_consumer progs -> NoDup (offered_pids progs) ->
  let ro := run_schedule {| v_cfg := real_cfg; v_mode := m; v_backend := be |} false progs sched in
  k_seal_in_read (ro_k ro) = false -> threads_done (ro_cs ro) = true ->
  c05_run_ok progs (cresults (ro_cs ro)) false = true.
Proof. intros m be progs sched. exact (single_consumer_outside_known real_cfg m be progs sched real_cfg_ok'). Qed.

(* ------------------------------------------------------------------ the code as it is NOW (with fix 4c905dc: fx = true) *)
(* EVERY schedule — no hypothesis on the interleaving, the monitor flags may be raised — of programs
   made of single appends and consuming read_next calls, ANY number of producer and consumer threads
   on any number of topics (several consumers per topic included), any Cfg with cfg_ok, both modes:
   once every call has returned, the results are accepted: every delivered entry is a whole
   acknowledged entry, no entry is delivered twice over all consumers, and in what one consumer
   thread received the entries of one producer thread appear in the order that producer appended them.
   Proof: proofs/Conc{InvF,StepF,BridgeF,MainF}.v — a writer snapshot held by a read_next is either
   still a prefix of the writer block, or empty, or its block id is at most the last id in the chain;
   the last two are what the fix's checks at the commit detect (retry), the first together with
   "tail position unchanged" (the third check) makes the commit the delivery of the first unread
   entry; deliveries are recorded in a ghost log (thread, out) per topic in commit order.
   "partial": batch appends, batch reads and peeks are outside this theorem (inside the model, the
   witness theorems and the differential check); C05_full true stays a Definition. *)
Theorem c05_fixed_every_schedule_partial :
  forall (c : Cfg) (m : mode) (be : backend) (progs : list (list call)) (sched : list nat),
    cfg_ok c -> simple_progs progs -> NoDup (offered_pids progs) ->
    let ro := run_schedule {| v_cfg := c; v_mode := m; v_backend := be |} true progs sched in
    threads_done (ro_cs ro) = true ->
    c05_run_ok progs (cresults (ro_cs ro)) false = true.
Proof. intros c m be progs sched Hc Hs. exact (fixed_every_schedule c m be progs sched Hc (simple_progs_P _ Hs)). Qed.

(* the one-consumer-per-topic instance asked for first (the hypothesis is not needed) *)
Corollary c05_single_consumer_fixed_partial :
  forall (c : Cfg) (m : mode) (be : backend) (progs : list (list call)) (sched : list nat),
    cfg_ok c -> simple_progs progs -> single_consumer progs -> NoDup (offered_pids progs) ->
    let ro := run_schedule {| v_cfg := c; v_mode := m; v_backend := be |} true progs sched in
    threads_done (ro_cs ro) = true ->
    c05_run_ok progs (cresults (ro_cs ro)) false = true.
Proof. intros c m be progs sched Hc Hs _ Hnd. exact (fixed_every_schedule c m be progs sched Hc (simple_progs_P _ Hs) Hnd). Qed.

Theorem c05_fixed_invariant_every_schedule :
  forall (c : Cfg) (m : mode) (be : backend) (progs : list (list call)) (sched : list nat),
    cfg_ok c -> simple_progs progs -> NoDup (offered_pids progs) ->
    exists L, INVF c progs (ro_cs (run_schedule {| v_cfg := c; v_mode := m; v_backend := be |} true progs sched)) L.
Proof. intros c m be progs sched Hc Hs. exact (invF_every_schedule c m be progs sched Hc (simple_progs_P _ Hs)). Qed.

Theorem c05_fixed_real : forall m be progs sched,
  simple_progs progs -> NoDup (offered_pids progs) ->
  let ro := run_schedule {| v_cfg := real_cfg; v_mode := m; v_backend := be |} true progs sched in
  threads_done (ro_cs ro) = true ->
  c05_run_ok progs (cresults (ro_cs ro)) false = true.
Proof. intros m be progs sched Hs. exact (fixed_every_schedule real_cfg m be progs sched real_cfg_ok' (simple_progs_P _ Hs)). Qed.

(* non-vacuity: the pre-fix witness schedules are instances (simple programs, distinct ids, every
   call returned); the monitor flags ARE raised on them, and the fixed code's results are accepted
   (drain counted): two consumers in the window / a rotation inside one consumer's window *)
Example c05_fixed_witness :
  simple_progs k1_progs /\ NoDup (offered_pids k1_progs) /\
  verdict true k1_progs k1_sched = (true, true, flags true false false) /\
  simple_progs k2_progs /\ NoDup (offered_pids k2_progs) /\
  verdict true k2_progs k2b_sched = (true, true, flags false true false) /\
  cresults (ro_cs (run_schedule v0 true k2_progs k2b_sched)) =
    [[ROk; ROk; ROk; ROk]; [o 0 1000; o 1 1000; o 2 1000]; [o 3 1000; RNone; RNone]].
Proof.
  split; [repeat constructor|]. split; [repeat constructor; cbn; intuition discriminate|]. split; [vm_compute; reflexivity|].
  split; [repeat constructor|]. split; [repeat constructor; cbn; intuition discriminate|]. vm_compute. auto.
Qed.

(* ---- the same with peeks: programs of single appends and read_next calls, consuming or not ---- *)
(* [simple_progsP]: every call is CAppend _ _ or CRead _ ck for any ck.  Peeks deliver nothing (the
   acceptor ignores what they return) but they do run through the shared cursor: they step over
   exhausted sealed blocks, take tail and writer snapshots and go through the fix's checks. *)
Theorem c05_fixed_with_peeks_partial :
  forall (c : Cfg) (m : mode) (be : backend) (progs : list (list call)) (sched : list nat),
    cfg_ok c -> simple_progsP progs -> NoDup (offered_pids progs) ->
    let ro := run_schedule {| v_cfg := c; v_mode := m; v_backend := be |} true progs sched in
    threads_done (ro_cs ro) = true ->
    c05_run_ok progs (cresults (ro_cs ro)) false = true.
Proof. intros c m be progs sched. exact (fixed_every_schedule c m be progs sched). Qed.

(* non-vacuity: a peeking thread interleaved with a producer that rotates and a consumer *)
Definition pk_progs := [a4; [CRead t1 false; CRead t1 true; CRead t1 false; CRead t1 true];
                        [CRead t1 false; CRead t1 false; CRead t1 true]; [CRead t1 true; CRead t1 true; CRead t1 true]].
Definition pk_sched := sch (rep 9 0 ++ [1;1;2;2;1;2] ++ rep 5 0 ++ [1;2;1;2;1;2;1;2;1;2;1;2] ++ rep 40 1 ++ rep 40 2 ++ rep 40 3).
Example c05_fixed_peeks_witness :
  simple_progsP pk_progs /\ NoDup (offered_pids pk_progs) /\
  fst (verdict true pk_progs pk_sched) = (true, true) /\
  existsb (fun r => match r with REntry _ => true | _ => false end)
          (nth 2 (cresults (ro_cs (run_schedule v0 true pk_progs pk_sched))) []) = true.
Proof. split; [repeat constructor|]. split; [repeat constructor; cbn; intuition discriminate|]. vm_compute. auto. Qed.

(* ------------------------------------------------------------------ batch appends and batch reads
   Not covered by the theorems above.  What is proved for them (fixed code, fx = true) is
   exhaustive for CONCRETE thread programs: [explore] (proofs/ConcExplore.v) walks every schedule of
   the model from the state reached by a serial prologue and [explore_sound] turns its answer into a
   statement over ALL schedules (lists of thread ids of any length).  The general statements remain
   open: [C05_fixed_with_batches], [C05_fixed_all_calls] below. *)
(* [every_schedule_after progs pre]: every schedule that starts with the serial prologue [pre], run on
   the fixed model with the small geometry, is accepted once every call has returned.  The families
   (proofs/ConcFamilies.v; topic 1, entries of 1000 bytes, p2 = two single appends then a batch of three that
   crosses the block boundary, brm = consuming batch read without byte limit): bf1 p2 against three read_next;
   bf2 four single appends (the fourth rotates) against two batch reads and a read_next; bf3 p2 against the
   same; bf4 two batch writers on one topic and a consumer; bf6 one batch over three blocks against a
   consumer; bf9 p2 against a batch-reading and a read_next consumer; bf10 p2 against two batch readers. *)
Theorem c05_fixed_batches_every_schedule_bounded :
  every_schedule_after bf1 pre6 /\ every_schedule_after bf2 pre9 /\ every_schedule_after bf3 pre6 /\
  every_schedule_after bf4 [] /\ every_schedule_after bf6 [] /\
  every_schedule_after bf9 pre6 /\ every_schedule_after bf10 pre6.
Proof. exact batches_every_schedule_bounded. Qed.

(* not vacuous: a complete schedule of each family in which the consumers receive batch entries *)
Example c05_fixed_batches_witness :
  (let ro := run_schedule v0 true bf1 (pre6 ++ sch (rep 40 0 ++ rep 40 1)) in
     threads_done (ro_cs ro) = true /\ nth 1 (cresults (ro_cs ro)) [] = [o 0 1000; o 1 1000; o 2 1000]) /\
  (let ro := run_schedule v0 true bf3 (pre6 ++ sch (rep 40 0 ++ rep 40 1)) in
     threads_done (ro_cs ro) = true /\
     nth 1 (cresults (ro_cs ro)) [] = [REntries [oo 0 1000; oo 1 1000; oo 2 1000; oo 3 1000; oo 4 1000]; REntries []; RNone]) /\
  (let ro := run_schedule v0 true bf4 (sch ([0;1] ++ rep 40 0 ++ rep 40 1 ++ rep 40 2)) in
     threads_done (ro_cs ro) = true /\
     cresults (ro_cs ro) = [[ROk]; [RErr EWouldBlock]; [o 0 1000; o 1 1000]]).
Proof. vm_compute. auto. Qed.

(* what remains open for the fixed code: batch appends in arbitrary programs ... *)
Definition batch_call (cl : call) : bool :=
  match cl with CAppend _ _ | CRead _ _ | CBatch _ _ => true | CBatchRead _ _ _ => false end.
Definition C05_fixed_with_batches : Prop :=
  forall c m be progs sched, cfg_ok c ->
    Forall (Forall (fun cl => batch_call cl = true)) progs -> NoDup (offered_pids progs) ->
    let ro := run_schedule {| v_cfg := c; v_mode := m; v_backend := be |} true progs sched in
    threads_done (ro_cs ro) = true -> c05_run_ok progs (cresults (ro_cs ro)) false = true.
(* ... and all four call kinds (adds batch reads) *)
Definition C05_fixed_all_calls : Prop :=
  forall c m be progs sched, cfg_ok c -> NoDup (offered_pids progs) ->
    let ro := run_schedule {| v_cfg := c; v_mode := m; v_backend := be |} true progs sched in
    threads_done (ro_cs ro) = true -> c05_run_ok progs (cresults (ro_cs ro)) false = true.

Check c05_fixed_with_peeks_partial :
  forall c m be progs sched, cfg_ok c -> simple_progsP progs -> NoDup (offered_pids progs) ->
    let ro := run_schedule {| v_cfg := c; v_mode := m; v_backend := be |} true progs sched in
    threads_done (ro_cs ro) = true -> c05_run_ok progs (cresults (ro_cs ro)) false = true.
Check c05_fixed_batches_every_schedule_bounded.
Print Assumptions c05_fixed_batches_every_schedule_bounded.
Check c05_fixed_every_schedule_partial :
  forall (c : Cfg) (m : mode) (be : backend) (progs : list (list call)) (sched : list nat),
    cfg_ok c -> simple_progs progs -> NoDup (offered_pids progs) ->
    let ro := run_schedule {| v_cfg := c; v_mode := m; v_backend := be |} true progs sched in
    threads_done (ro_cs ro) = true ->
    c05_run_ok progs (cresults (ro_cs ro)) false = true.
Print Assumptions c05_fixed_every_schedule_partial.
Print Assumptions c05_single_consumer_fixed_partial.
Print Assumptions c05_fixed_invariant_every_schedule.
Print Assumptions c05_fixed_real.
Print Assumptions c05_fixed_with_peeks_partial.
Check c05_single_consumer_outside_known_partial :
  forall (c : Cfg) (m : mode) (be : backend) (progs : list (list call)) (sched : list nat),
    cfg_ok c -> simple_progs progs -> single_consumer progs -> NoDup (offered_pids progs) ->
    let ro := run_schedule {| v_cfg := c; v_mode := m; v_backend := be |} false progs sched in
    k_seal_in_read (ro_k ro) = false -> threads_done (ro_cs ro) = true ->
    c05_run_ok progs (cresults (ro_cs ro)) false = true.
Print Assumptions c05_single_consumer_outside_known_partial.
Print Assumptions c05_invariant_every_schedule.
Print Assumptions c05_acceptor_means.
Print Assumptions c05_real.
Check c05_refuted_two_readers.
Print Assumptions c05_refuted_two_readers.
Print Assumptions c05_refuted_seal_before_commit.
Print Assumptions c05_refuted_seal_before_writer_snapshot.
Print Assumptions c05_refuted_stale_writer_snapshot.
Print Assumptions c05_refuted_stale_snapshot_loses_entry.
Print Assumptions c05_fixed_witnesses_accepted.
