(* C09 — consumer positions survive crashes with the promised delivery guarantee.  Pinned statements.
   Pinned here: what the extracted acceptors applied to implementation crash runs mean, and model
   witnesses.  The whole-history statement is decided per run by crash-point enumeration on the real
   crate (process exit before the k-th I/O event, incl. between the index temp-file write, its
   fsync and the rename) judged by these acceptors. *)
From W Require Import model.Base model.Engine model.EngineCfg spec.Queue spec.Crash proofs.CrashP proofs.EngineWF proofs.EngineInv proofs.EngineMain
  proofs.EngineDisk proofs.EnginePos proofs.EngineNorm proofs.EngineReopen proofs.EngineC06 proofs.EngineALO2 proofs.EngineSince proofs.EngineSince2 proofs.EngineCrash proofs.EngineSinceR proofs.EngineCrashA proofs.EngineGen proofs.EngineGenR.

Theorem c09_strict_acceptor_means : forall app deliv rec,
  c09_strict_one app deliv rec 0 = true -> outs_are (deliv ++ rec) app = true.
Proof. exact c09_strict_exactly_once. Qed.

Theorem c09_alo_acceptor_means : forall app deliv rec gap bound,
  c09_alo_one app deliv rec gap bound = true ->
  exists p, (p <= length deliv + gap)%nat /\ outs_are rec (skipn p app) = true /\
            outs_are deliv (firstn (length deliv) app) = true /\
            match bound with Some n => (length deliv <= p + n)%nat | None => True end.
Proof. exact c09_alo_never_skips. Qed.

(* model witnesses: a crash between operations = a fresh process on the current disk image and
   persisted positions ([OReopen] in the model).  Strict: resumes right behind what was returned,
   from the writer tail and from a sealed block; AtLeastOnce{3}: re-delivers at most 3. *)
Definition tt : topic := {| t_id := 1; t_nlen := 2 |}.
Definition en (p l : N) : entry := {| e_pid := p; e_len := l |}.
Example c09_witness_strict :
  map snd (trace (env_of small_cfg Strict Fd) init
     [OAppend tt (en 0 3000); OAppend tt (en 1 3000); OAppend tt (en 2 10); ORead tt true; OReopen; ORead tt true;
      OBatchRead tt 10 true None; OReopen; ORead tt true])
  = [ROk; ROk; ROk; REntry (out_of (en 0 3000)); ROk; REntry (out_of (en 1 3000)); REntries [out_of (en 2 10)]; ROk; RNone].
Proof. vm_compute. reflexivity. Qed.
Example c09_witness_strict_outside_known :
  outside_known (env_of small_cfg Strict Fd) init
     [OAppend tt (en 0 3000); OAppend tt (en 1 3000); OAppend tt (en 2 10); ORead tt true; OReopen; ORead tt true;
      OBatchRead tt 10 true None; OReopen; ORead tt true] = true.
Proof. vm_compute. reflexivity. Qed.
Example c09_witness_alo :
  map snd (trace (env_of small_cfg (ALO 3) Fd) init
     [OAppend tt (en 0 10); OAppend tt (en 1 10); OAppend tt (en 2 10); OAppend tt (en 3 10); OAppend tt (en 4 10);
      ORead tt true; ORead tt true; ORead tt true; ORead tt true; OReopen; ORead tt true])
  = [ROk; ROk; ROk; ROk; ROk; REntry (out_of (en 0 10)); REntry (out_of (en 1 10)); REntry (out_of (en 2 10));
     REntry (out_of (en 3 10)); ROk; REntry (out_of (en 3 10))].
Proof. vm_compute. reflexivity. Qed.

(* StrictlyAtOnce, crash BETWEEN two operations (the fresh process sees the disk image and the
   persisted positions of that moment = [reopen], as argued for C07), outside the known class
   (block-id drift — see props/C06.v): for every topic the consumer
   resumes immediately behind the last entry whose consuming read had returned.  [g] is the ledger
   of the queue specification over the history so far: l_app = acknowledged appends of the topic,
   l_del = number of entries returned by its consuming reads.  After the restart the stream is l_app,
   what is unread is l_app minus its first l_del entries (whichever read path hydrates the reader,
   [x]), and the reported count is their number: nothing skipped, nothing delivered twice. *)
Theorem c09_strict_between_operations : forall (c : Cfg) (be : backend) (ops : list op), cfg_ok c ->
  outside_known (env_of c Strict be) init (ops ++ [OReopen]) = true ->
  N.of_nat (length (offered_all ops)) <= u64_max -> sum_len (offered_all ops) <= u64_max ->
  let s := exec (env_of c Strict be) init ops in
  let g := ledger_run [] (trace (env_of c Strict be) init ops) in
  forall t x,
    (l_del (lget g t) <= length (l_app (lget g t)))%nat /\
    stream (get_ts (reopen c s) t) = l_app (lget g t) /\
    unread c (nrm x (get_ts (reopen c s) t)) = skipn (l_del (lget g t)) (l_app (lget g t)) /\
    cnt (get_ts (reopen c s) t) = N.of_nat (length (l_app (lget g t)) - l_del (lget g t)).
Proof. exact crash_between_operations_strict. Qed.

(* and the history that goes on after the crash is accepted by the C01/C15 acceptors with the
   crash event simply present: every later consuming read returns exactly the next entries *)
Theorem c09_strict_resumes_exactly : forall (c : Cfg) (be : backend) (ops1 ops2 : list op), cfg_ok c ->
  outside_known (env_of c Strict be) init (ops1 ++ OReopen :: ops2) = true ->
  N.of_nat (length (offered_all (ops1 ++ OReopen :: ops2))) <= u64_max -> sum_len (offered_all (ops1 ++ OReopen :: ops2)) <= u64_max ->
  c01_ok (trace (env_of c Strict be) init (ops1 ++ OReopen :: ops2)) = true /\
  c15_ok (trace (env_of c Strict be) init (ops1 ++ OReopen :: ops2)) = true.
Proof. exact crash_then_continue_strict. Qed.

(* ANY mode — AtLeastOnce{n} in particular —, crash between two operations of a restart-free history,
   outside block-id drift: the persisted position is never AHEAD of the consumer (lagging position
   invariant P3L / PL, proofs/EngineP3L.v, EngineALO2.v, along every history), so after the restart the stream is the
   acknowledged stream and what the consumer will be handed starts at position k <= l_del, i.e. at
   or before the first entry it had not been handed: entries may be delivered again, none is skipped.
   (The bound l_del - k <= persist_every for read_next-only histories is NOT proved.) *)
Theorem c09_alo_never_skips_between_operations : forall (c : Cfg) (m : mode) (be : backend) (ops : list op),
  cfg_ok c -> Forall (op_ok c) ops ->
  N.of_nat (length (offered_all ops)) <= u64_max -> sum_len (offered_all ops) <= u64_max ->
  id_drift c (exec (env_of c m be) init ops) = false ->
  let s := exec (env_of c m be) init ops in
  let g := ledger_run [] (trace (env_of c m be) init ops) in
  forall t x,
    stream (get_ts (reopen c s) t) = l_app (lget g t) /\
    exists k, (k <= l_del (lget g t))%nat /\
              unread c (nrm x (get_ts (reopen c s) t)) = skipn k (l_app (lget g t)).
Proof. exact crash_between_operations_never_skips_nd. Qed.

Example c09_witness_alo_outside_known :
  id_drift small_cfg (exec (env_of small_cfg (ALO 3) Fd) init
     [OAppend tt (en 0 10); OAppend tt (en 1 10); OAppend tt (en 2 10); OAppend tt (en 3 10); OAppend tt (en 4 10);
      ORead tt true; ORead tt true; ORead tt true; ORead tt true]) = false.
Proof. vm_compute. reflexivity. Qed.

(* AtLeastOnce{persist_every = n} (n <= u32::MAX, the type of the field), restart-free history whose
   CONSUMING reads are read_next calls (peeking / offset-addressed batch reads allowed; consuming batch
   reads never persist in AtLeastOnce mode and reset the counter, so no bound holds with them), crash
   between two operations, no block-id drift: the consumer resumes at position k with k <= l_del
   (nothing skipped) and l_del - k <= n, indeed < max n 1 (at most persist_every entries are delivered
   again).  Invariant: the persisted position lags by exactly r_since entries and r_since < max n 1
   (LNs, proofs/EngineSince.v), on the sealed path and at the tail (the forced provisional persist
   resets the counter and, since fix 5104140, only happens when the block holds entries). *)
Theorem c09_alo_redelivery_bound : forall (c : Cfg) (n : N) (be : backend) (ops : list op),
  cfg_ok c -> n <= u32_max ->
  Forall (op_ok c) ops -> forallb rn_only ops = true ->
  N.of_nat (length (offered_all ops)) <= u64_max -> sum_len (offered_all ops) <= u64_max ->
  id_drift c (exec (env_of c (ALO n) be) init ops) = false ->
  let s := exec (env_of c (ALO n) be) init ops in
  let g := ledger_run [] (trace (env_of c (ALO n) be) init ops) in
  forall t x,
    stream (get_ts (reopen c s) t) = l_app (lget g t) /\
    exists k, (k <= l_del (lget g t))%nat /\ N.of_nat (l_del (lget g t) - k) <= n /\
              N.of_nat (l_del (lget g t) - k) < N.max n 1 /\
              unread c (nrm x (get_ts (reopen c s) t)) = skipn k (l_app (lget g t)).
Proof. exact crash_between_operations_alo_bound. Qed.

(* non-vacuity: the AtLeastOnce{3} witness history above is read_next-only, without drift; after its
   4 consuming reads the restart re-delivers exactly one entry (the position was persisted at the 3rd) *)
Example c09_witness_alo_bound :
  let ops := [OAppend tt (en 0 10); OAppend tt (en 1 10); OAppend tt (en 2 10); OAppend tt (en 3 10); OAppend tt (en 4 10);
              ORead tt true; ORead tt true; ORead tt true; ORead tt true] in
  forallb rn_only ops = true /\ id_drift small_cfg (exec (env_of small_cfg (ALO 3) Fd) init ops) = false /\
  l_del (lget (ledger_run [] (trace (env_of small_cfg (ALO 3) Fd) init ops)) 1) = 4%nat /\
  unread small_cfg (nrm false (get_ts (reopen small_cfg (exec (env_of small_cfg (ALO 3) Fd) init ops)) 1)) = [en 3 10; en 4 10].
Proof. vm_compute. repeat split; reflexivity. Qed.

(* the same bound for histories WITH earlier restarts (any number, outside block-id drift, boolean
   outside_known of the history followed by the final restart): the ledger is the one maintained
   along the run and rolled back to the recovered position at every restart ([gm_ledger],
   proofs/EngineSinceR.v), so l_del counts from the last roll-back; the reads-since-persist counter
   restarts at 0 after every restart (the persisted position then resolves exactly to the recovered
   cursor).  Also: what the consumer had left before the crash (third conjunct) and the entry count
   the restart rebuilds (appended - k). *)
Theorem c09_alo_redelivery_bound_with_restarts : forall (c : Cfg) (n : N) (be : backend) (ops : list op),
  cfg_ok c -> n <= u32_max ->
  forallb rn_only ops = true ->
  outside_known (env_of c (ALO n) be) init (ops ++ [OReopen]) = true ->
  N.of_nat (length (offered_all ops)) <= u64_max -> sum_len (offered_all ops) <= u64_max ->
  let s := exec (env_of c (ALO n) be) init ops in
  let g := gm_ledger (env_of c (ALO n) be) init [] ops in
  forall t x,
    stream (get_ts (reopen c s) t) = l_app (lget g t) /\
    (l_del (lget g t) <= length (l_app (lget g t)))%nat /\
    unread c (nrm x (get_ts s t)) = skipn (l_del (lget g t)) (l_app (lget g t)) /\
    exists k, (k <= l_del (lget g t))%nat /\ N.of_nat (l_del (lget g t) - k) <= n /\
              N.of_nat (l_del (lget g t) - k) < N.max n 1 /\
              unread c (nrm x (get_ts (reopen c s) t)) = skipn k (l_app (lget g t)) /\
              cnt (get_ts (reopen c s) t) = N.of_nat (length (l_app (lget g t)) - k).
Proof. exact crash_after_restarts_alo_bound. Qed.

(* non-vacuity: AtLeastOnce{3}; 4 consuming reads (position persisted at the 3rd), a restart (entry 3
   is delivered again), then two consuming reads with a batch peek in between and an append: the
   ledger says 5 of 6 delivered; the final restart resumes at 3 (5 - 3 = 2 <= 3 delivered again) and
   rebuilds the count 3 = 6 - 3 *)
Example c09_witness_alo_bound_with_restarts :
  let ops := [OAppend tt (en 0 10); OAppend tt (en 1 10); OAppend tt (en 2 10); OAppend tt (en 3 10); OAppend tt (en 4 10);
              ORead tt true; ORead tt true; ORead tt true; ORead tt true; OReopen; OCount tt;
              ORead tt true; OBatchRead tt 100000 false None; ORead tt true; OAppend tt (en 5 10)] in
  let v := env_of small_cfg (ALO 3) Fd in
  forallb rn_only ops = true /\ outside_known v init (ops ++ [OReopen]) = true /\
  map snd (trace v init (ops ++ [OReopen; OCount tt; ORead tt true]))
  = [ROk; ROk; ROk; ROk; ROk; REntry (out_of (en 0 10)); REntry (out_of (en 1 10)); REntry (out_of (en 2 10)); REntry (out_of (en 3 10));
     ROk; RNum 2; REntry (out_of (en 3 10)); REntries [out_of (en 4 10)]; REntry (out_of (en 4 10)); ROk;
     ROk; RNum 3; REntry (out_of (en 3 10))] /\
  l_del (lget (gm_ledger v init [] ops) 1) = 5%nat /\ length (l_app (lget (gm_ledger v init [] ops) 1)) = 6%nat /\
  unread small_cfg (nrm false (get_ts (reopen small_cfg (exec v init ops)) 1)) = [en 3 10; en 4 10; en 5 10].
Proof. vm_compute. repeat split; reflexivity. Qed.


(* StrictlyAtOnce, crash INSIDE a consuming read_next.  The only durable effect of a read is the index
   persist: temp-file write, fsync, rename, directory fsync.  The rename is atomic, so a crash at any of
   these points leaves the OLD or the NEW persisted position and nothing else changed: the crash image
   is [reopen] of the state before the read ([s]) or of the state after it ([s']).  After ANY history
   with restarts outside block-id drift ([outside_known], which needs no extra hypothesis for the state
   after the read: a read does not change drift, id_drift_read):
     old position: every topic, the read's topic included, is exactly where the ledger has it — the
       entry in flight is delivered (again) to a consumer that never saw that read return;
     new position: every other topic exactly where it was, the read's topic right behind the entry in
       flight (or unchanged when nothing was unread).
   Only the read in flight at the crash may go either way; nothing else is delivered twice, nothing is skipped. *)
Theorem c09_strict_crash_inside_read : forall (c : Cfg) (be : backend) (ops : list op) (t : topic), cfg_ok c ->
  N.of_nat (length (offered_all ops)) <= u64_max -> sum_len (offered_all ops) <= u64_max ->
  outside_known (env_of c Strict be) init (ops ++ [OReopen]) = true ->
  let s := exec (env_of c Strict be) init ops in
  let s' := fst (step (env_of c Strict be) s (ORead t true)) in
  let g := ledger_run [] (trace (env_of c Strict be) init ops) in
  let d := l_del (lget g (t_id t)) in
  let A := l_app (lget g (t_id t)) in
  (forall t0 x, stream (get_ts (reopen c s) t0) = l_app (lget g t0) /\
                unread c (nrm x (get_ts (reopen c s) t0)) = skipn (l_del (lget g t0)) (l_app (lget g t0))) /\
  (forall t0 x, stream (get_ts (reopen c s') t0) = l_app (lget g t0) /\
                (t0 <> t_id t -> unread c (nrm x (get_ts (reopen c s') t0)) = skipn (l_del (lget g t0)) (l_app (lget g t0))) /\
                unread c (nrm x (get_ts (reopen c s') (t_id t))) = skipn (if (d <? length A)%nat then S d else d) A).
Proof. exact crash_inside_read_strict. Qed.

(* the same for a consuming batch read (one index persist behind everything it returns): the crash image
   is the old position, or the position behind ALL entries the read returned — "the read in flight may
   go either way, as a whole" (the gap parameter j = its size of the acceptor c09_strict_one) *)
Theorem c09_strict_crash_inside_batch_read : forall (c : Cfg) (be : backend) (ops : list op) (t : topic) (maxb : N), cfg_ok c ->
  N.of_nat (length (offered_all ops)) <= u64_max -> sum_len (offered_all ops) <= u64_max ->
  outside_known (env_of c Strict be) init (ops ++ [OReopen]) = true ->
  let s := exec (env_of c Strict be) init ops in
  let s' := fst (step (env_of c Strict be) s (OBatchRead t maxb true None)) in
  let g := ledger_run [] (trace (env_of c Strict be) init ops) in
  exists os, snd (step (env_of c Strict be) s (OBatchRead t maxb true None)) = REntries os /\
  (forall t0 x, stream (get_ts (reopen c s) t0) = l_app (lget g t0) /\
                unread c (nrm x (get_ts (reopen c s) t0)) = skipn (l_del (lget g t0)) (l_app (lget g t0))) /\
  (forall t0 x, stream (get_ts (reopen c s') t0) = l_app (lget g t0) /\
                (t0 <> t_id t -> unread c (nrm x (get_ts (reopen c s') t0)) = skipn (l_del (lget g t0)) (l_app (lget g t0))) /\
                unread c (nrm x (get_ts (reopen c s') (t_id t))) = skipn (l_del (lget g (t_id t)) + length os) (l_app (lget g (t_id t)))).
Proof. exact crash_inside_batch_read_strict. Qed.

(* non-vacuity: two entries, one consumed, the read of the second in flight at the crash *)
Example c09_witness_crash_inside_read :
  let ops := [OAppend tt (en 0 3000); OAppend tt (en 1 3000); ORead tt true] in
  let s := exec (env_of small_cfg Strict Fd) init ops in
  outside_known (env_of small_cfg Strict Fd) init (ops ++ [OReopen]) = true /\
  unread small_cfg (nrm false (get_ts (reopen small_cfg s) 1)) = [en 1 3000] /\
  unread small_cfg (nrm false (get_ts (reopen small_cfg (fst (step (env_of small_cfg Strict Fd) s (ORead tt true)))) 1)) = [].
Proof. vm_compute. repeat split; reflexivity. Qed.

Check c09_strict_acceptor_means : forall app deliv rec,
  c09_strict_one app deliv rec 0 = true -> outs_are (deliv ++ rec) app = true.
Print Assumptions c09_strict_acceptor_means.
Print Assumptions c09_alo_acceptor_means.
Check c09_strict_between_operations : forall (c : Cfg) (be : backend) (ops : list op), cfg_ok c ->
  outside_known (env_of c Strict be) init (ops ++ [OReopen]) = true ->
  N.of_nat (length (offered_all ops)) <= u64_max -> sum_len (offered_all ops) <= u64_max ->
  let s := exec (env_of c Strict be) init ops in
  let g := ledger_run [] (trace (env_of c Strict be) init ops) in
  forall t x,
    (l_del (lget g t) <= length (l_app (lget g t)))%nat /\
    stream (get_ts (reopen c s) t) = l_app (lget g t) /\
    unread c (nrm x (get_ts (reopen c s) t)) = skipn (l_del (lget g t)) (l_app (lget g t)) /\
    cnt (get_ts (reopen c s) t) = N.of_nat (length (l_app (lget g t)) - l_del (lget g t)).
Print Assumptions c09_strict_between_operations.
Print Assumptions c09_strict_resumes_exactly.
Check c09_alo_never_skips_between_operations : forall (c : Cfg) (m : mode) (be : backend) (ops : list op),
  cfg_ok c -> Forall (op_ok c) ops ->
  N.of_nat (length (offered_all ops)) <= u64_max -> sum_len (offered_all ops) <= u64_max ->
  id_drift c (exec (env_of c m be) init ops) = false ->
  let s := exec (env_of c m be) init ops in
  let g := ledger_run [] (trace (env_of c m be) init ops) in
  forall t x,
    stream (get_ts (reopen c s) t) = l_app (lget g t) /\
    exists k, (k <= l_del (lget g t))%nat /\
              unread c (nrm x (get_ts (reopen c s) t)) = skipn k (l_app (lget g t)).
Print Assumptions c09_alo_never_skips_between_operations.
Check c09_alo_redelivery_bound : forall (c : Cfg) (n : N) (be : backend) (ops : list op),
  cfg_ok c -> n <= u32_max ->
  Forall (op_ok c) ops -> forallb rn_only ops = true ->
  N.of_nat (length (offered_all ops)) <= u64_max -> sum_len (offered_all ops) <= u64_max ->
  id_drift c (exec (env_of c (ALO n) be) init ops) = false ->
  let s := exec (env_of c (ALO n) be) init ops in
  let g := ledger_run [] (trace (env_of c (ALO n) be) init ops) in
  forall t x,
    stream (get_ts (reopen c s) t) = l_app (lget g t) /\
    exists k, (k <= l_del (lget g t))%nat /\ N.of_nat (l_del (lget g t) - k) <= n /\
              N.of_nat (l_del (lget g t) - k) < N.max n 1 /\
              unread c (nrm x (get_ts (reopen c s) t)) = skipn k (l_app (lget g t)).
Print Assumptions c09_alo_redelivery_bound.
Check c09_strict_crash_inside_read : forall (c : Cfg) (be : backend) (ops : list op) (t : topic), cfg_ok c ->
  N.of_nat (length (offered_all ops)) <= u64_max -> sum_len (offered_all ops) <= u64_max ->
  outside_known (env_of c Strict be) init (ops ++ [OReopen]) = true ->
  let s := exec (env_of c Strict be) init ops in
  let s' := fst (step (env_of c Strict be) s (ORead t true)) in
  let g := ledger_run [] (trace (env_of c Strict be) init ops) in
  let d := l_del (lget g (t_id t)) in
  let A := l_app (lget g (t_id t)) in
  (forall t0 x, stream (get_ts (reopen c s) t0) = l_app (lget g t0) /\
                unread c (nrm x (get_ts (reopen c s) t0)) = skipn (l_del (lget g t0)) (l_app (lget g t0))) /\
  (forall t0 x, stream (get_ts (reopen c s') t0) = l_app (lget g t0) /\
                (t0 <> t_id t -> unread c (nrm x (get_ts (reopen c s') t0)) = skipn (l_del (lget g t0)) (l_app (lget g t0))) /\
                unread c (nrm x (get_ts (reopen c s') (t_id t))) = skipn (if (d <? length A)%nat then S d else d) A).
Print Assumptions c09_strict_crash_inside_read.
Print Assumptions c09_strict_crash_inside_batch_read.
Check c09_alo_redelivery_bound_with_restarts : forall (c : Cfg) (n : N) (be : backend) (ops : list op),
  cfg_ok c -> n <= u32_max ->
  forallb rn_only ops = true ->
  outside_known (env_of c (ALO n) be) init (ops ++ [OReopen]) = true ->
  N.of_nat (length (offered_all ops)) <= u64_max -> sum_len (offered_all ops) <= u64_max ->
  let s := exec (env_of c (ALO n) be) init ops in
  let g := gm_ledger (env_of c (ALO n) be) init [] ops in
  forall t x,
    stream (get_ts (reopen c s) t) = l_app (lget g t) /\
    (l_del (lget g t) <= length (l_app (lget g t)))%nat /\
    unread c (nrm x (get_ts s t)) = skipn (l_del (lget g t)) (l_app (lget g t)) /\
    exists k, (k <= l_del (lget g t))%nat /\ N.of_nat (l_del (lget g t) - k) <= n /\
              N.of_nat (l_del (lget g t) - k) < N.max n 1 /\
              unread c (nrm x (get_ts (reopen c s) t)) = skipn k (l_app (lget g t)) /\
              cnt (get_ts (reopen c s) t) = N.of_nat (length (l_app (lget g t)) - k).
Print Assumptions c09_alo_redelivery_bound_with_restarts.

(* ANY mode (AtLeastOnce{n} in particular): crash points INSIDE a consuming read (read_next or batch read)
   after any admissible restart-free history outside block-id drift.  Both crash images (old / new
   persisted position; the rename is atomic) hold the acknowledged stream, and the consumer resumes at
   or before the first entry not handed out, where the entries of the in-flight read count as handed
   out (g'): nothing behind the in-flight read is skipped.  proofs/EngineCrashA.v *)
Theorem c09_any_mode_crash_inside_consuming_read : forall (c : Cfg) (m : mode) (be : backend) (ops : list op) (o : op),
  cfg_ok c -> Forall (op_ok c) ops -> consuming_read o = true ->
  N.of_nat (length (offered_all ops)) <= u64_max -> sum_len (offered_all ops) <= u64_max ->
  id_drift c (exec (env_of c m be) init ops) = false ->
  let v := env_of c m be in
  let s := exec v init ops in
  let s' := fst (step v s o) in
  let g := ledger_run [] (trace v init ops) in
  let g' := ledger_step g o (snd (step v s o)) in
  forall image, image = reopen c s \/ image = reopen c s' ->
  forall t0 x,
    stream (get_ts image t0) = l_app (lget g t0) /\
    exists k, (k <= l_del (lget g' t0))%nat /\
              unread c (nrm x (get_ts image t0)) = skipn k (l_app (lget g t0)).
Proof. exact crash_inside_consuming_read_any_mode. Qed.

Example c09_witness_crash_inside_alo_read :
  consuming_read (OBatchRead tt 4096 true None) = true /\ consuming_read (ORead tt true) = true /\
  id_drift small_cfg (exec (env_of small_cfg (ALO 3) Fd) init
     [OAppend tt (en 0 3000); OAppend tt (en 1 3000); OAppend tt (en 2 10); ORead tt true; ORead tt true]) = false.
Proof. vm_compute. repeat split. Qed.

Check c09_any_mode_crash_inside_consuming_read : forall (c : Cfg) (m : mode) (be : backend) (ops : list op) (o : op),
  cfg_ok c -> Forall (op_ok c) ops -> consuming_read o = true ->
  N.of_nat (length (offered_all ops)) <= u64_max -> sum_len (offered_all ops) <= u64_max ->
  id_drift c (exec (env_of c m be) init ops) = false ->
  let v := env_of c m be in
  let s := exec v init ops in
  let s' := fst (step v s o) in
  let g := ledger_run [] (trace v init ops) in
  let g' := ledger_step g o (snd (step v s o)) in
  forall image, image = reopen c s \/ image = reopen c s' ->
  forall t0 x,
    stream (get_ts image t0) = l_app (lget g t0) /\
    exists k, (k <= l_del (lget g' t0))%nat /\
              unread c (nrm x (get_ts image t0)) = skipn k (l_app (lget g t0)).
Print Assumptions c09_any_mode_crash_inside_consuming_read.

(* ANY mode, crash between two operations of ANY history WITH restarts outside block-id drift (generalises
   c09_alo_never_skips_between_operations, which is about restart-free histories): [gm_ledger] is the ledger
   of the history with the consumer's TRUE position (third conjunct: what the running process would hand out
   next is exactly skipn l_del), rolled back at every earlier restart; the fresh process holds the acknowledged
   stream and resumes at k <= l_del: entries may be delivered again, none is skipped. *)
Theorem c09_any_mode_never_skips_with_restarts : forall (c : Cfg) (m : mode) (be : backend) (ops : list op), cfg_ok c ->
  outside_known (env_of c m be) init (ops ++ [OReopen]) = true ->
  N.of_nat (length (offered_all ops)) <= u64_max -> sum_len (offered_all ops) <= u64_max ->
  let s := exec (env_of c m be) init ops in
  let g := gm_ledger (env_of c m be) init [] ops in
  forall t x,
    stream (get_ts (reopen c s) t) = l_app (lget g t) /\
    (l_del (lget g t) <= length (l_app (lget g t)))%nat /\
    unread c (nrm x (get_ts s t)) = skipn (l_del (lget g t)) (l_app (lget g t)) /\
    exists k, (k <= l_del (lget g t))%nat /\
              unread c (nrm x (get_ts (reopen c s) t)) = skipn k (l_app (lget g t)).
Proof. exact crash_between_operations_never_skips_with_restarts. Qed.

Example c09_witness_never_skips_with_restarts :
  outside_known (env_of small_cfg (ALO 3) Fd) init
     ([OAppend tt (en 0 3000); OAppend tt (en 1 3000); ORead tt true; OReopen; OAppend tt (en 2 10); ORead tt true] ++ [OReopen]) = true.
Proof. vm_compute. reflexivity. Qed.

Check c09_any_mode_never_skips_with_restarts : forall (c : Cfg) (m : mode) (be : backend) (ops : list op), cfg_ok c ->
  outside_known (env_of c m be) init (ops ++ [OReopen]) = true ->
  N.of_nat (length (offered_all ops)) <= u64_max -> sum_len (offered_all ops) <= u64_max ->
  let s := exec (env_of c m be) init ops in
  let g := gm_ledger (env_of c m be) init [] ops in
  forall t x,
    stream (get_ts (reopen c s) t) = l_app (lget g t) /\
    (l_del (lget g t) <= length (l_app (lget g t)))%nat /\
    unread c (nrm x (get_ts s t)) = skipn (l_del (lget g t)) (l_app (lget g t)) /\
    exists k, (k <= l_del (lget g t))%nat /\
              unread c (nrm x (get_ts (reopen c s) t)) = skipn k (l_app (lget g t)).
Print Assumptions c09_any_mode_never_skips_with_restarts.

(* ... and crash points INSIDE a consuming read, any mode, after ANY history WITH restarts outside drift
   (subsumes c09_any_mode_crash_inside_consuming_read; ledger = gm_ledger) *)
Theorem c09_any_mode_crash_inside_consuming_read_with_restarts : forall (c : Cfg) (m : mode) (be : backend) (ops : list op) (o : op), cfg_ok c ->
  consuming_read o = true ->
  outside_known (env_of c m be) init (ops ++ [OReopen]) = true ->
  N.of_nat (length (offered_all ops)) <= u64_max -> sum_len (offered_all ops) <= u64_max ->
  let v := env_of c m be in
  let s := exec v init ops in
  let s' := fst (step v s o) in
  let g := gm_ledger v init [] ops in
  let g' := ledger_step g o (snd (step v s o)) in
  forall image, image = reopen c s \/ image = reopen c s' ->
  forall t0 x,
    stream (get_ts image t0) = l_app (lget g t0) /\
    exists k, (k <= l_del (lget g' t0))%nat /\
              unread c (nrm x (get_ts image t0)) = skipn k (l_app (lget g t0)).
Proof. exact crash_inside_consuming_read_with_restarts. Qed.
Check c09_any_mode_crash_inside_consuming_read_with_restarts : forall (c : Cfg) (m : mode) (be : backend) (ops : list op) (o : op), cfg_ok c ->
  consuming_read o = true ->
  outside_known (env_of c m be) init (ops ++ [OReopen]) = true ->
  N.of_nat (length (offered_all ops)) <= u64_max -> sum_len (offered_all ops) <= u64_max ->
  let v := env_of c m be in
  let s := exec v init ops in
  let s' := fst (step v s o) in
  let g := gm_ledger v init [] ops in
  let g' := ledger_step g o (snd (step v s o)) in
  forall image, image = reopen c s \/ image = reopen c s' ->
  forall t0 x,
    stream (get_ts image t0) = l_app (lget g t0) /\
    exists k, (k <= l_del (lget g' t0))%nat /\
              unread c (nrm x (get_ts image t0)) = skipn k (l_app (lget g t0)).
Print Assumptions c09_any_mode_crash_inside_consuming_read_with_restarts.
