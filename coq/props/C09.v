(* C09 — consumer positions survive crashes with the promised delivery guarantee.  Pinned statements.
   Pinned here: what the extracted acceptors applied to implementation crash runs mean, and model
   witnesses.  The whole-history statement is decided per run by crash-point enumeration on the real
   crate (process exit before the k-th I/O event, incl. between the index temp-file write, its
   fsync and the rename) judged by these acceptors. *)
From W Require Import model.Base model.Engine model.EngineCfg spec.Queue spec.Crash proofs.CrashP proofs.EngineMain.

Theorem c09_strict_acceptor_means : forall app deliv rec,
  c09_strict_one app deliv rec 0 = true -> outs_are (deliv ++ rec) app = true.
Proof. exact c09_strict_exactly_once. Qed.

Theorem c09_alo_acceptor_means : forall app deliv rec gap bound,
  c09_alo_one app deliv rec gap bound = true ->
  exists p, (p <= length deliv + gap)%nat /\ outs_are rec (skipn p app) = true /\
            outs_are deliv (firstn (length deliv) app) = true /\
            match bound with Some n => (length deliv <= p + n)%nat | None => True end.
Proof. exact c09_alo_never_skips. Qed.

(* model witnesses: a crash between operations = a fresh process on the current disk image and
   persisted positions ([OReopen] in the model).  Strict: resumes right behind what was returned,
   from the writer tail and from a sealed block; AtLeastOnce{3}: re-delivers at most 3. *)
Definition tt : topic := {| t_id := 1; t_nlen := 2 |}.
Definition en (p l : N) : entry := {| e_pid := p; e_len := l |}.
Example c09_witness_strict :
  map snd (trace (env_of small_cfg Strict Fd) init
     [OAppend tt (en 0 3000); OAppend tt (en 1 3000); OAppend tt (en 2 10); ORead tt true; OReopen; ORead tt true;
      OBatchRead tt 10 true None; OReopen; ORead tt true])
  = [ROk; ROk; ROk; REntry (out_of (en 0 3000)); ROk; REntry (out_of (en 1 3000)); REntries [out_of (en 2 10)]; ROk; RNone].
Proof. vm_compute. reflexivity. Qed.
Example c09_witness_alo :
  map snd (trace (env_of small_cfg (ALO 3) Fd) init
     [OAppend tt (en 0 10); OAppend tt (en 1 10); OAppend tt (en 2 10); OAppend tt (en 3 10); OAppend tt (en 4 10);
      ORead tt true; ORead tt true; ORead tt true; ORead tt true; OReopen; ORead tt true])
  = [ROk; ROk; ROk; ROk; ROk; REntry (out_of (en 0 10)); REntry (out_of (en 1 10)); REntry (out_of (en 2 10));
     REntry (out_of (en 3 10)); ROk; REntry (out_of (en 3 10))].
Proof. vm_compute. reflexivity. Qed.

Check c09_strict_acceptor_means : forall app deliv rec,
  c09_strict_one app deliv rec 0 = true -> outs_are (deliv ++ rec) app = true.
Print Assumptions c09_strict_acceptor_means.
Print Assumptions c09_alo_acceptor_means.
