(* C10 — SyncEach: acknowledged appends and (StrictlyAtOnce) consumption survive power loss.
   Pinned statements only; definitions in model/Durable.v (durability model over recorded I/O
   traces, protocol predicate [proto_ok]) and spec/PowerLoss.v (acceptor); proofs in
   proofs/DurableP.v, DurableW.v, DurableI.v, PowerLossP.v.

   Power-loss model: per file everything up to its last fsync (or written with O_SYNC) is kept,
   each later write independently kept or lost; directory operations up to the last directory
   fsync are kept, later ones independently.  [admissible (drun (firstn k tr)) o] = o is a
   post-power-loss disk after the first k events of trace tr.

   c10_appends_durable            every trace following the SyncEach append protocol, every prefix, every
                                  admissible outcome: a write acknowledged within the prefix is reflected
                                  (name resolves, file long enough, every byte of the range is that write's).
                                  Holds whether or not O_SYNC is in effect (the flag is not needed:
                                  the process-global OnceLock schedule is harmless for durability).
   c10_refuted_index_rename_not_synced   the code as it is: write tmp, fsync tmp, rename, NO directory
                                  fsync: a read is acknowledged and an admissible outcome has the OLD index.
   c10_index_old_or_new           what does hold (both variants): the final name is absent or holds exactly
                                  one complete version that was renamed onto it — never a torn one.
   c10_consumption_durable        with a directory fsync between rename and acknowledgement (PROPOSED_FIX):
                                  the surviving version is not older than any acknowledged one.
   c10_outcomes_enumerated        the generators used by the check produce exactly the admissible outcomes.
   c10_strict_acceptor_means, c10_appends_acceptor_means   what the extracted acceptors accept. *)
From W Require Import model.Base model.Engine model.Durable spec.Queue spec.PowerLoss
  proofs.DurableP proofs.DurableW proofs.DurableI proofs.PowerLossP.

Theorem c10_appends_durable : forall fixed pairs tr k,
  proto_ok fixed pairs tr = true ->
  forall f off len id os, In (EWrite f off len id os) (firstn k tr) -> In (EAck id) (firstn k tr) ->
  forall o, admissible (drun (firstn k tr)) o -> reflected o f off len id.
Proof. exact appends_durable. Qed.

Theorem c10_refuted_index_rename_not_synced :
  exists pairs tr x id o,
    proto_ok false pairs tr = true /\ In (EAckRead x id) tr /\ admissible (drun tr) o /\
    version_of o x = Some (Some 1) /\ 1 < id /\ proto_ok true pairs tr = false.
Proof. exact index_rename_not_synced. Qed.

Theorem c10_index_old_or_new : forall fixed pairs tr k,
  proto_ok fixed pairs tr = true -> forall t x, In (t, x) pairs ->
  forall o, admissible (drun (firstn k tr)) o ->
  dlook (o_dops o) x = None \/
  exists id, holds_version o x id /\ 0 < id /\ id <= newest_renamed fixed pairs (firstn k tr) x.
Proof. exact index_never_torn. Qed.

Theorem c10_consumption_durable : forall pairs tr k,
  proto_ok true pairs tr = true ->
  forall x id, In (EAckRead x id) (firstn k tr) ->
  forall o, admissible (drun (firstn k tr)) o -> exists id', holds_version o x id' /\ id <= id'.
Proof. exact consumption_durable. Qed.

Theorem c10_outcomes_enumerated : forall tr k o,
  (In o (admissible_outcomes tr k) <-> admissible (drun (firstn k tr)) o) /\
  (admissible (drun (firstn k tr)) o -> exists fb db, o = pick_outcome fb db (drun (firstn k tr))).
Proof.
  intros tr k o. split; [apply admissible_outcomes_spec|].
  intros (Hf & Hd). destruct (adm_is_pick _ _ Hf) as (fb & Ef). destruct (adm_is_pick _ _ Hd) as (db & Ed).
  exists fb, db. destruct o as [fo dd]. cbn in *. unfold pick_outcome. now rewrite Ef, Ed.
Qed.

Theorem c10_strict_acceptor_means : forall acked inflight deliv rec gap,
  c10_strict_ok acked inflight deliv rec gap = true ->
  outs_are deliv (firstn (length deliv) acked) = true /\
  exists p sub, (length deliv <= p <= length deliv + gap)%nat /\ subseq sub inflight /\
                outs_are rec (skipn p acked ++ sub) = true.
Proof. exact c10_strict_means. Qed.

Theorem c10_appends_acceptor_means : forall acked inflight deliv rec gap,
  c10_appends_ok acked inflight deliv rec gap = true ->
  exists p sub, (p <= length deliv + gap)%nat /\ subseq sub inflight /\ outs_are rec (skipn p acked ++ sub) = true.
Proof. exact c10_appends_means. Qed.

(* ---------- non-vacuity ----------
   A recorded-shape SyncEach trace (file creation, two appends with their flushes, one consuming
   read persisting the index): accepted by the protocol predicate of the code as it is, not by the
   fixed one; at the end there are 2 unsynced directory operations, hence 4 outcomes, and the
   acknowledged writes are reflected in every one of them. *)
Definition ex_trace : list ev :=
  [ECreate 1; ESetLen 1 32768; ESyncFile 1; ESyncDir;
   EWrite 1 0 356 11 false; ESyncFile 1; EAck 11;
   EWrite 1 356 3256 12 false; ESyncFile 1; EAck 12;
   ETmpWrite 100 44 1; ESyncFile 100; ERename 100 101; EAckRead 101 1].
Example c10_witness_accepted :
  proto_ok false [(100, 101)] ex_trace = true /\ proto_ok true [(100, 101)] ex_trace = false /\
  length (admissible_outcomes ex_trace 14) = 4%nat /\
  forallb (fun o => reflected_ends o 1 0 356 11 && reflected_ends o 1 356 3256 12) (admissible_outcomes ex_trace 14) = true /\
  map (fun o => version_of o 101) (admissible_outcomes ex_trace 14) = [Some (Some 1); Some (Some 1); None; None].
Proof. vm_compute. repeat split; reflexivity. Qed.

(* the same appends WITHOUT the flushes (what NoFsync issues): the predicate rejects the trace, and
   there is an outcome in which an acknowledged write is gone — the hypothesis is not idle *)
Definition ex_nofsync : list ev :=
  [ECreate 1; ESetLen 1 32768; ESyncFile 1; ESyncDir; EWrite 1 0 356 11 false; EAck 11].
Example c10_witness_unsynced_lost :
  proto_ok false [(100, 101)] ex_nofsync = false /\
  existsb (fun o => negb (reflected_ends o 1 0 356 11)) (admissible_outcomes ex_nofsync 6) = true.
Proof. vm_compute. split; reflexivity. Qed.

(* a directory fsync missing after file creation: the whole file may vanish *)
Definition ex_nodirsync : list ev :=
  [ECreate 1; ESetLen 1 32768; ESyncFile 1; EWrite 1 0 356 11 false; ESyncFile 1; EAck 11].
Example c10_witness_dir_entry_lost :
  proto_ok false [] ex_nodirsync = false /\
  existsb (fun o => negb (reflected_ends o 1 0 356 11)) (admissible_outcomes ex_nodirsync 6) = true.
Proof. vm_compute. split; reflexivity. Qed.

Check c10_appends_durable : forall fixed pairs tr k,
  proto_ok fixed pairs tr = true ->
  forall f off len id os, In (EWrite f off len id os) (firstn k tr) -> In (EAck id) (firstn k tr) ->
  forall o, admissible (drun (firstn k tr)) o -> reflected o f off len id.
Check c10_refuted_index_rename_not_synced :
  exists pairs tr x id o,
    proto_ok false pairs tr = true /\ In (EAckRead x id) tr /\ admissible (drun tr) o /\
    version_of o x = Some (Some 1) /\ 1 < id /\ proto_ok true pairs tr = false.
Check c10_index_old_or_new : forall fixed pairs tr k,
  proto_ok fixed pairs tr = true -> forall t x, In (t, x) pairs ->
  forall o, admissible (drun (firstn k tr)) o ->
  dlook (o_dops o) x = None \/
  exists id, holds_version o x id /\ 0 < id /\ id <= newest_renamed fixed pairs (firstn k tr) x.
Check c10_consumption_durable : forall pairs tr k,
  proto_ok true pairs tr = true ->
  forall x id, In (EAckRead x id) (firstn k tr) ->
  forall o, admissible (drun (firstn k tr)) o -> exists id', holds_version o x id' /\ id <= id'.
Check c10_outcomes_enumerated : forall tr k o,
  (In o (admissible_outcomes tr k) <-> admissible (drun (firstn k tr)) o) /\
  (admissible (drun (firstn k tr)) o -> exists fb db, o = pick_outcome fb db (drun (firstn k tr))).
Check c10_strict_acceptor_means : forall acked inflight deliv rec gap,
  c10_strict_ok acked inflight deliv rec gap = true ->
  outs_are deliv (firstn (length deliv) acked) = true /\
  exists p sub, (length deliv <= p <= length deliv + gap)%nat /\ subseq sub inflight /\
                outs_are rec (skipn p acked ++ sub) = true.
Check c10_appends_acceptor_means : forall acked inflight deliv rec gap,
  c10_appends_ok acked inflight deliv rec gap = true ->
  exists p sub, (p <= length deliv + gap)%nat /\ subseq sub inflight /\ outs_are rec (skipn p acked ++ sub) = true.
Print Assumptions c10_appends_durable.
Print Assumptions c10_refuted_index_rename_not_synced.
Print Assumptions c10_index_old_or_new.
Print Assumptions c10_consumption_durable.
Print Assumptions c10_outcomes_enumerated.
Print Assumptions c10_strict_acceptor_means.
Print Assumptions c10_appends_acceptor_means.
