(* C06 — restarting an instance is invisible to producers and consumers.  Pinned statements only.
   What is PROVED here is the recovery half: for every well-formed file image (any number of
   files, blocks of any extent, never-written blocks anywhere) the startup scan rebuilds, for
   every topic, exactly the entries its blocks hold, in file order, and flags nothing.  The
   whole-history statement C06_full (below) is stated and, for now, decided by the
   correspondence run + the extracted queue acceptors over implementation traces with restarts
   (c01_ok/c15_ok for StrictlyAtOnce, c06alo_ok for AtLeastOnce) + a metamorphic run
   (same history with and without its restarts: same delivered stream, same final counts). *)
From W Require Import gen.Consts model.Base model.Engine model.EngineCfg spec.Queue
  proofs.EngineWF proofs.EngineInv proofs.EngineW proofs.EngineMain proofs.EngineRec proofs.EngineDisk proofs.EnginePos proofs.EngineP3
  proofs.EngineNorm proofs.EngineRestart proofs.EngineReopen proofs.EngineC06 proofs.AloAccP proofs.EngineGen proofs.EngineGenR props.C01.
From Coq Require Import Lia.

(* restarts anywhere in an admissible history; StrictlyAtOnce: the trace with the restart
   events left in is accepted by the same queue acceptors (they ignore OReopen) *)
Definition op_ok_r (c : Cfg) (o : op) : Prop := match o with OReopen => True | _ => op_ok c o end.
Definition C06_full : Prop := forall (c : Cfg) (be : backend) (ops : list op),
  cfg_ok c -> Forall (op_ok_r c) ops ->
  c01_ok (trace (env_of c Strict be) init ops) = true /\ c15_ok (trace (env_of c Strict be) init ops) = true.

Theorem c06_recovery_complete_partial : forall c, 0 < c_hdr c -> 0 < c_block c -> forall nfiles f disk next_id acc,
  Forall (dwf c) disk ->
  let '(acc', id') := scan_files c nfiles f disk next_id acc in
  rc_flag acc' = rc_flag acc /\
  forall t, chain_ents (rc_get (rc_chains acc') t) = chain_ents (rc_get (rc_chains acc) t) ++ files_ents t nfiles f disk.
Proof. exact scan_files_complete. Qed.

(* the on-disk image the engine model maintains reflects the topics' streams along EVERY
   admissible restart-free history (invariant DIs, proofs/EngineDisk.v: well-formed blocks,
   one image per block key, files in allocation order, per-topic entries = the topic's stream),
   hence a restart at the end of any such history — equally a process crash between two
   operations, which leaves the same image — rebuilds every topic's stream exactly: nothing
   lost, nothing duplicated, nothing reordered, no foreign entry.  (Rejected operations,
   oversize entries, multi-unit blocks, never-written blocks and file roll-overs included.)
   Not yet covered by a theorem: the consumer's position after the restart, and histories
   with more than one restart (C06_full). *)
Theorem c06_restart_rebuilds_streams_partial : forall (c : Cfg) (m : mode) (be : backend) (ops : list op),
  cfg_ok c -> Forall (op_ok c) ops ->
  N.of_nat (length (offered_all ops)) <= u64_max -> sum_len (offered_all ops) <= u64_max ->
  forall t, stream (get_ts (reopen c (exec (env_of c m be) init ops)) t) = stream (get_ts (exec (env_of c m be) init ops) t).
Proof. exact restart_rebuilds_streams. Qed.

(* non-vacuity and regression witnesses (all three were wrong on the pinned tree; fixed by
   6016445, a9c79b9, 0e1f235): a never-written first block in front of other topics' blocks, a
   multi-unit block with entries behind the large one, a sealed-position cursor behind a block
   that had been sealed empty *)
Definition t2 : topic := {| t_id := 2; t_nlen := 2 |}.
Definition t3 : topic := {| t_id := 3; t_nlen := 2 |}.
Example c06_witness_zero_block_and_multiunit :
  map snd (trace (env_of small_cfg Strict Mmap) init
     [OBatch t1 []; OAppend t2 (e 0 100); OAppend t3 (e 2 5000); OAppend t3 (e 3 10); OAppend t2 (e 4 3000);
      OReopen; OCount t2; OCount t3; OBatchRead t2 100000 true None; OBatchRead t3 100000 true None; OReopen;
      ORead t2 true; OCount t3])
  = [ROk; ROk; ROk; ROk; ROk; ROk; RNum 2; RNum 2; REntries [out_of (e 0 100); out_of (e 4 3000)];
     REntries [out_of (e 2 5000); out_of (e 3 10)]; ROk; RNone; RNum 0].
Proof. vm_compute. reflexivity. Qed.
Example c06_witness_sealed_position_after_empty_block :
  map snd (trace (env_of small_cfg Strict Fd) init
     [OAppend t1 (e 0 5000); OAppend t1 (e 1 2000); OAppend t1 (e 2 2000); ORead t1 true; OReopen; OCount t1;
      ORead t1 true; ORead t1 true; ORead t1 true])
  = [ROk; ROk; ROk; REntry (out_of (e 0 5000)); ROk; RNum 2; REntry (out_of (e 1 2000)); REntry (out_of (e 2 2000)); RNone].
Proof. vm_compute. reflexivity. Qed.

(* ------------------------------------------------------------------ histories WITH restarts *)
(* The known class, as a boolean of the model state at the moment of a restart:
     id_drift c s   (model/Engine.v)      a restart would renumber some written block
   outside_known v s ops evaluates it at every OReopen of the run.  (Until fix 5104140 there was a
   second class, "stale provisional tail position": an empty poll on an EMPTY writer block persisted
   a tail position naming a block that a restart does not rebuild — everything delivered again
   by read_next, unread entries skipped by batch_read.  Since the repair no reachable state has a
   stale position: c06_no_stale_position below; the predicate stale_tail_b stays extracted and is
   evaluated by the check as a regression guard.)  C06_full restricted to such histories: *)
Theorem c06_full_outside_known : forall (c : Cfg) (be : backend) (ops : list op),
  cfg_ok c -> Forall (op_ok_r c) ops ->
  N.of_nat (length (offered_all ops)) <= u64_max -> sum_len (offered_all ops) <= u64_max ->
  outside_known (env_of c Strict be) init ops = true ->
  c01_ok (trace (env_of c Strict be) init ops) = true /\ c15_ok (trace (env_of c Strict be) init ops) = true.
Proof. intros c be ops Hc _ HB HBb Ho. exact (restart_from_init c be ops Hc Ho HB HBb). Qed.

(* the invariant behind it, along every such history (any number of restarts): per topic, with the
   pending hydration carried out in either read path's flavour [x], the per-topic invariant TInv,
   the POSITION INVARIANT P3 and PG (the persisted position denotes exactly the unread entries)
   and agreement with the queue ledger; plus the disk invariants *)
Theorem c06_invariant_with_restarts : forall (c : Cfg) (be : backend) (ops : list op),
  cfg_ok c -> N.of_nat (length (offered_all ops)) <= u64_max -> sum_len (offered_all ops) <= u64_max ->
  outside_known (env_of c Strict be) init ops = true ->
  exists B' Bb', G c (exec (env_of c Strict be) init ops) (ledger_run [] (trace (env_of c Strict be) init ops)) B' Bb' /\
                 PG c (exec (env_of c Strict be) init ops).
Proof. exact G_from_init. Qed.

(* no reachable state (any history, any number of restarts outside block-id drift) has a stale
   persisted position: every persisted tail position names a block that holds entries *)
Theorem c06_no_stale_position : forall (c : Cfg) (be : backend) (ops : list op),
  cfg_ok c -> N.of_nat (length (offered_all ops)) <= u64_max -> sum_len (offered_all ops) <= u64_max ->
  outside_known (env_of c Strict be) init ops = true ->
  forall t p, ts_index (get_ts (exec (env_of c Strict be) init ops) t) = Some p ->
              stale_p (memne (get_ts (exec (env_of c Strict be) init ops) t)) p = false.
Proof. exact stale_tail_never. Qed.

(* a restart at the end of such a history: per topic the stream, the unread entries (whichever
   read path hydrates first, [x]/[y]) and the reported count are what they were *)
Theorem c06_restart_preserves_cursor : forall (c : Cfg) (be : backend) (ops : list op), cfg_ok c ->
  outside_known (env_of c Strict be) init (ops ++ [OReopen]) = true ->
  N.of_nat (length (offered_all ops)) <= u64_max -> sum_len (offered_all ops) <= u64_max ->
  let s := exec (env_of c Strict be) init ops in
  forall t x y,
    stream (get_ts (reopen c s) t) = stream (get_ts s t) /\
    unread c (nrm x (get_ts (reopen c s) t)) = unread c (nrm y (get_ts s t)) /\
    cnt (get_ts (reopen c s) t) = cnt (get_ts s t) /\
    cnt (get_ts (reopen c s) t) = N.of_nat (length (unread c (nrm x (get_ts (reopen c s) t)))).
Proof. exact restart_preserves_cursor. Qed.

(* ANY consistency mode (AtLeastOnce{n} in particular; StrictlyAtOnce too): every history of appends,
   batches, read_next, batch reads, counts and ANY NUMBER of restarts outside block-id drift is accepted
   by the extracted AtLeastOnce acceptor c06alo_ok (spec/Queue.v): no entry is lost, nothing is
   reordered; after a restart a suffix of what was already delivered may be delivered again.
   Behind it (proofs/EngineGen.v, EngineGenR.v, AloAccP.v): the invariant GM of raw states with a
   ledger whose l_del is the consumer's true position; every non-restart step satisfies the
   exactly-once step condition w.r.t. that ledger; a restart moves positions BACK to the persisted
   ones, never forward (GM_reopen, RB); such ledger runs are accepted (alo_accepts). *)
Theorem c06_alo_outside_known : forall (c : Cfg) (m : mode) (be : backend) (ops : list op),
  cfg_ok c -> Forall (op_ok_r c) ops ->
  N.of_nat (length (offered_all ops)) <= u64_max -> sum_len (offered_all ops) <= u64_max ->
  outside_known (env_of c m be) init ops = true ->
  c06alo_ok (trace (env_of c m be) init ops) = true.
Proof. intros c m be ops Hc _ HB HBb Ho. exact (restart_alo_from_init c m be ops Hc Ho HB HBb). Qed.

(* non-vacuity: AtLeastOnce{3}, two restarts, entries delivered again after each (e 3; then e 3 and e 4,
   by a batch read): accepted by c06alo_ok, rejected by the exactly-once acceptor c01_ok *)
Example c06_alo_witness :
  let ops := [OAppend t1 (e 0 10); OAppend t1 (e 1 10); OAppend t1 (e 2 10); OAppend t1 (e 3 10); OAppend t1 (e 4 10);
              ORead t1 true; ORead t1 true; ORead t1 true; ORead t1 true; OReopen; ORead t1 true; ORead t1 true;
              OReopen; OBatchRead t1 100000 true None; OAppend t1 (e 5 10); ORead t1 true; ORead t1 true] in
  outside_known (env_of small_cfg (ALO 3) Fd) init ops = true /\
  map snd (trace (env_of small_cfg (ALO 3) Fd) init ops)
  = [ROk; ROk; ROk; ROk; ROk; REntry (out_of (e 0 10)); REntry (out_of (e 1 10)); REntry (out_of (e 2 10));
     REntry (out_of (e 3 10)); ROk; REntry (out_of (e 3 10)); REntry (out_of (e 4 10)); ROk;
     REntries [out_of (e 3 10); out_of (e 4 10)]; ROk; REntry (out_of (e 5 10)); RNone] /\
  c06alo_ok (trace (env_of small_cfg (ALO 3) Fd) init ops) = true /\
  c01_ok (trace (env_of small_cfg (ALO 3) Fd) init ops) = false.
Proof. vm_compute. repeat split; reflexivity. Qed.

(* C06_full itself is FALSE for the model (and the code): block-id drift *)
Definition t4 : topic := {| t_id := 4; t_nlen := 2 |}.
Definition t5 : topic := {| t_id := 5; t_nlen := 2 |}.
Definition t6 : topic := {| t_id := 6; t_nlen := 2 |}.
Definition t7 : topic := {| t_id := 7; t_nlen := 2 |}.
Definition t8 : topic := {| t_id := 8; t_nlen := 2 |}.
(* corpus/C06/iddrift.case *)
Definition drift_ops : list op :=
  [OAppend t1 (e 0 10); OAppend t2 (e 1 10); OAppend t3 (e 2 10); OAppend t4 (e 3 10); OAppend t5 (e 4 10);
   OAppend t6 (e 5 10); OAppend t7 (e 6 10); OAppend t8 (e 7 5000); OAppend t8 (e 8 100); ORead t8 true; OCount t8].
(* corpus/C06/staletail.case (regression, wrong before fix 5104140): both entries consumed; after a
   restart a rejected append creates an empty writer block, an empty poll; next restart *)
Definition stale_ops : list op :=
  [OAppend t1 (e 0 10); OAppend t1 (e 1 10); ORead t1 true; ORead t1 true; OReopen; OAppend t1 (e 2 20000); ORead t1 true].

Theorem c06_refuted_id_drift :
  id_drift small_cfg (exec (env_of small_cfg Strict Fd) init drift_ops) = true /\
  stale_tail (exec (env_of small_cfg Strict Fd) init drift_ops) = false /\
  map snd (trace (env_of small_cfg Strict Fd) init (drift_ops ++ [OReopen; OCount t8; ORead t8 true]))
  = [ROk; ROk; ROk; ROk; ROk; ROk; ROk; ROk; ROk; REntry (out_of (e 7 5000)); RNum 1; ROk; RNum 2; REntry (out_of (e 7 5000))] /\
  c01_ok (trace (env_of small_cfg Strict Fd) init (drift_ops ++ [OReopen; OCount t8; ORead t8 true])) = false /\
  c15_ok (trace (env_of small_cfg Strict Fd) init (drift_ops ++ [OReopen; OCount t8; ORead t8 true])) = false.
Proof. vm_compute. repeat split; reflexivity. Qed.

(* regression witnesses of fix 5104140: the empty poll no longer persists a position on the empty
   block; after the restart nothing is delivered again (was: count 2, both entries again) ... *)
Example c06_stale_tail_repaired :
  stale_tail (exec (env_of small_cfg Strict Fd) init stale_ops) = false /\
  map snd (trace (env_of small_cfg Strict Fd) init (stale_ops ++ [OReopen; OCount t1; ORead t1 true; ORead t1 true; ORead t1 true]))
  = [ROk; ROk; REntry (out_of (e 0 10)); REntry (out_of (e 1 10)); ROk; RErr EInvalidInput; RNone; ROk; RNum 0;
     RNone; RNone; RNone] /\
  outside_known (env_of small_cfg Strict Fd) init (stale_ops ++ [OReopen; OCount t1; ORead t1 true]) = true.
Proof. vm_compute. repeat split; reflexivity. Qed.

(* ... and the batch-read flavour no longer loses the entry (was: REntries [], RNone, count 1) *)
Example c06_stale_tail_batch_read_repaired :
  let ops := [OAppend t1 (e 0 20000); ORead t1 true; OAppend t1 (e 1 5000)] in
  stale_tail (exec (env_of small_cfg Strict Fd) init ops) = false /\
  map snd (trace (env_of small_cfg Strict Fd) init (ops ++ [OReopen; OCount t1; OBatchRead t1 100000 true None; ORead t1 true; OCount t1]))
  = [RErr EInvalidInput; RNone; ROk; ROk; RNum 1; REntries [out_of (e 1 5000)]; RNone; RNum 0].
Proof. vm_compute. split; reflexivity. Qed.

Theorem c06_full_refuted : ~ C06_full.
Proof.
  intros H. specialize (H small_cfg Fd (drift_ops ++ [OReopen; OCount t8; ORead t8 true]) small_cfg_ok).
  assert (Hok : Forall (op_ok_r small_cfg) (drift_ops ++ [OReopen; OCount t8; ORead t8 true])) by (repeat constructor).
  destruct (H Hok) as (H1 & _). destruct c06_refuted_id_drift as (_ & _ & _ & H2 & _). congruence.
Qed.

(* non-vacuity of the hypothesis: histories with two restarts each that stay outside the known class *)
Example c06_outside_known_witness :
  outside_known (env_of small_cfg Strict Mmap) init
     [OBatch t1 []; OAppend t2 (e 0 100); OAppend t3 (e 2 5000); OAppend t3 (e 3 10); OAppend t2 (e 4 3000);
      OReopen; OCount t2; OCount t3; OBatchRead t2 100000 true None; OBatchRead t3 100000 true None; OReopen;
      ORead t2 true; OCount t3] = true /\
  outside_known (env_of small_cfg Strict Fd) init
     [OAppend t1 (e 0 5000); OAppend t1 (e 1 2000); OAppend t1 (e 2 2000); ORead t1 true; OReopen; OCount t1;
      ORead t1 true; OAppend t1 (e 3 7); OReopen; ORead t1 true; ORead t1 true; ORead t1 true] = true /\
  outside_known (env_of small_cfg Strict Fd) init (drift_ops ++ [OReopen]) = false.
Proof. vm_compute. repeat split; reflexivity. Qed.

Check c06_recovery_complete_partial : forall c, 0 < c_hdr c -> 0 < c_block c -> forall nfiles f disk next_id acc,
  Forall (dwf c) disk ->
  let '(acc', id') := scan_files c nfiles f disk next_id acc in
  rc_flag acc' = rc_flag acc /\
  forall t, chain_ents (rc_get (rc_chains acc') t) = chain_ents (rc_get (rc_chains acc) t) ++ files_ents t nfiles f disk.
Print Assumptions c06_recovery_complete_partial.
Check c06_restart_rebuilds_streams_partial : forall (c : Cfg) (m : mode) (be : backend) (ops : list op),
  cfg_ok c -> Forall (op_ok c) ops ->
  N.of_nat (length (offered_all ops)) <= u64_max -> sum_len (offered_all ops) <= u64_max ->
  forall t, stream (get_ts (reopen c (exec (env_of c m be) init ops)) t) = stream (get_ts (exec (env_of c m be) init ops) t).
Print Assumptions c06_restart_rebuilds_streams_partial.
Check c06_full_outside_known : forall (c : Cfg) (be : backend) (ops : list op),
  cfg_ok c -> Forall (op_ok_r c) ops ->
  N.of_nat (length (offered_all ops)) <= u64_max -> sum_len (offered_all ops) <= u64_max ->
  outside_known (env_of c Strict be) init ops = true ->
  c01_ok (trace (env_of c Strict be) init ops) = true /\ c15_ok (trace (env_of c Strict be) init ops) = true.
Print Assumptions c06_full_outside_known.
Check c06_invariant_with_restarts : forall (c : Cfg) (be : backend) (ops : list op),
  cfg_ok c -> N.of_nat (length (offered_all ops)) <= u64_max -> sum_len (offered_all ops) <= u64_max ->
  outside_known (env_of c Strict be) init ops = true ->
  exists B' Bb', G c (exec (env_of c Strict be) init ops) (ledger_run [] (trace (env_of c Strict be) init ops)) B' Bb' /\
                 PG c (exec (env_of c Strict be) init ops).
Print Assumptions c06_invariant_with_restarts.
Check c06_no_stale_position : forall (c : Cfg) (be : backend) (ops : list op),
  cfg_ok c -> N.of_nat (length (offered_all ops)) <= u64_max -> sum_len (offered_all ops) <= u64_max ->
  outside_known (env_of c Strict be) init ops = true ->
  forall t p, ts_index (get_ts (exec (env_of c Strict be) init ops) t) = Some p ->
              stale_p (memne (get_ts (exec (env_of c Strict be) init ops) t)) p = false.
Print Assumptions c06_no_stale_position.
Check c06_restart_preserves_cursor : forall (c : Cfg) (be : backend) (ops : list op), cfg_ok c ->
  outside_known (env_of c Strict be) init (ops ++ [OReopen]) = true ->
  N.of_nat (length (offered_all ops)) <= u64_max -> sum_len (offered_all ops) <= u64_max ->
  let s := exec (env_of c Strict be) init ops in
  forall t x y,
    stream (get_ts (reopen c s) t) = stream (get_ts s t) /\
    unread c (nrm x (get_ts (reopen c s) t)) = unread c (nrm y (get_ts s t)) /\
    cnt (get_ts (reopen c s) t) = cnt (get_ts s t) /\
    cnt (get_ts (reopen c s) t) = N.of_nat (length (unread c (nrm x (get_ts (reopen c s) t)))).
Print Assumptions c06_restart_preserves_cursor.
Check c06_full_refuted : ~ C06_full.
Print Assumptions c06_full_refuted.
Print Assumptions c06_refuted_id_drift.
Check c06_alo_outside_known : forall (c : Cfg) (m : mode) (be : backend) (ops : list op),
  cfg_ok c -> Forall (op_ok_r c) ops ->
  N.of_nat (length (offered_all ops)) <= u64_max -> sum_len (offered_all ops) <= u64_max ->
  outside_known (env_of c m be) init ops = true ->
  c06alo_ok (trace (env_of c m be) init ops) = true.
Print Assumptions c06_alo_outside_known.
