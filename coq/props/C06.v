(* C06 — restarting an instance is invisible to producers and consumers.  Pinned statements only.
   What is PROVED here is the recovery half: for every well-formed file image (any number of
   files, blocks of any extent, never-written blocks anywhere) the startup scan rebuilds, for
   every topic, exactly the entries its blocks hold, in file order, and flags nothing.  The
   whole-history statement C06_full (below) is stated and, for now, decided by the
   correspondence run + the extracted queue acceptors over implementation traces with restarts
   (c01_ok/c15_ok for StrictlyAtOnce, c06alo_ok for AtLeastOnce) + a metamorphic run
   (same history with and without its restarts: same delivered stream, same final counts). *)
From W Require Import gen.Consts model.Base model.Engine model.EngineCfg spec.Queue
  proofs.EngineWF proofs.EngineInv proofs.EngineW proofs.EngineMain proofs.EngineRec proofs.EngineDisk props.C01.
From Coq Require Import Lia.

(* restarts anywhere in an admissible history; StrictlyAtOnce: the trace with the restart
   events left in is accepted by the same queue acceptors (they ignore OReopen) *)
Definition op_ok_r (c : Cfg) (o : op) : Prop := match o with OReopen => True | _ => op_ok c o end.
Definition C06_full : Prop := forall (c : Cfg) (be : backend) (ops : list op),
  cfg_ok c -> Forall (op_ok_r c) ops ->
  c01_ok (trace (env_of c Strict be) init ops) = true /\ c15_ok (trace (env_of c Strict be) init ops) = true.

Theorem c06_recovery_complete_partial : forall c, 0 < c_hdr c -> 0 < c_block c -> forall nfiles f disk next_id acc,
  Forall (dwf c) disk ->
  let '(acc', id') := scan_files c nfiles f disk next_id acc in
  rc_flag acc' = rc_flag acc /\
  forall t, chain_ents (rc_get (rc_chains acc') t) = chain_ents (rc_get (rc_chains acc) t) ++ files_ents t nfiles f disk.
Proof. exact scan_files_complete. Qed.

(* the on-disk image the engine model maintains reflects the topics' streams along EVERY
   admissible restart-free history (invariant DIs, proofs/EngineDisk.v: well-formed blocks,
   one image per block key, files in allocation order, per-topic entries = the topic's stream),
   hence a restart at the end of any such history — equally a process crash between two
   operations, which leaves the same image — rebuilds every topic's stream exactly: nothing
   lost, nothing duplicated, nothing reordered, no foreign entry.  (Rejected operations,
   oversize entries, multi-unit blocks, never-written blocks and file roll-overs included.)
   Not yet covered by a theorem: the consumer's position after the restart, and histories
   with more than one restart (C06_full). *)
Theorem c06_restart_rebuilds_streams_partial : forall (c : Cfg) (m : mode) (be : backend) (ops : list op),
  cfg_ok c -> Forall (op_ok c) ops ->
  N.of_nat (length (offered_all ops)) <= u64_max -> sum_len (offered_all ops) <= u64_max ->
  forall t, stream (get_ts (reopen c (exec (env_of c m be) init ops)) t) = stream (get_ts (exec (env_of c m be) init ops) t).
Proof. exact restart_rebuilds_streams. Qed.

(* non-vacuity and regression witnesses (all three were wrong on the pinned tree; fixed by
   6016445, a9c79b9, 0e1f235): a never-written first block in front of other topics' blocks, a
   multi-unit block with entries behind the large one, a sealed-position cursor behind a block
   that had been sealed empty *)
Definition t2 : topic := {| t_id := 2; t_nlen := 2 |}.
Definition t3 : topic := {| t_id := 3; t_nlen := 2 |}.
Example c06_witness_zero_block_and_multiunit :
  map snd (trace (env_of small_cfg Strict Mmap) init
     [OBatch t1 []; OAppend t2 (e 0 100); OAppend t3 (e 2 5000); OAppend t3 (e 3 10); OAppend t2 (e 4 3000);
      OReopen; OCount t2; OCount t3; OBatchRead t2 100000 true None; OBatchRead t3 100000 true None; OReopen;
      ORead t2 true; OCount t3])
  = [ROk; ROk; ROk; ROk; ROk; ROk; RNum 2; RNum 2; REntries [out_of (e 0 100); out_of (e 4 3000)];
     REntries [out_of (e 2 5000); out_of (e 3 10)]; ROk; RNone; RNum 0].
Proof. vm_compute. reflexivity. Qed.
Example c06_witness_sealed_position_after_empty_block :
  map snd (trace (env_of small_cfg Strict Fd) init
     [OAppend t1 (e 0 5000); OAppend t1 (e 1 2000); OAppend t1 (e 2 2000); ORead t1 true; OReopen; OCount t1;
      ORead t1 true; ORead t1 true; ORead t1 true])
  = [ROk; ROk; ROk; REntry (out_of (e 0 5000)); ROk; RNum 2; REntry (out_of (e 1 2000)); REntry (out_of (e 2 2000)); RNone].
Proof. vm_compute. reflexivity. Qed.

Check c06_recovery_complete_partial : forall c, 0 < c_hdr c -> 0 < c_block c -> forall nfiles f disk next_id acc,
  Forall (dwf c) disk ->
  let '(acc', id') := scan_files c nfiles f disk next_id acc in
  rc_flag acc' = rc_flag acc /\
  forall t, chain_ents (rc_get (rc_chains acc') t) = chain_ents (rc_get (rc_chains acc) t) ++ files_ents t nfiles f disk.
Print Assumptions c06_recovery_complete_partial.
Check c06_restart_rebuilds_streams_partial : forall (c : Cfg) (m : mode) (be : backend) (ops : list op),
  cfg_ok c -> Forall (op_ok c) ops ->
  N.of_nat (length (offered_all ops)) <= u64_max -> sum_len (offered_all ops) <= u64_max ->
  forall t, stream (get_ts (reopen c (exec (env_of c m be) init ops)) t) = stream (get_ts (exec (env_of c m be) init ops) t).
Print Assumptions c06_restart_rebuilds_streams_partial.
