(* C14 — a namespace key always maps to a private directory inside the data dir.
   Only pinned statements; proofs live in proofs/SanitizeP.v. *)
From W Require Import gen.Consts model.Base model.Fnv model.Sanitize proofs.SanitizeP.

(* every key (any list of scalar values, in fact any list of numbers) yields one path
   component that is non-empty, not "." or "..", and free of '/' and NUL *)
Theorem c14_component_safe : forall key : str, safe_component (sanitize key) = true.
Proof. exact sanitize_safe. Qed.

(* the function as it stood at the pinned commit (before the fix: commit) violates it *)
Theorem c14_pinned_refuted :
  safe_component (sanitize_v0 [ch_dot; ch_dot]) = false /\
  safe_component (sanitize_v0 [ch_dot]) = false /\
  sanitize_v0 [ch_dot; ch_dot] = [ch_dot; ch_dot].
Proof. exact sanitize_v0_refuted. Qed.

(* the checksum constants of the model are the ones in src/wal/config.rs today *)
Example c14_fnv_constants_tied : fnv_offset = src_FNV_OFFSET /\ fnv_prime = src_FNV_PRIME.
Proof. split; reflexivity. Qed.

Check c14_component_safe : forall key : str, safe_component (sanitize key) = true.
Print Assumptions c14_component_safe.
Print Assumptions c14_pinned_refuted.
