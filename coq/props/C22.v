(* C22 — every acknowledged PUT is delivered by GET exactly once, in order.
   This file holds only pinned statements; proofs live in proofs/ClusterWit.v (witness
   schedules, evaluated), proofs/ClusterSeq.v (the sequential system, induction over all
   schedules) and proofs/StreamSpecP.v (queue acceptor => the four clauses).
   Model: model/Cluster.v (transition system at the code's await points), restricted scheduler
   model/ClusterSys.v (seq_step); acceptor spec/StreamSpec.v; classes spec/ClusterClass.v. *)
From W Require Import model.Base model.Map model.Bincode model.Meta model.Cluster model.ClusterSys
  spec.StreamSpec spec.ClusterClass proofs.ClusterWit proofs.ClusterSeqN2.

(* the property at full strength: every schedule of the cluster transition system *)
Definition C22_full : Prop := forall cfg sched, c22_ok (cl_trace cfg sched) = true.

(* refuted: verdict 4 = a GET answers EMPTY while an acknowledged PUT was never returned *)
Theorem c22_refuted_ack_after_seal_count : exists cfg sched,
  c22_verdict (cl_trace cfg sched) = 4 /\ c23_verdict cfg (cl_trace cfg sched) = 0 /\ k_under (cl_classes cfg sched) = true.
Proof. exact c22_refuted_1. Qed.

Theorem c22_refuted_reader_lag : exists cfg sched,
  c22_verdict (cl_trace cfg sched) = 4 /\ c23_verdict cfg (cl_trace cfg sched) = 0
  /\ k_lag (cl_classes cfg sched) = true /\ k_under (cl_classes cfg sched) = false.
Proof. exact c22_refuted_3. Qed.

Theorem c22_refuted_offsets_lost_on_restart : exists cfg sched,
  c22_verdict (cl_trace cfg sched) = 4 /\ c23_verdict cfg (cl_trace cfg sched) = 0 /\ k_reset (cl_classes cfg sched) = true.
Proof. exact c22_refuted_4. Qed.

Theorem c22_full_refuted : ~ (forall cfg sched, c22_ok (cl_trace cfg sched) = true).
Proof. exact c22_full_false. Qed.

(* the predicted "double rollover" defect is NOT one by itself: a schedule with two rollovers
   proposed from one counter that is accepted (the second only over-states a sealed count) *)
Theorem c22_double_rollover_accepted : exists cfg sched,
  k_double (cl_classes cfg sched) = true /\ c22_verdict (cl_trace cfg sched) = 0 /\ c23_verdict cfg (cl_trace cfg sched) = 0.
Proof. exact c22_double_2. Qed.

(* the lock that repairs C23 does not repair C22 *)
Theorem c22_refuted_under_fence : exists cfg sched, c22_verdict (fenced_trace cfg sched) = 4.
Proof. exact fence_keeps_c22_broken. Qed.

(* positive, ALL schedules of the sequential system: one node, operations (client operations,
   lease-loop rounds, monitor rounds) never overlap, apply synchronous with propose, no restart *)
Theorem c22_single_node_sequential_partial : forall cfg sched,
  cf_nodes cfg = 1 -> cf_lead cfg = 1 -> 1 <= cf_thr cfg -> c22_ok (seq_trace cfg sched) = true.
Proof. exact seq_accepted. Qed.

(* the same for ANY configuration — any number of nodes, any placement of the topic leader, any
   threshold, any clients: ALL schedules of the sequential system (operations never overlap,
   every node applies a proposed command before the next event, no restart) satisfy all four
   clauses.  No hypothesis on cfg is needed: an operation sent to a node that does not exist,
   or routed to a leader that is not a node, is answered with an error and writes nothing. *)
Theorem c22_sequential_any_nodes_partial : forall cfg sched, c22_ok (seq_trace cfg sched) = true.
Proof. exact seq_accepted_any. Qed.

(* what is still open on the positive side: the concurrent system outside the known classes
   (supported only by search: no unclassified failure in > 14 000 model runs) *)
Definition C22_outside_known_open : Prop :=
  forall cfg sched, c22_known cfg sched = false -> c22_ok (cl_trace cfg sched) = true.

(* non-vacuity for three nodes: topic led by node 2, threshold 2, PUTs and GETs sent to all three
   nodes (forwarded appends, reads and proposals), two rollovers (leader 2 -> 3 -> 1), the five
   payloads returned in acknowledgement order, then EMPTY; 5 engine writes *)
Example c22_witness_sequential_three_nodes :
  nv3_summary = (0, [CRVal (0, 0); CRVal (0, 1); CRVal (0, 2); CRVal (0, 3); CRVal (0, 4); CREmpty], 2%nat, 5%nat).
Proof. vm_compute. reflexivity. Qed.

(* non-vacuity: the sequential system really delivers (5 PUTs, threshold 2, two rollovers,
   5 values in order, then EMPTY) *)
Example c22_witness_sequential :
  (c22_verdict (seq_trace nv_cfg nv_sched),
   length (filter (fun u => match u with EResp _ _ (CRVal _) => true | _ => false end) (events (seq_trace nv_cfg nv_sched))),
   length (filter (fun u => match u with EL _ _ => true | _ => false end) (events (seq_trace nv_cfg nv_sched))))
  = (0, 5%nat, 2%nat).
Proof. vm_compute. reflexivity. Qed.

Check c22_refuted_ack_after_seal_count : exists cfg sched,
  c22_verdict (cl_trace cfg sched) = 4 /\ c23_verdict cfg (cl_trace cfg sched) = 0 /\ k_under (cl_classes cfg sched) = true.
Check c22_refuted_reader_lag : exists cfg sched,
  c22_verdict (cl_trace cfg sched) = 4 /\ c23_verdict cfg (cl_trace cfg sched) = 0
  /\ k_lag (cl_classes cfg sched) = true /\ k_under (cl_classes cfg sched) = false.
Check c22_refuted_offsets_lost_on_restart : exists cfg sched,
  c22_verdict (cl_trace cfg sched) = 4 /\ c23_verdict cfg (cl_trace cfg sched) = 0 /\ k_reset (cl_classes cfg sched) = true.
Check c22_full_refuted : ~ (forall cfg sched, c22_ok (cl_trace cfg sched) = true).
Check c22_double_rollover_accepted : exists cfg sched,
  k_double (cl_classes cfg sched) = true /\ c22_verdict (cl_trace cfg sched) = 0 /\ c23_verdict cfg (cl_trace cfg sched) = 0.
Check c22_refuted_under_fence : exists cfg sched, c22_verdict (fenced_trace cfg sched) = 4.
Check c22_single_node_sequential_partial : forall cfg sched,
  cf_nodes cfg = 1 -> cf_lead cfg = 1 -> 1 <= cf_thr cfg -> c22_ok (seq_trace cfg sched) = true.
Check c22_sequential_any_nodes_partial : forall cfg sched, c22_ok (seq_trace cfg sched) = true.
Print Assumptions c22_refuted_ack_after_seal_count.
Print Assumptions c22_refuted_reader_lag.
Print Assumptions c22_refuted_offsets_lost_on_restart.
Print Assumptions c22_full_refuted.
Print Assumptions c22_double_rollover_accepted.
Print Assumptions c22_refuted_under_fence.
Print Assumptions c22_single_node_sequential_partial.
Print Assumptions c22_sequential_any_nodes_partial.
