(* C25 — segment storage keys map one-to-one to (topic, segment).
   This file holds only pinned statements; proofs live in proofs/WalKeyP.v. *)
From W Require Import model.Base model.WalKey proofs.WalKeyP.

Theorem c25_roundtrip : forall (topic : str) (n : N), n < two64 ->
  parse_wal_key (wal_key topic n) = Some (topic, n).
Proof. exact wal_key_roundtrip. Qed.

Theorem c25_injective : forall t1 n1 t2 n2, n1 < two64 -> n2 < two64 ->
  wal_key t1 n1 = wal_key t2 n2 -> t1 = t2 /\ n1 = n2.
Proof. exact wal_key_injective. Qed.

(* non-vacuity: a topic that itself contains "_s_", "t_" and digits *)
Example c25_witness :
  parse_wal_key (wal_key [116;95;95;115;95;57;95;115;95] 18446744073709551615)
  = Some ([116;95;95;115;95;57;95;115;95], 18446744073709551615).
Proof. vm_compute. reflexivity. Qed.

Check c25_roundtrip : forall (topic : str) (n : N), n < two64 ->
  parse_wal_key (wal_key topic n) = Some (topic, n).
Check c25_injective : forall t1 n1 t2 n2, n1 < two64 -> n2 < two64 ->
  wal_key t1 n1 = wal_key t2 n2 -> t1 = t2 /\ n1 = n2.
Print Assumptions c25_roundtrip.
Print Assumptions c25_injective.
