(* PowerLossP.v — the C10 acceptor says what it is meant to say. *)
From W Require Import model.Base model.Engine spec.Queue spec.PowerLoss.
From Coq Require Import ZArith ZifyBool ZifyN ZifyNat.

Inductive subseq {A : Type} : list A -> list A -> Prop :=
| ss_nil l : subseq [] l
| ss_take x s l : subseq s l -> subseq (x :: s) (x :: l)
| ss_skip x s l : subseq s l -> subseq s (x :: l).

Lemma outs_are_app os1 es1 os2 es2 : outs_are os1 es1 = true -> outs_are os2 es2 = true -> outs_are (os1 ++ os2) (es1 ++ es2) = true.
Proof.
  revert es1. induction os1 as [|o os1 IH]; intros [|e es1] H1 H2; cbn in *; try discriminate; [assumption|].
  apply andb_prop in H1. destruct H1 as (-> & H1). cbn. now apply IH.
Qed.

Lemma is_subseq_spec os es : is_subseq os es = true -> exists sub, subseq sub es /\ outs_are os sub = true.
Proof.
  revert os. induction es as [|e es IH]; intros os H; cbn in H.
  - destruct os; [|discriminate]. exists []. split; [constructor|reflexivity].
  - destruct os as [|o os]; [exists []; split; [constructor|reflexivity]|].
    destruct (out_is o e) eqn:E.
    + destruct (IH _ H) as (sub & Hs & Ho). exists (e :: sub). split; [now constructor|]. cbn. now rewrite E, Ho.
    + destruct (IH _ H) as (sub & Hs & Ho). exists sub. split; [now constructor|assumption].
Qed.

Theorem c10_one_means lo hi acked inflight deliv rec :
  c10_one lo hi acked inflight deliv rec = true ->
  outs_are deliv (firstn (length deliv) acked) = true /\
  exists p sub, (lo <= p <= hi)%nat /\ subseq sub inflight /\ outs_are rec (skipn p acked ++ sub) = true.
Proof.
  unfold c10_one. intros H. apply andb_prop in H. destruct H as (Hd & H). split; [assumption|].
  apply existsb_exists in H. destruct H as (p & Hin & Hp). apply in_seq in Hin.
  unfold c10_at in Hp. apply andb_prop in Hp. destruct Hp as (Hp & Hs). apply andb_prop in Hp. destruct Hp as (Hl & Ho).
  destruct (is_subseq_spec _ _ Hs) as (sub & Hsub & Hos).
  exists p, sub. split; [lia|]. split; [assumption|].
  rewrite <- (firstn_skipn (length (skipn p acked)) rec). now apply outs_are_app.
Qed.

(* Strict: nothing delivered again, nothing skipped, every acknowledged entry accounted for *)
Theorem c10_strict_means acked inflight deliv rec gap :
  c10_strict_ok acked inflight deliv rec gap = true ->
  outs_are deliv (firstn (length deliv) acked) = true /\
  exists p sub, (length deliv <= p <= length deliv + gap)%nat /\ subseq sub inflight /\
                outs_are rec (skipn p acked ++ sub) = true.
Proof.
  unfold c10_strict_ok. intros H. apply c10_one_means in H. destruct H as (Hd & p & sub & Hp & Hs & Ho).
  split; [assumption|]. exists p, sub. split; [lia|]. split; assumption.
Qed.

(* with no read in flight the recovered instance continues exactly where the consumer stood *)
Corollary c10_strict_exact acked deliv rec :
  c10_strict_ok acked [] deliv rec 0 = true -> outs_are (deliv ++ rec) acked = true.
Proof.
  intros H. apply c10_strict_means in H. destruct H as (Hd & p & sub & Hp & Hs & Ho).
  inversion Hs; subst. rewrite app_nil_r in Ho. assert (p = length deliv) by lia. subst p.
  rewrite <- (firstn_skipn (length deliv) acked). now apply outs_are_app.
Qed.

Theorem c10_appends_means acked inflight deliv rec gap :
  c10_appends_ok acked inflight deliv rec gap = true ->
  exists p sub, (p <= length deliv + gap)%nat /\ subseq sub inflight /\ outs_are rec (skipn p acked ++ sub) = true.
Proof.
  unfold c10_appends_ok. intros H. apply c10_one_means in H. destruct H as (Hd & p & sub & Hp & Hs & Ho).
  exists p, sub. split; [lia|]. split; assumption.
Qed.
