(* ClusterKnown.v — outside the known class of C23 the property holds, for ALL schedules:
   if the model's run of a case never raises k_ctw / k_stale (no engine append into a segment
   that is sealed in the writer's metadata at that moment), the C23 acceptor accepts the
   trace.  Together with never_foreign this says the two mechanisms are the only ones. *)
From Coq Require Import ZArith ZifyBool ZifyN ZifyNat.
From W Require Import model.Base model.Map model.Bincode model.Meta model.Cluster model.ClusterSys
  spec.StreamSpec spec.ClusterClass proofs.MapP proofs.MetaP proofs.ClusterP proofs.ClusterFence.

Definition bad (g : ghost) : bool := g_ctw g || g_stale g.

Lemma ghost_sub_bad s e g u :
  bad (ghost_sub s e g u) =
  bad g || match u with EW n seg _ _ => node_sealed s n seg | _ => false end.
Proof.
  destruct u; cbn [ghost_sub]; try (now rewrite orb_false_r).
  - destruct r; cbn [ghost_sub]; unfold bad; cbn; now rewrite orb_false_r.
  - unfold bad. cbn [g_ctw g_stale]. destruct (node_sealed s n seg); [|now rewrite !andb_false_l, !orb_false_r].
    cbn [andb]. destruct (g_ctw g), (g_stale g), (match e with EvC i => _ | _ => false end); reflexivity.
Qed.

Lemma fold_sub_bad s e subs : forall g,
  bad (fold_left (ghost_sub s e) subs g) =
  bad g || existsb (fun u => match u with EW n seg _ _ => node_sealed s n seg | _ => false end) subs.
Proof.
  induction subs as [|u r IH]; intros g; cbn [fold_left existsb]; [now rewrite orb_false_r|].
  rewrite IH, ghost_sub_bad. now rewrite orb_assoc.
Qed.

Lemma ghost_pc_bad s e s' g : bad (ghost_pc s e s' g) = bad g.
Proof.
  unfold ghost_pc. destruct (pc_of_ev s e) as [pc|]; [|reflexivity].
  destruct pc; try reflexivity; destruct (pc_of_ev s' e) as [pc'|]; try reflexivity;
    destruct pc'; try reflexivity; destruct e; reflexivity.
Qed.

Lemma ghost_restart_bad s e t g : bad (ghost_restart s e t g) = bad g.
Proof. unfold ghost_restart. destruct e; try reflexivity. destruct (fst t); reflexivity. Qed.

Lemma run_g_mono cfg sched : forall s g, bad g = true -> bad (snd (cl_run_g cfg s g sched)) = true.
Proof.
  induction sched as [|e r IH]; intros s g H; cbn [cl_run_g]; [exact H|].
  destruct (cl_step cfg s e) as [s1 t]. apply IH.
  rewrite ghost_restart_bad, ghost_pc_bad, fold_sub_bad, H. reflexivity.
Qed.

(* c23_scan along one exec_pc, knowing only that a PSpawn writes into an unsealed, own segment *)
Lemma exec_pc_scan3 cfg s p pc s1 out :
  nodes_ok s ->
  (forall e seg att x, pc = PSpawn e seg att -> get_node s e = Some x ->
     sealed_in (nd_meta x) seg = false /\ foreign_in (nd_meta x) e seg = false) ->
  exec_pc cfg s p pc = (s1, out) ->
  forall rest, c23_scan (s_log s) (out_subs out ++ rest) = c23_scan (s_log s1) rest.
Proof.
  intros Hn Hp H rest.
  destruct pc; cbn [exec_pc] in H; break_match_in H; inversion H; subst; try trivscan.
  - cbn [out_subs set_node s_log c23_scan app] in *.
    match goal with Hg : get_node s e = Some ?x |- _ =>
      destruct (Hn _ _ Hg) as [A B C D]; destruct (Hp _ _ _ _ eq_refl Hg) as [P1 P2] end.
    match goal with |- context [Nat.ltb ?a ?b] => replace (Nat.ltb a b) with false by (symmetry; apply Nat.ltb_ge; lia) end.
    rewrite <- B, P1, P2. reflexivity.
  - cbn [out_subs s_log c23_scan app]. now rewrite Nat.eqb_refl.
  - match goal with E : _ = (_, ?o) |- _ =>
      assert (Ho : out_subs o = []) by (break_match_in E; inversion E; reflexivity) end.
    rewrite Ho. reflexivity.
  - match goal with E : _ = (_, ?o) |- _ =>
      assert (Ho : out_subs o = []) by (break_match_in E; inversion E; reflexivity) end.
    rewrite Ho. reflexivity.
Qed.

Lemma spawn_subs cfg s p e seg att s1 out x :
  exec_pc cfg s p (PSpawn e seg att) = (s1, out) -> get_node s e = Some x ->
  In (EW e seg p (nd_applied x)) (out_subs out).
Proof. cbn [exec_pc]. intros H Hg. rewrite Hg in H. inversion H. cbn. now left. Qed.

Lemma step_scan_unsealed cfg s ev s' t :
  Inv1 s -> cl_step cfg s ev = (s', t) ->
  (forall n seg p a, In (EW n seg p a) (snd t) -> node_sealed s n seg = false) ->
  forall rest, c23_scan (s_log s) (snd t ++ rest) = c23_scan (s_log s') rest.
Proof.
  intros Hi H Hu rest.
  destruct (is_task ev) eqn:Ht.
  - destruct (task_anatomy _ _ _ _ _ Ht H) as [[-> Hs]|(s1 & out & A)]; [now rewrite Hs|].
    destruct A as [Src (pre & post & Hsubs & Ppre & Ppost) An Al Apc Ao].
    rewrite Hsubs, <- !app_assoc, (scan_plain _ Ppre).
    assert (K : c23_scan (s_log s) (out_subs out ++ post ++ rest) = c23_scan (s_log s1) (post ++ rest)).
    { destruct Src as [(pc & p & Hpc & He)|(o & Hpc & -> & ->)].
      - apply (exec_pc_scan3 cfg s p pc); auto; [apply Hi|].
        intros e seg att x -> Hg. split.
        + specialize (Hu e seg p (nd_applied x)). unfold node_sealed in Hu. rewrite Hg in Hu. apply Hu.
          rewrite Hsubs. apply in_or_app. right. apply in_or_app. left. eapply spawn_subs; eauto.
        + apply led_not_foreign. destruct Hi as [_ Hp]. rewrite Forall_forall in Hp.
          specialize (Hp _ (pc_of_in_all _ _ _ Hpc)). cbn [opc_ok pc_ok] in Hp. now apply Hp.
      - destruct (invoke_ok s o (i1_nodes _ Hi)) as [_ ->]. reflexivity. }
    rewrite K, (scan_plain _ Ppost), Al. reflexivity.
  - destruct ev; cbn [is_task] in Ht; try discriminate; cbn [cl_step] in H.
    + unfold Cluster.step_apply in H. destruct (get_node s n); [destruct (nth_error _ _)|]; inversion H; reflexivity.
    + unfold step_restart in H. destruct (get_node s n); [destruct (_ && _)|]; inversion H; reflexivity.
Qed.

Lemma run_outside cfg sched : forall s g, Inv1 s ->
  bad (snd (cl_run_g cfg s g sched)) = false ->
  c23_scan (s_log s) (events (fst (cl_run cfg s sched))) = 0.
Proof.
  induction sched as [|e r IH]; intros s g Hi Hb; cbn [cl_run cl_run_g] in *; [reflexivity|].
  destruct (cl_step cfg s e) as [s1 t] eqn:E.
  destruct (cl_step_good _ _ _ _ _ Hi E) as (Hi1 & _ & _).
  set (g2 := ghost_restart s e t (ghost_pc s e s1 (fold_left (ghost_sub s e) (snd t) g))) in *.
  assert (Hg2 : bad g2 = false).
  { destruct (bad g2) eqn:X; [|reflexivity]. rewrite (run_g_mono cfg r s1 g2 X) in Hb. discriminate. }
  unfold g2 in Hg2. rewrite ghost_restart_bad, ghost_pc_bad, fold_sub_bad in Hg2.
  apply orb_false_iff in Hg2. destruct Hg2 as [_ Hex].
  specialize (IH s1 g2 Hi1 Hb). destruct (cl_run cfg s1 r) as [ts s2]. cbn [fst] in *.
  unfold events in *. cbn [flat_map]. rewrite (step_scan_unsealed _ _ _ _ _ Hi E); [exact IH|].
  intros n seg p a Hin. destruct (node_sealed s n seg) eqn:X; [|reflexivity].
  assert (Y : existsb (fun u => match u with EW n0 seg0 _ _ => node_sealed s n0 seg0 | _ => false end) (snd t) = true).
  { apply existsb_exists. exists (EW n seg p a). auto. }
  congruence.
Qed.

Lemma outside_known_c23 cfg sched : c23_known cfg sched = false -> c23_ok cfg (cl_trace cfg sched) = true.
Proof.
  unfold c23_known, cl_classes, c23_ok, c23_verdict, cl_trace. intros H.
  destruct (cl_run_g cfg (cl_init cfg) ghost0 sched) as [s g] eqn:E. cbn [k_ctw k_stale] in H.
  change (boot_log cfg) with (s_log (cl_init cfg)).
  rewrite (run_outside cfg sched (cl_init cfg) ghost0 (Inv1_init cfg)); [reflexivity|].
  rewrite E. exact H.
Qed.
