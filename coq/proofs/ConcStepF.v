(* ConcStepF.v — every segment of an append or a consuming read_next of the code WITH the fix
   (fx = true) preserves the invariant of proofs/ConcInvF.v: no hypothesis on the schedule, any
   number of consumers. *)
From W Require Import model.Base model.Engine model.Conc spec.ConcSpec proofs.EngineWF proofs.EngineInv proofs.EngineW proofs.EngineBR
  proofs.EngineMain proofs.ConcInv proofs.ConcStep proofs.ConcInvF.
From Coq Require Import ZArith ZifyBool ZifyN ZifyNat.

Definition plain_pc (p : pc) : bool :=
  match p with PR_top | PR_t_wsnap _ _ _ | PR_t_init _ _ => true | _ => false end.

Lemma plain_pending th t ck rest : th_todo th = CRead t ck :: rest -> plain_pc (th_pc th) = true ->
  forall t', del_pending t' th = [].
Proof. intros Ht Hp t'. unfold del_pending. rewrite Ht. destruct ck; [|reflexivity]. destruct (th_pc th); try discriminate; reflexivity. Qed.
Lemma plain_hyd c cs th t ck rest : th_okP c cs th -> th_todo th = CRead t ck :: rest -> plain_pc (th_pc th) = true ->
  hyd (rawts cs (t_id t)).
Proof. intros Hok Ht Hp. eapply th_readP_hyd; eauto. intros E. rewrite E in Hp. discriminate. Qed.

Lemma readF_common c progs cs L tid th t ck rest :
  INVF c progs cs L -> nth_error (cs_threads cs) tid = Some th -> th_todo th = CRead t ck :: rest ->
  head_topic th = Some (t_id t) /\ (forall t', th_mid t' th = false) /\ (forall t', th_holds t' th = false) /\
  (forall t', wr_pending t' th = []).
Proof. intros Hinv Hth Htodo. unfold head_topic, th_mid, th_holds, wr_pending. rewrite Htodo. repeat split. Qed.

(* ------------------------------------------------------------------ a step that touches one topic's state only through f,
   keeps chain, writer, stream, unread, locks *)
Lemma stepF_quiet c progs cs L tid th th' t0 (f : tstate -> tstate) :
  INVF c progs cs L -> nth_error (cs_threads cs) tid = Some th -> head_topic th = Some t0 ->
  let sh' := upd_ts (cs_sh cs) t0 (f (rawts cs t0)) in
  let cs' := upd cs sh' tid th' in
  (forall t, th_mid t th' = th_mid t th) -> (forall t, th_holds t th' = th_holds t th) ->
  (forall ts w, f (with_writer ts w) = with_writer (f ts) w) ->
  (TInvP c (nid_of cs) (f (eff cs t0)) /\ stream (f (eff cs t0)) = stream (eff cs t0) /\
   unread c (f (eff cs t0)) = unread c (eff cs t0)) ->
  (hyd (rawts cs t0) -> hyd (f (rawts cs t0))) ->
  ts_writer (f (rawts cs t0)) = ts_writer (rawts cs t0) ->
  r_chain (reader_of (f (rawts cs t0))) = r_chain (reader_of (rawts cs t0)) ->
  (th_okP c cs' th' /\ Forall (fun cl => simple_callP cl = true) (th_todo th') /\ hist_ok (nth tid progs []) th') ->
  winF c cs' th' ->
  (forall t, del_seq t (nth tid progs []) th' = del_seq t (nth tid progs []) th /\
             wr_seq t (nth tid progs []) th' = wr_seq t (nth tid progs []) th) ->
  INVF c progs cs' L.
Proof.
  intros Hinv Hth Hhead sh' cs' Hmid Hholds Hcomm (Q1 & Q2 & Q3) Hhyd Hwr Hch Hth' Hwin' Hseq.
  pose proof Hinv as [Inext Its Ibf Ilock Ilen Ith Iwin Ilog Imine Iown Iowned].
  assert (Hoth : forall t', t' <> t0 -> get_ts (sh_st sh') t' = get_ts (sh_st (cs_sh cs)) t').
  { intros t' Hne. unfold sh'. rewrite get_ts_upd_ts. now replace (t' =? t0) with false by lia. }
  assert (Hraw' : get_ts (sh_st sh') t0 = f (rawts cs t0)) by (unfold sh'; rewrite get_ts_upd_ts; now rewrite N.eqb_refl).
  assert (Hmideq : forall t', mid cs' t' = mid cs t') by (intros t'; apply (mid_upd_same cs sh' tid th th' t' Hth); apply Hmid).
  assert (Heff' : eff cs' t0 = f (eff cs t0)).
  { unfold cs'. rewrite eff_upd. fold cs'. rewrite Hmideq, Hraw'. unfold eff. destruct (mid cs t0); [now rewrite Hcomm|reflexivity]. }
  assert (Hnid : nid_of cs' = nid_of cs) by (apply (nid_upd_ts cs sh' tid th' t0 (f (rawts cs t0))); reflexivity).
  assert (Hm' : forall t, t <> t0 -> th_mid t th' = false) by (intros t' Hne; rewrite Hmid; eapply head_topic_mid_false; eauto).
  apply (INVF_ext c progs cs' (log_add L t0 tid [])); [intros t; symmetry; apply log_add_nil|].
  apply (INVF_step c progs cs L sh' tid th th' t0 [] [] Hinv Hth Hhead).
  - exact Ibf.
  - fold cs'. rewrite Hnid. lia.
  - exact Hoth.
  - exact Hm'.
  - apply (lock_same cs sh' tid th th' Ilock Hth); [reflexivity|exact Hholds].
  - fold cs'. rewrite Heff', Hnid. exact Q1.
  - fold cs'. rewrite Heff'. apply effect_none; assumption.
  - exact Hth'.
  - intros j thj Hne Hj. destruct (Ith j thj Hj) as (Hokj & _ & _).
    refine (others_th_okP c cs sh' tid th th' t0 Hth Hhead Hoth _ _ j thj Hne Hj Hokj).
    + rewrite Hraw'. exact Hhyd.
    + intros j' thj' w _ _ _ Hw. rewrite Hraw', Hwr. exact Hw.
  - exact Hwin'.
  - intros j thj Hne Hj.
    refine (others_winF c cs sh' tid th th' t0 Hth Hhead Hoth Hm' _ _ j thj Hne Hj (Iwin j thj Hj)).
    + fold cs'. rewrite Hnid. lia.
    + intros a Ha. fold cs'. rewrite Hnid, Hmideq, Hraw'.
      apply (J_same c (nid_of cs) (nid_of cs) (mid cs t0) (rawts cs t0) (f (rawts cs t0)) a Hch Hwr (N.le_refl _) Ha).
  - rewrite app_nil_r. apply Hseq.
  - intros i thi tho Hi Hio. cbn [filter]. rewrite app_nil_r.
    destruct (Nat.eq_dec i tid) as [->|Hne].
    + rewrite (upd_nth_same _ _ _ _ _ Hth) in Hi. inversion Hi; subst thi. rewrite Hth in Hio. inversion Hio; subst tho. apply Hseq.
    + rewrite upd_nth_other in Hi by exact Hne. congruence.
  - intros e0 [].
  - intros t' _. apply Hseq.
Qed.

(* a step that changes only the stepping thread *)
Lemma stepF_same c progs cs L tid th th' t0 :
  INVF c progs cs L -> nth_error (cs_threads cs) tid = Some th -> head_topic th = Some t0 ->
  let cs' := upd cs (cs_sh cs) tid th' in
  (forall t, th_mid t th' = th_mid t th) -> (forall t, th_holds t th' = th_holds t th) ->
  (th_okP c cs' th' /\ Forall (fun cl => simple_callP cl = true) (th_todo th') /\ hist_ok (nth tid progs []) th') ->
  winF c cs' th' ->
  (forall t, del_seq t (nth tid progs []) th' = del_seq t (nth tid progs []) th /\
             wr_seq t (nth tid progs []) th' = wr_seq t (nth tid progs []) th) ->
  INVF c progs cs' L.
Proof.
  intros Hinv Hth Hhead cs' Hmid Hholds Hth' Hwin' Hseq.
  pose proof Hinv as [Inext Its Ibf Ilock Ilen Ith Iwin Ilog Imine Iown Iowned].
  assert (Hmideq : forall t', mid cs' t' = mid cs t') by (intros t'; apply (mid_upd_same cs (cs_sh cs) tid th th' t' Hth); apply Hmid).
  assert (Heff' : forall t', eff cs' t' = eff cs t') by (intros t'; unfold eff; rewrite Hmideq; reflexivity).
  assert (Hm' : forall t, t <> t0 -> th_mid t th' = false) by (intros t' Hne; rewrite Hmid; eapply head_topic_mid_false; eauto).
  apply (INVF_ext c progs cs' (log_add L t0 tid [])); [intros t; symmetry; apply log_add_nil|].
  apply (INVF_step c progs cs L (cs_sh cs) tid th th' t0 [] [] Hinv Hth Hhead).
  - exact Ibf.
  - unfold nid_of. cbn. lia.
  - reflexivity.
  - exact Hm'.
  - apply (lock_same cs (cs_sh cs) tid th th' Ilock Hth); [reflexivity|exact Hholds].
  - fold cs'. rewrite Heff'. apply Its.
  - fold cs'. rewrite Heff'. apply effect_none; reflexivity.
  - exact Hth'.
  - intros j thj Hne Hj. destruct (Ith j thj Hj) as (Hokj & _ & _).
    refine (others_th_okP c cs (cs_sh cs) tid th th' t0 Hth Hhead (fun _ _ => eq_refl) _ _ j thj Hne Hj Hokj); auto.
  - exact Hwin'.
  - intros j thj Hne Hj.
    refine (others_winF c cs (cs_sh cs) tid th th' t0 Hth Hhead (fun _ _ => eq_refl) Hm' _ _ j thj Hne Hj (Iwin j thj Hj)).
    + unfold nid_of. cbn. lia.
    + intros a Ha. fold cs'. rewrite Hmideq. exact Ha.
  - rewrite app_nil_r. apply Hseq.
  - intros i thi tho Hi Hio. cbn [filter]. rewrite app_nil_r.
    destruct (Nat.eq_dec i tid) as [->|Hne].
    + rewrite (upd_nth_same _ _ _ _ _ Hth) in Hi. inversion Hi; subst thi. rewrite Hth in Hio. inversion Hio; subst tho. apply Hseq.
    + rewrite upd_nth_other in Hi by exact Hne. congruence.
  - intros e0 [].
  - intros t' _. apply Hseq.
Qed.

(* a call that returns without having touched anything *)
Lemma stepF_ret_noop c progs cs L tid th cl rest r t0 :
  INVF c progs cs L -> nth_error (cs_threads cs) tid = Some th -> th_todo th = cl :: rest -> t_id (call_topic cl) = t0 ->
  res_ok cl r ->
  (forall t, th_mid t th = false) -> (forall t, th_holds t th = false) ->
  (forall t, del_hist t [cl] [r] = del_pending t th) -> (forall t, wr_hist t [cl] [r] = wr_pending t th) ->
  INVF c progs (upd cs (cs_sh cs) tid {| th_todo := rest; th_pc := PStart; th_done := r :: th_done th |}) L.
Proof.
  intros Hinv Hth Htodo Ht0 Hres Hm Hh Hd Hw. pose proof Hinv as [Inext Its Ibf Ilock Ilen Ith Iwin Ilog Imine Iown Iowned].
  destruct (Ith tid th Hth) as (Hok & Hsimple & Hhist).
  set (th' := {| th_todo := rest; th_pc := PStart; th_done := r :: th_done th |}).
  assert (Hhead : head_topic th = Some t0) by (unfold head_topic; now rewrite Htodo, Ht0).
  assert (Hret : returned th th' cl r) by (exists rest; repeat split; auto).
  apply (stepF_same c progs cs L tid th th' t0 Hinv Hth Hhead).
  - intros t'. rewrite Hm. unfold th_mid, th'. cbn. now destruct rest as [|[| | |] ?].
  - intros t'. rewrite Hh. unfold th_holds, th'. cbn. now destruct rest as [|[| | |] ?].
  - split; [apply th_okP_start; [reflexivity|cbn; rewrite Htodo in Hsimple; now inversion Hsimple]|].
    split; [cbn; rewrite Htodo in Hsimple; now inversion Hsimple|].
    apply (hist_ok_ret _ th th' cl r Hret Hres Hhist).
  - apply winF_start. reflexivity.
  - apply (seq_ret _ th th' cl r Hhist Hret Hd Hw).
Qed.

(* ------------------------------------------------------------------ read_next segments *)
Lemma stepF_R_quiet c progs cs L tid th t ck rest p' (f : tstate -> tstate) :
  INVF c progs cs L ->
  nth_error (cs_threads cs) tid = Some th -> th_todo th = CRead t ck :: rest ->
  (forall ts w, f (with_writer ts w) = with_writer (f ts) w) ->
  (TInvP c (nid_of cs) (f (eff cs (t_id t))) /\ stream (f (eff cs (t_id t))) = stream (eff cs (t_id t)) /\
   unread c (f (eff cs (t_id t))) = unread c (eff cs (t_id t))) ->
  hyd (f (rawts cs (t_id t))) ->
  ts_writer (f (rawts cs (t_id t))) = ts_writer (rawts cs (t_id t)) ->
  r_chain (reader_of (f (rawts cs (t_id t)))) = r_chain (reader_of (rawts cs (t_id t))) ->
  let th' := rthreadP t ck rest p' (th_done th) in
  let cs' := upd cs (upd_ts (cs_sh cs) (t_id t) (f (rawts cs (t_id t)))) tid th' in
  (hyd (rawts cs' (t_id t)) -> th_okP c cs' th') ->
  winF c cs' th' ->
  (forall t', del_pending t' th' = del_pending t' th) ->
  INVF c progs cs' L.
Proof.
  intros Hinv Hth Htodo Hcomm Hq Hhyd Hwr Hch th' cs' Hok' Hwin' Hdp.
  pose proof Hinv as [Inext Its Ibf Ilock Ilen Ith Iwin Ilog Imine Iown Iowned].
  destruct (readF_common c progs cs L tid th t _ rest Hinv Hth Htodo) as (Hhead & Hm & Hh & Hw).
  destruct (Ith tid th Hth) as (Hok & Hsimple & Hhist).
  apply (stepF_quiet c progs cs L tid th th' (t_id t) f Hinv Hth Hhead).
  - intros t'. now rewrite Hm.
  - intros t'. now rewrite Hh.
  - exact Hcomm.
  - exact Hq.
  - intros _. exact Hhyd.
  - exact Hwr.
  - exact Hch.
  - split; [|split].
    + apply Hok'. unfold hyd, cs'. rewrite rawts_upd, get_ts_upd_ts, N.eqb_refl. exact Hhyd.
    + cbn. now rewrite <- Htodo.
    + eapply hist_ok_same; [|exact Hhist]. split; [now rewrite Htodo|reflexivity].
  - exact Hwin'.
  - apply seq_same.
    + split; [now rewrite Htodo|reflexivity].
    + exact Hdp.
    + intros t'. now rewrite Hw.
Qed.

(* hydration *)
Lemma stepF_R1 c progs cs L tid th t ck rest :
  INVF c progs cs L ->
  nth_error (cs_threads cs) tid = Some th -> th_todo th = CRead t ck :: rest -> th_pc th = PStart ->
  let ts := get_ts (sh_st (cs_sh cs)) (t_id t) in
  INVF c progs (upd cs (upd_ts (cs_sh cs) (t_id t) (with_reader ts (rn_hydrate ts))) tid (rthreadP t ck rest PR_top (th_done th))) L.
Proof.
  intros Hinv Hth Htodo Hpc ts. pose proof Hinv as [Inext Its Ibf Ilock Ilen Ith Iwin Ilog Imine Iown Iowned].
  set (t0 := t_id t) in *.
  pose proof (rn_hydrate_spec c (nid_of cs) (eff cs t0) (Its t0)) as Hsp. cbn zeta in Hsp.
  rewrite rn_hydrate_eff in Hsp. fold (rawts cs t0) in ts. fold ts in Hsp.
  destruct Hsp as (S1 & S2 & S3 & S4 & S5 & S6).
  apply (stepF_R_quiet c progs cs L tid th t ck rest PR_top (fun x => with_reader x (rn_hydrate ts)) Hinv Hth Htodo).
  - reflexivity.
  - apply same_reader_inv; auto.
  - exact S6.
  - reflexivity.
  - cbn [with_reader reader_of ts_reader]. rewrite S1. unfold chain_of. now rewrite reader_of_eff.
  - intros Hy. unfold th_okP. cbn. exact Hy.
  - unfold winF. cbn. now destruct ck.
  - intros t'. unfold del_pending. cbn. rewrite Htodo, Hpc. now destruct ck.
Qed.

(* an exhausted sealed block is stepped over (from the loop top, or on a retry) *)
Lemma stepF_adv c progs cs L tid th t ck rest b :
  cfg_ok c -> INVF c progs cs L ->
  nth_error (cs_threads cs) tid = Some th -> th_todo th = CRead t ck :: rest -> plain_pc (th_pc th) = true ->
  let ts := get_ts (sh_st (cs_sh cs)) (t_id t) in
  let r := reader_of ts in
  nth_error (r_chain r) (r_idx r) = Some b -> b_used b <= r_off r ->
  INVF c progs (upd cs (upd_ts (cs_sh cs) (t_id t) (with_reader ts (set_cur r (S (r_idx r)) 0))) tid (rthreadP t ck rest PR_top (th_done th))) L.
Proof.
  intros Hc Hinv Hth Htodo Hpc ts r Hnth Hex. pose proof Hinv as [Inext Its Ibf Ilock Ilen Ith Iwin Ilog Imine Iown Iowned].
  destruct (Ith tid th Hth) as (Hok & _ & _).
  assert (Hhy : hyd (rawts cs (t_id t))) by (eapply plain_hyd; eauto).
  destruct Hc as (Hh0 & _).
  pose proof (adv_step c Hh0 (nid_of cs) (eff cs (t_id t)) b (Its (t_id t))) as Hadv.
  rewrite reader_of_eff in Hadv. unfold chain_of in Hadv. rewrite reader_of_eff in Hadv.
  specialize (Hadv Hhy Hnth Hex). cbn zeta in Hadv.
  apply (stepF_R_quiet c progs cs L tid th t ck rest PR_top (fun x => with_reader x (set_cur r (S (r_idx r)) 0)) Hinv Hth Htodo).
  - reflexivity.
  - exact Hadv.
  - unfold hyd in *. cbn. exact Hhy.
  - reflexivity.
  - reflexivity.
  - intros Hy. unfold th_okP. cbn. exact Hy.
  - unfold winF. cbn. now destruct ck.
  - intros t'. rewrite (plain_pending th t _ rest Htodo Hpc). unfold del_pending. cbn. now destruct ck.
Qed.

(* the index write and the count update that follow a commit *)
Lemma stepF_idx c progs cs L tid th t rest tl rr pp :
  INVF c progs cs L ->
  nth_error (cs_threads cs) tid = Some th -> th_todo th = CRead t true :: rest -> th_pc th = PR_commit tl rr (Some pp) ->
  let ts := get_ts (sh_st (cs_sh cs)) (t_id t) in
  INVF c progs (upd cs (upd_ts (cs_sh cs) (t_id t) (with_index ts pp)) tid (rthreadP t true rest (PR_idx rr) (th_done th))) L.
Proof.
  intros Hinv Hth Htodo Hpc ts. pose proof Hinv as [Inext Its Ibf Ilock Ilen Ith Iwin Ilog Imine Iown Iowned].
  destruct (Ith tid th Hth) as (Hok & _ & _).
  assert (Hhy : hyd (rawts cs (t_id t))) by (eapply th_readP_hyd; eauto; rewrite Hpc; discriminate).
  assert (Hro : exists o, rr = REntry o) by (unfold th_okP in Hok; rewrite Htodo, Hpc in Hok; tauto).
  apply (stepF_R_quiet c progs cs L tid th t true rest (PR_idx rr) (fun x => with_index x pp) Hinv Hth Htodo).
  - reflexivity.
  - split; [apply TInvP_with_index; [apply Its|now apply hyd_eff]|]. split; reflexivity.
  - exact Hhy.
  - reflexivity.
  - reflexivity.
  - intros Hy. unfold th_okP. cbn. split; [reflexivity|]. split; [exact Hy|exact Hro].
  - unfold winF. cbn. exact I.
  - intros t'. unfold del_pending. cbn. rewrite Htodo, Hpc. reflexivity.
Qed.

Lemma stepF_ret c progs cs L tid th t rest rr :
  INVF c progs cs L ->
  nth_error (cs_threads cs) tid = Some th -> th_todo th = CRead t true :: rest ->
  (exists tl, th_pc th = PR_commit tl rr None) \/ th_pc th = PR_idx rr ->
  let ts := get_ts (sh_st (cs_sh cs)) (t_id t) in
  INVF c progs (upd cs (upd_ts (cs_sh cs) (t_id t) (count_sub ts 1)) tid
                  {| th_todo := rest; th_pc := PStart; th_done := rr :: th_done th |}) L.
Proof.
  intros Hinv Hth Htodo Hpc ts. pose proof Hinv as [Inext Its Ibf Ilock Ilen Ith Iwin Ilog Imine Iown Iowned].
  destruct (readF_common c progs cs L tid th t _ rest Hinv Hth Htodo) as (Hhead & Hm & Hh & Hw).
  destruct (Ith tid th Hth) as (Hok & Hsimple & Hhist).
  set (th' := {| th_todo := rest; th_pc := PStart; th_done := rr :: th_done th |}).
  assert (Hro : exists o, rr = REntry o).
  { unfold th_okP in Hok. rewrite Htodo in Hok. destruct Hpc as [(tl & Hpc)|Hpc]; rewrite Hpc in Hok; tauto. }
  destruct Hro as (o & ->).
  assert (Hmid' : forall t', th_mid t' th' = false) by (intros; unfold th_mid, th'; cbn; now destruct rest as [|[| | |] ?]).
  assert (Hholds' : forall t', th_holds t' th' = false) by (intros; unfold th_holds, th'; cbn; now destruct rest as [|[| | |] ?]).
  assert (Hret : returned th th' (CRead t true) (REntry o)) by (exists rest; repeat split; auto).
  apply (stepF_quiet c progs cs L tid th th' (t_id t) (fun x => count_sub x 1) Hinv Hth Hhead).
  - intros t'. now rewrite Hmid', Hm.
  - intros t'. now rewrite Hholds', Hh.
  - intros x w. apply count_sub_writer.
  - split; [apply TInvP_count_sub, Its|]. split; [apply stream_count_sub|apply unread_count_sub].
  - unfold hyd, count_sub. now destruct (1 =? 0).
  - unfold count_sub. now destruct (1 =? 0).
  - unfold count_sub. now destruct (1 =? 0).
  - split; [apply th_okP_start; [reflexivity|]|split].
    + cbn. rewrite Htodo in Hsimple. now inversion Hsimple.
    + cbn. rewrite Htodo in Hsimple. now inversion Hsimple.
    + eapply hist_ok_ret; eauto. exact I.
  - apply winF_start. reflexivity.
  - apply (seq_ret _ th th' (CRead t true) (REntry o) Hhist Hret).
    + intros t'. unfold del_pending. rewrite Htodo. cbn [del_hist]. rewrite app_nil_r.
      destruct Hpc as [(tl & Hpc)|Hpc]; rewrite Hpc; reflexivity.
    + intros t'. now rewrite Hw.
Qed.

(* the sealed chain is exhausted: tail snapshot *)
Lemma stepF_tail c progs cs L tid th t ck rest sb so :
  INVF c progs cs L ->
  nth_error (cs_threads cs) tid = Some th -> th_todo th = CRead t ck :: rest -> plain_pc (th_pc th) = true ->
  INVF c progs (upd cs (cs_sh cs) tid (rthreadP t ck rest (PR_t_snap sb so) (th_done th))) L.
Proof.
  intros Hinv Hth Htodo Hpc. pose proof Hinv as [Inext Its Ibf Ilock Ilen Ith Iwin Ilog Imine Iown Iowned].
  destruct (readF_common c progs cs L tid th t _ rest Hinv Hth Htodo) as (Hhead & Hm & Hh & Hw).
  destruct (Ith tid th Hth) as (Hok & Hsimple & Hhist).
  assert (Hhy : hyd (rawts cs (t_id t))) by (eapply plain_hyd; eauto).
  apply (stepF_same c progs cs L tid th _ (t_id t) Hinv Hth Hhead).
  - intros t'. now rewrite Hm.
  - intros t'. now rewrite Hh.
  - split; [unfold th_okP; cbn; exact Hhy|]. split; [cbn; now rewrite <- Htodo|].
    eapply hist_ok_same; [|exact Hhist]. split; [now rewrite Htodo|reflexivity].
  - unfold winF. cbn. now destruct ck.
  - apply seq_same; [split; [now rewrite Htodo|reflexivity]| |].
    + intros t'. rewrite (plain_pending th t _ rest Htodo Hpc). unfold del_pending. cbn. now destruct ck.
    + intros t'. now rewrite Hw.
Qed.

(* the writer snapshot *)
Lemma stepF_R5 c progs cs L tid th t ck rest sb so w :
  INVF c progs cs L ->
  nth_error (cs_threads cs) tid = Some th -> th_todo th = CRead t ck :: rest -> th_pc th = PR_t_snap sb so ->
  ts_writer (get_ts (sh_st (cs_sh cs)) (t_id t)) = Some w -> wl_holder (sh_wl (cs_sh cs)) (t_id t) = None ->
  INVF c progs (upd cs (cs_sh cs) tid (rthreadP t ck rest (PR_t_wsnap sb so w) (th_done th))) L.
Proof.
  intros Hinv Hth Htodo Hpc Hw0 Hfree. pose proof Hinv as [Inext Its Ibf Ilock Ilen Ith Iwin Ilog Imine Iown Iowned].
  destruct (readF_common c progs cs L tid th t _ rest Hinv Hth Htodo) as (Hhead & Hm & Hh & Hw).
  destruct (Ith tid th Hth) as (Hok & Hsimple & Hhist).
  assert (Hhy : hyd (rawts cs (t_id t))) by (eapply th_readP_hyd; eauto; rewrite Hpc; discriminate).
  assert (Hnm : mid cs (t_id t) = false) by (apply mid_false_free; assumption).
  set (th' := rthreadP t ck rest (PR_t_wsnap sb so w) (th_done th)).
  assert (Hmideq : mid (upd cs (cs_sh cs) tid th') (t_id t) = false).
  { rewrite (mid_upd_same cs (cs_sh cs) tid th th' (t_id t) Hth); [exact Hnm|now rewrite Hm]. }
  pose proof (Its (t_id t)) as X. rewrite (eff_nomid _ _ Hnm) in X. unfold rawts in X.
  apply (stepF_same c progs cs L tid th th' (t_id t) Hinv Hth Hhead).
  - intros t'. now rewrite Hm.
  - intros t'. now rewrite Hh.
  - split; [unfold th_okP; cbn; exact Hhy|]. split; [cbn; now rewrite <- Htodo|].
    eapply hist_ok_same; [|exact Hhist]. split; [now rewrite Htodo|reflexivity].
  - unfold winF, th'. cbn [th_todo th_pc rthreadP]. fold th'. destruct ck; [|exact I]. rewrite rawts_upd, Hmideq.
    assert (Hbw : b_used w = sum_need c (b_ents w)).
    { pose proof (tp_writer _ _ _ X) as Hwf. unfold w_list in Hwf. rewrite Hw0 in Hwf. inversion Hwf as [|x l (A & _) _]. exact A. }
    assert (Hid : 0 < b_id w < nid_of cs).
    { pose proof (tp_ids _ _ _ X) as Hids. eapply Forall_forall in Hids; [exact Hids|]. apply in_or_app. right. unfold w_list. rewrite Hw0. now left. }
    split; [exact Hbw|]. split; [unfold nid_of in *; cbn; lia|]. split.
    + intros w' Hw'. rewrite Hw0 in Hw'. inversion Hw'. lia.
    + left. split; [reflexivity|]. exists w, []. split; [exact Hw0|]. split; [reflexivity|]. split; [now rewrite app_nil_r|exact Hbw].
  - apply seq_same; [split; [now rewrite Htodo|reflexivity]| |].
    + intros t'. unfold del_pending. cbn. rewrite Htodo, Hpc. now destruct ck.
    + intros t'. now rewrite Hw.
Qed.

(* a commit: a consumer takes the first unread entry; the ghost log grows by (tid, entry) *)
Lemma stepF_del c progs cs L tid th t rest tl e pers ru (f : tstate -> tstate) :
  INVF c progs cs L ->
  nth_error (cs_threads cs) tid = Some th -> th_todo th = CRead t true :: rest ->
  (forall t', del_pending t' th = []) ->
  (forall ts w, f (with_writer ts w) = with_writer (f ts) w) ->
  unread c (eff cs (t_id t)) = e :: ru ->
  (TInvP c (nid_of cs) (f (eff cs (t_id t))) /\ stream (f (eff cs (t_id t))) = stream (eff cs (t_id t)) /\
   unread c (f (eff cs (t_id t))) = ru) ->
  hyd (f (rawts cs (t_id t))) ->
  ts_writer (f (rawts cs (t_id t))) = ts_writer (rawts cs (t_id t)) ->
  r_chain (reader_of (f (rawts cs (t_id t)))) = r_chain (reader_of (rawts cs (t_id t))) ->
  INVF c progs (upd cs (upd_ts (cs_sh cs) (t_id t) (f (rawts cs (t_id t)))) tid
                  (rthreadP t true rest (PR_commit tl (REntry (out_of e)) pers) (th_done th)))
       (log_add L (t_id t) tid [e]).
Proof.
  intros Hinv Hth Htodo Hdp0 Hcomm Hun (Q1 & Q2 & Q3) Hhyd Hwr Hch.
  pose proof Hinv as [Inext Its Ibf Ilock Ilen Ith Iwin Ilog Imine Iown Iowned].
  destruct (readF_common c progs cs L tid th t _ rest Hinv Hth Htodo) as (Hhead & Hm & Hh & Hw).
  destruct (Ith tid th Hth) as (Hok & Hsimple & Hhist).
  set (t0 := t_id t) in *.
  set (th' := rthreadP t true rest (PR_commit tl (REntry (out_of e)) pers) (th_done th)).
  set (sh' := upd_ts (cs_sh cs) t0 (f (rawts cs t0))).
  assert (Hoth : forall t', t' <> t0 -> get_ts (sh_st sh') t' = get_ts (sh_st (cs_sh cs)) t').
  { intros t' Hne. unfold sh'. rewrite get_ts_upd_ts. now replace (t' =? t0) with false by lia. }
  assert (Hraw' : get_ts (sh_st sh') t0 = f (rawts cs t0)) by (unfold sh'; rewrite get_ts_upd_ts; now rewrite N.eqb_refl).
  assert (Hmideq : forall t', mid (upd cs sh' tid th') t' = mid cs t').
  { intros t'. apply (mid_upd_same cs sh' tid th th' t' Hth). now rewrite Hm. }
  assert (Heff' : eff (upd cs sh' tid th') t0 = f (eff cs t0)).
  { rewrite eff_upd, Hmideq, Hraw'. unfold eff. destruct (mid cs t0); [now rewrite Hcomm|reflexivity]. }
  assert (Hnid : nid_of (upd cs sh' tid th') = nid_of cs) by (apply (nid_upd_ts cs sh' tid th' t0 (f (rawts cs t0))); reflexivity).
  assert (Hsame : same_hist th th') by (split; [now rewrite Htodo|reflexivity]).
  assert (Hm' : forall t', t' <> t0 -> th_mid t' th' = false) by (intros; reflexivity).
  apply (INVF_step c progs cs L sh' tid th th' t0 [] [e] Hinv Hth Hhead).
  - exact Ibf.
  - rewrite Hnid. lia.
  - exact Hoth.
  - exact Hm'.
  - apply (lock_same cs sh' tid th th' Ilock Hth); [reflexivity|]. intros t'. now rewrite Hh.
  - rewrite Heff', Hnid. exact Q1.
  - rewrite Heff'. split; [now rewrite app_nil_r|]. rewrite app_nil_r, Hun, Q3. reflexivity.
  - split; [|split].
    + unfold th_okP, th'. cbn [th_todo th_pc rthreadP]. split; [reflexivity|]. split; [|eauto]. unfold hyd. rewrite rawts_upd. fold t0. rewrite Hraw'. exact Hhyd.
    + cbn. now rewrite <- Htodo.
    + eapply hist_ok_same; eauto.
  - intros j thj Hne Hj. destruct (Ith j thj Hj) as (Hokj & _ & _).
    refine (others_th_okP c cs sh' tid th th' t0 Hth Hhead Hoth _ _ j thj Hne Hj Hokj).
    + intros _. rewrite Hraw'. exact Hhyd.
    + intros j' thj' w _ _ _ Hw0. rewrite Hraw', Hwr. exact Hw0.
  - unfold winF, th'. cbn. exact I.
  - intros j thj Hne Hj.
    refine (others_winF c cs sh' tid th th' t0 Hth Hhead Hoth Hm' _ _ j thj Hne Hj (Iwin j thj Hj)).
    + rewrite Hnid. lia.
    + intros a Ha. rewrite Hnid, Hmideq, Hraw'.
      apply (J_same c (nid_of cs) (nid_of cs) (mid cs t0) (rawts cs t0) (f (rawts cs t0)) a Hch Hwr (N.le_refl _) Ha).
  - unfold del_seq, done_of. destruct Hsame as (A & B). rewrite A, B. rewrite <- app_assoc. f_equal.
    rewrite Hdp0. unfold del_pending, th'. cbn. fold t0. now rewrite N.eqb_refl.
  - intros i thi tho Hi Hio. cbn [filter]. rewrite app_nil_r.
    destruct (Nat.eq_dec i tid) as [->|Hne].
    + rewrite (upd_nth_same _ _ _ _ _ Hth) in Hi. inversion Hi; subst thi. rewrite Hth in Hio. inversion Hio; subst tho.
      apply wr_seq_same; [exact Hsame|]. now rewrite Hw.
    + rewrite upd_nth_other in Hi by exact Hne. congruence.
  - intros e0 [].
  - intros t' Hne. split.
    + apply del_seq_same; [exact Hsame|]. rewrite Hdp0. unfold del_pending, th'. cbn. fold t0. now replace (t0 =? t') with false by lia.
    + apply wr_seq_same; [exact Hsame|]. now rewrite Hw.
Qed.

(* a consuming read of the next sealed entry *)
Lemma stepF_read c m progs cs L tid th t rest b :
  cfg_ok c -> INVF c progs cs L ->
  nth_error (cs_threads cs) tid = Some th -> th_todo th = CRead t true :: rest -> plain_pc (th_pc th) = true ->
  let ts := get_ts (sh_st (cs_sh cs)) (t_id t) in
  let r := reader_of ts in
  nth_error (r_chain r) (r_idx r) = Some b -> r_off r < b_used b ->
  exists e, block_read c b (r_off r) = Some (e, need c e) /\
    let r4 := set_cur r (r_idx r) (r_off r + need c e) in
    forall r5 p, should_persist m r4 false = (r5, p) ->
    INVF c progs (upd cs (upd_ts (cs_sh cs) (t_id t) (with_reader ts r5)) tid
                    (rthreadP t true rest (PR_commit false (REntry (out_of e)) (pers_of p false (N.of_nat (r_idx r)) (r_off r + need c e))) (th_done th)))
         (log_add L (t_id t) tid [e]).
Proof.
  intros Hc Hinv Hth Htodo Hpc ts r Hnth Hlt. pose proof Hinv as [Inext Its Ibf Ilock Ilen Ith Iwin Ilog Imine Iown Iowned].
  destruct (Ith tid th Hth) as (Hok & _ & _).
  assert (Hhy : hyd (rawts cs (t_id t))) by (eapply plain_hyd; eauto).
  destruct Hc as (Hh0 & _).
  pose proof (sealed_read_step c Hh0 m (nid_of cs) (eff cs (t_id t)) b (Its (t_id t))) as Hs.
  assert (A1 : r_hydrated (reader_of (eff cs (t_id t))) = true) by (apply hyd_eff; exact Hhy).
  assert (A2 : nth_error (chain_of (eff cs (t_id t))) (r_idx (reader_of (eff cs (t_id t)))) = Some b)
    by (unfold chain_of; rewrite reader_of_eff; exact Hnth).
  assert (A3 : r_off (reader_of (eff cs (t_id t))) < b_used b) by (rewrite reader_of_eff; exact Hlt).
  destruct (Hs A1 A2 A3) as (e & ru & Hbr & Hun & Hrest). cbn zeta in Hrest.
  rewrite (reader_of_eff cs (t_id t)) in Hbr. rewrite (reader_of_eff cs (t_id t)) in Hrest. fold (rawts cs (t_id t)) in ts. fold ts r in Hbr, Hrest.
  exists e. split; [exact Hbr|]. intros r4 r5 p Hsp. unfold r4 in Hsp.
  pose proof (should_persist_same m (set_cur r (r_idx r) (r_off r + need c e)) false) as Hf. rewrite Hsp in Hf. cbn [set_cur r_chain] in Hf.
  rewrite Hsp in Hrest. cbn [fst] in Hrest.
  destruct Hrest as (Q1 & Q2 & Q3 & Q4).
  apply (stepF_del c progs cs L tid th t rest false e _ ru (fun x => with_reader x r5) Hinv Hth Htodo).
  - apply (plain_pending th t _ rest Htodo Hpc).
  - reflexivity.
  - exact Hun.
  - split; [exact Q1|split; [exact Q2|exact Q3]].
  - exact Q4.
  - reflexivity.
  - cbn [with_reader reader_of ts_reader]. destruct Hf as (F1 & _). exact F1.
Qed.

(* the loop top as a whole: from the loop top itself, or re-entered by one of the fix's checks *)
Lemma stepF_rn_top c m progs cs L tid th t ck rest :
  cfg_ok c -> INVF c progs cs L ->
  nth_error (cs_threads cs) tid = Some th -> th_todo th = CRead t ck :: rest -> plain_pc (th_pc th) = true ->
  match rn_top c m (cs_sh cs) t ck with
  | SPark sh' p' l => exists L', INVF c progs (upd cs sh' tid (rthreadP t ck rest p' (th_done th))) L'
  | SDoneC sh' r => exists L', INVF c progs (upd cs sh' tid {| th_todo := rest; th_pc := PStart; th_done := r :: th_done th |}) L'
  | SBlockedC => True
  end.
Proof.
  intros Hc Hinv Hth Htodo Hpc. unfold rn_top.
  destruct (readF_common c progs cs L tid th t ck rest Hinv Hth Htodo) as (Hhead & Hm & Hh & Hw).
  assert (Hnoop : forall r, res_ok (CRead t ck) r -> (forall t', del_hist t' [CRead t ck] [r] = []) ->
            INVF c progs (upd cs (cs_sh cs) tid {| th_todo := rest; th_pc := PStart; th_done := r :: th_done th |}) L).
  { intros r Hr Hd. apply (stepF_ret_noop c progs cs L tid th (CRead t ck) rest r (t_id t) Hinv Hth Htodo eq_refl Hr Hm Hh).
    - intros t'. rewrite Hd. symmetry. apply (plain_pending th t ck rest Htodo Hpc).
    - intros t'. now rewrite Hw. }
  destruct (nth_error (r_chain (reader_of (get_ts (sh_st (cs_sh cs)) (t_id t)))) (r_idx (reader_of (get_ts (sh_st (cs_sh cs)) (t_id t))))) as [b|] eqn:Hnth.
  - destruct (b_used b <=? r_off (reader_of (get_ts (sh_st (cs_sh cs)) (t_id t)))) eqn:Eex.
    + exists L. apply (stepF_adv c progs cs L tid th t ck rest b Hc Hinv Hth Htodo Hpc Hnth). lia.
    + destruct ck.
      * destruct (stepF_read c m progs cs L tid th t rest b Hc Hinv Hth Htodo Hpc Hnth ltac:(lia)) as (e & Hbr & HI).
        rewrite Hbr. cbn zeta in HI.
        destruct (should_persist m _ false) as [r5 p] eqn:Esp. eexists. apply (HI r5 p eq_refl).
      * destruct (block_read c b _) as [[e consumed]|]; exists L; apply Hnoop; try exact I; intros t'; reflexivity.
  - exists L. apply (stepF_tail c progs cs L tid th t ck rest _ _ Hinv Hth Htodo Hpc).
Qed.

(* after the writer snapshot, nothing sealed in between: the tail position is taken under this lock *)
Lemma stepF_init c m progs cs L tid th t ck rest sb so a :
  INVF c progs cs L ->
  nth_error (cs_threads cs) tid = Some th -> th_todo th = CRead t ck :: rest -> th_pc th = PR_t_wsnap sb so a ->
  let ts := get_ts (sh_st (cs_sh cs)) (t_id t) in
  let r := reader_of ts in
  let off := if r_tail_bid r =? b_id a then r_tail_off r else 0 in
  let ts1 := if ck && (off =? 0) && (0 <? b_used a)
             then let '(r', p) := should_persist m r true in
                  let ts' := with_reader ts r' in
                  if p then persist ts' true (b_id a) 0 else ts'
             else ts in
  INVF c progs (upd cs (upd_ts (cs_sh cs) (t_id t) ts1) tid (rthreadP t ck rest (PR_t_init a off) (th_done th))) L.
Proof.
  intros Hinv Hth Htodo Hpc ts r off ts1. pose proof Hinv as [Inext Its Ibf Ilock Ilen Ith Iwin Ilog Imine Iown Iowned].
  destruct (Ith tid th Hth) as (Hok & _ & _).
  assert (Hhy : hyd (rawts cs (t_id t))) by (eapply th_readP_hyd; eauto; rewrite Hpc; discriminate).
  pose proof (Iwin tid th Hth) as Hwin. unfold winF in Hwin. rewrite Htodo, Hpc in Hwin.
  fold (rawts cs (t_id t)) in ts.
  set (f := fun x : tstate =>
              if ck && (off =? 0) && (0 <? b_used a)
              then let '(r', p) := should_persist m r true in
                   let ts' := with_reader x r' in
                   if p then persist ts' true (b_id a) 0 else ts'
              else x).
  assert (Hf : ts1 = f ts) by reflexivity.
  pose proof (init_step c m (nid_of cs) (eff cs (t_id t)) (b_id a) (Its (t_id t)) (proj2 (hyd_eff cs (t_id t)) Hhy)) as Hin.
  rewrite (reader_of_eff cs (t_id t)) in Hin. fold ts r in Hin.
  assert (Hfacts : TInvP c (nid_of cs) (f (eff cs (t_id t))) /\ stream (f (eff cs (t_id t))) = stream (eff cs (t_id t)) /\
                   unread c (f (eff cs (t_id t))) = unread c (eff cs (t_id t)) /\
                   r_chain (reader_of (f ts)) = r_chain r /\ hyd (f ts) /\ ts_writer (f ts) = ts_writer ts).
  { unfold f. destruct (ck && (off =? 0) && (0 <? b_used a)).
    - destruct (should_persist m r true) as [r' p] eqn:Esp. cbn zeta in Hin.
      destruct Hin as (I1 & I2 & I3 & I4 & I5 & I6 & I7 & I8 & I9 & I10).
      pose proof (should_persist_same m r true) as Hs. rewrite Esp in Hs. destruct Hs as (F1 & F2 & F3 & F4 & F5 & F6).
      split; [exact I1|]. split; [exact I2|]. split; [exact I3|].
      destruct p; cbn [persist with_index with_reader reader_of ts_reader ts_writer]; unfold hyd; cbn [reader_of ts_reader];
        repeat split; auto; unfold hyd in Hhy; fold ts r in Hhy; congruence.
    - split; [apply Its|]. repeat split; auto. }
  destruct Hfacts as (Q1 & Q2 & Q3 & G2 & G5 & G6).
  rewrite Hf.
  apply (stepF_R_quiet c progs cs L tid th t ck rest (PR_t_init a off) f Hinv Hth Htodo).
  - intros x w. unfold f. destruct (ck && (off =? 0) && (0 <? b_used a)); [|reflexivity].
    destruct (should_persist m r true) as [r' p]. destruct p; reflexivity.
  - split; [exact Q1|split; [exact Q2|exact Q3]].
  - exact G5.
  - exact G6.
  - exact G2.
  - intros Hy. unfold th_okP. cbn. exact Hy.
  - unfold winF. cbn [th_todo th_pc rthreadP]. destruct ck; [|exact I]. rewrite rawts_upd, get_ts_upd_ts, N.eqb_refl.
    rewrite (mid_upd_same cs _ tid th _ (t_id t) Hth) by (unfold th_mid; now rewrite Htodo).
    rewrite (nid_upd_ts cs _ tid _ (t_id t) (f ts)) by reflexivity.
    apply (J_same c (nid_of cs) (nid_of cs) (mid cs (t_id t)) ts (f ts) a G2 G6 (N.le_refl _) Hwin).
  - intros t'. unfold del_pending. cbn. rewrite Htodo, Hpc. now destruct ck.
Qed.

(* the read from the snapshot passed the fix's checks: it is current, the commit is right *)
Lemma stepF_commit c m progs cs L tid th t rest a off e consumed :
  cfg_ok c -> INVF c progs cs L ->
  nth_error (cs_threads cs) tid = Some th -> th_todo th = CRead t true :: rest -> th_pc th = PR_t_init a off ->
  off < b_used a -> block_read c a off = Some (e, consumed) ->
  let ts := get_ts (sh_st (cs_sh cs)) (t_id t) in
  let r := reader_of ts in
  ((r_idx r <? length (r_chain r))%nat || sealed_since (r_chain r) a ||
   negb ((if r_tail_bid r =? b_id a then r_tail_off r else 0) =? off)) = false ->
  forall r6 p, should_persist m (set_tail r (b_id a) (off + consumed)) false = (r6, p) ->
  INVF c progs (upd cs (upd_ts (cs_sh cs) (t_id t) (with_reader ts r6)) tid
                  (rthreadP t true rest (PR_commit true (REntry (out_of e)) (pers_of p true (b_id a) (off + consumed))) (th_done th)))
       (log_add L (t_id t) tid [e]).
Proof.
  intros Hc Hinv Hth Htodo Hpc Hlt Hbr ts r Hval r6 p Hsp. pose proof Hinv as [Inext Its Ibf Ilock Ilen Ith Iwin Ilog Imine Iown Iowned].
  destruct (Ith tid th Hth) as (Hok & _ & _).
  assert (Hhy : hyd (rawts cs (t_id t))) by (eapply th_readP_hyd; eauto; rewrite Hpc; discriminate).
  pose proof (Iwin tid th Hth) as Hwin. unfold winF in Hwin. rewrite Htodo, Hpc in Hwin.
  fold (rawts cs (t_id t)) in ts. fold ts in Hwin.
  apply orb_false_iff in Hval. destruct Hval as (Hval & V3). apply orb_false_iff in Hval. destruct Hval as (V1 & V2).
  destruct Hwin as (Ju & Jid & Jle & [(Jm & (w & suf & A & B & C0 & D))|[Jz|Js]]); [|exfalso; lia|fold r in Js; congruence].
  pose proof (eff_nomid cs (t_id t) Jm) as He. fold ts in He.
  pose proof (tp_idx _ _ _ (Its (t_id t))) as Hidx. rewrite He in Hidx. unfold chain_of in Hidx. fold r in Hidx.
  assert (W1 : r_idx r = length (chain_of ts)) by (unfold chain_of; fold r; lia).
  destruct Hc as (Hh0 & _).
  pose proof (tail_read_step c Hh0 m (nid_of cs) (eff cs (t_id t)) w a suf off (Its (t_id t))) as Hs.
  rewrite He in Hs.
  assert (Hts : off = tail_start ts w).
  { unfold tail_start. fold r. rewrite <- B. apply negb_false_iff in V3. apply N.eqb_eq in V3. now rewrite V3. }
  destruct (Hs Hhy W1 A B C0 D Hts Hlt) as (e' & ru & Hbr' & Hun & Hrest). cbn zeta in Hrest. fold r in Hrest.
  rewrite Hbr in Hbr'. inversion Hbr'; subst e' consumed.
  pose proof (should_persist_same m (set_tail r (b_id a) (off + need c e)) false) as Hf. rewrite Hsp in Hf. cbn [set_tail r_chain] in Hf.
  rewrite Hsp in Hrest. cbn [fst] in Hrest.
  destruct Hrest as (Q1 & Q2 & Q3 & Q4 & Q5).
  apply (stepF_del c progs cs L tid th t rest true e _ ru (fun x => with_reader x r6) Hinv Hth Htodo).
  - intros t'. unfold del_pending. now rewrite Htodo, Hpc.
  - reflexivity.
  - rewrite He. exact Hun.
  - rewrite He. split; [exact Q1|split; [exact Q2|exact Q3]].
  - exact Q4.
  - reflexivity.
  - cbn [with_reader reader_of ts_reader]. destruct Hf as (F1 & _). exact F1.
Qed.

(* ------------------------------------------------------------------ append segments *)
Lemma appendF_common c progs cs L tid th t e rest :
  INVF c progs cs L -> nth_error (cs_threads cs) tid = Some th -> th_todo th = CAppend t e :: rest ->
  head_topic th = Some (t_id t) /\ (forall t', del_pending t' th = []) /\
  own (nth tid progs []) e = true /\ (tid < length progs)%nat.
Proof.
  intros Hinv Hth Htodo. destruct (fv_th _ _ _ _ Hinv tid th Hth) as (_ & _ & Hhist).
  split; [unfold head_topic; now rewrite Htodo|]. split; [intros; unfold del_pending; now rewrite Htodo|].
  split; [eapply own_head, head_in_prog; eauto|]. rewrite <- (fv_len _ _ _ _ Hinv). eapply nth_error_lt; eauto.
Qed.

Lemma stepF_A1 c progs cs L tid th t e rest th' s1 w :
  cfg_ok c -> INVF c progs cs L ->
  nth_error (cs_threads cs) tid = Some th -> th_todo th = CAppend t e :: rest -> th_pc th = PStart ->
  ensure_writer c (sh_st (cs_sh cs)) t = (s1, w) ->
  (th' = athread t e rest PA_flag (th_done th) /\ appendable c t (e_len e) = None \/
   exists k, th' = {| th_todo := rest; th_pc := PStart; th_done := RErr k :: th_done th |}) ->
  INVF c progs (upd cs (with_st (cs_sh cs) s1) tid th') L.
Proof.
  intros Hc Hinv Hth Htodo Hpc Hens Hth'. pose proof Hinv as [Inext Its Ibf Ilock Ilen Ith Iwin Ilog Imine Iown Iowned].
  destruct (appendF_common c progs cs L tid th t e rest Hinv Hth Htodo) as (Hhead & Hdp & Hown & Htl).
  destruct (Ith tid th Hth) as (Hok & Hsimple & Hhist).
  set (t0 := t_id t) in *. set (sh' := with_st (cs_sh cs) s1).
  destruct (ensure_writer_facts c (sh_st (cs_sh cs)) t Hc) as (s1' & w' & He' & Hoth & Hcase). rewrite Hens in He'. inversion He'; subst s1' w'. clear He'.
  assert (Hm : forall t', th_mid t' th = false) by (intros; unfold th_mid; now rewrite Htodo, Hpc).
  assert (Hh : forall t', th_holds t' th = false) by (intros; unfold th_holds; now rewrite Htodo, Hpc).
  assert (Hwp : forall t', wr_pending t' th = []) by (intros; unfold wr_pending; now rewrite Htodo, Hpc).
  assert (Hm' : forall t', th_mid t' th' = false).
  { intros t'. destruct Hth' as [(-> & _)|(k & ->)]; unfold th_mid; cbn; [reflexivity|now destruct rest as [|[| | |] ?]]. }
  assert (Hh' : forall t', th_holds t' th' = false).
  { intros t'. destruct Hth' as [(-> & _)|(k & ->)]; unfold th_holds; cbn; [reflexivity|now destruct rest as [|[| | |] ?]]. }
  assert (Hmideq : forall t', mid (upd cs sh' tid th') t' = mid cs t').
  { intros t'. apply (mid_upd_same cs sh' tid th th' t' Hth). now rewrite Hm', Hm. }
  fold t0 in Hoth, Hcase.
  (* the effective state of t0 *)
  assert (Heff : TInvP c (nid_of (upd cs sh' tid th')) (eff (upd cs sh' tid th') t0) /\
                 stream (eff (upd cs sh' tid th') t0) = stream (eff cs t0) /\
                 unread c (eff (upd cs sh' tid th') t0) = unread c (eff cs t0) /\ nid_of cs <= nid_of (upd cs sh' tid th')).
  { rewrite eff_upd, Hmideq. unfold nid_of at 1 3. cbn [upd cs_sh sh' with_st sh_st].
    destruct Hcase as [(E1 & E2)|(Hnone & b & Hfr & E1 & E2)]; rewrite E1, E2.
    - change (if mid cs t0 then with_writer (get_ts (sh_st (cs_sh cs)) t0) None else get_ts (sh_st (cs_sh cs)) t0) with (eff cs t0).
      split; [apply Its|]. split; [reflexivity|]. split; [reflexivity|]. unfold nid_of. lia.
    - unfold eff, rawts. fold (nid_of cs). destruct (mid cs t0) eqn:Em.
      + rewrite with_writer_twice. pose proof (Its t0) as X. unfold eff, rawts in X. rewrite Em in X.
        split; [eapply TInvP_mono; [|exact X]; lia|]. repeat split; lia.
      + pose proof (Its t0) as X. unfold eff, rawts in X. rewrite Em in X.
        destruct (first_writer c (nid_of cs) _ b Inext X Hnone Hfr) as (F1 & F2 & F3).
        split; [exact F1|]. split; [exact F2|]. split; [exact F3|lia]. }
  destruct Heff as (Q1 & Q2 & Q3 & Q4).
  assert (Hraw_hyd : hyd (rawts cs t0) -> hyd (get_ts (sh_st sh') t0)).
  { cbn [sh' with_st sh_st]. destruct Hcase as [(E1 & _)|(_ & b & _ & E1 & _)]; rewrite E1; auto. }
  assert (Hraw_w : forall w0, ts_writer (rawts cs t0) = Some w0 -> ts_writer (get_ts (sh_st sh') t0) = Some w0).
  { cbn [sh' with_st sh_st]. intros w0 Hw0. destruct Hcase as [(E1 & _)|(Hnone & _)]; [now rewrite E1|]. unfold rawts in Hw0. congruence. }
  assert (Hraw_rd : rd_same (rawts cs t0) (get_ts (sh_st sh') t0)).
  { cbn [sh' with_st sh_st]. destruct Hcase as [(E1 & _)|(_ & b & _ & E1 & _)]; rewrite E1; repeat split. }
  assert (Hraw_snap : forall a, snap_ok c (rawts cs t0) a -> snap_ok c (get_ts (sh_st sh') t0) a).
  { cbn [sh' with_st sh_st]. intros a Hs. destruct Hcase as [(E1 & _)|(Hnone & _)]; [now rewrite E1|].
    destruct Hs as (w0 & suf & A & _). unfold rawts in A. congruence. }
  assert (HJ : forall a, J c (nid_of cs) (mid cs t0) (rawts cs t0) a ->
                         J c (nid_of (upd cs sh' tid th')) (mid cs t0) (get_ts (sh_st sh') t0) a).
  { intros a Ha. change (nid_of (upd cs sh' tid th')) with (a_next (s_alloc s1)).
    change (get_ts (sh_st sh') t0) with (get_ts s1 t0). unfold nid_of, rawts in Ha.
    destruct Hcase as [(E1 & E2)|(Hnone & b & Hfr & E1 & E2)]; rewrite E1, E2.
    - exact Ha.
    - apply (J_new_writer c _ (mid cs t0) (mid cs t0) _ b a); [destruct Hfr; auto|intros _; exact Hnone|exact Ha]. }
  assert (Hseq : forall t', del_seq t' (nth tid progs []) th' = del_seq t' (nth tid progs []) th /\
                            wr_seq t' (nth tid progs []) th' = wr_seq t' (nth tid progs []) th).
  { destruct Hth' as [(-> & _)|(k & ->)].
    - apply seq_same; [split; [now rewrite Htodo|reflexivity]| |].
      + intros t'. now rewrite Hdp.
      + intros t'. now rewrite Hwp.
    - apply (seq_ret _ th _ (CAppend t e) (RErr k) Hhist); [exists rest; repeat split; auto| |].
      + intros t'. now rewrite Hdp.
      + intros t'. now rewrite Hwp. }
  apply (INVF_ext c progs _ (log_add L t0 tid [])); [intros tt; symmetry; apply log_add_nil|].
  apply (INVF_step c progs cs L sh' tid th th' t0 [] [] Hinv Hth Hhead).
  - exact Ibf.
  - exact Q4.
  - exact Hoth.
  - intros t' _. apply Hm'.
  - apply (lock_same cs sh' tid th th' Ilock Hth); [reflexivity|]. intros t'. now rewrite Hh', Hh.
  - exact Q1.
  - apply effect_none; assumption.
  - destruct Hth' as [(-> & Hap)|(k & ->)].
    + split; [unfold th_okP; cbn; exact Hap|]. split; [cbn; now rewrite <- Htodo|].
      eapply hist_ok_same; [|exact Hhist]. split; [now rewrite Htodo|reflexivity].
    + split; [apply th_okP_start; [reflexivity|cbn; rewrite Htodo in Hsimple; now inversion Hsimple]|].
      split; [cbn; rewrite Htodo in Hsimple; now inversion Hsimple|].
      apply (hist_ok_ret _ th _ (CAppend t e) (RErr k)); [exists rest; repeat split; auto|exact I|exact Hhist].
  - intros j thj Hne Hj. destruct (Ith j thj Hj) as (Hokj & _ & _).
    refine (others_th_okP c cs sh' tid th th' t0 Hth Hhead Hoth Hraw_hyd _ j thj Hne Hj Hokj).
    intros j' thj' w0 _ _ _ Hw0. now apply Hraw_w.
  - destruct Hth' as [(-> & _)|(k & ->)]; [unfold winF; cbn; exact I|apply winF_start; reflexivity].
  - intros j thj Hne Hj.
    refine (others_winF c cs sh' tid th th' t0 Hth Hhead Hoth (fun t' _ => Hm' t') Q4 _ j thj Hne Hj (Iwin j thj Hj)).
    intros a Ha. rewrite Hmideq. exact (HJ a Ha).
  - rewrite app_nil_r. apply Hseq.
  - intros i thi tho Hi Hio. cbn [filter]. rewrite app_nil_r.
    destruct (Nat.eq_dec i tid) as [->|Hne].
    + rewrite (upd_nth_same _ _ _ _ _ Hth) in Hi. inversion Hi; subst thi. rewrite Hth in Hio. inversion Hio; subst tho. apply Hseq.
    + rewrite upd_nth_other in Hi by exact Hne. congruence.
  - intros e0 [].
  - intros t' _. apply Hseq.
Qed.

Lemma appF_bookkeeping c progs cs L sh' tid th t e rest :
  NoDup (offered_pids progs) -> INVF c progs cs L ->
  nth_error (cs_threads cs) tid = Some th -> th_todo th = CAppend t e :: rest -> th_pc th <> PA_written ->
  let th' := athread t e rest PA_written (th_done th) in
  let cs' := upd cs sh' tid th' in
  del_seq (t_id t) (nth tid progs []) th' = del_seq (t_id t) (nth tid progs []) th ++ map out_of [] /\
  (forall i thi tho, nth_error (cs_threads cs') i = Some thi -> nth_error (cs_threads cs) i = Some tho ->
     wr_seq (t_id t) (nth i progs []) thi = wr_seq (t_id t) (nth i progs []) tho ++ filter (own (nth i progs [])) [e]) /\
  (forall e0, In e0 [e] -> exists i, (i < length progs)%nat /\ own (nth i progs []) e0 = true) /\
  (forall t', t' <> t_id t -> del_seq t' (nth tid progs []) th' = del_seq t' (nth tid progs []) th /\
                              wr_seq t' (nth tid progs []) th' = wr_seq t' (nth tid progs []) th).
Proof.
  intros Hnd Hinv Hth Htodo Hpc th' cs'.
  destruct (appendF_common c progs cs L tid th t e rest Hinv Hth Htodo) as (Hhead & Hdp & Hown & Htl).
  assert (Hsame : same_hist th th') by (split; [now rewrite Htodo|reflexivity]).
  assert (Hwp : forall t', wr_pending t' th = []).
  { intros t'. unfold wr_pending. rewrite Htodo. destruct (th_pc th); try reflexivity. congruence. }
  assert (Hdp' : forall t', del_pending t' th' = []) by (intros; reflexivity).
  split; [|split; [|split]].
  - cbn [map]. rewrite app_nil_r. apply del_seq_same; [exact Hsame|]. now rewrite Hdp', Hdp.
  - intros i thi tho Hi Hio.
    destruct (Nat.eq_dec i tid) as [->|Hne].
    + unfold cs' in Hi. rewrite (upd_nth_same _ _ _ _ _ Hth) in Hi. inversion Hi; subst thi. rewrite Hth in Hio. inversion Hio; subst tho.
      cbn [filter]. rewrite Hown. unfold wr_seq, done_of. destruct Hsame as (A & B). rewrite A, B. rewrite <- app_assoc. f_equal.
      rewrite Hwp. unfold wr_pending, th'. cbn. now rewrite N.eqb_refl.
    + unfold cs' in Hi. rewrite upd_nth_other in Hi by exact Hne. assert (thi = tho) by congruence. subst tho.
      cbn [filter]. destruct (own (nth i progs []) e) eqn:Eo; [|now rewrite app_nil_r].
      exfalso. apply Hne. apply (own_excl progs i tid e Hnd); auto.
      rewrite <- (fv_len _ _ _ _ Hinv). eapply nth_error_lt; eauto.
  - intros e0 [<-|[]]. exists tid. split; assumption.
  - intros t' Hne. split.
    + apply del_seq_same; [exact Hsame|]. now rewrite Hdp', Hdp.
    + apply wr_seq_same; [exact Hsame|]. rewrite Hwp. unfold wr_pending, th'. cbn. now replace (t_id t =? t') with false by lia.
Qed.

Lemma stepF_A2_write c progs cs L tid th t e rest w :
  cfg_ok c -> NoDup (offered_pids progs) -> INVF c progs cs L ->
  nth_error (cs_threads cs) tid = Some th -> th_todo th = CAppend t e :: rest -> th_pc th = PA_flag ->
  wl_holder (sh_wl (cs_sh cs)) (t_id t) = None ->
  ts_writer (get_ts (sh_st (cs_sh cs)) (t_id t)) = Some w ->
  (b_limit w <? b_used w + need c e) = false ->
  INVF c progs (upd cs (with_st (cs_sh cs) (write_entry (sh_st (cs_sh cs)) t w c e)) tid (athread t e rest PA_written (th_done th))) L.
Proof.
  intros Hc Hnd Hinv Hth Htodo Hpc Hfree Hw0 Hfit. pose proof Hinv as [Inext Its Ibf Ilock Ilen Ith Iwin Ilog Imine Iown Iowned].
  destruct (appendF_common c progs cs L tid th t e rest Hinv Hth Htodo) as (Hhead & Hdp & Hown & Htl).
  destruct (Ith tid th Hth) as (Hok & Hsimple & Hhist).
  set (t0 := t_id t) in *. set (th' := athread t e rest PA_written (th_done th)).
  set (sh' := with_st (cs_sh cs) (write_entry (sh_st (cs_sh cs)) t w c e)).
  set (raw := get_ts (sh_st (cs_sh cs)) t0) in *.
  assert (Hnm : mid cs t0 = false) by (apply mid_false_free; assumption).
  assert (Hm : forall t', th_mid t' th = false) by (intros; unfold th_mid; now rewrite Htodo, Hpc).
  assert (Hh : forall t', th_holds t' th = false) by (intros; unfold th_holds; now rewrite Htodo, Hpc).
  assert (Hraw' : get_ts (sh_st sh') t0 = with_writer raw (Some (blk_add w c [e]))).
  { unfold sh', write_entry. cbn [with_st sh_st]. rewrite get_set_same. now rewrite get_ts_disk_write. }
  assert (Hoth : forall t', t' <> t0 -> get_ts (sh_st sh') t' = get_ts (sh_st (cs_sh cs)) t').
  { intros t' Hne. unfold sh', write_entry. cbn [with_st sh_st]. rewrite get_set_other by exact Hne. apply get_ts_disk_write. }
  assert (Hmideq : forall t', mid (upd cs sh' tid th') t' = mid cs t').
  { intros t'. apply (mid_upd_same cs sh' tid th th' t' Hth). now rewrite Hm. }
  assert (Hnid : nid_of (upd cs sh' tid th') = nid_of cs) by reflexivity.
  pose proof (Its t0) as X. rewrite (eff_nomid _ _ Hnm) in X. fold raw in X. unfold rawts in X. fold t0 raw in X.
  destruct Hc as (Hh0 & Hrestc).
  destruct (add_entry c Hh0 (nid_of cs) raw w e X Hw0 ltac:(lia)) as (A1 & A2 & A3).
  assert (Heff' : eff (upd cs sh' tid th') t0 = with_writer raw (Some (blk_add w c [e]))).
  { rewrite eff_upd, Hmideq, Hnm. exact Hraw'. }
  destruct (appF_bookkeeping c progs cs L sh' tid th t e rest Hnd Hinv Hth Htodo ltac:(rewrite Hpc; discriminate)) as (B1 & B2 & B3 & B4).
  apply (INVF_ext c progs _ (log_add L t0 tid [])); [intros tt; symmetry; apply log_add_nil|].
  apply (INVF_step c progs cs L sh' tid th th' t0 [e] [] Hinv Hth Hhead).
  - exact Ibf.
  - rewrite Hnid. lia.
  - exact Hoth.
  - intros t' _. reflexivity.
  - apply (lock_same cs sh' tid th th' Ilock Hth); [reflexivity|]. intros t'. now rewrite Hh.
  - rewrite Heff', Hnid. exact A1.
  - rewrite Heff', (eff_nomid _ _ Hnm). unfold rawts. fold t0 raw. split; [exact A2|]. cbn [app]. now rewrite A3.
  - split; [unfold th_okP, th'; cbn; exact I|]. split; [cbn; now rewrite <- Htodo|].
    eapply hist_ok_same; [|exact Hhist]. split; [now rewrite Htodo|reflexivity].
  - intros j thj Hne Hj. destruct (Ith j thj Hj) as (Hokj & _ & _).
    refine (others_th_okP c cs sh' tid th th' t0 Hth Hhead Hoth _ _ j thj Hne Hj Hokj).
    + rewrite Hraw'. auto.
    + intros j' thj' w0 _ Hj' Hhold _. exfalso. specialize (Ilock t0). rewrite Hfree in Ilock. rewrite (Ilock j' thj' Hj') in Hhold. discriminate.
  - unfold winF, th'. cbn. exact I.
  - intros j thj Hne Hj.
    refine (others_winF c cs sh' tid th th' t0 Hth Hhead Hoth (fun t' _ => eq_refl) _ _ j thj Hne Hj (Iwin j thj Hj)).
    + rewrite Hnid. lia.
    + intros a Ha. rewrite Hnid, Hmideq, Hraw'. apply J_write; [exact Hw0|exact Ha].
  - exact B1.
  - exact B2.
  - exact B3.
  - exact B4.
Qed.

Lemma stepF_A2_take c progs cs L tid th t e rest w :
  INVF c progs cs L ->
  nth_error (cs_threads cs) tid = Some th -> th_todo th = CAppend t e :: rest -> th_pc th = PA_flag ->
  wl_holder (sh_wl (cs_sh cs)) (t_id t) = None ->
  ts_writer (get_ts (sh_st (cs_sh cs)) (t_id t)) = Some w ->
  INVF c progs (upd cs (wl_take (cs_sh cs) (t_id t) tid) tid (athread t e rest (PA_seal_pre w) (th_done th))) L.
Proof.
  intros Hinv Hth Htodo Hpc Hfree Hw0. pose proof Hinv as [Inext Its Ibf Ilock Ilen Ith Iwin Ilog Imine Iown Iowned].
  destruct (appendF_common c progs cs L tid th t e rest Hinv Hth Htodo) as (Hhead & Hdp & Hown & Htl).
  destruct (Ith tid th Hth) as (Hok & Hsimple & Hhist).
  set (t0 := t_id t) in *. set (th' := athread t e rest (PA_seal_pre w) (th_done th)).
  set (sh' := wl_take (cs_sh cs) t0 tid).
  assert (Hm : forall t', th_mid t' th = false) by (intros; unfold th_mid; now rewrite Htodo, Hpc).
  assert (Hh : forall t', th_holds t' th = false) by (intros; unfold th_holds; now rewrite Htodo, Hpc).
  assert (Hmideq : forall t', mid (upd cs sh' tid th') t' = mid cs t').
  { intros t'. apply (mid_upd_same cs sh' tid th th' t' Hth). now rewrite Hm. }
  assert (Heff' : forall t', eff (upd cs sh' tid th') t' = eff cs t') by (intros t'; rewrite eff_upd, Hmideq; reflexivity).
  assert (Hsame : same_hist th th') by (split; [now rewrite Htodo|reflexivity]).
  assert (Hseq := seq_same (nth tid progs []) th th' Hsame).
  assert (Hap : appendable c t (e_len e) = None) by (unfold th_okP in Hok; now rewrite Htodo, Hpc in Hok).
  apply (INVF_ext c progs _ (log_add L t0 tid [])); [intros tt; symmetry; apply log_add_nil|].
  apply (INVF_step c progs cs L sh' tid th th' t0 [] [] Hinv Hth Hhead).
  - exact Ibf.
  - unfold nid_of. cbn. lia.
  - reflexivity.
  - intros t' _. reflexivity.
  - apply (lock_take cs sh' tid th th' t0 Ilock Hth Hfree eq_refl).
    + intros t' Hne. unfold th_holds, th'. cbn. fold t0. now replace (t0 =? t') with false by lia.
    + intros t' _. apply Hh.
  - rewrite Heff'. apply Its.
  - rewrite Heff'. apply effect_none; reflexivity.
  - split; [unfold th_okP, th'; cbn; split; [exact Hap|exact Hw0]|]. split; [cbn; now rewrite <- Htodo|].
    eapply hist_ok_same; eauto.
  - intros j thj Hne Hj. destruct (Ith j thj Hj) as (Hokj & _ & _).
    refine (others_th_okP c cs sh' tid th th' t0 Hth Hhead (fun _ _ => eq_refl) _ _ j thj Hne Hj Hokj); auto.
  - unfold winF, th'. cbn. exact I.
  - intros j thj Hne Hj.
    refine (others_winF c cs sh' tid th th' t0 Hth Hhead (fun _ _ => eq_refl) (fun t' _ => eq_refl) _ _ j thj Hne Hj (Iwin j thj Hj)).
    + unfold nid_of. cbn. lia.
    + intros a Ha. rewrite Hmideq. exact Ha.
  - rewrite app_nil_r. apply Hseq; intros; [now rewrite Hdp|unfold wr_pending; now rewrite Htodo, Hpc].
  - intros i thi tho Hi Hio. cbn [filter]. rewrite app_nil_r.
    destruct (Nat.eq_dec i tid) as [->|Hne].
    + rewrite (upd_nth_same _ _ _ _ _ Hth) in Hi. inversion Hi; subst thi. rewrite Hth in Hio. inversion Hio; subst tho.
      apply Hseq; intros; [now rewrite Hdp|unfold wr_pending; now rewrite Htodo, Hpc].
    + rewrite upd_nth_other in Hi by exact Hne. congruence.
  - intros e0 [].
  - intros t' _. apply Hseq; intros; [now rewrite Hdp|unfold wr_pending; now rewrite Htodo, Hpc].
Qed.

Lemma stepF_A3 c progs cs L tid th t e rest w :
  cfg_ok c -> INVF c progs cs L ->
  nth_error (cs_threads cs) tid = Some th -> th_todo th = CAppend t e :: rest -> th_pc th = PA_seal_pre w ->
  INVF c progs (upd cs (upd_ts (cs_sh cs) (t_id t) (seal (get_ts (sh_st (cs_sh cs)) (t_id t)) w)) tid
                 (athread t e rest PA_seal_post (th_done th))) L.
Proof.
  intros Hc Hinv Hth Htodo Hpc. pose proof Hinv as [Inext Its Ibf Ilock Ilen Ith Iwin Ilog Imine Iown Iowned].
  destruct (appendF_common c progs cs L tid th t e rest Hinv Hth Htodo) as (Hhead & Hdp & Hown & Htl).
  destruct (Ith tid th Hth) as (Hok & Hsimple & Hhist).
  set (t0 := t_id t) in *. set (raw := get_ts (sh_st (cs_sh cs)) t0).
  set (th' := athread t e rest PA_seal_post (th_done th)). set (sh' := upd_ts (cs_sh cs) t0 (seal raw w)).
  unfold th_okP in Hok. rewrite Htodo, Hpc in Hok. destruct Hok as (Hap & Hw0). fold t0 in Hw0. unfold rawts in Hw0. fold raw in Hw0.
  assert (Hhold : th_holds t0 th = true) by (unfold th_holds; rewrite Htodo, Hpc; apply N.eqb_refl).
  assert (Hmth : th_mid t0 th = false) by (unfold th_mid; now rewrite Htodo, Hpc).
  assert (Hnm : mid cs t0 = false) by (eapply mid_false_holder; eauto).
  assert (Hoth : forall t', t' <> t0 -> get_ts (sh_st sh') t' = get_ts (sh_st (cs_sh cs)) t').
  { intros t' Hne. unfold sh'. rewrite get_ts_upd_ts. now replace (t' =? t0) with false by lia. }
  assert (Hraw' : get_ts (sh_st sh') t0 = seal raw w) by (unfold sh'; rewrite get_ts_upd_ts; now rewrite N.eqb_refl).
  assert (Hmid' : mid (upd cs sh' tid th') t0 = true).
  { rewrite (mid_upd_others_false cs sh' tid th th' t0 Hth); [unfold th_mid, th'; cbn; apply N.eqb_refl|].
    apply (others_not_mid cs tid th t0 Ilock Hth (or_intror Hhold)). }
  assert (Hnid : nid_of (upd cs sh' tid th') = nid_of cs) by (apply (nid_upd_ts cs sh' tid th' t0 (seal raw w)); reflexivity).
  destruct Hc as (Hh0 & Hrestc).
  pose proof (Its t0) as X. rewrite (eff_nomid _ _ Hnm) in X. unfold rawts in X. fold raw in X.
  destruct (seal_drop_same_nid c Hh0 (nid_of cs) raw w Inext X Hw0) as (S1 & S2 & S3).
  assert (Heff' : eff (upd cs sh' tid th') t0 = with_writer (seal raw w) None) by (rewrite eff_upd, Hmid', Hraw'; reflexivity).
  assert (Hsame : same_hist th th') by (split; [now rewrite Htodo|reflexivity]).
  assert (Hseq : forall t', del_seq t' (nth tid progs []) th' = del_seq t' (nth tid progs []) th /\
                            wr_seq t' (nth tid progs []) th' = wr_seq t' (nth tid progs []) th).
  { apply seq_same; [exact Hsame| |]; intros t'; [now rewrite Hdp|unfold wr_pending; now rewrite Htodo, Hpc]. }
  apply (INVF_ext c progs _ (log_add L t0 tid [])); [intros tt; symmetry; apply log_add_nil|].
  apply (INVF_step c progs cs L sh' tid th th' t0 [] [] Hinv Hth Hhead).
  - exact Ibf.
  - rewrite Hnid. lia.
  - exact Hoth.
  - intros t' Hne. unfold th_mid, th'. cbn. fold t0. now replace (t0 =? t') with false by lia.
  - apply (lock_same cs sh' tid th th' Ilock Hth); [reflexivity|]. intros t'. unfold th_holds, th'. cbn. now rewrite Htodo, Hpc.
  - rewrite Heff', Hnid. exact S1.
  - rewrite Heff', (eff_nomid _ _ Hnm). unfold rawts. fold raw. apply effect_none; assumption.
  - split; [unfold th_okP, th'; cbn; exact Hap|]. split; [cbn; now rewrite <- Htodo|]. eapply hist_ok_same; eauto.
  - intros j thj Hne Hj. destruct (Ith j thj Hj) as (Hokj & _ & _).
    refine (others_th_okP c cs sh' tid th th' t0 Hth Hhead Hoth _ _ j thj Hne Hj Hokj).
    + rewrite Hraw'. apply hyd_seal.
    + intros j' thj' w0 _ _ _ Hw1. rewrite Hraw'. exact Hw1.
  - unfold winF, th'. cbn. exact I.
  - intros j thj Hne Hj.
    refine (others_winF c cs sh' tid th th' t0 Hth Hhead Hoth _ _ _ j thj Hne Hj (Iwin j thj Hj)).
    + intros t' Hne'. unfold th_mid, th'. cbn. fold t0. now replace (t0 =? t') with false by lia.
    + rewrite Hnid. lia.
    + intros a Ha. rewrite Hnid, Hmid', Hraw'. apply (J_seal c (nid_of cs) (mid cs t0) raw w a Hw0); [|exact Ha].
      pose proof (tp_writer _ _ _ X) as Hwf. unfold w_list in Hwf. rewrite Hw0 in Hwf. inversion Hwf as [|x l (A & _) _]. exact A.
  - rewrite app_nil_r. apply Hseq.
  - intros i thi tho Hi Hio. cbn [filter]. rewrite app_nil_r.
    destruct (Nat.eq_dec i tid) as [->|Hne].
    + rewrite (upd_nth_same _ _ _ _ _ Hth) in Hi. inversion Hi; subst thi. rewrite Hth in Hio. inversion Hio; subst tho. apply Hseq.
    + rewrite upd_nth_other in Hi by exact Hne. congruence.
  - intros e0 [].
  - intros t' _. apply Hseq.
Qed.

Lemma stepF_A4 c progs cs L tid th t e rest :
  cfg_ok c -> NoDup (offered_pids progs) -> INVF c progs cs L ->
  nth_error (cs_threads cs) tid = Some th -> th_todo th = CAppend t e :: rest -> th_pc th = PA_seal_post ->
  exists s1 nb, alloc_sized c (sh_st (cs_sh cs)) (need c e) = Some (s1, nb) /\
    INVF c progs (upd cs (wl_release (with_st (cs_sh cs) (write_entry s1 t nb c e)) (t_id t)) tid
                   (athread t e rest PA_written (th_done th))) L.
Proof.
  intros Hc Hnd Hinv Hth Htodo Hpc. pose proof Hinv as [Inext Its Ibf Ilock Ilen Ith Iwin Ilog Imine Iown Iowned].
  destruct (appendF_common c progs cs L tid th t e rest Hinv Hth Htodo) as (Hhead & Hdp & Hown & Htl).
  destruct (Ith tid th Hth) as (Hok & Hsimple & Hhist).
  set (t0 := t_id t) in *. set (raw := get_ts (sh_st (cs_sh cs)) t0).
  unfold th_okP in Hok. rewrite Htodo, Hpc in Hok.
  pose proof Hc as (Hh0 & Hb0 & Hba & Hbm & Hme & Hhb).
  destruct (appendable_none_inv c t (e_len e) Hc Hok) as (Hname & Hsz). fold (need c e) in Hsz.
  destruct (alloc_sized_spec c (sh_st (cs_sh cs)) (need c e) Hb0 Hbm (need_pos c e Hh0) Hsz) as (s1 & nb & Ha & Hsame & Hnext & Hfresh & Hlim).
  exists s1, nb. split; [exact Ha|].
  set (th' := athread t e rest PA_written (th_done th)).
  set (sh' := wl_release (with_st (cs_sh cs) (write_entry s1 t nb c e)) t0).
  assert (Hhold : th_holds t0 th = true) by (unfold th_holds; rewrite Htodo, Hpc; apply N.eqb_refl).
  assert (Hmth : th_mid t0 th = true) by (unfold th_mid; rewrite Htodo, Hpc; apply N.eqb_refl).
  assert (Hmid : mid cs t0 = true) by (eapply existsb_nth_true; eauto).
  assert (Hraw' : get_ts (sh_st sh') t0 = with_writer raw (Some (blk_add nb c [e]))).
  { unfold sh', write_entry. cbn [wl_release with_st sh_st]. rewrite get_set_same, get_ts_disk_write. now rewrite Hsame. }
  assert (Hoth : forall t', t' <> t0 -> get_ts (sh_st sh') t' = get_ts (sh_st (cs_sh cs)) t').
  { intros t' Hne. unfold sh', write_entry. cbn [wl_release with_st sh_st]. rewrite get_set_other by exact Hne. rewrite get_ts_disk_write. apply Hsame. }
  assert (Hmid' : mid (upd cs sh' tid th') t0 = false).
  { rewrite (mid_upd_others_false cs sh' tid th th' t0 Hth); [reflexivity|].
    apply (others_not_mid cs tid th t0 Ilock Hth (or_intror Hhold)). }
  assert (Hnid : nid_of (upd cs sh' tid th') = nid_of cs + 1).
  { unfold nid_of, sh', write_entry. cbn [upd cs_sh wl_release with_st sh_st set_ts st_disk_write s_alloc]. exact Hnext. }
  pose proof (Its t0) as X. unfold eff in X. rewrite Hmid in X. unfold rawts in X. fold raw in X.
  destruct (first_writer c (nid_of cs) (with_writer raw None) nb Inext X eq_refl Hfresh) as (F1 & F2 & F3).
  rewrite with_writer_twice in F1, F2, F3.
  assert (Hroom : b_used nb + need c e <= b_limit nb) by (destruct Hfresh as (_ & Fu & _ & _); lia).
  destruct (add_entry c Hh0 (nid_of cs + 1) (with_writer raw (Some nb)) nb e F1 eq_refl Hroom) as (A1 & A2 & A3).
  rewrite with_writer_twice in A1, A2, A3.
  assert (Heff' : eff (upd cs sh' tid th') t0 = with_writer raw (Some (blk_add nb c [e]))) by (rewrite eff_upd, Hmid', Hraw'; reflexivity).
  assert (Heff0 : eff cs t0 = with_writer raw None) by (unfold eff; now rewrite Hmid).
  destruct (appF_bookkeeping c progs cs L sh' tid th t e rest Hnd Hinv Hth Htodo ltac:(rewrite Hpc; discriminate)) as (B1 & B2 & B3 & B4).
  apply (INVF_ext c progs _ (log_add L t0 tid [])); [intros tt; symmetry; apply log_add_nil|].
  apply (INVF_step c progs cs L sh' tid th th' t0 [e] [] Hinv Hth Hhead).
  - exact Ibf.
  - rewrite Hnid. lia.
  - exact Hoth.
  - intros t' _. reflexivity.
  - apply (lock_release cs sh' tid th th' t0 Ilock Hth Hhold eq_refl).
    + intros t'. reflexivity.
    + intros t' Hne. eapply head_topic_holds_false; eauto.
  - rewrite Heff', Hnid. exact A1.
  - rewrite Heff', Heff0. split; [now rewrite A2, F2|]. cbn [app]. now rewrite A3, F3.
  - split; [unfold th_okP, th'; cbn; exact I|]. split; [cbn; now rewrite <- Htodo|].
    eapply hist_ok_same; [|exact Hhist]. split; [now rewrite Htodo|reflexivity].
  - intros j thj Hne Hj. destruct (Ith j thj Hj) as (Hokj & _ & _).
    refine (others_th_okP c cs sh' tid th th' t0 Hth Hhead Hoth _ _ j thj Hne Hj Hokj).
    + rewrite Hraw'. auto.
    + intros j' thj' w0 Hne' Hj' Hhold' _. exfalso. specialize (Ilock t0).
      destruct (wl_holder (sh_wl (cs_sh cs)) t0) as [x|].
      * pose proof (Ilock j' thj' Hj' Hhold'). pose proof (Ilock tid th Hth Hhold). congruence.
      * rewrite (Ilock tid th Hth) in Hhold. discriminate.
  - unfold winF, th'. cbn. exact I.
  - intros j thj Hne Hj.
    refine (others_winF c cs sh' tid th th' t0 Hth Hhead Hoth (fun t' _ => eq_refl) _ _ j thj Hne Hj (Iwin j thj Hj)).
    + rewrite Hnid. lia.
    + intros a0 HJa. rewrite Hnid, Hmid', Hraw'. apply (J_new_writer c (nid_of cs) (mid cs t0) false raw (blk_add nb c [e]) a0); [|intros Hf; congruence|exact HJa].
      destruct Hfresh as (Fi & _). exact Fi.
  - exact B1.
  - exact B2.
  - exact B3.
  - exact B4.
Qed.

Lemma stepF_A5 c progs cs L tid th t e rest :
  cfg_ok c -> INVF c progs cs L ->
  nth_error (cs_threads cs) tid = Some th -> th_todo th = CAppend t e :: rest -> th_pc th = PA_written ->
  INVF c progs (upd cs (upd_ts (cs_sh cs) (t_id t) (count_add (get_ts (sh_st (cs_sh cs)) (t_id t)) 1)) tid
                 {| th_todo := rest; th_pc := PStart; th_done := ROk :: th_done th |}) L.
Proof.
  intros Hc Hinv Hth Htodo Hpc. pose proof Hinv as [Inext Its Ibf Ilock Ilen Ith Iwin Ilog Imine Iown Iowned].
  set (t0 := t_id t). set (raw := get_ts (sh_st (cs_sh cs)) t0).
  set (sh' := upd_ts (cs_sh cs) t0 (count_add raw 1)).
  set (th' := {| th_todo := rest; th_pc := PStart; th_done := ROk :: th_done th |}).
  assert (Hhead : head_topic th = Some t0) by (unfold head_topic; now rewrite Htodo).
  destruct (Ith tid th Hth) as (Hok & Hsimple & Hhist).
  assert (Hoth : forall t', t' <> t0 -> get_ts (sh_st sh') t' = get_ts (sh_st (cs_sh cs)) t').
  { intros t' Hne. unfold sh'. rewrite get_ts_upd_ts. now replace (t' =? t0) with false by lia. }
  assert (Hraw' : get_ts (sh_st sh') t0 = count_add raw 1) by (unfold sh'; rewrite get_ts_upd_ts; now rewrite N.eqb_refl).
  assert (Hmid' : forall t', th_mid t' th' = false) by (intros; unfold th_mid, th'; cbn; now destruct rest as [|[| | |] ?]).
  assert (Hholds' : forall t', th_holds t' th' = false) by (intros; unfold th_holds, th'; cbn; now destruct rest as [|[| | |] ?]).
  assert (Hholds : forall t', th_holds t' th = false) by (intros; unfold th_holds; now rewrite Htodo, Hpc).
  assert (Hmidth : forall t', th_mid t' th = false) by (intros; unfold th_mid; now rewrite Htodo, Hpc).
  assert (Hmideq : forall t', mid (upd cs sh' tid th') t' = mid cs t').
  { intros t'. apply (mid_upd_same cs sh' tid th th' t' Hth). now rewrite Hmid', Hmidth. }
  assert (Heff' : eff (upd cs sh' tid th') t0 = count_add (eff cs t0) 1).
  { rewrite eff_upd, Hmideq, Hraw'. unfold eff, rawts. fold t0 raw. destruct (mid cs t0); [now rewrite count_add_writer|reflexivity]. }
  assert (Hret : returned th th' (CAppend t e) ROk) by (exists rest; repeat split; auto).
  apply (INVF_ext c progs _ (log_add L t0 tid [])); [intros tt; symmetry; apply log_add_nil|].
  apply (INVF_step c progs cs L sh' tid th th' t0 [] [] Hinv Hth Hhead).
  - unfold sh', upd_ts, with_st. cbn. exact Ibf.
  - rewrite (nid_upd_ts cs sh' tid th' t0 (count_add raw 1)) by reflexivity. lia.
  - exact Hoth.
  - intros t' _. apply Hmid'.
  - apply (lock_same cs sh' tid th th' Ilock Hth); [reflexivity|]. intros; now rewrite Hholds', Hholds.
  - rewrite Heff', (nid_upd_ts cs sh' tid th' t0 (count_add raw 1)) by reflexivity. apply TInvP_count_add, Its.
  - rewrite Heff'. apply effect_none; [apply stream_count_add|apply unread_count_add].
  - split; [apply th_okP_start; [reflexivity|]|split].
    + cbn. rewrite Htodo in Hsimple. now inversion Hsimple.
    + cbn. rewrite Htodo in Hsimple. now inversion Hsimple.
    + eapply hist_ok_ret; eauto. exact I.
  - intros j thj Hne Hj. destruct (Ith j thj Hj) as (Hokj & _ & _).
    refine (others_th_okP c cs sh' tid th th' t0 Hth Hhead Hoth _ _ j thj Hne Hj Hokj).
    + rewrite Hraw'. apply hyd_count_add.
    + intros j' thj' w _ _ _ Hw. rewrite Hraw', writer_count_add. exact Hw.
  - apply winF_start. reflexivity.
  - intros j thj Hne Hj.
    refine (others_winF c cs sh' tid th th' t0 Hth Hhead Hoth (fun t' _ => Hmid' t') _ _ j thj Hne Hj (Iwin j thj Hj)).
    + rewrite (nid_upd_ts cs sh' tid th' t0 (count_add raw 1)) by reflexivity. lia.
    + intros a Ha. rewrite (nid_upd_ts cs sh' tid th' t0 (count_add raw 1)) by reflexivity. rewrite Hmideq, Hraw'.
      apply (J_same c (nid_of cs) (nid_of cs) (mid cs t0) (rawts cs t0) (count_add raw 1) a); auto; try lia;
        unfold count_add; now destruct (1 =? 0).
  - rewrite app_nil_r. eapply del_seq_ret; eauto. unfold del_pending. now rewrite Htodo.
  - intros i thi tho Hi Hio. cbn [filter]. rewrite app_nil_r.
    destruct (Nat.eq_dec i tid) as [->|Hne].
    + rewrite (upd_nth_same _ _ _ _ _ Hth) in Hi. inversion Hi; subst thi. rewrite Hth in Hio. inversion Hio; subst tho.
      eapply wr_seq_ret; eauto. unfold wr_pending. rewrite Htodo, Hpc. cbn. fold t0. now rewrite N.eqb_refl.
    + rewrite upd_nth_other in Hi by exact Hne. congruence.
  - intros e0 [].
  - intros t' Hne. split.
    + eapply del_seq_ret; eauto. unfold del_pending. now rewrite Htodo.
    + eapply wr_seq_ret; eauto. unfold wr_pending. rewrite Htodo, Hpc. cbn. fold t0. now replace (t0 =? t') with false by lia.
Qed.
