(* ConcInv.v — invariants of the concurrent model (model/Conc.v) for programs made of single
   appends and consuming read_next calls, code as it is (fx = false).
   Part 1: per-topic facts.  While an append is between its chain push and the installation of
   the new block (pc PA_seal_post) the old block is both sealed in the chain and still the
   writer's block; readers cannot see the writer then (they need its mutexes), so the topic is
   described by its EFFECTIVE state: the raw state without the writer. *)
From W Require Import model.Base model.Engine model.Conc proofs.EngineWF proofs.EngineInv proofs.EngineW proofs.EngineBR.
From Coq Require Import ZArith ZifyBool ZifyN ZifyNat.

(* ------------------------------------------------------------------ small list facts *)
Lemma nth_error_set_nth_same {A} (l : list A) n x : (n < length l)%nat -> nth_error (c_set_nth l n x) n = Some x.
Proof. revert n; induction l as [|a l IH]; intros n H; cbn in *; [lia|]. destruct n; cbn; [reflexivity|]. apply IH. lia. Qed.
Lemma nth_error_set_nth_other {A} (l : list A) n m x : n <> m -> nth_error (c_set_nth l n x) m = nth_error l m.
Proof.
  revert n m; induction l as [|a l IH]; intros n m H; cbn; [reflexivity|].
  destruct n, m; cbn; try reflexivity; try congruence. apply IH. congruence.
Qed.
Lemma length_set_nth {A} (l : list A) n x : length (c_set_nth l n x) = length l.
Proof. revert n; induction l as [|a l IH]; intros n; cbn; [reflexivity|]. destruct n; cbn; [reflexivity|]. now rewrite IH. Qed.
Lemma nth_error_lt {A} (l : list A) n x : nth_error l n = Some x -> (n < length l)%nat.
Proof. intros H. apply nth_error_Some. congruence. Qed.

(* ------------------------------------------------------------------ tstate updates *)
Lemma with_writer_twice ts a b : with_writer (with_writer ts a) b = with_writer ts b.
Proof. reflexivity. Qed.
Lemma with_reader_writer ts r w : with_reader (with_writer ts w) r = with_writer (with_reader ts r) w.
Proof. reflexivity. Qed.
Lemma with_index_writer ts p w : with_index (with_writer ts w) p = with_writer (with_index ts p) w.
Proof. reflexivity. Qed.
Lemma count_add_writer ts d w : count_add (with_writer ts w) d = with_writer (count_add ts d) w.
Proof. unfold count_add. now destruct (d =? 0). Qed.
Lemma count_sub_writer ts d w : count_sub (with_writer ts w) d = with_writer (count_sub ts d) w.
Proof. unfold count_sub. now destruct (d =? 0). Qed.

(* dropping the writer of a state whose writer block is empty changes nothing a reader sees *)
Lemma drop_empty_writer c nid ts nb :
  TInvP c nid ts -> ts_writer ts = Some nb -> b_ents nb = [] ->
  TInvP c nid (with_writer ts None) /\ stream (with_writer ts None) = stream ts /\
  unread c (with_writer ts None) = unread c ts.
Proof.
  intros [Hp Hu Hch Hw Hnd Hids Htl Hidx Hend Hcur Hst Htail Hhyd] Hsome He.
  unfold chain_of, w_list, tail_start in *. rewrite Hsome in *.
  split; [|split].
  - constructor; unfold chain_of, w_list, tail_start; nww; auto.
    + rewrite app_nil_r. rewrite map_app in Hnd. cbn [map] in Hnd. apply NoDup_remove_1 in Hnd. now rewrite app_nil_r in Hnd.
    + rewrite app_nil_r. apply Forall_app in Hids. tauto.
    + intros _ w' Hw'. discriminate.
    + intros w' Hw'. discriminate.
  - unfold stream, w_ents, chain_of; nww. now rewrite Hsome, He.
  - unfold unread, w_ents, tail_start; nww. rewrite Hsome, He.
    destruct (skipn _ _); [|reflexivity]. now destruct (_ =? _).
Qed.

(* the chain push alone: the old block is now sealed, the topic (effectively) has no writer *)
Lemma seal_drop c (Hh : 0 < c_hdr c) nid ts w : 0 < nid ->
  TInvP c nid ts -> ts_writer ts = Some w ->
  TInvP c (nid + 1) (with_writer (seal ts w) None) /\
  stream (with_writer (seal ts w) None) = stream ts /\
  unread c (with_writer (seal ts w) None) = unread c ts.
Proof.
  intros Hn Hinv Hsome.
  set (nb := {| b_id := nid; b_file := 0; b_off := 0; b_limit := 0; b_used := 0; b_ents := [] |}).
  assert (Hf : fresh_blk nid nb) by (unfold fresh_blk, nb, u64_max; cbn; repeat split; lia).
  destruct (rotate c Hh nid ts w nb Hn Hinv Hsome Hf) as (R1 & R2 & R3).
  destruct (drop_empty_writer c (nid + 1) _ nb R1 eq_refl eq_refl) as (D1 & D2 & D3).
  rewrite with_writer_twice in *. split; [exact D1|]. split; [now rewrite D2|now rewrite D3].
Qed.

(* reader-only updates keep the invariant (TInv_reader without the count clause) *)
Lemma TInvP_reader c nid ts r' :
  TInvP c nid ts ->
  r_chain r' = chain_of ts ->
  r_tail_bid r' < nid ->
  (r_idx r' <= length (chain_of ts))%nat ->
  (r_idx r' = length (chain_of ts) -> r_off r' = 0) ->
  (forall b, nth_error (chain_of ts) (r_idx r') = Some b -> okoff c (b_ents b) (r_off r')) ->
  ((r_idx r' < length (chain_of ts))%nat -> forall w, ts_writer ts = Some w -> r_tail_bid r' <> b_id w) ->
  (forall w, ts_writer ts = Some w ->
             okoff c (b_ents w) (if r_tail_bid r' =? b_id w then r_tail_off r' else 0)) ->
  r_hydrated r' = true ->
  TInvP c nid (with_reader ts r').
Proof.
  intros [Hp Hu Hch Hw Hnd Hids Htl Hidx Hend Hcur Hst Htail Hhyd] Hc1 Hc2 Hc3 Hc4 Hc5 Hc6 Hc7 Hc8.
  constructor; unfold chain_of, w_list, tail_start, with_reader in *; cbn [reader_of ts_reader ts_writer ts_poisoned ts_unmodelled ts_count ts_index] in *;
    try rewrite Hc1; auto.
  intros Hf. rewrite Hc8 in Hf. discriminate.
Qed.

Lemma unread_with_reader c ts r' :
  unread c (with_reader ts r') =
  match skipn (r_idx r') (r_chain r') with
  | b :: rest => ents_from c (b_ents b) (r_off r') ++ chain_ents rest ++ w_ents ts
  | [] => match ts_writer ts with
          | Some w => ents_from c (b_ents w) (if r_tail_bid r' =? b_id w then r_tail_off r' else 0)
          | None => []
          end
  end.
Proof. reflexivity. Qed.
Lemma stream_with_reader ts r' : r_chain r' = chain_of ts -> stream (with_reader ts r') = stream ts.
Proof. intros H. unfold stream, chain_of, with_reader, w_ents in *. cbn. now rewrite H. Qed.

(* index and count updates *)
Lemma TInvP_with_index c nid ts p : TInvP c nid ts -> r_hydrated (reader_of ts) = true -> TInvP c nid (with_index ts p).
Proof.
  intros [? ? ? ? ? ? ? ? ? ? ? ? ?] Hh. constructor; auto.
  change (reader_of (with_index ts p)) with (reader_of ts). intros Hf. rewrite Hh in Hf. discriminate.
Qed.
Lemma TInvP_count_sub c nid ts d : TInvP c nid ts -> TInvP c nid (count_sub ts d).
Proof. unfold count_sub. destruct (d =? 0); [auto|]. intros [? ? ? ? ? ? ? ? ? ? ? ? ?]. constructor; auto. Qed.
Lemma unread_count_sub c ts d : unread c (count_sub ts d) = unread c ts.
Proof. unfold count_sub. now destruct (d =? 0). Qed.
Lemma stream_count_sub ts d : stream (count_sub ts d) = stream ts.
Proof. unfold count_sub. now destruct (d =? 0). Qed.

(* ------------------------------------------------------------------ read segments, per topic *)
Lemma rn_hydrate_spec c nid ts : TInvP c nid ts ->
  let r' := rn_hydrate ts in
  r_chain r' = chain_of ts /\ r_idx r' = r_idx (reader_of ts) /\ r_off r' = r_off (reader_of ts) /\
  r_tail_bid r' = r_tail_bid (reader_of ts) /\ r_tail_off r' = r_tail_off (reader_of ts) /\ r_hydrated r' = true.
Proof.
  intros Hinv. unfold rn_hydrate.
  destruct (hydrate_fresh (reader_of ts) (ts_index ts) false (tp_hyd _ _ _ Hinv)) as (r1 & Hhy & E1 & E2 & E3 & E4 & E5 & E6 & E7).
  rewrite Hhy. cbn zeta. repeat split; auto.
Qed.

Lemma same_reader_inv c nid ts r' :
  TInvP c nid ts ->
  r_chain r' = chain_of ts -> r_idx r' = r_idx (reader_of ts) -> r_off r' = r_off (reader_of ts) ->
  r_tail_bid r' = r_tail_bid (reader_of ts) -> r_tail_off r' = r_tail_off (reader_of ts) -> r_hydrated r' = true ->
  TInvP c nid (with_reader ts r') /\ stream (with_reader ts r') = stream ts /\ unread c (with_reader ts r') = unread c ts.
Proof.
  intros Hinv E1 E2 E3 E4 E5 E6. pose proof Hinv as [Hp Hu Hch Hw Hnd Hids Htl Hidx Hend Hcur Hst Htail Hhyd].
  split; [|split].
  - apply TInvP_reader; auto; rewrite ?E2, ?E3, ?E4, ?E5; auto.
  - now apply stream_with_reader.
  - rewrite unread_with_reader, E1, E2, E3, E4, E5. reflexivity.
Qed.

(* an exhausted sealed block is stepped over *)
Lemma adv_step c (Hh : 0 < c_hdr c) nid ts b :
  TInvP c nid ts -> r_hydrated (reader_of ts) = true ->
  nth_error (chain_of ts) (r_idx (reader_of ts)) = Some b -> b_used b <= r_off (reader_of ts) ->
  let r' := set_cur (reader_of ts) (S (r_idx (reader_of ts))) 0 in
  TInvP c nid (with_reader ts r') /\ stream (with_reader ts r') = stream ts /\ unread c (with_reader ts r') = unread c ts.
Proof.
  intros Hinv Hhy Hnth Hex. pose proof Hinv as [Hp Hu Hch Hw Hnd Hids Htl Hidx Hend Hcur Hst Htail Hhyd].
  set (r := reader_of ts) in *. cbn zeta.
  assert (Hlt : (r_idx r < length (chain_of ts))%nat) by (eapply nth_error_lt; eauto).
  destruct (skipn_nth_error _ _ _ Hnth) as (rest & Hsk).
  assert (Hbwf : bwf c b) by (eapply Forall_forall; [exact Hch|eapply nth_error_In; eauto]).
  destruct Hbwf as (Hbu & _).
  assert (Hnil : ents_from c (b_ents b) (r_off r) = []) by (apply ents_from_end; [exact Hh|lia]).
  split; [|split].
  - apply TInvP_reader; auto; cbn [set_cur r_chain r_idx r_off r_tail_bid r_tail_off r_hydrated]; auto;
      try (intros; apply okoff_0); try (intros Hl w Hw'; apply (Hst Hlt w Hw')).
  - now apply stream_with_reader.
  - rewrite unread_with_reader. cbn [set_cur r_chain r_idx r_off r_tail_bid r_tail_off].
    unfold unread. fold r. unfold chain_of in Hsk. fold r in Hsk. rewrite Hsk.
    rewrite (skipn_S_of _ _ _ _ Hsk) by idtac.
    rewrite Hnil. cbn [app].
    destruct rest as [|b1 r1].
    + unfold w_ents. destruct (ts_writer ts) as [w|] eqn:Ew; [|reflexivity].
      cbn [chain_ents flat_map app]. pose proof (Hst Hlt w eq_refl) as Hne. unfold tail_start. fold r.
      destruct (N.eqb_spec (r_tail_bid r) (b_id w)) as [Heq|_]; [contradiction|]. now rewrite ents_from_0.
    + cbn [chain_ents flat_map]. rewrite ents_from_0. unfold chain_ents. now rewrite app_assoc.
Qed.

Lemma should_persist_same m r f :
  let '(r', p) := should_persist m r f in
  r_chain r' = r_chain r /\ r_idx r' = r_idx r /\ r_off r' = r_off r /\ r_tail_bid r' = r_tail_bid r /\
  r_tail_off r' = r_tail_off r /\ r_hydrated r' = r_hydrated r.
Proof. apply should_persist_fields. Qed.

(* a consuming read of the next sealed entry *)
Lemma sealed_read_step c (Hh : 0 < c_hdr c) m nid ts b :
  TInvP c nid ts -> r_hydrated (reader_of ts) = true ->
  nth_error (chain_of ts) (r_idx (reader_of ts)) = Some b -> r_off (reader_of ts) < b_used b ->
  exists e rest,
    block_read c b (r_off (reader_of ts)) = Some (e, need c e) /\
    unread c ts = e :: rest /\
    let r4 := set_cur (reader_of ts) (r_idx (reader_of ts)) (r_off (reader_of ts) + need c e) in
    let r5 := fst (should_persist m r4 false) in
    TInvP c nid (with_reader ts r5) /\ stream (with_reader ts r5) = stream ts /\ unread c (with_reader ts r5) = rest /\
    r_hydrated r5 = true.
Proof.
  intros Hinv Hhy Hnth Hlt. pose proof Hinv as [Hp Hu Hch Hw Hnd Hids Htl Hidx Hend Hcur Hst Htail Hhyd].
  set (r := reader_of ts) in *.
  assert (Hil : (r_idx r < length (chain_of ts))%nat) by (eapply nth_error_lt; eauto).
  destruct (skipn_nth_error _ _ _ Hnth) as (rs & Hsk).
  assert (Hbwf : bwf c b) by (eapply Forall_forall; [exact Hch|eapply nth_error_In; eauto]).
  destruct Hbwf as (Hbu & _).
  pose proof (Hcur b Hnth) as Hok.
  assert (Hne : ents_from c (b_ents b) (r_off r) <> []) by (apply okoff_nonempty; [exact Hok|lia]).
  destruct (ents_from c (b_ents b) (r_off r)) as [|e re] eqn:Eef; [congruence|].
  exists e, (re ++ chain_ents rs ++ w_ents ts).
  split; [unfold block_read; now rewrite (ents_from_view c _ _ _ _ Eef)|].
  split.
  { unfold unread. fold r. unfold chain_of in Hsk. fold r in Hsk. rewrite Hsk, Eef. reflexivity. }
  cbn zeta.
  pose proof (should_persist_same m (set_cur r (r_idx r) (r_off r + need c e)) false) as Hsp.
  destruct (should_persist m _ false) as [r5 p]. cbn [fst]. cbn [set_cur r_chain r_idx r_off r_tail_bid r_tail_off r_hydrated] in Hsp.
  destruct Hsp as (F1 & F2 & F3 & F4 & F5 & F6).
  split; [|split; [|split]].
  - apply TInvP_reader; auto; rewrite ?F1, ?F2, ?F3, ?F4, ?F5, ?F6; auto.
    + intros Hx. lia.
    + intros b' Hb'. rewrite Hnth in Hb'. inversion Hb'; subst b'. eapply okoff_step; eauto.
  - apply stream_with_reader. now rewrite F1.
  - rewrite unread_with_reader, F1, F2, F3. unfold chain_of in Hsk. fold r in Hsk. rewrite Hsk.
    now rewrite (ents_from_step c Hh _ _ _ _ Eef).
  - now rewrite F6.
Qed.

(* a boundary of a tiling that lies inside a prefix of it is a boundary of the prefix *)
Lemma okoff_prefix c (Hh : 0 < c_hdr c) : forall a suf off,
  okoff c (a ++ suf) off -> off <= sum_need c a -> okoff c a off.
Proof.
  induction a as [|x a IH]; intros suf off Ho Hle.
  - cbn [sum_need] in Hle. assert (off = 0) by lia. subst. apply okoff_0.
  - unfold okoff in *. cbn [app ents_from sum_need] in *.
    destruct (off =? 0) eqn:E0; [cbn [sum_need]; lia|].
    destruct (off <? need c x) eqn:E1.
    + cbn [sum_need] in Ho. pose proof (need_pos c x Hh). lia.
    + assert (H1 : okoff c a (off - need c x)) by (apply (IH suf); [unfold okoff; lia|lia]).
      unfold okoff in H1. lia.
Qed.

(* a consuming read from a writer snapshot [a] that is still a prefix of the writer block *)
Lemma tail_read_step c (Hh : 0 < c_hdr c) m nid ts w a suf off :
  TInvP c nid ts -> r_hydrated (reader_of ts) = true ->
  r_idx (reader_of ts) = length (chain_of ts) ->
  ts_writer ts = Some w -> b_id a = b_id w -> b_ents w = b_ents a ++ suf -> b_used a = sum_need c (b_ents a) ->
  off = tail_start ts w -> off < b_used a ->
  exists e rest,
    block_read c a off = Some (e, need c e) /\
    unread c ts = e :: rest /\
    let r5 := set_tail (reader_of ts) (b_id a) (off + need c e) in
    let r6 := fst (should_persist m r5 false) in
    TInvP c nid (with_reader ts r6) /\ stream (with_reader ts r6) = stream ts /\ unread c (with_reader ts r6) = rest /\
    r_hydrated r6 = true /\ r_idx r6 = length (chain_of ts).
Proof.
  intros Hinv Hhy Hidl Hsome Hid Hpre Hau Hoff Hlt. pose proof Hinv as [Hp Hu Hch Hw Hnd Hids Htl Hidx Hend Hcur Hst Htail Hhyd].
  set (r := reader_of ts) in *.
  pose proof (Htail w Hsome) as Hokw. rewrite <- Hoff in Hokw.
  (* the offset is a boundary of the snapshot too *)
  assert (Hoka : okoff c (b_ents a) off).
  { rewrite Hpre in Hokw. apply (okoff_prefix c Hh _ suf); [exact Hokw|lia]. }
  assert (Hne : ents_from c (b_ents a) off <> []) by (apply okoff_nonempty; [exact Hoka|lia]).
  destruct (ents_from c (b_ents a) off) as [|e re] eqn:Eef; [congruence|].
  assert (Eefw : ents_from c (b_ents w) off = e :: re ++ suf).
  { rewrite Hpre, (ents_from_app c Hh (b_ents a) suf off) by exact Hoka. now rewrite Eef. }
  assert (Hwid : 0 < b_id w < nid).
  { eapply Forall_forall in Hids; [exact Hids|]. apply in_or_app. right. unfold w_list. rewrite Hsome. now left. }
  assert (Hskn : skipn (r_idx r) (r_chain r) = []) by (rewrite Hidl; apply skipn_all).
  exists e, (re ++ suf).
  split; [unfold block_read; now rewrite (ents_from_view c _ _ _ _ Eef)|].
  split.
  { unfold unread. fold r. rewrite Hskn, Hsome. fold (tail_start ts w). now rewrite <- Hoff. }
  cbn zeta.
  pose proof (should_persist_same m (set_tail r (b_id a) (off + need c e)) false) as Hsp.
  destruct (should_persist m _ false) as [r6 p]. cbn [fst]. cbn [set_tail r_chain r_idx r_off r_tail_bid r_tail_off r_hydrated] in Hsp.
  destruct Hsp as (F1 & F2 & F3 & F4 & F5 & F6).
  split; [|split; [|split; [|split]]].
  - apply TInvP_reader; auto; rewrite ?F1, ?F2, ?F3, ?F4, ?F5, ?F6; fold r; auto; try lia.
    intros w' Hw'. rewrite Hsome in Hw'. inversion Hw'; subst w'. rewrite Hid, N.eqb_refl. eapply okoff_step; eauto.
  - apply stream_with_reader. now rewrite F1.
  - rewrite unread_with_reader, F1, F2. fold r. rewrite Hskn, Hsome, F4, F5, Hid, N.eqb_refl.
    now rewrite (ents_from_step c Hh _ _ _ _ Eefw).
  - now rewrite F6.
  - now rewrite F2.
Qed.

(* the provisional tail position: only the index and the persist counter move *)
Lemma init_step c m nid ts bid :
  TInvP c nid ts -> r_hydrated (reader_of ts) = true ->
  let '(r', p) := should_persist m (reader_of ts) true in
  let ts' := with_reader ts r' in
  let ts1 := if p then persist ts' true bid 0 else ts' in
  TInvP c nid ts1 /\ stream ts1 = stream ts /\ unread c ts1 = unread c ts /\
  r_chain (reader_of ts1) = chain_of ts /\ r_idx (reader_of ts1) = r_idx (reader_of ts) /\
  r_off (reader_of ts1) = r_off (reader_of ts) /\ r_tail_bid (reader_of ts1) = r_tail_bid (reader_of ts) /\
  r_tail_off (reader_of ts1) = r_tail_off (reader_of ts) /\ r_hydrated (reader_of ts1) = true /\
  ts_writer ts1 = ts_writer ts.
Proof.
  intros Hinv Hhy.
  pose proof (should_persist_same m (reader_of ts) true) as Hsp.
  destruct (should_persist m (reader_of ts) true) as [r' p]. destruct Hsp as (F1 & F2 & F3 & F4 & F5 & F6).
  cbn zeta.
  destruct (same_reader_inv c nid ts r' Hinv F1 F2 F3 F4 F5 (eq_trans F6 Hhy)) as (I1 & I2 & I3).
  destruct p.
  - unfold persist. split; [apply TInvP_with_index; [exact I1|cbn; congruence]|].
    cbn [reader_of with_index with_reader ts_reader ts_writer]. repeat split; auto; congruence.
  - split; [exact I1|]. cbn [reader_of with_reader ts_reader ts_writer]. repeat split; auto; congruence.
Qed.

(* ================================================================== whole-state level *)
Definition simple_call (cl : call) : bool :=
  match cl with CAppend _ _ => true | CRead _ true => true | _ => false end.

Definition th_mid (t : N) (th : thread) : bool :=
  match th_todo th with
  | CAppend t' _ :: _ => match th_pc th with PA_seal_post => t_id t' =? t | _ => false end
  | _ => false
  end.
Definition th_holds (t : N) (th : thread) : bool :=
  match th_todo th with
  | CAppend t' _ :: _ => match th_pc th with PA_seal_pre _ | PA_seal_post => t_id t' =? t | _ => false end
  | _ => false
  end.
Definition mid (cs : cstate) (t : N) : bool := existsb (th_mid t) (cs_threads cs).
Definition rawts (cs : cstate) (t : N) : tstate := get_ts (sh_st (cs_sh cs)) t.
Definition eff (cs : cstate) (t : N) : tstate :=
  if mid cs t then with_writer (rawts cs t) None else rawts cs t.
Definition nid_of (cs : cstate) : N := a_next (s_alloc (sh_st (cs_sh cs))).

Definition hyd (ts : tstate) : Prop := r_hydrated (reader_of ts) = true.

Definition th_ok (c : Cfg) (cs : cstate) (th : thread) : Prop :=
  match th_todo th with
  | [] => th_pc th = PStart
  | CAppend t e :: _ =>
    match th_pc th with
    | PStart | PA_written => True
    | PA_flag | PA_seal_post => appendable c t (e_len e) = None
    | PA_seal_pre w => appendable c t (e_len e) = None /\ ts_writer (rawts cs (t_id t)) = Some w
    | _ => False
    end
  | CRead t ck :: _ =>
    ck = true /\
    match th_pc th with
    | PStart => True
    | PR_top | PR_t_snap _ _ | PR_t_wsnap _ _ _ | PR_t_init _ _ => hyd (rawts cs (t_id t))
    | PR_commit _ r _ | PR_idx r => hyd (rawts cs (t_id t)) /\ exists o, r = REntry o
    | _ => False
    end
  | _ => False
  end.

Definition snap_ok (c : Cfg) (ts : tstate) (a : blk) : Prop :=
  exists w suf, ts_writer ts = Some w /\ b_id a = b_id w /\ b_ents w = b_ents a ++ suf /\ b_used a = sum_need c (b_ents a).

Definition win_ok (c : Cfg) (cs : cstate) (th : thread) : Prop :=
  match th_todo th with
  | CRead t true :: _ =>
    let ts := rawts cs (t_id t) in
    let r := reader_of ts in
    match th_pc th with
    | PR_t_snap sb so => r_idx r = length (r_chain r) /\ sb = r_tail_bid r /\ so = r_tail_off r
    | PR_t_wsnap sb so a =>
      mid cs (t_id t) = false /\ r_idx r = length (r_chain r) /\ sb = r_tail_bid r /\ so = r_tail_off r /\ snap_ok c ts a
    | PR_t_init a off =>
      mid cs (t_id t) = false /\ r_idx r = length (r_chain r) /\ snap_ok c ts a /\
      off = (if r_tail_bid r =? b_id a then r_tail_off r else 0)
    | _ => True
    end
  | _ => True
  end.

Definition lock_ok (cs : cstate) : Prop :=
  forall t, match wl_holder (sh_wl (cs_sh cs)) t with
            | None => forall i th, nth_error (cs_threads cs) i = Some th -> th_holds t th = false
            | Some tid => forall i th, nth_error (cs_threads cs) i = Some th -> th_holds t th = true -> i = tid
            end.

(* what a thread has done so far: the calls of its program that have returned, with results *)
Definition res_ok (cl : call) (r : result) : Prop :=
  match cl, r with
  | CAppend _ _, ROk | CAppend _ _, RErr _ => True
  | CRead _ _, REntry _ | CRead _ _, RNone => True
  | _, _ => False
  end.
Definition hist_ok (prog : list call) (th : thread) : Prop :=
  exists done, prog = done ++ th_todo th /\ Forall2 res_ok done (rev (th_done th)).
Definition done_of (prog : list call) (th : thread) : list call :=
  firstn (length prog - length (th_todo th)) prog.

Fixpoint del_hist (t : N) (cls : list call) (rs : list result) : list out :=
  match cls, rs with
  | cl :: cls', r :: rs' =>
    match cl, r with
    | CRead t' true, REntry o => if t_id t' =? t then [o] else []
    | _, _ => []
    end ++ del_hist t cls' rs'
  | _, _ => []
  end.
Definition del_pending (t : N) (th : thread) : list out :=
  match th_todo th with
  | CRead t' true :: _ =>
    match th_pc th with
    | PR_commit _ (REntry o) _ | PR_idx (REntry o) => if t_id t' =? t then [o] else []
    | _ => []
    end
  | _ => []
  end.
Definition del_seq (t : N) (prog : list call) (th : thread) : list out :=
  del_hist t (done_of prog th) (rev (th_done th)) ++ del_pending t th.

Fixpoint wr_hist (t : N) (cls : list call) (rs : list result) : list entry :=
  match cls, rs with
  | cl :: cls', r :: rs' =>
    match cl, r with
    | CAppend t' e, ROk => if t_id t' =? t then [e] else []
    | _, _ => []
    end ++ wr_hist t cls' rs'
  | _, _ => []
  end.
Definition wr_pending (t : N) (th : thread) : list entry :=
  match th_todo th with
  | CAppend t' e :: _ => match th_pc th with PA_written => if t_id t' =? t then [e] else [] | _ => [] end
  | _ => []
  end.
Definition wr_seq (t : N) (prog : list call) (th : thread) : list entry :=
  wr_hist t (done_of prog th) (rev (th_done th)) ++ wr_pending t th.

Definition prog_pids (prog : list call) : list N :=
  flat_map (fun cl => match cl with CAppend _ e => [e_pid e] | CBatch _ es => map e_pid es | _ => [] end) prog.
Definition own (prog : list call) (e : entry) : bool := existsb (N.eqb (e_pid e)) (prog_pids prog).
Definition consumes (prog : list call) (t : N) : Prop :=
  exists t' ck, In (CRead t' ck) prog /\ t_id t' = t.

Record INV (c : Cfg) (progs : list (list call)) (cs : cstate) : Prop := {
  iv_next : 0 < nid_of cs;
  iv_ts : forall t, TInvP c (nid_of cs) (eff cs t);
  iv_bf : sh_bf (cs_sh cs) = [];
  iv_lock : lock_ok cs;
  iv_len : length (cs_threads cs) = length progs;
  iv_th : forall i th, nth_error (cs_threads cs) i = Some th ->
            th_ok c cs th /\ Forall (fun cl => simple_call cl = true) (th_todo th) /\ hist_ok (nth i progs []) th;
  iv_win : forall i th, nth_error (cs_threads cs) i = Some th -> win_ok c cs th;
  iv_del : forall t i th, nth_error (cs_threads cs) i = Some th -> consumes (nth i progs []) t ->
             del_seq t (nth i progs []) th ++ map out_of (unread c (eff cs t)) = map out_of (stream (eff cs t));
  iv_own : forall t i th, nth_error (cs_threads cs) i = Some th ->
             filter (own (nth i progs [])) (stream (eff cs t)) = wr_seq t (nth i progs []) th;
  iv_owned : forall t e, In e (stream (eff cs t)) -> exists i, (i < length progs)%nat /\ own (nth i progs []) e = true
}.

(* ------------------------------------------------------------------ structural helpers *)
Lemma existsb_set_nth {A} (f : A -> bool) (l : list A) n x y :
  nth_error l n = Some y -> f x = f y -> existsb f (c_set_nth l n x) = existsb f l.
Proof.
  revert n; induction l as [|a l IH]; intros n Hn Hf; [destruct n; discriminate|].
  destruct n; cbn in *.
  - inversion Hn; subst. now rewrite Hf.
  - now rewrite (IH n Hn Hf).
Qed.

Lemma existsb_false_nth {A} (f : A -> bool) (l : list A) : existsb f l = false -> forall i x, nth_error l i = Some x -> f x = false.
Proof.
  intros H i x Hn. apply nth_error_In in Hn.
  destruct (f x) eqn:E; [|reflexivity]. exfalso.
  assert (existsb f l = true) by (apply existsb_exists; eauto). congruence.
Qed.
Lemma existsb_nth_true {A} (f : A -> bool) (l : list A) i x : nth_error l i = Some x -> f x = true -> existsb f l = true.
Proof. intros Hn Hf. apply existsb_exists. exists x. split; [eapply nth_error_In; eauto|exact Hf]. Qed.

Lemma th_mid_holds t th : th_mid t th = true -> th_holds t th = true.
Proof. unfold th_mid, th_holds. destruct (th_todo th) as [|[| | |] ?]; try discriminate. destruct (th_pc th); auto; discriminate. Qed.

Lemma mid_false_free cs t : lock_ok cs -> wl_holder (sh_wl (cs_sh cs)) t = None -> mid cs t = false.
Proof.
  intros Hl Hn. specialize (Hl t). rewrite Hn in Hl. unfold mid.
  destruct (existsb (th_mid t) (cs_threads cs)) eqn:E; [|reflexivity].
  apply existsb_exists in E. destruct E as (th & Hin & Hm). apply In_nth_error in Hin. destruct Hin as (i & Hi).
  pose proof (th_mid_holds _ _ Hm). specialize (Hl i th Hi). congruence.
Qed.

(* ------------------------------------------------------------------ thread records, histories *)
Lemma Forall2_len {A B} (R : A -> B -> Prop) l1 l2 : Forall2 R l1 l2 -> length l1 = length l2.
Proof. induction 1; cbn; congruence. Qed.
Lemma done_of_eq prog th done : prog = done ++ th_todo th -> done_of prog th = done.
Proof.
  intros H. unfold done_of. rewrite H at 2. rewrite H, app_length.
  replace (length done + length (th_todo th) - length (th_todo th))%nat with (length done) by lia.
  now rewrite firstn_app, firstn_all, Nat.sub_diag, firstn_O, app_nil_r.
Qed.

Lemma del_hist_snoc t cls rs cl r : length cls = length rs ->
  del_hist t (cls ++ [cl]) (rs ++ [r]) = del_hist t cls rs ++ del_hist t [cl] [r].
Proof.
  revert rs; induction cls as [|x cls IH]; intros rs H; destruct rs as [|y rs]; try discriminate; [reflexivity|].
  cbn [app del_hist]. rewrite IH by (cbn in H; lia). now rewrite app_assoc.
Qed.
Lemma wr_hist_snoc t cls rs cl r : length cls = length rs ->
  wr_hist t (cls ++ [cl]) (rs ++ [r]) = wr_hist t cls rs ++ wr_hist t [cl] [r].
Proof.
  revert rs; induction cls as [|x cls IH]; intros rs H; destruct rs as [|y rs]; try discriminate; [reflexivity|].
  cbn [app wr_hist]. rewrite IH by (cbn in H; lia). now rewrite app_assoc.
Qed.

Lemma hist_len prog th done : prog = done ++ th_todo th -> Forall2 res_ok done (rev (th_done th)) ->
  length done = length (rev (th_done th)).
Proof. intros _ H. eapply Forall2_len; eauto. Qed.

(* a call in progress changes its pc: history untouched *)
Definition same_hist (th th' : thread) : Prop := th_todo th' = th_todo th /\ th_done th' = th_done th.

Lemma hist_ok_same prog th th' : same_hist th th' -> hist_ok prog th -> hist_ok prog th'.
Proof. intros (A & B) (d & H1 & H2). exists d. now rewrite A, B. Qed.

(* a call returns *)
Definition returned (th th' : thread) (cl : call) (r : result) : Prop :=
  exists rest, th_todo th = cl :: rest /\ th_todo th' = rest /\ th_pc th' = PStart /\ th_done th' = r :: th_done th.

Lemma hist_ok_ret prog th th' cl r : returned th th' cl r -> res_ok cl r -> hist_ok prog th -> hist_ok prog th'.
Proof.
  intros (rest & A & B & _ & D) Hr (d & H1 & H2). exists (d ++ [cl]). rewrite B, D. split.
  - rewrite H1, A, <- app_assoc. reflexivity.
  - cbn [rev]. apply Forall2_app; [exact H2|]. constructor; [exact Hr|constructor].
Qed.

Lemma del_seq_same t prog th th' : same_hist th th' -> del_pending t th' = del_pending t th ->
  del_seq t prog th' = del_seq t prog th.
Proof. intros (A & B) Hp. unfold del_seq, done_of. now rewrite A, B, Hp. Qed.
Lemma wr_seq_same t prog th th' : same_hist th th' -> wr_pending t th' = wr_pending t th ->
  wr_seq t prog th' = wr_seq t prog th.
Proof. intros (A & B) Hp. unfold wr_seq, done_of. now rewrite A, B, Hp. Qed.

Lemma del_seq_ret t prog th th' cl r : hist_ok prog th -> returned th th' cl r ->
  del_hist t [cl] [r] = del_pending t th ->
  del_seq t prog th' = del_seq t prog th.
Proof.
  intros (d & H1 & H2) (rest & A & B & C & D) Hp.
  assert (H1' : prog = (d ++ [cl]) ++ th_todo th') by (rewrite H1, A, B, <- app_assoc; reflexivity).
  unfold del_seq. rewrite (done_of_eq _ _ _ H1), (done_of_eq _ _ _ H1'), D. cbn [rev].
  rewrite del_hist_snoc by (eapply Forall2_len; eauto).
  unfold del_pending at 1. rewrite B.
  assert (Hn : match rest with
               | CRead t' true :: _ => match th_pc th' with PR_commit _ (REntry o) _ | PR_idx (REntry o) => if t_id t' =? t then [o] else [] | _ => [] end
               | _ => [] end = []).
  { rewrite C. destruct rest as [|[| | |] ?]; try reflexivity. destruct ck; reflexivity. }
  rewrite Hn, app_nil_r, Hp. reflexivity.
Qed.
Lemma wr_seq_ret t prog th th' cl r : hist_ok prog th -> returned th th' cl r ->
  wr_hist t [cl] [r] = wr_pending t th ->
  wr_seq t prog th' = wr_seq t prog th.
Proof.
  intros (d & H1 & H2) (rest & A & B & C & D) Hp.
  assert (H1' : prog = (d ++ [cl]) ++ th_todo th') by (rewrite H1, A, B, <- app_assoc; reflexivity).
  unfold wr_seq. rewrite (done_of_eq _ _ _ H1), (done_of_eq _ _ _ H1'), D. cbn [rev].
  rewrite wr_hist_snoc by (eapply Forall2_len; eauto).
  unfold wr_pending at 1. rewrite B.
  assert (Hn : match rest with
               | CAppend t' e :: _ => match th_pc th' with PA_written => if t_id t' =? t then [e] else [] | _ => [] end
               | _ => [] end = []).
  { rewrite C. destruct rest as [|[| | |] ?]; reflexivity. }
  rewrite Hn, app_nil_r, Hp. reflexivity.
Qed.

(* ------------------------------------------------------------------ locks *)
Lemma wl_holder_take sh t tid t' :
  wl_holder (sh_wl (wl_take sh t tid)) t' = if t =? t' then Some tid else wl_holder (sh_wl sh) t'.
Proof. unfold wl_holder, wl_take. cbn [sh_wl find fst snd]. destruct (t =? t'); reflexivity. Qed.
Lemma wl_holder_release sh t t' :
  wl_holder (sh_wl (wl_release sh t)) t' = if t =? t' then None else wl_holder (sh_wl sh) t'.
Proof.
  unfold wl_holder, wl_release. cbn [sh_wl]. induction (sh_wl sh) as [|[k v] l IH]; cbn [filter find fst snd].
  - now destruct (t =? t').
  - destruct (k =? t) eqn:E1; cbn [negb filter find fst snd].
    + destruct (t =? t') eqn:E2; [exact IH|]. replace (k =? t') with false by lia. exact IH.
    + destruct (k =? t') eqn:E3.
      * replace (t =? t') with false by lia. reflexivity.
      * exact IH.
Qed.

(* ------------------------------------------------------------------ frames *)
Definition head_topic (th : thread) : option N :=
  match th_todo th with cl :: _ => Some (t_id (call_topic cl)) | [] => None end.

Definition rd_same (ts ts' : tstate) : Prop :=
  r_idx (reader_of ts') = r_idx (reader_of ts) /\ r_chain (reader_of ts') = r_chain (reader_of ts) /\
  r_tail_bid (reader_of ts') = r_tail_bid (reader_of ts) /\ r_tail_off (reader_of ts') = r_tail_off (reader_of ts).

Lemma th_ok_frame c cs cs' th :
  th_ok c cs th ->
  (forall t, head_topic th = Some t -> hyd (rawts cs t) -> hyd (rawts cs' t)) ->
  (forall t w, head_topic th = Some t -> th_holds t th = true -> ts_writer (rawts cs t) = Some w -> ts_writer (rawts cs' t) = Some w) ->
  th_ok c cs' th.
Proof.
  unfold th_ok, head_topic, th_holds. intros H Hh Hw.
  destruct (th_todo th) as [|[t e|t es|t ck|t mb ck] rest]; auto.
  - destruct (th_pc th); auto. destruct H as (A & B). split; [exact A|].
    apply (Hw (t_id t) sealed eq_refl); [apply N.eqb_refl|exact B].
  - destruct H as (A & B). split; [exact A|]. destruct (th_pc th); auto; try (apply (Hh (t_id t) eq_refl B));
      (destruct B as (B1 & B2); split; [apply (Hh (t_id t) eq_refl B1)|exact B2]).
Qed.

Lemma win_ok_frame c cs cs' th :
  win_ok c cs th ->
  (forall t, head_topic th = Some t -> rd_same (rawts cs t) (rawts cs' t)) ->
  (forall t a, head_topic th = Some t -> mid cs t = false -> snap_ok c (rawts cs t) a -> snap_ok c (rawts cs' t) a) ->
  (forall t, head_topic th = Some t -> mid cs t = false -> mid cs' t = false) ->
  win_ok c cs' th.
Proof.
  unfold win_ok, head_topic. intros H Hr Hs Hm.
  destruct (th_todo th) as [|[t e|t es|t ck|t mb ck] rest]; auto. destruct ck; auto.
  destruct (Hr (t_id t) eq_refl) as (R1 & R2 & R3 & R4).
  destruct (th_pc th); auto; cbn zeta in *.
  - rewrite R1, R2, R3, R4. exact H.
  - destruct H as (A & B & C & D & E). rewrite R1, R2, R3, R4.
    split; [apply (Hm (t_id t) eq_refl A)|]. split; [exact B|]. split; [exact C|]. split; [exact D|apply (Hs (t_id t) a eq_refl A E)].
  - destruct H as (A & B & C & D). rewrite R1, R2, R3, R4.
    split; [apply (Hm (t_id t) eq_refl A)|]. split; [exact B|]. split; [apply (Hs (t_id t) a eq_refl A C)|exact D].
Qed.

Lemma rd_same_refl ts : rd_same ts ts. Proof. repeat split. Qed.

(* the state after a step of thread tid *)
Definition upd (cs : cstate) (sh' : shared) (tid : nat) (th' : thread) : cstate :=
  {| cs_sh := sh'; cs_threads := c_set_nth (cs_threads cs) tid th' |}.

Lemma upd_nth_same cs sh' tid th th' : nth_error (cs_threads cs) tid = Some th ->
  nth_error (cs_threads (upd cs sh' tid th')) tid = Some th'.
Proof. intros H. cbn. apply nth_error_set_nth_same. eapply nth_error_lt; eauto. Qed.
Lemma upd_nth_other cs sh' tid th' j : j <> tid ->
  nth_error (cs_threads (upd cs sh' tid th')) j = nth_error (cs_threads cs) j.
Proof. intros H. cbn. apply nth_error_set_nth_other. congruence. Qed.

Lemma mid_upd_same cs sh' tid th th' t : nth_error (cs_threads cs) tid = Some th ->
  th_mid t th' = th_mid t th -> mid (upd cs sh' tid th') t = mid cs t.
Proof. intros H E. unfold mid, upd. cbn. eapply existsb_set_nth; eauto. Qed.

Lemma mid_upd_others_false cs sh' tid th th' t : nth_error (cs_threads cs) tid = Some th ->
  (forall j thj, j <> tid -> nth_error (cs_threads cs) j = Some thj -> th_mid t thj = false) ->
  mid (upd cs sh' tid th') t = th_mid t th'.
Proof.
  intros H Ho. unfold mid.
  destruct (th_mid t th') eqn:E.
  - eapply existsb_nth_true; [eapply upd_nth_same; eauto|exact E].
  - destruct (existsb (th_mid t) (cs_threads (upd cs sh' tid th'))) eqn:E2; [|reflexivity].
    apply existsb_exists in E2. destruct E2 as (x & Hin & Hx). apply In_nth_error in Hin. destruct Hin as (j & Hj).
    destruct (Nat.eq_dec j tid) as [->|Hne].
    + rewrite (upd_nth_same _ _ _ _ _ H) in Hj. inversion Hj; subst. congruence.
    + rewrite upd_nth_other in Hj by exact Hne. rewrite (Ho j x Hne Hj) in Hx. discriminate.
Qed.

(* ------------------------------------------------------------------ one step, generically *)
Definition effect_ok (c : Cfg) (E E' : tstate) (da dd : list entry) : Prop :=
  stream E' = stream E ++ da /\ unread c E ++ da = dd ++ unread c E'.

Lemma INV_step c progs cs sh' tid th th' t0 da dd :
  INV c progs cs ->
  nth_error (cs_threads cs) tid = Some th ->
  head_topic th = Some t0 ->
  let cs' := upd cs sh' tid th' in
  sh_bf sh' = [] ->
  nid_of cs <= nid_of cs' ->
  (forall t, t <> t0 -> get_ts (sh_st sh') t = get_ts (sh_st (cs_sh cs)) t) ->
  (forall t, t <> t0 -> th_mid t th' = false) ->
  lock_ok cs' ->
  TInvP c (nid_of cs') (eff cs' t0) ->
  effect_ok c (eff cs t0) (eff cs' t0) da dd ->
  (th_ok c cs' th' /\ Forall (fun cl => simple_call cl = true) (th_todo th') /\ hist_ok (nth tid progs []) th') ->
  (forall j thj, j <> tid -> nth_error (cs_threads cs) j = Some thj -> th_ok c cs' thj) ->
  win_ok c cs' th' ->
  (forall j thj, j <> tid -> nth_error (cs_threads cs) j = Some thj -> win_ok c cs' thj) ->
  (forall i thi, nth_error (cs_threads cs') i = Some thi -> consumes (nth i progs []) t0 ->
     forall tho, nth_error (cs_threads cs) i = Some tho ->
     del_seq t0 (nth i progs []) thi = del_seq t0 (nth i progs []) tho ++ map out_of dd) ->
  (forall i thi tho, nth_error (cs_threads cs') i = Some thi -> nth_error (cs_threads cs) i = Some tho ->
     wr_seq t0 (nth i progs []) thi = wr_seq t0 (nth i progs []) tho ++ filter (own (nth i progs [])) da) ->
  (forall e, In e da -> exists i, (i < length progs)%nat /\ own (nth i progs []) e = true) ->
  (forall t, t <> t0 -> del_seq t (nth tid progs []) th' = del_seq t (nth tid progs []) th /\
                        wr_seq t (nth tid progs []) th' = wr_seq t (nth tid progs []) th) ->
  INV c progs cs'.
Proof.
  intros Hinv Hth Hhead cs' Hbf Hnid Hoth Hmid' Hlock Hts0 Heff Hth' Hothok Hwin' Hothwin Hdel Hown Howned Hother.
  pose proof Hinv as [Inext Its Ibf Ilock Ilen Ith Iwin Idel Iown Iowned].
  assert (Hmid_th : forall t, t <> t0 -> th_mid t th = false).
  { intros t Hne. unfold th_mid. unfold head_topic in Hhead. destruct (th_todo th) as [|cl rest]; [reflexivity|].
    inversion Hhead; subst t0. destruct cl as [tt ee|tt es|tt ck|tt mb ck]; try reflexivity. cbn [call_topic] in Hne. destruct (th_pc th); try reflexivity.
    destruct (N.eqb_spec (t_id tt) t); [congruence|reflexivity]. }
  assert (Heff_o : forall t, t <> t0 -> eff cs' t = eff cs t).
  { intros t Hne. unfold eff, rawts. unfold cs'.
    rewrite (mid_upd_same cs sh' tid th th' t Hth) by (rewrite Hmid' by exact Hne; now rewrite Hmid_th).
    cbn [upd cs_sh]. now rewrite (Hoth t Hne). }
  assert (Hnth' : forall i thi, nth_error (cs_threads cs') i = Some thi ->
            (i = tid /\ thi = th') \/ (i <> tid /\ nth_error (cs_threads cs) i = Some thi)).
  { intros i thi Hi. destruct (Nat.eq_dec i tid) as [->|Hne].
    - left. unfold cs' in Hi. rewrite (upd_nth_same _ _ _ _ _ Hth) in Hi. inversion Hi. auto.
    - right. split; [exact Hne|]. unfold cs' in Hi. now rewrite upd_nth_other in Hi by exact Hne. }
  constructor.
  - lia.
  - intros t. destruct (N.eq_dec t t0) as [->|Hne]; [exact Hts0|]. rewrite (Heff_o t Hne). eapply TInvP_mono; [exact Hnid|apply Its].
  - exact Hbf.
  - exact Hlock.
  - unfold cs'. cbn. now rewrite length_set_nth.
  - intros i thi Hi. destruct (Hnth' i thi Hi) as [(-> & ->)|(Hne & Hio)]; [exact Hth'|].
    destruct (Ith i thi Hio) as (A & B & C). split; [apply (Hothok i thi Hne Hio)|]. split; [exact B|exact C].
  - intros i thi Hi. destruct (Hnth' i thi Hi) as [(-> & ->)|(Hne & Hio)]; [exact Hwin'|apply (Hothwin i thi Hne Hio)].
  - intros t i thi Hi Hcons. destruct (N.eq_dec t t0) as [->|Hne].
    + destruct Heff as (E1 & E2).
      assert (Hio : exists tho, nth_error (cs_threads cs) i = Some tho).
      { destruct (Hnth' i thi Hi) as [(-> & _)|(_ & Hio)]; eauto. }
      destruct Hio as (tho & Hio).
      rewrite (Hdel i thi Hi Hcons tho Hio), E1, map_app, <- (Idel t0 i tho Hio Hcons).
      rewrite <- !app_assoc. f_equal. rewrite <- !map_app. now rewrite E2.
    + rewrite (Heff_o t Hne). destruct (Hnth' i thi Hi) as [(-> & ->)|(Hne2 & Hio)].
      * destruct (Hother t Hne) as (A & _). rewrite A. apply (Idel t tid th Hth Hcons).
      * apply (Idel t i thi Hio Hcons).
  - intros t i thi Hi. destruct (N.eq_dec t t0) as [->|Hne].
    + destruct Heff as (E1 & E2).
      assert (Hio : exists tho, nth_error (cs_threads cs) i = Some tho).
      { destruct (Hnth' i thi Hi) as [(-> & _)|(_ & Hio)]; eauto. }
      destruct Hio as (tho & Hio).
      rewrite (Hown i thi tho Hi Hio), E1, filter_app, (Iown t0 i tho Hio). reflexivity.
    + rewrite (Heff_o t Hne). destruct (Hnth' i thi Hi) as [(-> & ->)|(Hne2 & Hio)].
      * destruct (Hother t Hne) as (_ & B). rewrite B. apply (Iown t tid th Hth).
      * apply (Iown t i thi Hio).
  - intros t e Hin. destruct (N.eq_dec t t0) as [->|Hne].
    + destruct Heff as (E1 & _). rewrite E1 in Hin. apply in_app_or in Hin. destruct Hin as [Hin|Hin]; [apply (Iowned t0 e Hin)|apply (Howned e Hin)].
    + rewrite (Heff_o t Hne) in Hin. apply (Iowned t e Hin).
Qed.
