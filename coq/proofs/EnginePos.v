(* EnginePos.v — shared vocabulary for the restart theorems (C06/C09): the non-empty blocks of a
   topic in the order a restart rebuilds them ([memne]), the entries behind a position in such
   a block list ([from]), how a persisted position resolves in it ([res]), positions that name a
   block a restart would not rebuild ([stale_p], [stale_tail]), how the block list grows under
   appends ([MG]) and what "the persisted position IS the reader's cursor" means ([PosIs]). *)
From W Require Import model.Base model.Engine proofs.EngineWF proofs.EngineInv proofs.EngineW.
From Coq Require Import ZArith ZifyBool ZifyN ZifyNat.

Definition nonempty_b (b : blk) : bool := match b_ents b with [] => false | _ => true end.

(* the topic's blocks that hold entries, oldest first: what a restart rebuilds as the chain *)
Definition memne (ts : tstate) : list blk := filter nonempty_b (chain_of ts ++ w_list ts).

(* entries behind position (block j, in-block offset o) of a block list *)
Definition from (c : Cfg) (bl : list blk) (j : nat) (o : N) : list entry :=
  match skipn j bl with
  | b :: r => ents_from c (b_ents b) o ++ chain_ents r
  | [] => []
  end.

(* the block a persisted position names (for a tail position: found by id) and the offset in it *)
Definition res (bl : list blk) (p : ppos) : nat * N :=
  let j := if p_tail p then match find_id bl (p_a p) 0 with Some j => j | None => 0%nat end
           else clamp_idx (p_a p) (length bl) in
  (j, match used_at bl j with Some u => N.min (p_off p) u | None => 0 end).

(* a tail position whose block is not among the blocks a restart rebuilds *)
Definition stale_p (bl : list blk) (p : ppos) : bool :=
  p_tail p && negb (existsb (fun b => b_id b =? p_a p) bl).

Definition stale_tail (s : st) : bool :=
  existsb (fun q : N * tstate =>
    match ts_index (snd q) with Some p => stale_p (memne (snd q)) p | None => false end) (s_topics s).

(* growth of a block list by appended entries [es]: blocks keep their place and id, only the
   last one may receive entries, new blocks come behind *)
Definition MG (M M' : list blk) (es : list entry) : Prop :=
  (length M <= length M')%nat /\
  (forall j b, nth_error M j = Some b ->
     exists b' e1, nth_error M' j = Some b' /\ b_id b' = b_id b /\ b_ents b' = b_ents b ++ e1 /\
                   ((S j < length M)%nat -> e1 = [])) /\
  chain_ents M' = chain_ents M ++ es.

(* how a topic state grows under an append / a batch *)
Definition Grow (ts ts' : tstate) : Prop :=
  (exists q, chain_of ts' = chain_of ts ++ q /\ Forall (fun b => b_ents b <> []) q) /\
  exists es, stream ts' = stream ts ++ es /\ MG (memne ts) (memne ts') es.

(* the persisted position [p] is exactly the cursor of the (hydrated) reader of [ts]; a tail
   position is only ever persisted for a writer block that holds entries (since the fix of the
   provisional persist on an empty block) *)
Definition PosIs (ts : tstate) (p : ppos) : Prop :=
  if p_tail p
  then exists w, ts_writer ts = Some w /\ p_a p = b_id w /\
                 r_idx (reader_of ts) = length (chain_of ts) /\ p_off p = tail_start ts w /\ b_ents w <> []
  else p_a p = N.of_nat (r_idx (reader_of ts)) /\ (r_idx (reader_of ts) < length (chain_of ts))%nat /\
       p_off p = r_off (reader_of ts).

(* every sealed block of the chain holds entries (blocks sealed empty are retired) *)
Definition CNE (ts : tstate) : Prop := Forall (fun b => b_ents b <> []) (chain_of ts).

(* ------------------------------------------------------------------ basic facts *)
Lemma nonempty_b_true b : nonempty_b b = true <-> b_ents b <> [].
Proof. unfold nonempty_b. destruct (b_ents b); split; intros; congruence. Qed.

Lemma filter_all {A} (p : A -> bool) l : Forall (fun x => p x = true) l -> filter p l = l.
Proof. induction 1 as [|x l Hx _ IH]; cbn; [reflexivity|]. now rewrite Hx, IH. Qed.

Lemma memne_cne ts : CNE ts -> memne ts = chain_of ts ++ filter nonempty_b (w_list ts).
Proof.
  intros H. unfold memne. rewrite filter_app. f_equal. apply filter_all.
  eapply Forall_impl; [|exact H]. intros b Hb. now apply nonempty_b_true.
Qed.

Lemma chain_ents_filter l : chain_ents (filter nonempty_b l) = chain_ents l.
Proof.
  induction l as [|b l IH]; cbn [filter]; [reflexivity|]. unfold nonempty_b at 1.
  destruct (b_ents b) eqn:E; unfold chain_ents in *; cbn [flat_map]; rewrite ?E, IH; reflexivity.
Qed.

Lemma chain_ents_memne ts : chain_ents (memne ts) = stream ts.
Proof.
  unfold memne, stream. rewrite chain_ents_filter, chain_ents_app. f_equal.
  unfold w_list, w_ents. destruct (ts_writer ts); cbn; [now rewrite app_nil_r|reflexivity].
Qed.

Lemma MG_refl M : MG M M [].
Proof.
  split; [lia|]. split; [|now rewrite app_nil_r].
  intros j b H. exists b, []. rewrite app_nil_r. auto.
Qed.

Lemma MG_trans M1 M2 M3 es1 es2 : MG M1 M2 es1 -> MG M2 M3 es2 -> MG M1 M3 (es1 ++ es2).
Proof.
  intros (L1 & P1 & C1) (L2 & P2 & C2). split; [lia|]. split; [|now rewrite C2, C1, app_assoc].
  intros j b Hj. destruct (P1 j b Hj) as (b2 & e1 & H2 & I2 & E2 & Z2).
  destruct (P2 j b2 H2) as (b3 & e2 & H3 & I3 & E3 & Z3).
  exists b3, (e1 ++ e2). split; [exact H3|]. split; [congruence|]. split; [now rewrite E3, E2, app_assoc|].
  intros Hl. rewrite (Z2 Hl), (Z3 ltac:(lia)). reflexivity.
Qed.
