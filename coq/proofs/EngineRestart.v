(* EngineRestart.v — the invariant that holds along histories WITH restarts (StrictlyAtOnce):
   every topic state, once its pending hydration is carried out (either flavour), satisfies the
   per-topic invariant TInv, the position invariant P3 and agrees with the ledger of the queue
   specification; plus the disk invariants.  Preserved by every admissible operation. *)
From W Require Import model.Base model.Engine spec.Queue proofs.EngineBasic proofs.EngineWF proofs.EngineInv proofs.EngineBR proofs.EngineW
  proofs.EngineMain proofs.EngineRec proofs.EngineDisk proofs.EnginePos proofs.EngineGrow proofs.EngineP3 proofs.EngineIdx proofs.EngineBlk
  proofs.EngineNorm proofs.EngineNormW proofs.EngineRaw.
From Coq Require Import ZArith ZifyBool ZifyN ZifyNat.

(* an un-hydrated reader's persisted position resolves inside its sealed chain *)
Definition SC (ts : tstate) : Prop :=
  r_hydrated (reader_of ts) = false -> forall p, ts_index ts = Some p ->
    r_tail_bid (reader_of ts) = 0 /\
    (if p_tail p then exists j, find_id (chain_of ts) (p_a p) 0 = Some j
     else p_a p < N.of_nat (length (chain_of ts))).

Definition TG (c : Cfg) (nid : N) (ts : tstate) (l : ledger) (B Bb : N) : Prop :=
  SC ts /\ forall x,
    TInv c nid (nrm x ts) /\ P3 c nid (nrm x ts) /\
    (l_del l <= length (l_app l))%nat /\ stream (nrm x ts) = l_app l /\
    unread c (nrm x ts) = skipn (l_del l) (l_app l) /\
    N.of_nat (length (l_app l)) <= B /\ sum_len (l_app l) <= Bb.

Definition G (c : Cfg) (s : st) (g : lg) (B Bb : N) : Prop :=
  0 < a_next (s_alloc s) /\ DIs c s /\ BIs c s /\ DLim c s /\
  forall t, TG c (a_next (s_alloc s)) (get_ts s t) (lget g t) B Bb.

Lemma G_Rel x c s g B Bb : G c s g B Bb -> Rel c (Nst x s) g B Bb.
Proof.
  intros (Hn & _ & _ & _ & Hall). split.
  - split; [exact Hn|]. intros t. rewrite get_Nst. exact (proj1 (proj2 (Hall t) x)).
  - intros t. rewrite get_Nst. destruct (proj2 (Hall t) x) as (_ & _ & A & B0 & C & D & E). auto.
Qed.

Lemma G_init c : 0 < c_block c -> G c init [] 0 0.
Proof.
  intros Hb. split; [cbn; lia|]. split; [now apply DIs_init|]. split; [apply BIs_init|]. split; [apply DLim_init|].
  intros t. change (get_ts init t) with tstate0. split; [intros _ p Hp; discriminate|].
  intros x. rewrite nrm_tstate0. split; [apply TInv0; cbn; lia|]. split; [apply P3_tstate0|].
  cbn. repeat split; lia.
Qed.

Lemma SC_hydrated ts : r_hydrated (reader_of ts) = true -> SC ts.
Proof. intros H Hf. congruence. Qed.

(* the commutation condition of EngineNormW, from the invariant *)
Lemma SC_CS c nid ts : SC ts -> TInv c nid (nrm false ts) -> 0 < nid ->
  forall bid, (forall w, ts_writer ts = Some w -> bid = b_id w) -> (ts_writer ts = None -> bid = nid) -> CS ts bid nid.
Proof.
  intros Hsc Hinv Hn bid Hw1 Hw0 Hh p Hp. destruct (Hsc Hh p Hp) as (Ht & Hres).
  pose proof (ti_ids _ _ _ Hinv) as Hids. pose proof (ti_nodup _ _ _ Hinv) as Hnd.
  rewrite nrm_chain, nrm_w_list in Hids, Hnd.
  assert (Hb : 0 < bid /\ (forall b, In b (chain_of ts) -> b_id b <> bid)).
  { unfold w_list in Hids, Hnd. destruct (ts_writer ts) as [w|] eqn:Ew.
    - rewrite (Hw1 w eq_refl). split.
      + eapply Forall_forall in Hids; [|apply in_or_app; right; left; reflexivity]. lia.
      + intros b Hin Heq. rewrite map_app in Hnd. cbn [map] in Hnd. apply NoDup_remove_2 in Hnd. apply Hnd.
        rewrite app_nil_r, <- Heq. now apply in_map.
    - rewrite (Hw0 eq_refl). split; [exact Hn|]. intros b Hin. eapply Forall_forall in Hids; [|apply in_or_app; left; exact Hin]. lia. }
  destruct Hb as (Hb1 & Hb2). split; [exact Ht|]. split; [exact Hb1|].
  destruct (p_tail p); [|exact Hres]. destruct Hres as (j & Hj). split; [exists j; exact Hj|].
  destruct (find_id_nth _ _ _ _ Hj) as (b & Hnb & Hid). apply nth_error_In in Hnb.
  split.
  - eapply Forall_forall in Hids; [|apply in_or_app; left; exact Hnb]. lia.
  - intros Heq. apply (Hb2 b Hnb). congruence.
Qed.

Lemma TG_CS c nid ts l B Bb : TG c nid ts l B Bb -> 0 < nid ->
  forall bid, (forall w, ts_writer ts = Some w -> bid = b_id w) -> (ts_writer ts = None -> bid = nid) -> CS ts bid nid.
Proof. intros (Hsc & Hall) Hn. apply (SC_CS c nid ts Hsc (proj1 (Hall false)) Hn). Qed.

(* ------------------------------------------------------------------ allocation ids only grow *)
Lemma ensure_next_mono c s t : a_next (s_alloc s) <= a_next (s_alloc (fst (ensure_writer c s t))).
Proof. exact (proj1 (proj2 (proj2 (proj2 (ensure_writer_keep c s t))))). Qed.

Lemma append_next_mono c s t e : a_next (s_alloc s) <= a_next (s_alloc (fst (append c s t e))).
Proof.
  unfold append. pose proof (ensure_next_mono c s t) as He. destruct (ensure_writer c s t) as [s1 w]. cbn [fst] in He.
  destruct (appendable c t (e_len e)); [exact He|].
  destruct (ts_poisoned (get_ts s1 (t_id t))); [exact He|].
  destruct (b_limit w <? b_used w + need c e).
  - destruct (alloc_sized c _ (need c e)) as [[s1'' nb]|] eqn:Ea.
    + destruct (alloc_sized_facts _ _ _ _ _ Ea) as (_ & Hnx & _). cbn [set_ts s_alloc] in Hnx.
      destruct (negb (name_ok c t)); cbn [fst set_ts st_disk_write s_alloc]; lia.
    + cbn [fst set_ts s_alloc]. exact He.
  - destruct (negb (name_ok c t)); cbn [fst set_ts st_disk_write s_alloc]; exact He.
Qed.

Lemma batch_plan_next_mono c t : forall es s cur rot,
  a_next (s_alloc s) <= a_next (s_alloc (fst (fst (fst (batch_plan c s t cur rot es))))).
Proof.
  induction es as [|e r IH]; intros s cur rot; cbn [batch_plan]; [cbn; lia|].
  destruct (need c e <=? b_limit cur - b_used cur).
  - exact (IH (st_disk_write s cur t [e]) _ _).
  - destruct (alloc_sized c _ _) as [[s'' nb]|] eqn:Ea.
    + destruct (alloc_sized_facts _ _ _ _ _ Ea) as (_ & Hnx & _). cbn [set_ts s_alloc] in Hnx.
      pose proof (IH (st_disk_write s'' nb t [e]) (blk_add nb c [e]) true) as H. cbn [st_disk_write s_alloc] in H. lia.
    + cbn [fst set_ts s_alloc]. lia.
Qed.

Lemma batch_next_mono c be s t es : a_next (s_alloc s) <= a_next (s_alloc (fst (batch c be s t es))).
Proof.
  unfold batch. pose proof (ensure_next_mono c s t) as He. destruct (ensure_writer c s t) as [s1 w]. cbn [fst] in He.
  destruct (c_max_entries c <? N.of_nat (length es)); [exact He|].
  destruct (c_max_bytes c <? sum_need c es); [exact He|].
  destruct (appendable c t (max_len es)); [exact He|].
  destruct es as [|e0 es0]; [exact He|].
  destruct (ts_poisoned (get_ts s1 (t_id t))); [exact He|].
  pose proof (batch_plan_next_mono c t (e0 :: es0) s1 w false) as Hp.
  destruct (batch_plan c s1 t w false (e0 :: es0)) as [[[s2 wfin] okp] rot]. cbn [fst] in Hp.
  destruct (negb okp); [cbn [fst mark_unmodelled set_ts s_alloc]; lia|].
  destruct (negb (name_ok c t)).
  - destruct be; destruct rot; cbn [fst mark_unmodelled set_ts s_alloc]; lia.
  - cbn [fst set_ts s_alloc]. lia.
Qed.

(* ------------------------------------------------------------------ the write side *)
(* shared by append and batch: from the two normalised runs to the invariant of the raw run *)
Lemma G_write c s s' g g' B Bb B' Bb' t :
  cfg_ok c -> G c s g B Bb ->
  (forall x, Rel c (Nst x s') g' B' Bb') ->
  (forall x, P3 c (a_next (s_alloc s')) (nrm x (get_ts s' (t_id t)))) ->
  keep (get_ts s (t_id t)) (get_ts s' (t_id t)) ->
  (exists q, chain_of (get_ts s' (t_id t)) = chain_of (get_ts s (t_id t)) ++ q) ->
  (forall t', t' <> t_id t -> get_ts s' t' = get_ts s t') ->
  a_next (s_alloc s) <= a_next (s_alloc s') ->
  DIs c s' -> BIs c s' -> DLim c s' ->
  G c s' g' B' Bb'.
Proof.
  intros Hc (Hn & _ & _ & _ & Hall) Hrel Hp3 (K1 & K2 & K3 & _) (q & Hq) Hoth Hmono Hd Hb Hl.
  split; [lia|]. split; [exact Hd|]. split; [exact Hb|]. split; [exact Hl|].
  intros t0. split.
  - (* SC *)
    destruct (N.eq_dec t0 (t_id t)) as [->|Hne]; [|rewrite (Hoth t0 Hne); exact (proj1 (Hall t0))].
    intros Hh p Hp. rewrite K1 in Hh. rewrite K3 in Hp.
    destruct (proj1 (Hall (t_id t)) Hh p Hp) as (A & R). rewrite K2. split; [exact A|].
    rewrite Hq. destruct (p_tail p).
    + destruct R as (j & Hj). exists j. now apply find_id_app_some.
    + rewrite app_length. lia.
  - intros x. destruct (Hrel x) as ((_ & Hti) & Hled).
    specialize (Hti t0). specialize (Hled t0). rewrite get_Nst in Hti, Hled. cbn [Nst s_alloc] in Hti.
    split; [exact Hti|]. split.
    + destruct (N.eq_dec t0 (t_id t)) as [->|Hne]; [apply Hp3|].
      rewrite (Hoth t0 Hne). eapply P3_mono; [exact Hmono|]. exact (proj1 (proj2 (proj2 (Hall t0) x))).
    + destruct Hled as (A & B0 & C0 & D & E). auto.
Qed.

(* ------------------------------------------------------------------ no stale position (since the fix of the provisional persist) *)
(* every persisted position is a GOOD one: it names a block that holds entries *)
Definition PG (c : Cfg) (s : st) : Prop :=
  forall t x p, ts_index (get_ts s t) = Some p -> PGood c (nrm x (get_ts s t)) p.

Lemma PG_init c : PG c init.
Proof. intros t x p H. discriminate. Qed.

Lemma PGood_nonstale c T p : PGood c T p -> stale_p (memne T) p = false.
Proof.
  intros (j & b & Hb & Hpos & _). unfold stale_p. destruct (p_tail p); [|reflexivity]. cbn [andb].
  apply negb_false_iff, existsb_exists. exists b. split; [eapply nth_error_In; eauto|lia].
Qed.

Lemma PG_nonstale c s : PG c s -> forall t p, ts_index (get_ts s t) = Some p -> stale_p (memne (get_ts s t)) p = false.
Proof. intros H t p Hp. rewrite <- (nrm_memne false). eapply PGood_nonstale. now apply H. Qed.

Lemma PGood_ext c T T' p : chain_of T' = chain_of T -> ts_writer T' = ts_writer T -> unread c T' = unread c T ->
  PGood c T p -> PGood c T' p.
Proof.
  intros Hc Hw Hu (j & b & A1 & A2 & A3 & A4).
  assert (Hwl : w_list T' = w_list T) by (unfold w_list; now rewrite Hw).
  assert (Hm : memne T' = memne T) by (unfold memne; now rewrite Hc, Hwl).
  exists j, b. rewrite Hm, Hc, Hu. auto.
Qed.

Lemma ledger_step_write_del g o r t : (match o with OAppend _ _ | OBatch _ _ => True | _ => False end) ->
  l_del (lget (ledger_step g o r) t) = l_del (lget g t).
Proof.
  intros Ho. destruct o as [t0 e|t0 es| | | |]; try contradiction; destruct r; cbn [ledger_step]; try reflexivity;
    (destruct (N.eq_dec t (t_id t0)) as [->|Hne]; [now rewrite lget_lset_same|now rewrite lget_lset_other by exact Hne]).
Qed.

(* the write side keeps positions good: the topic grows behind them *)
Lemma PG_write c s s' g g' B Bb B' Bb' t :
  cfg_ok c -> G c s g B Bb -> G c s' g' B' Bb' -> PG c s ->
  (forall x, Grow (nrm x (get_ts s (t_id t))) (nrm x (get_ts s' (t_id t)))) ->
  keep (get_ts s (t_id t)) (get_ts s' (t_id t)) ->
  (forall t', t' <> t_id t -> get_ts s' t' = get_ts s t') ->
  l_del (lget g' (t_id t)) = l_del (lget g (t_id t)) ->
  PG c s'.
Proof.
  intros Hc (_ & _ & _ & _ & Hall) (_ & _ & _ & _ & Hall') Hpg Hgrow (_ & _ & K3 & _) Hoth Hdel t0 x p Hp.
  pose proof Hc as (Hh & _).
  destruct (N.eq_dec t0 (t_id t)) as [->|Hne]; [|rewrite (Hoth t0 Hne) in *; now apply Hpg].
  rewrite K3 in Hp. specialize (Hpg (t_id t) x p Hp).
  destruct (proj2 (Hall (t_id t)) x) as (_ & _ & Hdl & Hs & Hu & _).
  destruct (proj2 (Hall' (t_id t)) x) as (_ & _ & Hdl' & Hs' & Hu' & _).
  pose proof (Hgrow x) as Hg. pose proof Hg as (_ & (es & Hes & _)).
  eapply PGood_grow; [exact Hh|exact Hg|exact Hes| |exact Hpg].
  rewrite Hu', Hu, Hdel, <- Hs', Hes, Hs. now rewrite skipn_app_le by exact Hdl.
Qed.
